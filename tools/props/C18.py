"""C18 - unit and time conversions.

Part A (scale/unit algebra): Model/Units.v executed at exact rationals (extracted
driver) against dinosaur.scales.Scale, with pint as the oracle for the per-unit
conversion factors (table obligation: pint is multiplicative on the compound
units used).
Part B (binary64 time conversions): Model/Time64.v is written with Coq's
primitive floats; the plugin generates a cases file evaluated by
`coqc` + `Eval vm_compute` and compares bit-exactly (float.hex) with
PrimitiveEquationsSpecs.*timedelta64 and the xarray_utils datetime helpers.
Part C (phases): Model/Units.v `phase_at` / calendar phases at exact rationals
against radiation.SolarRadiation.time_to_orbital_time / datetime_to_orbital_time.
"""
import datetime, math, os, re, shutil, subprocess, tempfile
from fractions import Fraction
import numpy as np
from harness import util, core

THEOREMS = ['C18_dim_nondim_inverse', 'C18_dim_nondim_same', 'C18_nondim_unit_independent',
            'C18_nondim_mul', 'C18_nondim_div', 'C18_nondim_pow', 'C18_nondim_defined_iff_scales_present',
            'C18_rate_times_period', 'C18_units_R',
            'C18_time_roundtrips', 'C18_old_code_refuted', 'C18_snap_ms_R',
            'C18_phase_reduced', 'C18_phase_unique', 'C18_phase_advance', 'C18_phase_period',
            'C18_hyps_satisfiable']
LEVEL = 'proof'
LEVEL_TEXT = ('machine-checked theorems (Coq): unit algebra for every field, every number of dimensions/units and all '
              'non-zero scales (inverse, unit independence, products, quotients, integer powers, ValueError branch); '
              'binary64 round trips proved on a bit-exact primitive-float model through Flocq (whole seconds |s| < 2^40 and '
              'minutes |M| < 2^40, every finite time scale T in [2^-100, 2^100]); phase reduction over the reals; '
              'models tied to the code by exact-rational and bit-exact (float.hex) differential correspondence')
LEVEL_NOTE = ('theorems are about the Gallina models Model/Units.v and Model/Time64.v; pint enters as a table of per-unit '
              'factors and dimensions (multiplicativity re-checked each run); the float operation sequence of pint/numpy was '
              'measured and is re-checked bit-exactly each run; offset units (degC) and fractional exponents are not modelled')
TECHNIQUE = 'Coq proof (generic field + Flocq binary64) + extraction + vm_compute on primitive floats + differential testing'

DIMS = ['[length]', '[time]', '[mass]', '[temperature]', '[current]']
POOL = ['meter', 'kilometer', 'second', 'minute', 'hour', 'day', 'year', 'kilogram', 'gram', 'kelvin',
        'pascal', 'hectopascal', 'millibar', 'joule', 'newton', 'watt', 'ampere']
# groups of mutually compatible units (same dimension)
COMPAT = [['meter', 'kilometer'], ['second', 'minute', 'hour', 'day', 'year'], ['kilogram', 'gram'],
          ['pascal', 'hectopascal', 'millibar'], ['kelvin'], ['joule'], ['newton'], ['watt'], ['ampere']]

_mods = None
def J():
    global _mods
    if _mods is None:
        util.setup_jax()
        from dinosaur import scales, primitive_equations as pe, xarray_utils as xu, radiation
        _mods = (scales, pe, xu, radiation)
    return _mods


# ---------------------------------------------------------------------------
# generation
# ---------------------------------------------------------------------------
SCALES = {
    'default': None, 'atmospheric': None,
    'km_hour_gram_2K': [[1.0, {'kilometer': 1}], [1.0, {'hour': 1}], [1.0, {'gram': 1}], [2.0, {'kelvin': 1}]],
    'no_mass': [[6.37122e6, {'meter': 1}], [6856.829402084476, {'second': 1}], [1.0, {'kelvin': 1}]],
}
TIME_SCALES = {'default': 'default',
               'hour': SCALES['km_hour_gram_2K'],
               'awkward': [[1000.0, {'meter': 1}], [12345.678, {'second': 1}], [1.0, {'kilogram': 1}], [1.0, {'kelvin': 1}]]}


def _rand_unit(rng, nmax=3):
    k = int(rng.integers(1, nmax + 1))
    names = [POOL[int(i)] for i in rng.choice(len(POOL) - 1, size=k, replace=False)]   # ampere only on purpose
    return {nm: int(rng.choice([-3, -2, -1, 1, 2, 3])) for nm in names}


def _alt_unit(rng, u):
    out = {}
    for nm, e in u.items():
        grp = [g for g in COMPAT if nm in g][0]
        nn = grp[int(rng.integers(0, len(grp)))]
        out[nn] = out.get(nn, 0) + e
    return {k: v for k, v in out.items() if v != 0}


def _rand_mag(rng):
    m = float(rng.uniform(1, 10)) * 10.0 ** int(rng.integers(-6, 7))
    return -m if rng.integers(0, 4) == 0 else m


def _rand_scale(rng):
    return [[_rand_mag(rng) if False else abs(_rand_mag(rng)), {str(rng.choice(g)): 1}]
            for g in (COMPAT[0], COMPAT[1], COMPAT[2], ['kelvin'])]


def generate(ctx):
    """All cases are drawn first so that every vm_compute evaluation of the run can
    be batched into a few parallel coqc processes (coqc start-up dominates)."""
    cases = list(_cases(ctx))
    exprs = []
    for r, a in cases:
        try:
            if r in EXPRS: exprs += EXPRS[r](a)
        except Exception:
            pass      # the implementation raised while building the scale: reported by the runner itself
    try:
        _run_coq(ctx, [e for e in dict.fromkeys(exprs) if e not in _cache])
    except Exception as e:
        ctx.notes.append('batched coqc evaluation failed: %r' % e)
    for c in cases:
        yield c


def _cases(ctx):
    rng = ctx.rng
    quick = ctx.tier == 'quick'
    # ---- Part A
    scale_specs = ['default', 'atmospheric', 'km_hour_gram_2K', 'no_mass'] + [_rand_scale(rng) for _ in range(2 if quick else 10)]
    for sp in scale_specs:
        for rep in range(2 if quick else 6):
            qs = []
            for _ in range(6):
                u = _rand_unit(rng)
                if rng.integers(0, 12) == 0: u['ampere'] = 1
                if rng.integers(0, 3) == 0:
                    m = [[_rand_mag(rng) for _ in range(2)] for _ in range(2)]
                else:
                    m = _rand_mag(rng)
                qs.append({'m': m, 'u': u, 'alt': _alt_unit(rng, u), 'k': int(rng.choice([-2, -1, 2, 3]))})
            if rep == 0:
                qs.append({'m': 9.80616, 'u': {'meter': 1, 'second': -2}, 'alt': {'kilometer': 1, 'hour': -2}, 'k': 2})
                qs.append({'m': 1004.0, 'u': {'joule': 1, 'kilogram': -1, 'kelvin': -1}, 'alt': {'joule': 1, 'gram': -1, 'kelvin': -1}, 'k': -1})
                qs.append({'m': 2.0 / 7.0, 'u': {}, 'alt': {}, 'k': 3})
                qs.append({'m': 1013.25, 'u': {'hectopascal': 1}, 'alt': {'pascal': 1}, 'k': 2})
            ctx.count('units:scale=%s' % (sp if isinstance(sp, str) else 'random'))
            yield 'units', {'scale': sp, 'qs': qs}
    # ---- Part B: whole-second durations
    tnames = ['default', 'hour', 'awkward']
    rand_T = [[1.0, {'kilometer': 1}], [float(rng.uniform(0.5, 2.0)) * 10.0 ** int(rng.integers(-2, 6)), {'second': 1}],
              [1.0, {'kilogram': 1}], [1.0, {'kelvin': 1}]]
    dense = {'default': 100000 if quick else 1000000, 'hour': 20000 if quick else 200000, 'awkward': 20000 if quick else 200000}
    for nm in tnames:
        n = dense[nm]; chunk = 100000
        for a in range(0, n, chunk):
            yield 'td_dense', {'scale': nm, 'a': a, 'n': min(chunk, n - a)}
        yield 'td_dense', {'scale': nm, 'a': -5000, 'n': 5000}
        big = sorted({int(x) for x in rng.integers(-2 ** 40, 2 ** 40, size=600 if quick else 6000)} |
                     {int(2 ** k + d) for k in range(10, 41) for d in (-1, 0, 1)})
        yield 'td_trace', {'scale': nm, 's': list(range(0, 300)) + [27, 29, 54, 58, 108, 116, 119, 127] + big}
    for nm in tnames + [rand_T]:
        fr = [0.0004, 0.0005, 0.0006, 0.4994, 0.4995, 0.5, 0.5005, 0.9994, 0.99949, 0.9995, 0.99951, 0.9996, 0.99999999]
        secs = [sg * (k + f) for k in (0, 1, 26, 27, 3599, 86400, int(rng.integers(2, 10 ** 9))) for f in fr for sg in (1, -1)]
        secs += [float(x) for x in rng.uniform(-1e6, 1e6, size=100 if quick else 2000)]
        yield 'td_dim', {'scale': nm, 'secs': secs}
    yield 'td_dense', {'scale': rand_T, 'a': 0, 'n': 20000 if quick else 200000}
    yield 'td_trace', {'scale': rand_T, 's': [int(x) for x in rng.integers(-2 ** 40, 2 ** 40, size=500 if quick else 5000)]}
    # implementation-only sweep (the property's clause) over a long dense range
    yield 'td_oracle', {'scale': 'default', 'a': 0, 'n': 5000000 if quick else 40000000}
    yield 'td_oracle', {'scale': 'atmospheric', 'a': -500000, 'n': 1000000}
    # ---- Part B: calendar times at minute resolution
    refs = ['1979-01-01T00:00', '1900-01-01T00:00', '2000-02-29T12:34', '2099-12-31T23:59', '1970-01-01T00:00']
    for nm in tnames + [rand_T]:
        for ri, ref in enumerate(refs[:3 if quick else 5]):
            M = sorted({int(x) for x in rng.integers(-2 ** 26, 2 ** 26, size=300 if quick else 3000)} | set(range(-60, 61)))
            yield 'dt_trace', {'scale': nm, 'ref': ref, 'M': M, 'unit': ['m', 's', 'm', 's', 'm'][ri]}
    yield 'dt_dense', {'scale': 'default', 'ref': '1979-01-01T00:00', 'a': -20000, 'n': 40000 if quick else 400000}
    for ref in refs:
        yield 'dt_oracle', {'scale': 'default', 'ref': ref, 'seed': int(rng.integers(0, 2 ** 31)), 'n': 200000 if quick else 2000000}
    yield 'dt_oracle', {'scale': 'hour', 'ref': refs[2], 'seed': int(rng.integers(0, 2 ** 31)), 'n': 20000}
    yield 'time_axis', {'scale': 'default', 'steps': [1, 27, 60, 3600, 21600, 86400, 127, int(rng.integers(1, 10 ** 6))]}
    # ---- Part C: phases
    for ref in ['1979-01-01T00:00', '1979-03-05T07:30', '2000-12-31T23:59', '2024-02-29T12:00']:
        ts = [0.0, -1e-9, 1e-9, 1.0, -1.0, 12.5] + [float(x) for x in rng.uniform(-2e5, 2e5, size=20 if quick else 200)] + \
             [float(x) for x in rng.uniform(-50, 50, size=20 if quick else 200)]
        yield 'phase', {'ref': ref, 'scale': 'default', 't': ts}
    yield 'phase', {'ref': '1990-06-15T03:00', 'scale': 'hour', 't': [0.0, 24.0, -24.0, 8766.0] + [float(x) for x in rng.uniform(-1e4, 1e4, size=20)]}
    dates = ['1980-01-01T00:00', '1980-12-31T23:59', '1981-12-31T23:59', '2000-02-29T12:00', '2100-03-01T00:01']
    for _ in range(20 if quick else 200):
        y = int(rng.integers(1900, 2101)); doy = int(rng.integers(0, 365)); mi = int(rng.integers(0, 1440))
        d = datetime.datetime(y, 1, 1) + datetime.timedelta(days=doy, minutes=mi)
        dates.append(d.strftime('%Y-%m-%dT%H:%M'))
    yield 'calendar_phase', {'dates': dates}


# ---------------------------------------------------------------------------
# Part A helpers
# ---------------------------------------------------------------------------
def _unit(u):
    scales = J()[0]
    out = scales.units.dimensionless
    for nm, e in u.items():
        out = out * getattr(scales.units, nm) ** e
    return out


def _scale_quantities(sp):
    """Returns the list of (magnitude, unit-dict) handed to Scale(...) and the Scale."""
    scales = J()[0]
    if sp == 'default':
        return [(q.magnitude, {k: int(v) for k, v in q._units.items()}) for q in
                (scales.RADIUS, 1 / 2 / scales.OMEGA, 1 * scales.units.kilogram, 1 * scales.units.degK)], scales.DEFAULT_SCALE
    if sp == 'atmospheric':
        return [(q.magnitude, {k: int(v) for k, v in q._units.items()}) for q in
                (scales.RADIUS, 1 / 2 / scales.OMEGA, scales.MASS_OF_DRY_ATMOSPHERE, 1 * scales.units.degK)], scales.ATMOSPHERIC_SCALE
    if isinstance(sp, str):
        sp = SCALES[sp]
    qs = [(float(v), dict(u)) for v, u in sp]
    return qs, scales.Scale(*[v * _unit(u) for v, u in qs])


def _table(names):
    scales = J()[0]
    cv = []; ud = []
    for nm in names:
        q = (1 * getattr(scales.units, nm)).to_base_units()
        cv.append(float(q.magnitude))
        dm = getattr(scales.units, nm).dimensionality
        row = []
        for d in DIMS:
            e = dm.get(d, 0)
            assert float(e) == int(e)
            row.append(int(e))
        assert set(dm.keys()) <= set(DIMS), dm
        ud.append(row)
    return cv, ud


def _specs(sp):
    scales, pe, xu, radiation = J()
    key = repr(sp)
    if key not in _specs.cache:
        if isinstance(sp, str) and sp in TIME_SCALES: spec = TIME_SCALES[sp]
        else: spec = sp
        _, S = _scale_quantities(spec)
        _specs.cache[key] = (pe.PrimitiveEquationsSpecs.from_si(scale=S), S, float(S['[time]'].magnitude))
    return _specs.cache[key]
_specs.cache = {}


def r_units(ctx, a):
    scales = J()[0]
    sq, S = _scale_quantities(a['scale'])
    qs = a['qs']
    names = sorted({nm for q in qs for nm in list(q['u']) + list(q['alt'])} | {nm for _, u in sq for nm in u})
    U = len(names); n = len(DIMS)
    cv, ud = _table(names)
    vec = lambda u: [int(u.get(nm, 0)) for nm in names]
    # --- table obligations: pint is a homomorphism on the compound units used here
    comp = [q['u'] for q in qs] + [q['alt'] for q in qs]
    ints = [U, n, len(comp)] + [e for row in ud for e in row] + [1] * n + [e for u in comp for e in vec(u)]
    mt = ctx.model.call(2, ints, [cv, [1] * n, [0] * len(comp)])
    ok = True; det = None
    for i, u in enumerate(comp):
        pu = _unit(u)
        pf = float((1 * pu).to_base_units().magnitude)
        pd = [pu.dimensionality.get(d, 0) for d in DIMS]
        mf = float(mt[i * (n + 1)]); md = [int(v) for v in mt[i * (n + 1) + 1:(i + 1) * (n + 1)]]
        if not (abs(pf - mf) <= 2.0 ** -40 * abs(mf)) or [float(x) for x in pd] != [float(x) for x in md]:
            ok = False; det = {'unit': u, 'pint_factor': pf, 'product_of_powers': mf, 'pint_dim': [float(x) for x in pd], 'model_dim': md}
            break
    ctx.table_obligation('H_pint_conv_multiplicative', ok, det)
    # --- Scale.__init__ : stored base-unit magnitudes
    dim_of_scale = []
    for v, u in sq:
        d = _unit(u).dimensionality
        dim_of_scale.append(DIMS.index(str(list(d.keys())[0])))
    w = [[0] * U for _ in range(n)]; vals = [1.0] * n; has = [0] * n
    for (v, u), di in zip(sq, dim_of_scale):
        w[di] = vec(u); vals[di] = v; has[di] = 1
    msc = ctx.model.call(3, [U, n, 0] + [e for row in w for e in row], [cv, vals])
    impl_sc = [float(S[DIMS[i]].magnitude) if has[i] else 1.0 for i in range(n)]
    ctx.corr('Scale.__init__ base-unit magnitudes', impl_sc, msc, scale=None if False else max(abs(x) for x in impl_sc), tol_rel=2.0 ** -40)
    for i in range(n):
        ctx.corr('Scale.__init__ base-unit magnitude [%d]' % i, [impl_sc[i]], [msc[i]], scale=abs(impl_sc[i]))
    # --- flatten quantities (arrays elementwise)
    flat = []   # (magnitude, u, alt, k)
    for q in qs:
        for m in np.asarray(q['m'], dtype=np.float64).ravel().tolist():
            flat.append((m, q['u'], q['alt'], q['k']))
    k = len(flat)
    base_ints = [U, n, k] + [e for row in ud for e in row] + has
    m_nd = ctx.model.call(0, base_ints + [e for f in flat for e in vec(f[1])], [cv, msc, [f[0] for f in flat]])
    impl_nd = []; impl_ok = []
    pos = 0
    for q in qs:
        arr = np.asarray(q['m'], dtype=np.float64)
        try:
            r = S.nondimensionalize(arr * _unit(q['u']) if arr.ndim else float(arr) * _unit(q['u']))
            r = np.asarray(r, dtype=np.float64).ravel().tolist(); okk = 1
        except ValueError:
            r = [0.0] * arr.size; okk = 0
        except (ZeroDivisionError, OverflowError):      # compound scaling factor left the float64 range
            r = [0.0] * arr.size; okk = -1
        if okk == 1 and not all(math.isfinite(x) and (x == 0 or abs(x) > 1e-280) for x in r): okk = -1
        impl_nd += r; impl_ok += [okk] * arr.size
    mflags = [int(v) for v in m_nd[0::2]]
    ctx.exact('nondimensionalize raises iff a needed scale is missing', [mf if io == -1 else io for io, mf in zip(impl_ok, mflags)], mflags)
    ctx.count('units:valueerror', impl_ok.count(0)); ctx.count('units:quantities', k); ctx.count('units:range_skipped', impl_ok.count(-1))
    impl_ok = [1 if io == 1 else 0 for io in impl_ok]
    for i in range(k):
        if impl_ok[i] or not mflags[i]:
            ctx.corr('Scale.nondimensionalize', [impl_nd[i]], [m_nd[2 * i + 1]], scale=abs(float(m_nd[2 * i + 1])) + 1e-300)
    # --- dimensionalize in an alternative compatible unit
    m_dim = ctx.model.call(1, base_ints + [e for f in flat for e in vec(f[2])], [cv, msc, impl_nd])
    for i, (m, u, alt, kk) in enumerate(flat):
        if not impl_ok[i]: continue
        back = S.dimensionalize(impl_nd[i], _unit(alt))
        ctx.corr('Scale.dimensionalize', [float(back.magnitude)], [m_dim[2 * i + 1]], scale=abs(float(m_dim[2 * i + 1])) + 1e-300)
        # property clauses on the implementation
        orig = m * _unit(u)
        want = orig.to(_unit(alt)).magnitude
        ctx.oracle_close('dimensionalize(nondimensionalize(q)) in a compatible unit returns q', [float(back.magnitude)], [float(want)],
                         scale=abs(float(want)) + 1e-300)
        same = S.dimensionalize(impl_nd[i], _unit(u))
        ctx.oracle_close('dimensionalize(nondimensionalize(q)) in the same unit returns q', [float(same.magnitude)], [m], scale=abs(m))
        nd2 = S.nondimensionalize(orig.to(_unit(alt)))
        ctx.oracle_close('nondimensionalize is independent of the unit of expression', [float(nd2)], [impl_nd[i]], scale=abs(impl_nd[i]) + 1e-300)
        j = (i + 1) % k
        # products / quotients / powers: compound scaling factors can leave the float64 range
        # (e.g. mass^-9 under the atmospheric scale underflows to 0): those cases are skipped
        def _nd(q):
            try:
                r = float(S.nondimensionalize(q))
            except (ZeroDivisionError, OverflowError):
                return None
            return r if math.isfinite(r) and abs(r) > 1e-280 else None
        if impl_ok[j]:
            q2 = flat[j][0] * _unit(flat[j][1])
            pr = impl_nd[i] * impl_nd[j]; qu = impl_nd[i] / impl_nd[j] if impl_nd[j] != 0 else float('inf')
            a1 = _nd(orig * q2); a2 = _nd(orig / q2)
            if a1 is not None and math.isfinite(pr) and abs(pr) > 1e-280:
                ctx.oracle_close('nondimensionalize respects products', [a1], [pr], scale=abs(pr))
            else: ctx.count('units:range_skipped')
            if a2 is not None and math.isfinite(qu) and abs(qu) > 1e-280:
                ctx.oracle_close('nondimensionalize respects quotients', [a2], [qu], scale=abs(qu))
            else: ctx.count('units:range_skipped')
        try:
            pw = impl_nd[i] ** kk
        except (ZeroDivisionError, OverflowError):
            pw = float('inf')
        p = _nd(orig ** kk)
        if p is not None and math.isfinite(pw) and abs(pw) > 1e-280:
            ctx.oracle_close('nondimensionalize respects powers', [p], [pw], scale=abs(pw))
        else: ctx.count('units:range_skipped')


# ---------------------------------------------------------------------------
# Part B: vm_compute on the primitive-float model
# ---------------------------------------------------------------------------
_HEADER = ('From Dino Require Import Model.Time64.\nFrom Coq Require Import ZArith PrimFloat List.\n'
           'Set Printing Depth 100000000.\nSet Printing Width 100000.\n')
_NUM = re.compile(r'neg_infinity|infinity|nan|-?\d+(?:\.\d+)?(?:e[+-]?\d+)?')


def _tok(t):
    if t == 'nan': return float('nan')
    if t == 'infinity': return float('inf')
    if t == 'neg_infinity': return float('-inf')
    if re.fullmatch(r'-?\d+', t): return int(t)
    return float(t)


_cache = {}


def coq_eval(ctx, exprs):
    """Evaluates Gallina expressions over Model/Time64.v with vm_compute; returns
    for each expression the flat list of numbers printed (ints stay ints; floats
    are printed by Coq with 17 significant digits, i.e. exactly), or None."""
    miss = [e for e in dict.fromkeys(exprs) if e not in _cache]
    if miss: _run_coq(ctx, miss)
    return [_cache.get(e) for e in exprs]


def _cost(e):
    m = re.search(r'N\.to_nat (\d+)%N', e)
    return (int(m.group(1)) if m else 0) + len(e) // 8 + 2000


def _run_coq(ctx, exprs, workers=4):
    if not exprs: return
    groups = [[] for _ in range(min(workers, len(exprs)))]; load = [0] * len(groups)
    for e in sorted(exprs, key=_cost, reverse=True):
        i = load.index(min(load)); groups[i].append(e); load[i] += _cost(e)
    d = tempfile.mkdtemp(prefix='c18_')
    try:
        procs = []
        for i, g in enumerate(groups):
            with open(os.path.join(d, 'cases%d.v' % i), 'w') as f:
                f.write(_HEADER + ''.join('Eval vm_compute in (%s).\n' % e for e in g))
            procs.append(subprocess.Popen(['bash', '-c', 'ulimit -s unlimited 2>/dev/null || ulimit -s 1000000 2>/dev/null; '
                                           'timeout 1700 coqc -q -Q %s Dino cases%d.v' % (core.COQ, i)],
                                          cwd=d, stdout=subprocess.PIPE, stderr=subprocess.STDOUT, text=True))
        for g, p in zip(groups, procs):
            out = p.communicate()[0]
            if ctx.model is not None: ctx.model.calls += len(g)
            if p.returncode != 0:
                ctx.notes.append('coqc on generated cases failed: ' + out[-400:]); continue
            blocks = re.split(r'^\s*= ', out, flags=re.M)[1:]
            if len(blocks) != len(g):
                ctx.notes.append('coqc output: %d blocks for %d expressions' % (len(blocks), len(g))); continue
            for e, b in zip(g, blocks):
                body = re.split(r'^\s*: ', b, flags=re.M)[0]
                _cache[e] = [_tok(t) for t in _NUM.findall(body)]
    finally:
        shutil.rmtree(d, ignore_errors=True)


def _hexlit(x):
    return '(%s)%%float' % float(x).hex()


def _zl(l):
    return '(' + ' :: '.join('(%d)%%Z' % int(v) for v in l) + ' :: nil)'


def _bits_equal(name, ctx, impl, model):
    """bit-exact comparison of float64 arrays (float.hex)"""
    if model is None:
        return ctx.exact(name, 'impl', None)
    ih = [float(x).hex() for x in impl]; mh = [float(x).hex() for x in model]
    if ih == mh:
        ctx.comparisons += 1; return True
    bad = [i for i, (x, y) in enumerate(zip(ih, mh)) if x != y][:3] if len(ih) == len(mh) else 'length'
    return ctx.exact(name, {'first_bad': bad, 'impl': [ih[i] for i in bad] if bad != 'length' else len(ih)},
                     {'first_bad': bad, 'impl': [mh[i] for i in bad] if bad != 'length' else len(mh)})


def _e_td_dense(a): return ['deviations (td_roundtrip %s) (zrange (%d)%%Z 1%%Z (N.to_nat %d%%N))' % (_hexlit(_specs(a['scale'])[2]), a['a'], a['n'])]
def _e_td_trace(a): return ['map (td_trace %s) %s' % (_hexlit(_specs(a['scale'])[2]), _zl(a['s']))]
def _e_dt_trace(a): return ['map (dt_trace %s) %s' % (_hexlit(_specs(a['scale'])[2]), _zl(a['M']))]
def _e_dt_dense(a): return ['deviations (dt_roundtrip %s) (zrange (%d)%%Z 1%%Z (N.to_nat %d%%N))' % (_hexlit(_specs(a['scale'])[2]), a['a'], a['n'])]
def _fl(l): return '(' + ' :: '.join(_hexlit(v) for v in l) + ' :: nil)'
def _nd_values(a):
    T = _specs(a['scale'])[2]
    return [float(np.float64(x) / np.float64(T)) for x in a['secs']]
def _e_td_dim(a):
    T = _specs(a['scale'])[2]; v = _nd_values(a)
    return ['map (dim_td %s) %s' % (_hexlit(T), _fl(v)), 'map (fun v => dim_dt %s (v * 60)%%float) %s' % (_hexlit(T), _fl(v))]
def _e_time_axis(a): return ['map (nondim_td %s) %s' % (_hexlit(_specs(a['scale'])[2]), _zl(a['steps']))]
EXPRS = {'td_dim': _e_td_dim, 'td_dense': _e_td_dense, 'td_trace': _e_td_trace, 'dt_trace': _e_dt_trace, 'dt_dense': _e_dt_dense, 'time_axis': _e_time_axis}


def _td_impl(specs, arr_s):
    td = np.asarray(arr_s, dtype=np.int64).astype('timedelta64[s]')
    nd = np.asarray(specs.nondimensionalize_timedelta64(td), dtype=np.float64)
    back = specs.dimensionalize_timedelta64(nd).astype(np.int64)
    return nd, back


def r_td_dense(ctx, a):
    specs, S, T = _specs(a['scale'])
    s = np.arange(a['a'], a['a'] + a['n'], dtype=np.int64)
    nd, back = _td_impl(specs, s)
    dev = [[int(x), int(y)] for x, y in zip(s[back != s], back[back != s])]
    ctx.oracle('whole-second durations survive the round trip', not dev, {'T': T, 'first': dev[:5], 'count': len(dev)})
    res = coq_eval(ctx, _e_td_dense(a))[0]
    mdev = None if res is None else [[res[i], res[i + 1]] for i in range(0, len(res), 2)]
    ctx.exact('dimensionalize_timedelta64(nondimensionalize_timedelta64(s)): set of s not returned (dense)', dev, mdev)
    ctx.count('td:dense', a['n'])


def r_td_trace(ctx, a):
    scales = J()[0]
    specs, S, T = _specs(a['scale'])
    s = [int(x) for x in a['s']]
    nd, back = _td_impl(specs, s)
    dim = np.asarray(S.dimensionalize(nd, scales.units.second).magnitude, dtype=np.float64)
    # scalar code path (int(dt)) on a subsample
    sub = list(range(0, len(s), max(1, len(s) // 150)))
    sc_nd = []; sc_back = []
    for i in sub:
        v = specs.nondimensionalize_timedelta64(np.timedelta64(s[i], 's'))
        sc_nd.append(float(v)); sc_back.append(int(specs.dimensionalize_timedelta64(v) / np.timedelta64(1, 's')))
    ctx.exact('scalar and array code paths agree', [[float(nd[i]).hex() for i in sub], [int(back[i]) for i in sub]],
              [[x.hex() for x in sc_nd], sc_back])
    bad = [[x, int(y)] for x, y in zip(s, back) if x != y]
    ctx.oracle('whole-second durations survive the round trip', not bad, {'T': T, 'first': bad[:5], 'count': len(bad)})
    res = coq_eval(ctx, _e_td_trace(a))[0]
    if res is None or len(res) != 4 * len(s):
        ctx.exact('td_trace model evaluation', 'ok', 'failed'); return
    _bits_equal('nondimensionalize_timedelta64 bit-exact', ctx, nd, res[0::4])
    _bits_equal('scale.dimensionalize(., second) bit-exact', ctx, dim, res[1::4])
    snapped = np.round(dim * 1e3) / 1e3
    _bits_equal('millisecond snap (numpy re-evaluation of the source expression) bit-exact', ctx, snapped, res[2::4])
    ctx.exact('dimensionalize_timedelta64 result', [int(x) for x in back], [int(x) for x in res[3::4]])
    ctx.count('td:trace', len(s))


def r_td_dim(ctx, a):
    """dimensionalize_timedelta64 / nondim_time_to_datetime64 on arbitrary non-dimensional
    values (not only images of whole seconds): snapping and rounding behaviour next to
    the boundaries."""
    xu = J()[2]
    specs, S, T = _specs(a['scale'])
    v = np.asarray(_nd_values(a), dtype=np.float64)
    got = specs.dimensionalize_timedelta64(v).astype(np.int64)
    got_scalar = [int(specs.dimensionalize_timedelta64(np.float64(x)) / np.timedelta64(1, 's')) for x in v[:40]]
    ctx.exact('scalar and array code paths agree', [int(x) for x in got[:40]], got_scalar)
    ref = np.datetime64('2000-01-01T00:00', 'm')
    mins = ((xu.nondim_time_to_datetime64(v * 60.0, specs, ref) - ref) / np.timedelta64(1, 'm')).astype(np.int64)
    res = coq_eval(ctx, _e_td_dim(a))
    ctx.exact('dimensionalize_timedelta64 on arbitrary values', [int(x) for x in got], res[0])
    ctx.exact('nondim_time_to_datetime64 on arbitrary values', [int(x) for x in mins], res[1])
    ctx.count('td:dim', len(v))


def r_td_oracle(ctx, a):
    specs, S, T = _specs(a['scale']) if a['scale'] != 'atmospheric' else _specs_atm()
    chunk = 2000000; bad = []
    for lo in range(a['a'], a['a'] + a['n'], chunk):
        s = np.arange(lo, min(lo + chunk, a['a'] + a['n']), dtype=np.int64)
        nd, back = _td_impl(specs, s)
        m = back != s
        bad += [[int(x), int(y)] for x, y in zip(s[m][:5], back[m][:5])]
    ctx.oracle('whole-second durations survive the round trip', not bad, {'T': T, 'first': bad[:5]})
    ctx.count('td:oracle', a['n'])


def _specs_atm():
    scales, pe, xu, radiation = J()
    S = scales.ATMOSPHERIC_SCALE
    return pe.PrimitiveEquationsSpecs.from_si(scale=S), S, float(S['[time]'].magnitude)


def _dt_impl(specs, ref, M, unit):
    xu = J()[2]
    r = np.datetime64(ref).astype('datetime64[%s]' % unit)
    t = (np.datetime64(ref).astype('datetime64[m]') + np.asarray(M, dtype=np.int64).astype('timedelta64[m]')).astype('datetime64[%s]' % unit)
    nd = np.asarray(xu.datetime64_to_nondim_time(t, specs, r), dtype=np.float64)
    back = xu.nondim_time_to_datetime64(nd, specs, r)
    backM = ((back - r) / np.timedelta64(1, 'm'))
    return t, nd, back, backM


def r_dt_trace(ctx, a):
    scales = J()[0]
    specs, S, T = _specs(a['scale'])
    M = [int(x) for x in a['M']]
    t, nd, back, backM = _dt_impl(specs, a['ref'], M, a['unit'])
    mins = np.asarray(specs.dimensionalize(nd, scales.units.minute).magnitude, dtype=np.float64)
    bad = [[m, str(x), str(y)] for m, x, y in zip(M, t, back) if x != y]
    ctx.oracle('calendar times survive the model-time round trip at minute resolution', not bad, {'T': T, 'first': bad[:3]})
    res = coq_eval(ctx, _e_dt_trace(a))[0]
    if res is None or len(res) != 3 * len(M):
        ctx.exact('dt_trace model evaluation', 'ok', 'failed'); return
    _bits_equal('datetime64_to_nondim_time bit-exact', ctx, nd, res[0::3])
    _bits_equal('dimensionalize(., minute) bit-exact', ctx, mins, res[1::3])
    ctx.exact('nondim_time_to_datetime64 minutes', [int(x) for x in backM], [int(x) for x in res[2::3]])
    ctx.count('dt:trace', len(M))


def r_dt_dense(ctx, a):
    specs, S, T = _specs(a['scale'])
    M = np.arange(a['a'], a['a'] + a['n'], dtype=np.int64)
    t, nd, back, backM = _dt_impl(specs, a['ref'], M, 'm')
    m = backM != M
    dev = [[int(x), int(y)] for x, y in zip(M[m], backM[m])]
    ctx.oracle('calendar times survive the model-time round trip at minute resolution', not dev, {'T': T, 'first': dev[:3]})
    res = coq_eval(ctx, _e_dt_dense(a))[0]
    mdev = None if res is None else [[res[i], res[i + 1]] for i in range(0, len(res), 2)]
    ctx.exact('nondim_time_to_datetime64(datetime64_to_nondim_time(t)): set of minutes not returned (dense)', dev, mdev)
    ctx.count('dt:dense', a['n'])


def r_dt_oracle(ctx, a):
    """datetimes over 1900-2100 at minute resolution, datetime64[m], [s] and [ns]"""
    specs, S, T = _specs(a['scale'])
    rng = np.random.Generator(np.random.PCG64(a['seed']))
    lo = np.datetime64('1900-01-01T00:00', 'm'); hi = np.datetime64('2100-12-31T23:59', 'm')
    span = int((hi - lo) / np.timedelta64(1, 'm'))
    t = lo + rng.integers(0, span + 1, size=a['n']).astype('timedelta64[m]')
    xu = J()[2]
    for unit in ('m', 's', 'ns'):
        r = np.datetime64(a['ref']).astype('datetime64[%s]' % unit); tu = t.astype('datetime64[%s]' % unit)
        nd = xu.datetime64_to_nondim_time(tu, specs, r)
        back = xu.nondim_time_to_datetime64(nd, specs, r)
        m = back != tu
        ctx.oracle('calendar times survive the model-time round trip at minute resolution', not m.any(),
                   {'unit': unit, 'first': [str(x) for x in tu[m][:3]], 'back': [str(x) for x in back[m][:3]]})
    ctx.count('dt:oracle', a['n'])


def r_time_axis(ctx, a):
    scales, pe, xu, radiation = J()
    specs, S, T = _specs(a['scale'])
    impl = []
    for st in a['steps']:
        ax = np.datetime64('2000-01-01T00:00:00') + np.arange(3) * np.timedelta64(int(st), 's')
        impl.append(float(xu.nondim_time_delta_from_time_axis(ax, specs)))
        axf = np.array([0.25, 0.25 + st / 7.0, 1.0])
        ctx.exact('float time axis passes through', float(xu.nondim_time_delta_from_time_axis(axf, specs)), float(axf[1] - axf[0]))
    res = coq_eval(ctx, _e_time_axis(a))[0]
    _bits_equal('nondim_time_delta_from_time_axis bit-exact', ctx, impl, res)


# ---------------------------------------------------------------------------
# Part C
# ---------------------------------------------------------------------------
_sr = {}
def _solar(ref, sp):
    scales, pe, xu, radiation = J()
    key = (ref, repr(sp))
    if key not in _sr:
        from dinosaur import coordinate_systems, spherical_harmonic, sigma_coordinates
        specs, S, T = _specs(sp)
        coords = coordinate_systems.CoordinateSystem(spherical_harmonic.Grid.T21(), sigma_coordinates.SigmaCoordinates.equidistant(2))
        _sr[key] = (radiation.SolarRadiation(coords, specs, np.datetime64(ref)), specs, S)
    return _sr[key]


def _phase_cmp(ctx, name, impl, model, p, scale):
    """model is exact; the float floor may differ from the exact one next to a
    multiple of p, which shifts the result by p: accepted only there."""
    impl = float(impl); mod = float(model); tol = 2.0 ** -36 * scale
    if abs(impl - mod) <= tol or (abs(abs(impl - mod) - p) <= tol and min(mod, p - mod) <= tol):
        ctx.comparisons += 1; return True
    return ctx.corr(name, [impl], [model], scale=scale)


def r_phase(ctx, a):
    scales, pe, xu, radiation = J()
    sr, specs, S = _solar(a['ref'], a['scale'])
    twopi = 2 * np.pi
    names = ['year', 'day']; cv, ud = _table(names + ['second'])
    # rates = nondimensionalize(2 pi / year), (2 pi / day): Part A model
    sq, _ = _scale_quantities(TIME_SCALES[a['scale']] if a['scale'] in TIME_SCALES else a['scale'])
    sc = [float(S[d].magnitude) if d in S else 1.0 for d in DIMS]; has = [1 if d in S else 0 for d in DIMS]
    ints = [3, len(DIMS), 2] + [e for row in ud for e in row] + has + [-1, 0, 0, 0, -1, 0]
    mr = ctx.model.call(0, ints, [cv, sc, [twopi, twopi]])
    rate_o = float(sr.orbital_rate.orbital_phase); rate_s = float(sr.orbital_rate.synodic_phase)
    ctx.corr('orbital_rate = nondimensionalize(2 pi / year)', [rate_o], [mr[1]], scale=abs(rate_o))
    ctx.corr('synodic_rate = nondimensionalize(2 pi / day)', [rate_s], [mr[3]], scale=abs(rate_s))
    ref_o = float(sr.reference_orbital_time.orbital_phase); ref_s = float(sr.reference_orbital_time.synodic_phase)
    ts = [float(t) for t in a['t']]
    mo = ctx.model.call(4, [], [[twopi, ref_o, rate_o], ts]); ms = ctx.model.call(4, [], [[twopi, ref_s, rate_s], ts])
    worst = 0.0
    day = float(specs.nondimensionalize(1 * scales.units.day))
    for i, t in enumerate(ts):
        ot = sr.time_to_orbital_time(t)
        po = float(ot.orbital_phase); ps = float(ot.synodic_phase)
        _phase_cmp(ctx, 'time_to_orbital_time.orbital_phase', po, mo[i], twopi, abs(ref_o) + abs(rate_o * t) + twopi)
        _phase_cmp(ctx, 'time_to_orbital_time.synodic_phase', ps, ms[i], twopi, abs(ref_s) + abs(rate_s * t) + twopi)
        # property clauses
        for nm, ph in (('orbital', po), ('synodic', ps)):
            ctx.oracle('phases are reduced to [0, 2 pi)  (float caveat: <= fl(2 pi) accepted)', 0.0 <= ph <= twopi,
                       {'t': t, 'which': nm, 'phase': ph})
            if ph == twopi: ctx.count('phase:equal_to_fl(2pi)')
            worst = max(worst, ph)
        for nm, ph, ref, rate in (('orbital', po, ref_o, rate_o), ('synodic', ps, ref_s, rate_s)):
            x = ref + rate * t
            kk = (x - ph) / twopi
            sc_ = abs(ref) + abs(rate * t) + twopi
            ctx.oracle('phase differs from reference + rate * time by an integer multiple of 2 pi',
                       abs(kk - round(kk)) * twopi <= 2.0 ** -36 * sc_, {'t': t, 'which': nm, 'phase': ph, 'unreduced': x})
        # one more day: synodic phase returns, orbital phase advances by rate * day
        ot2 = sr.time_to_orbital_time(t + day)
        d_s = (float(ot2.synodic_phase) - ps) / twopi
        sc_ = abs(ref_s) + abs(rate_s * (abs(t) + day)) + twopi
        ctx.oracle('synodic phase is periodic in one day of elapsed time', abs(d_s - round(d_s)) * twopi <= 2.0 ** -34 * sc_,
                   {'t': t, 'phase': ps, 'phase_next_day': float(ot2.synodic_phase)})
        d_o = (float(ot2.orbital_phase) - po - rate_o * day) / twopi
        ctx.oracle('orbital phase advances by rate * elapsed time (mod 2 pi)', abs(d_o - round(d_o)) * twopi <= 2.0 ** -34 * sc_,
                   {'t': t, 'phase': po, 'phase_next_day': float(ot2.orbital_phase)})
    ctx.notes.append('largest reduced phase seen: 2pi - %.3e' % (twopi - worst))
    # calendar consistency: time of a datetime -> synodic phase equals the calendar's synodic phase
    when = np.datetime64(a['ref']) + np.timedelta64(int(abs(ts[-1]) * 7) % 5000000, 'm')
    tt = sr.datetime_to_time(when)
    got = float(sr.time_to_orbital_time(float(tt)).synodic_phase)
    cal = float(radiation.datetime_to_orbital_time(radiation.datetime64_to_datetime(when)).synodic_phase)
    dd = (got - cal) / twopi
    ctx.oracle('synodic phase of elapsed time agrees with the calendar (mod 2 pi)', abs(dd - round(dd)) * twopi <= 2.0 ** -30 * (abs(rate_s * tt) + twopi),
               {'when': str(when), 'time': float(tt), 'phase': got, 'calendar_phase': cal})


def r_calendar_phase(ctx, a):
    scales, pe, xu, radiation = J()
    twopi = 2 * np.pi
    for ds in a['dates']:
        d = datetime.datetime.strptime(ds, '%Y-%m-%dT%H:%M')
        ot = radiation.datetime_to_orbital_time(d)
        diy = radiation.days_in_year(d)
        leap = (d.year % 4 == 0 and (d.year % 100 != 0 or d.year % 400 == 0))
        ctx.exact('days_in_year', int(diy), 366 if leap else 365)
        m = ctx.model.call(5, [d.timetuple().tm_yday, 366 if leap else 365, d.hour, d.minute], [[twopi]])
        ctx.corr('datetime_to_orbital_time', [float(ot.orbital_phase), float(ot.synodic_phase)], m, scale=twopi)
        ctx.oracle('phases are reduced to [0, 2 pi)  (float caveat: <= fl(2 pi) accepted)',
                   0.0 <= float(ot.orbital_phase) < twopi and 0.0 <= float(ot.synodic_phase) < twopi, {'date': ds})
        d64 = radiation.datetime64_to_datetime(np.datetime64(ds))
        ctx.exact('datetime64_to_datetime', d64.isoformat(), d.isoformat())


RUNNERS = {'units': r_units, 'td_dim': r_td_dim, 'td_dense': r_td_dense, 'td_trace': r_td_trace, 'td_oracle': r_td_oracle,
           'dt_trace': r_dt_trace, 'dt_dense': r_dt_dense, 'dt_oracle': r_dt_oracle, 'time_axis': r_time_axis,
           'phase': r_phase, 'calendar_phase': r_calendar_phase}
