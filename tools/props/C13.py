"""C13 - vertical (sigma) calculus: correspondence of Model/Sigma.v with
dinosaur.sigma_coordinates / jax_numpy_utils / primitive_equations, and the
property's own clauses evaluated on the implementation."""
import numpy as np
from fractions import Fraction
from harness import util

THEOREMS = ['C13_cumint_last_is_total', 'C13_down_plus_up', 'C13_cumsum_methods_agree',
            'C13_centered_difference_affine', 'C13_advection_sbp', 'C13_geopotential_is_trapezoid',
            'C13_geo_sparse_eq_dense', 'C13_rejects_bad_levels', 'C13_rejects_bad_levels_R',
            'C13_hyps_satisfiable', 'C13_model_is_source', 'C13_gen_sigma_complete', 'C13_init_is_source']
LEVEL = 'proof'
LEVEL_TEXT = ('machine-checked theorems (Coq) for every field, every layer count K>=1 and every boundary list: '
              'cumulative integrals, agreement of all cumsum strategies, affine exactness, summation by parts, '
              'geopotential = R x log-sigma trapezoid (dense and cumulative-sum forms), rejection predicate; '
              'the Gallina model is executed (extraction) against the implementation on generated columns/axes')
LEVEL_NOTE = ('theorems are about the Gallina model Model/Sigma.v (all fields, all K, all boundaries); '
              'log(centers) enters as a table; model tied to the code by differential correspondence and, for the '
              'array programs of sigma_coordinates.py along the vertical axis, by C13_model_is_source: the model equals '
              'the transcription of the source AST regenerated on every run (tools/translate/gen_sigma.py, array DSL '
              'Model/ArrDSL.v); the __init__ validity tests: C13_init_is_source (ordered field); a length mismatch between the two operands of an elementwise operation is not detected by the proofs; '
              'jax_numpy_utils cumsum and the primitive_equations geopotential operators are not transcribed')

_jax = None
def J():
    global _jax
    if _jax is None:
        util.setup_jax()
        import jax.numpy as jnp
        from dinosaur import sigma_coordinates as sc, jax_numpy_utils as jnu, primitive_equations as pe
        _jax = (jnp, sc, jnu, pe)
    return _jax


def generate(ctx):
    rng = ctx.rng
    Ks = [1, 2, 3, 5, 8] if ctx.tier == 'quick' else [1, 2, 3, 4, 5, 7, 8, 12, 16, 24]
    reps = 2 if ctx.tier == 'quick' else 6
    for K in Ks:
        for r in range(reps):
            b = util.uneven_boundaries(rng, K).tolist() if r else np.linspace(0, 1, K + 1).tolist()
            if r == 0 and K == 3: b = [0.0, 0.25, 0.75, 1.0]
            ctx.count(f'K={K}')
            yield 'derived', {'b': b}
            for ndim, axis in [(1, 0), (3, -3), (3, -1), (2, 0), (4, -2), (3, 1)]:
                if r and (ndim, axis) not in [(3, -3), (2, 0)] and ctx.tier == 'quick':
                    continue
                shape = util.shape_with_axis(rng, K, ndim, axis, 2)
                x = util.small_rationals(rng, shape).tolist()
                yield 'cumint', {'b': b, 'x': x, 'axis': axis}
                yield 'cumlog', {'b': b, 'x': x, 'axis': axis}
                yield 'cdiff', {'b': b, 'x': x, 'axis': axis, 'a': float(rng.integers(-9, 10)) / 4, 'c': float(rng.integers(-9, 10)) / 2}
                wshape = list(shape); wshape[axis] = K - 1
                w = util.small_rationals(rng, wshape).tolist()
                yield 'cadv', {'b': b, 'x': x, 'w': w, 'wshape': wshape, 'axis': axis, 'bv': bool(rng.integers(0, 2))}
                yield 'upwind', {'b': b, 'x': x, 'w': w, 'wshape': wshape, 'axis': axis}
            if r == 0:
                yield 'transforms', {'b': util.uneven_boundaries(rng, K).tolist(), 'x': util.small_rationals(rng, (K, 2)).tolist(), 'w': util.small_rationals(rng, (max(K - 1, 0), 2)).tolist()}
            if r == 0 and K >= 2:
                # integer-typed data (a legitimate input: the routines must promote, not truncate)
                xi = rng.integers(-9, 10, size=(K, 2)).tolist(); wi = rng.integers(-9, 10, size=(K - 1, 2)).tolist()
                yield 'int_data', {'b': b, 'x': xi, 'w': wi}
            T = util.small_rationals(rng, (K, 2, 2), 200, 300, 1).tolist()
            yield 'geo', {'b': b, 'T': T, 'R': [287.0, 1.0, 0.28][r % 3]}
    for K in ([1, 2, 3, 7] if ctx.tier == 'quick' else [1, 2, 3, 5, 6, 7, 12, 24, 37]):
        yield 'equidistant', {'K': K}
    # accepted level sets whose end points are only CLOSE to 0 and 1 (float32-accumulated thicknesses, six-digit tables):
    # every operator must keep following its documented formula (surface at log sigma = 0, thickness = diff of boundaries)
    ends = [(0.0, 1.0000001), (0.0, 0.999998), (5e-9, 1.000005), (0.0, 0.9999925), (-4e-9, 1.0 + 2.0 ** -30)]
    for i, (b0, b1) in enumerate(ends if ctx.tier != 'quick' else ends[:4]):
        K = [2, 3, 5, 4, 7][i]
        b = util.uneven_boundaries(rng, K); b[0] = b0; b[-1] = b1; b = b.tolist()
        ctx.count('near-end level set')
        x = util.small_rationals(rng, (K, 2)).tolist(); w = util.small_rationals(rng, (K - 1, 2)).tolist()
        yield 'accept', {'b': b}
        yield 'derived', {'b': b}
        yield 'cumint', {'b': b, 'x': x, 'axis': 0}
        yield 'cumlog', {'b': b, 'x': x, 'axis': 0}
        yield 'cdiff', {'b': b, 'x': x, 'axis': 0, 'a': 1.25, 'c': -0.5}
        yield 'cadv', {'b': b, 'x': x, 'w': w, 'wshape': [K - 1, 2], 'axis': 0, 'bv': False}
        yield 'geo', {'b': b, 'T': util.small_rationals(rng, (K, 2, 2), 200, 300, 1).tolist(), 'R': 287.0}
        yield 'long_axis', {'b': b, 'x': x, 'T': util.small_rationals(rng, (K, 1, 2), 200, 300, 1).tolist(), 'R': 287.0}
    # NEARLY equidistant level sets (thicknesses equal to ~1e-5 .. 1e-9 relative but not equal: tables typed to a few
    # decimals, float32-accumulated boundaries): shortcuts guarded by allclose/isclose on the spacing show here
    for K, mode in ([(7, 'dec7'), (5, 'f32'), (4, 'jit')] if ctx.tier == 'quick' else [(7, 'dec7'), (5, 'f32'), (4, 'jit'), (12, 'dec6'), (3, 'dec7'), (9, 'jit')]):
        if mode.startswith('dec'):
            b = [round(k / K, int(mode[3:])) for k in range(K + 1)]
        elif mode == 'f32':
            b = np.cumsum(np.full(K, np.float32(1.0 / K), dtype=np.float32)).astype(np.float64).tolist(); b = [0.0] + b[:-1] + [1.0]
        else:
            b = (np.arange(K + 1) / K + np.concatenate([[0], rng.integers(-8, 9, size=K - 1) * 2.0 ** -22, [0]])).tolist()
        ctx.count('nearly-equidistant level set')
        x = util.small_rationals(rng, (K, 2)).tolist(); w = util.small_rationals(rng, (K - 1, 2)).tolist()
        yield 'derived', {'b': b}
        yield 'cumint', {'b': b, 'x': x, 'axis': 0}
        yield 'cumlog', {'b': b, 'x': x, 'axis': 0}
        yield 'cdiff', {'b': b, 'x': x, 'axis': 0, 'a': 1.25, 'c': -0.5}
        yield 'cadv', {'b': b, 'x': x, 'w': w, 'wshape': [K - 1, 2], 'axis': 0, 'bv': False}
        yield 'upwind', {'b': b, 'x': x, 'w': w, 'wshape': [K - 1, 2], 'axis': 0}
        yield 'geo', {'b': b, 'T': util.small_rationals(rng, (K, 2, 2), 200, 300, 1).tolist(), 'R': 287.0}
        yield 'long_axis', {'b': b, 'x': x, 'T': util.small_rationals(rng, (K, 1, 2), 200, 300, 1).tolist(), 'R': 287.0}
    # extremely thin layers next to thick ones (dyadic): any absolute epsilon added to a spacing or thickness shows
    thin = [[0.0, 2.0 ** -30, 2.0 ** -29, 0.5, 0.5 + 2.0 ** -25, 1.0], [0.0, 0.25, 0.25 + 2.0 ** -34, 1.0],
            [0.0, 1.0 - 2.0 ** -28, 1.0], [0.0, 2.0 ** -40, 1.0 - 2.0 ** -33, 1.0 - 2.0 ** -34, 1.0]]
    for b in (thin if ctx.tier != 'quick' else thin[:3]):
        K = len(b) - 1
        ctx.count('thin-layer level set')
        x = util.small_rationals(rng, (K, 2)).tolist(); w = util.small_rationals(rng, (K - 1, 2)).tolist()
        yield 'accept', {'b': b}
        yield 'derived', {'b': b}
        yield 'cumint', {'b': b, 'x': x, 'axis': 0}
        yield 'cumlog', {'b': b, 'x': x, 'axis': 0}
        yield 'cdiff', {'b': b, 'x': x, 'axis': 0, 'a': 1.25, 'c': -0.5}
        yield 'cadv', {'b': b, 'x': x, 'w': w, 'wshape': [K - 1, 2], 'axis': 0, 'bv': False}
        yield 'upwind', {'b': b, 'x': x, 'w': w, 'wshape': [K - 1, 2], 'axis': 0}
        yield 'geo', {'b': b, 'T': util.small_rationals(rng, (K, 2, 2), 200, 300, 1).tolist(), 'R': 287.0}
    # long vertical axes: size thresholds in the cumulative-sum strategies.  The exact-rational model is quadratic in K
    # (minutes at K = 1000), so these cases are decided by oracles: independent numpy references and strategy agreement.
    for K in ([130, 520, 1030] if ctx.tier == 'quick' else [70, 130, 260, 520, 1030, 2050]):
        b = util.uneven_boundaries(rng, K).tolist()
        ctx.count('long-axis K=%d' % K)
        yield 'long_axis', {'b': b, 'x': util.small_rationals(rng, (K, 2)).tolist(),
                            'T': util.small_rationals(rng, (K, 1, 2), 200, 300, 1).tolist(), 'R': 287.0}
    # malformed / borderline level sets
    bad = [[0.0], [0.0, 1.0], [0.0, 0.5, 0.5, 1.0], [0.0, 0.6, 0.4, 1.0], [0.1, 0.5, 1.0], [0.0, 0.5, 0.9],
           [5e-9, 0.5, 1.0], [2e-8, 0.5, 1.0], [0.0, 0.5, 1.000005], [0.0, 0.5, 1.00002], [0.0, 0.5, 0.99998],
           [0.0, 1.0, 0.5], [1.0, 0.0], [0.0, 0.0, 1.0], [0.0, 0.3, 1.0, 1.0], [-5e-9, 0.2, 1.0], [0.0, 0.2, 0.1, 0.3, 1.0]]
    # defects confined to the first / last interval (end points fine, interior fine)
    bad += [[0.0, 1.2, 1.0], [0.0, -0.2, 1.0], [0.0, 0.4, 0.8, 1.1, 1.0], [0.0, -0.1, 0.3, 0.6, 1.0], [0.0, 1.0, 1.0],
            [0.0, 0.0, 0.5, 1.0], [0.0, 0.5, 1.0, 1.0], [0.0, 0.5, 1.5, 1.0], [0.0, -0.5, 0.5, 1.0]]
    for b in bad:
        yield 'accept', {'b': b}
    for _ in range(8 if ctx.tier == 'quick' else 60):
        # valid level set with ONE internal boundary moved: onto / past a neighbour, or outside [0, 1]
        K = int(rng.integers(2, 7)); b = util.uneven_boundaries(rng, K)
        i = int(rng.integers(1, K)); mode = int(rng.integers(0, 4))
        b[i] = [b[i - 1], b[i + 1], b[i + 1] + 0.25, b[i - 1] - 0.25][mode]
        ctx.count('accept:moved-internal-boundary')
        yield 'accept', {'b': b.tolist()}
    for _ in range(6 if ctx.tier == 'quick' else 40):
        K = int(rng.integers(1, 7)); b = util.uneven_boundaries(rng, K)
        if rng.integers(0, 2) and K >= 2:
            i = int(rng.integers(0, K)); b[i], b[i + 1] = b[i + 1], b[i]
        yield 'accept', {'b': b.tolist()}


def _coords(b):
    jnp, sc, jnu, pe = J()
    return sc.SigmaCoordinates(np.asarray(b, dtype=np.float64))


def r_equidistant(ctx, a):
    jnp, sc, jnu, pe = J()
    K = a['K']
    c = sc.SigmaCoordinates.equidistant(K)
    want = [Fraction(i, K) for i in range(K + 1)]
    ctx.corr('SigmaCoordinates.equidistant boundaries = i/K', c.boundaries, want, scale=1.0)
    m = ctx.model.call(0, [K], [c.boundaries])
    ctx.corr('equidistant: centers/thickness/c2c', np.concatenate([c.centers, c.layer_thickness, c.center_to_center]), m, scale=1.0)
    ctx.oracle('equidistant(K) has K layers', c.layers == K, c.layers)


def r_derived(ctx, a):
    c = _coords(a['b']); K = c.layers
    m = ctx.model.call(0, [K], [a['b']])
    ctx.corr('centers/thickness/c2c', np.concatenate([c.centers, c.layer_thickness, c.center_to_center]), m, scale=1.0)


def r_accept(ctx, a):
    jnp, sc, jnu, pe = J()
    b = a['b']
    try:
        sc.SigmaCoordinates(np.asarray(b, dtype=np.float64)); acc = 1
    except ValueError:
        acc = 0
    m = ctx.model.call(1, [len(b) - 1], [b, [Fraction(1, 10 ** 8), Fraction(1, 10 ** 8) + Fraction(1, 10 ** 5)]])
    ctx.exact('SigmaCoordinates accepts', [acc], [int(v) for v in m])
    ctx.count('accept:%d' % acc)
    # the property's clause, stated directly: accepted iff strictly increasing from ~0 to ~1
    d = np.diff(np.asarray(b))
    want = int(bool(abs(b[0]) <= 1e-8 and abs(b[-1] - 1) <= 1e-8 + 1e-5 and np.all(d > 0)))
    ctx.oracle('level sets not strictly increasing from 0 to 1 are rejected', acc == want, {'accepted': acc, 'expected': want})


def r_cumint(ctx, a):
    jnp, sc, jnu, pe = J()
    c = _coords(a['b']); K = c.layers; x = np.asarray(a['x'], dtype=np.float64); ax = a['axis']
    scale = float(np.abs(x).sum(axis=ax).max()) + 1e-300
    res = {}
    for dot in (1, 0):
        for down in (1, 0):
            out = np.asarray(sc.cumulative_sigma_integral(jnp.asarray(x), c, axis=ax, downward=bool(down),
                                                          cumsum_method='dot' if dot else 'jax'))
            res[dot, down] = out
            for (idx, col), (_, ocol) in zip(util.columns(x, ax), util.columns(out, ax)):
                ctx.corr(f'cumulative_sigma_integral dot={dot} down={down}', ocol,
                         ctx.model.call(3, [K, dot, down], [a['b'], col]), scale=scale)
    tot = np.asarray(sc.sigma_integral(jnp.asarray(x), c, axis=ax, keepdims=True))
    # keepdims option, purity (second evaluation bit-identical), and the shape contract of keepdims=True
    tot_nk = np.asarray(sc.sigma_integral(jnp.asarray(x), c, axis=ax, keepdims=False))
    want_shape = list(x.shape); want_shape[ax] = 1
    ctx.oracle('sigma_integral(keepdims=True) keeps the vertical axis in place with size 1', list(tot.shape) == want_shape,
               {'got': list(tot.shape), 'want': want_shape})
    if list(tot.shape) == want_shape:
        ctx.oracle_close('sigma_integral keepdims=False = squeeze of keepdims=True', tot_nk, np.squeeze(tot, axis=ax), scale=scale)
    again = np.asarray(sc.cumulative_sigma_integral(jnp.asarray(x), c, axis=ax, downward=True, cumsum_method='dot'))
    ctx.oracle('cumulative_sigma_integral is pure (second evaluation bit-identical)', bool(np.array_equal(again, res[1, 1])))
    for (idx, col), (_, tcol) in zip(util.columns(x, ax), util.columns(tot, ax)):
        ctx.corr('sigma_integral', tcol, ctx.model.call(4, [K], [a['b'], col]), scale=scale)
    # property clauses on the implementation
    last = np.take(res[1, 1], [K - 1], axis=ax); first = np.take(res[1, 0], [0], axis=ax)
    ctx.oracle_close('cumulative integral ends at the total integral (downward)', last, tot, scale=scale)
    ctx.oracle_close('cumulative integral ends at the total integral (upward)', first, tot, scale=scale)
    th = np.moveaxis(np.moveaxis(x, ax, -1) * c.layer_thickness, -1, ax)
    ctx.oracle_close('downward + upward = total + local', res[1, 1] + res[1, 0], tot + th, scale=scale)
    ctx.oracle_close('cumsum strategies agree (downward)', res[1, 1], res[0, 1], scale=scale)
    ctx.oracle_close('cumsum strategies agree (upward)', res[1, 0], res[0, 0], scale=scale)


def r_cumlog(ctx, a):
    jnp, sc, jnu, pe = J()
    c = _coords(a['b']); K = c.layers; x = np.asarray(a['x'], dtype=np.float64); ax = a['axis']
    ls = np.log(c.centers)
    scale = float(np.abs(x).sum(axis=ax).max() * max(np.abs(ls).max(), 1.0)) + 1e-300
    for dot in (1, 0):
        for down in (1, 0):
            out = np.asarray(sc.cumulative_log_sigma_integral(jnp.asarray(x), c, axis=ax, downward=bool(down),
                                                              cumsum_method='dot' if dot else 'jax'))
            for (idx, col), (_, ocol) in zip(util.columns(x, ax), util.columns(out, ax)):
                ctx.corr(f'cumulative_log_sigma_integral dot={dot} down={down}', ocol,
                         ctx.model.call(5, [K, dot, down], [ls, col]), scale=scale)


def r_cdiff(ctx, a):
    jnp, sc, jnu, pe = J()
    c = _coords(a['b']); K = c.layers; x = np.asarray(a['x'], dtype=np.float64); ax = a['axis']
    out = np.asarray(sc.centered_difference(jnp.asarray(x), c, axis=ax))
    scale = float(np.abs(x).max() / (np.abs(c.center_to_center).min() if K > 1 else 1.0)) + 1e-300
    for (idx, col), (_, ocol) in zip(util.columns(x, ax), util.columns(out, ax)):
        ctx.corr('centered_difference', ocol, ctx.model.call(2, [K], [a['b'], col]), scale=scale)
    # affine profile: exact slope
    if K > 1:
        sh = [1] * x.ndim; sh[ax] = K
        aff = a['a'] * c.centers.reshape(sh) + a['c'] + 0 * x
        d = np.asarray(sc.centered_difference(jnp.asarray(aff), c, axis=ax))
        s = (abs(a['a']) + abs(a['c'])) / np.abs(c.center_to_center).min() + 1e-300
        ctx.oracle_close('centred difference exact on affine profile', d, np.full(d.shape, a['a']), scale=s)


def r_cadv(ctx, a):
    jnp, sc, jnu, pe = J()
    c = _coords(a['b']); K = c.layers; x = np.asarray(a['x'], dtype=np.float64); ax = a['axis']
    w = np.asarray(a['w'], dtype=np.float64).reshape(a['wshape'])
    kw = {}; bv = [0, 0, 0, 0]
    if a['bv']:
        bv = [0.5, -1.25, 2.0, -0.75]
        ssh = list(x.shape); ssh[ax] = 1
        kw = dict(w_boundary_values=(jnp.full(ssh, bv[0]), jnp.full(ssh, bv[1])),
                  dx_dsigma_boundary_values=(jnp.full(ssh, bv[2]), jnp.full(ssh, bv[3])))
    out = np.asarray(sc.centered_vertical_advection(jnp.asarray(w), jnp.asarray(x), c, axis=ax, **kw))
    c2cmin = np.abs(c.center_to_center).min() if K > 1 else 1.0
    scale = float((np.abs(w).max() if w.size else 0) + 2) * float(np.abs(x).max() + 2) / c2cmin + 1e-300
    for (idx, col), (_, wcol), (_, ocol) in zip(util.columns(x, ax), util.columns(w, ax), util.columns(out, ax)):
        ctx.corr('centered_vertical_advection', ocol, ctx.model.call(6, [K], [a['b'], wcol, col, bv]), scale=scale)
    if not a['bv']:
        # summation by parts on the implementation
        th = c.layer_thickness
        lhs = np.tensordot(np.moveaxis(out, ax, -1), th, axes=([-1], [0]))
        pad = [(0, 0)] * w.ndim; pad[ax] = (1, 1)
        wp = np.pad(w, pad)
        conv = np.diff(wp, axis=ax)
        rhs = (x * conv).sum(axis=ax)
        ctx.oracle_close('summation by parts: sum(dsigma*adv) = sum(x*dw)', lhs, rhs, scale=scale * K)


def r_upwind(ctx, a):
    jnp, sc, jnu, pe = J()
    c = _coords(a['b']); K = c.layers; x = np.asarray(a['x'], dtype=np.float64); ax = a['axis']
    w = np.asarray(a['w'], dtype=np.float64).reshape(a['wshape'])
    out = np.asarray(sc.upwind_vertical_advection(jnp.asarray(w), jnp.asarray(x), c, axis=ax))
    c2cmin = np.abs(c.center_to_center).min() if K > 1 else 1.0
    scale = float((np.abs(w).max() if w.size else 0) + 1) * float(np.abs(x).max() + 1) / c2cmin + 1e-300
    for (idx, col), (_, wcol), (_, ocol) in zip(util.columns(x, ax), util.columns(w, ax), util.columns(out, ax)):
        ctx.corr('upwind_vertical_advection', ocol, ctx.model.call(7, [K], [a['b'], wcol, col]), scale=scale)


def r_long_axis(ctx, a):
    """Long vertical axes (oracle only): numpy references for the midpoint integrals and both cumulative-sum helpers,
    agreement of the strategies in both directions, the property's cumulative/total relations, geopotential dense = sparse."""
    jnp, sc, jnu, pe = J()
    c = _coords(a['b']); K = c.layers; x = np.asarray(a['x'], dtype=np.float64); T = np.asarray(a['T'], dtype=np.float64)
    th = np.asarray(c.layer_thickness, dtype=np.float64)
    scale = float(np.abs(x).sum(axis=0).max()) + 1e-300
    ref_f = np.cumsum(x, axis=0); ref_r = np.flip(np.cumsum(np.flip(x, 0), axis=0), 0)
    for m in ('dot', 'jax'):
        ctx.oracle_close(f'jax_numpy_utils.cumsum method={m} = numpy cumsum (K={K})', np.asarray(jnu.cumsum(jnp.asarray(x), axis=0, method=m)), ref_f, scale=scale)
        ctx.oracle_close(f'jax_numpy_utils.reverse_cumsum method={m} = numpy reverse cumsum (K={K})', np.asarray(jnu.reverse_cumsum(jnp.asarray(x), axis=0, method=m)), ref_r, scale=scale)
    xd = x * th[:, None]
    dn = np.cumsum(xd, axis=0); up = np.flip(np.cumsum(np.flip(xd, 0), axis=0), 0); tot = xd.sum(axis=0, keepdims=True)
    res = {}
    for m in ('dot', 'jax'):
        for down in (True, False):
            out = np.asarray(sc.cumulative_sigma_integral(jnp.asarray(x), c, axis=0, downward=down, cumsum_method=m)); res[m, down] = out
            ctx.oracle_close(f'cumulative_sigma_integral {m} downward={down} = midpoint-rule reference (K={K})', out, dn if down else up, scale=scale)
    ctx.oracle_close('sigma_integral = midpoint-rule reference', np.asarray(sc.sigma_integral(jnp.asarray(x), c, axis=0, keepdims=True)), tot, scale=scale)
    ctx.oracle_close('cumulative integral ends at the total integral (upward)', res['dot', False][:1], tot, scale=scale)
    ctx.oracle_close('downward + upward = total + local', res['dot', True] + res['dot', False], tot + xd, scale=scale)
    ls = np.log(np.asarray(c.centers)); lscale = scale * float(np.abs(ls).max())
    for down in (True, False):
        od = np.asarray(sc.cumulative_log_sigma_integral(jnp.asarray(x), c, axis=0, downward=down, cumsum_method='dot'))
        oj = np.asarray(sc.cumulative_log_sigma_integral(jnp.asarray(x), c, axis=0, downward=down, cumsum_method='jax'))
        ctx.oracle_close(f'cumulative_log_sigma_integral: cumsum strategies agree, downward={down} (K={K})', od, oj, scale=lscale)
    gscale = float(abs(a['R']) * np.abs(ls).max() * np.abs(T).sum(axis=0).max()) + 1e-300
    gd = np.asarray(pe.get_geopotential_diff(jnp.asarray(T), c, a['R'], method='dense'))
    gs = np.asarray(pe.get_geopotential_diff(jnp.asarray(T), c, a['R'], method='sparse'))
    ctx.oracle_close(f'get_geopotential_diff sparse = dense (K={K})', gs, gd, scale=gscale)
    # documented trapezoid in log sigma: phi_k - phi_s = R * [ T_K (0 - ls_K) ... ] written independently
    Tc = T[:, 0, :]
    seg = 0.5 * (Tc[1:] + Tc[:-1]) * (ls[1:] - ls[:-1])[:, None]          # between centres k and k+1
    ref = np.zeros_like(Tc); ref[-1] = Tc[-1] * (0.0 - ls[-1])
    for k in range(K - 2, -1, -1):
        ref[k] = ref[k + 1] + seg[k]
    ctx.oracle_close(f'get_geopotential_diff = R * trapezoid of T in log sigma (K={K})', gd[:, 0, :], a['R'] * ref, scale=gscale)


def r_transforms(ctx, a):
    """The same routines called eagerly on jax arrays, on plain numpy arrays, under jit, under vmap over a leading batch
    axis, and differentiated (the operators are linear in the data: jvp along v = the operator applied to v)."""
    jnp, sc, jnu, pe = J()
    import jax
    c = _coords(a['b']); K = c.layers
    x = np.asarray(a['x'], dtype=np.float64); w = np.asarray(a['w'], dtype=np.float64).reshape(max(K - 1, 0), x.shape[1])
    c2c = np.abs(c.center_to_center).min() if K > 1 else 1.0
    S = float(np.abs(x).sum() + 1) * float(np.abs(w).max() + 1 if w.size else 1) / c2c * max(float(np.abs(np.log(c.centers)).max()), 1.0)
    fns = [('cumulative_sigma_integral', lambda q: sc.cumulative_sigma_integral(q, c, axis=0)),
           ('cumulative_sigma_integral(upward)', lambda q: sc.cumulative_sigma_integral(q, c, axis=0, downward=False)),
           ('sigma_integral', lambda q: sc.sigma_integral(q, c, axis=0)),
           ('cumulative_log_sigma_integral', lambda q: sc.cumulative_log_sigma_integral(q, c, axis=0)),
           ('cumulative_log_sigma_integral(upward)', lambda q: sc.cumulative_log_sigma_integral(q, c, axis=0, downward=False)),
           ('centered_difference', lambda q: sc.centered_difference(q, c, axis=0)),
           ('centered_vertical_advection', lambda q: sc.centered_vertical_advection(jnp.asarray(w), q, c, axis=0)),
           ('upwind_vertical_advection', lambda q: sc.upwind_vertical_advection(jnp.asarray(w), q, c, axis=0)),
           ('cumsum[dot]', lambda q: jnu.cumsum(q, axis=0, method='dot')), ('reverse_cumsum[dot]', lambda q: jnu.reverse_cumsum(q, axis=0, method='dot'))]
    if K == 1:
        fns = [f for f in fns if 'advection' not in f[0] and f[0] != 'centered_difference']
    xb = np.stack([x, -0.5 * x + 0.25, 2.0 * x[::-1]])                      # a batch with different content per slice
    for name, f in fns:
        base = np.asarray(f(jnp.asarray(x)), dtype=np.float64)
        ctx.oracle_close(f'{name}: numpy input gives the result of the jax-array input', np.asarray(f(x), dtype=np.float64), base, scale=S)
        ctx.oracle_close(f'{name}: jit-compiled = eager', np.asarray(jax.jit(f)(jnp.asarray(x)), dtype=np.float64), base, scale=S)
        vb = np.asarray(jax.vmap(f)(jnp.asarray(xb)), dtype=np.float64)
        per = np.stack([np.asarray(f(jnp.asarray(t)), dtype=np.float64) for t in xb])
        ctx.oracle_close(f'{name}: vmap over a leading batch axis = slice by slice', vb, per, scale=3 * S)
        v = jnp.asarray(xb[1])
        _, jv = jax.jvp(f, (jnp.asarray(x),), (v,))
        lin = np.asarray(f(v), dtype=np.float64) - np.asarray(f(jnp.zeros_like(v)), dtype=np.float64)
        ctx.oracle_close(f'{name}: jvp along v = operator applied to v (affine in the data)', np.asarray(jv, dtype=np.float64), lin, scale=3 * S)


def r_int_data(ctx, a):
    """Same routines on integer-typed arrays: results must equal those on the float copy of the data."""
    jnp, sc, jnu, pe = J()
    c = _coords(a['b']); K = c.layers
    xi = np.asarray(a['x'], dtype=np.int64); wi = np.asarray(a['w'], dtype=np.int64).reshape(K - 1, xi.shape[1])
    xf = xi.astype(np.float64); wf = wi.astype(np.float64)
    c2cmin = np.abs(c.center_to_center).min()
    sc_ = float(np.abs(xf).max() + 1) * float(np.abs(wf).max() + 1) / c2cmin
    pairs = [('centered_difference', lambda x, w: sc.centered_difference(x, c, axis=0)),
             ('cumulative_sigma_integral', lambda x, w: sc.cumulative_sigma_integral(x, c, axis=0)),
             ('sigma_integral', lambda x, w: sc.sigma_integral(x, c, axis=0)),
             ('cumulative_log_sigma_integral', lambda x, w: sc.cumulative_log_sigma_integral(x, c, axis=0)),
             ('centered_vertical_advection', lambda x, w: sc.centered_vertical_advection(w, x, c, axis=0)),
             ('upwind_vertical_advection', lambda x, w: sc.upwind_vertical_advection(w, x, c, axis=0))]
    for name, f in pairs:
        ri = np.asarray(f(jnp.asarray(xi), jnp.asarray(wi)), dtype=np.float64); rf = np.asarray(f(jnp.asarray(xf), jnp.asarray(wf)), dtype=np.float64)
        ctx.oracle_close(f'{name}: integer-typed data gives the same result as its float copy', ri, rf, scale=sc_ * K)
    for (idx, col), (_, ocol) in zip(util.columns(xf, 0), util.columns(np.asarray(sc.centered_difference(jnp.asarray(xi), c, axis=0), dtype=np.float64), 0)):
        ctx.corr('centered_difference (integer-typed data)', ocol, ctx.model.call(2, [K], [a['b'], col]), scale=sc_)


def r_geo(ctx, a):
    jnp, sc, jnu, pe = J()
    c = _coords(a['b']); K = c.layers; T = np.asarray(a['T'], dtype=np.float64); R = a['R']
    ls = np.log(c.centers)
    al = pe.get_sigma_ratios(c)
    ctx.corr('get_sigma_ratios', al, ctx.model.call(8, [K], [ls]), scale=float(np.abs(ls).max()) + 1e-300)
    G = pe.get_geopotential_weights(c, R)
    ctx.corr('get_geopotential_weights', G, ctx.model.call(9, [K], [ls, [R]]), scale=float(abs(R) * np.abs(ls).max()) + 1e-300)
    scale = float(abs(R) * np.abs(ls).max() * np.abs(T).sum(axis=0).max()) + 1e-300
    outs = {}
    for sparse in (0, 1):
        out = np.asarray(pe.get_geopotential_diff(jnp.asarray(T), c, R, method='sparse' if sparse else 'dense'))
        outs[sparse] = out
        for (idx, col), (_, ocol) in zip(util.columns(T, 0), util.columns(out, 0)):
            ctx.corr(f'get_geopotential_diff sparse={sparse}', ocol, ctx.model.call(10, [K, sparse], [ls, col, [R]]), scale=scale)
    # leading batch / time / ensemble axes in front of the level axis (level axis = -3), incl. batch == layers
    for lead in ((2,), (K,), (2, 3)):
        Tb = np.stack([T * (1 + 0.125 * i) for i in range(int(np.prod(lead)))]).reshape(lead + T.shape)
        for sparse in (0,):
            ob = np.asarray(pe.get_geopotential_diff(jnp.asarray(Tb), c, R, method='dense'))
            ok_shape = ob.shape == Tb.shape
            ctx.oracle('get_geopotential_diff keeps the shape of a batched temperature %s' % (list(lead),), ok_shape,
                       {'got': list(ob.shape), 'want': list(Tb.shape)})
            if ok_shape:
                want = np.stack([np.asarray(pe.get_geopotential_diff(jnp.asarray(t), c, R, method='dense'))
                                 for t in Tb.reshape((-1,) + T.shape)]).reshape(Tb.shape)
                ctx.oracle_close('get_geopotential_diff acts level-wise on each batch member %s' % (list(lead),), ob, want, scale=scale * 4)
    trap = np.asarray(sc.cumulative_log_sigma_integral(jnp.asarray(T), c, axis=0, downward=False))
    ctx.oracle_close('geopotential = R * trapezoid in log sigma', outs[0], R * trap, scale=scale)
    ctx.oracle_close('geopotential dense = cumulative-sum form', outs[0], outs[1], scale=scale)


RUNNERS = {'equidistant': r_equidistant, 'derived': r_derived, 'accept': r_accept, 'cumint': r_cumint, 'cumlog': r_cumlog, 'cdiff': r_cdiff,
           'cadv': r_cadv, 'upwind': r_upwind, 'geo': r_geo, 'int_data': r_int_data, 'long_axis': r_long_axis, 'transforms': r_transforms}
