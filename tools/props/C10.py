"""C10 - equivariance of the dynamics under the symmetries of the rotating sphere
(rotation about the polar axis by whole longitude grid steps, reflection about
the equator with vorticity as a pseudo-scalar).

* table obligations: the named hypotheses of Thm/Symmetry.v on the
  implementation's own tables (rotation of the real Fourier basis for every k,
  symmetric latitude nodes/weights, Legendre parity, cos/sin rows share the
  Legendre table, odd Coriolis table, equispaced longitudes from the offset);
* correspondence: the extracted actions (Model/Symmetry.v) against a numpy
  reference of the same actions, and the implementation's modal row bookkeeping;
* oracles: the property itself on the implementation - T(F(x)) = F(T(x)) for the
  transforms, every spectral operator (with the pseudo-scalar sign bookkeeping),
  filters, explicit/implicit tendencies, implicit inverse and multi-step
  trajectories of the dry / moist / shallow-water equations and the Held-Suarez
  forcing, with T = every grid-step rotation and the mirror."""
import numpy as np
from harness import util, dyn

THEOREMS = ['C10_rot_group', 'C10_rot_steps', 'C10_rot_inverse', 'C10_mir_involutive', 'C10_rot_mir_commute',
            'C10_synth_rot_equivariant', 'C10_analysis_rot_equivariant',
            'C10_synth_mir_equivariant', 'C10_analysis_mir_equivariant',
            'C10_nodal_pointwise_equivariant', 'C10_column_ops_equivariant',
            'C10_dlon_equivariant', 'C10_l_operators_equivariant', 'C10_lat_derivatives_rot_equivariant',
            'C10_lat_derivatives_mirror_sign', 'C10_vector_calculus_mirror', 'C10_vector_calculus_rot',
            'C10_coriolis_symmetry', 'C10_step_equivariant', 'C10_trajectory_equivariant',
            'C10_leapfrog_trajectory_equivariant', 'C10_integrators_equivariant',
            'C10_primeq_nodal_shift_equivariant', 'C10_primeq_nodal_mirror_equivariant', 'C10_get_cos_lat_vector_mirror',
            'C10_primeq_columns_of_mirrored_state', 'C10_primeq_tendency_mirror_equivariant',
            'C10_primeq_mirrored_state_tendency', 'C10_primeq_humidity_mirror',
            'C10_get_cos_lat_vector_rot', 'C10_primeq_columns_of_rotated_state', 'C10_primeq_tendency_rot_equivariant',
            'C10_primeq_rotated_state_tendency', 'C10_primeq_humidity_rot', 'C10_implicit_terms_equivariant',
            'C10_implicit_inverse_equivariant', 'C10_example',
            'C10_sw_nodal_equivariant', 'C10_sw_tendency_mirror_equivariant', 'C10_sw_explicit_terms_mirror_equivariant',
            'C10_sw_tendency_rot_equivariant', 'C10_sw_explicit_terms_rot_equivariant', 'C10_sw_example',
            'C10_H_parity_from_recurrence', 'C10_H_p_pairs_from_recurrence', 'C10_legendre_table_flip',
            'C10_synth_mir_equivariant_from_recurrence', 'C10_analysis_mir_equivariant_from_recurrence',
            'C10_synth_rot_equivariant_from_recurrence', 'C10_analysis_rot_equivariant_from_recurrence',
            'C10_primeq_tendency_mirror_equivariant_from_recurrence', 'C10_primeq_mirrored_state_tendency_from_recurrence',
            'C10_sw_explicit_terms_mirror_equivariant_from_recurrence', 'C10_sw_explicit_terms_rot_equivariant_from_recurrence',
            'C10_from_recurrence_example',
            'C10_model_is_source']
LEVEL = 'proof'
LEVEL_TEXT = ('machine-checked theorems (Coq), for every field and all sizes: the rotation tables form a group acting on '
              'modal arrays (bijective when c^2+s^2=1), the mirror is an involution commuting with rotations; synthesis and '
              'analysis are equivariant for both actions under the named table hypotheses; pointwise nodal products and '
              'column operators commute with node permutations; d_dlon, functions of l (laplacian, filters, clip), '
              'cos_lat_d_dlat and sec_lat_d_dlat_cos2 commute with rotations; the latitude derivatives anti-commute with the '
              'mirror parity, so grad maps scalars to (even, odd) vectors, div is a scalar, curl a pseudo-scalar and k-cross '
              'flips; every map built from equivariant F, G, G_inv by linear combinations (all integrators of '
              'time_integration.py, any tableau) is equivariant, hence k-step trajectories with equivariant filters. '
              'The composition is proved through the explicit primitive-equation tendencies for BOTH actions: every nodal '
              'expression of the column algebra of Model/PrimEq.v (dry, moist, cloud classes; all K, all level sets) is '
              'pointwise in the horizontal and has the mirror parity the modal stage expects, and the assembled '
              'temperature / tracer / lnps / divergence / vorticity tendencies (and humidity corrections) of the rotated '
              '(by k grid steps, orography rotated too) or mirrored modal state are the rotated / mirrored tendencies '
              '(vorticity as pseudo-scalar), with the concrete transforms and spectral operators under H_rot_table, '
              'H_p_pairs, H_rot_unit, paired recurrence weights, H_parity and H_nodes_sym; the implicit terms and the '
              'implicit inverse (column operators depending on l only) commute with both actions. '
              'ShallowWaterEquations.explicit_terms is modelled too (Model/ShallowWater.v: nodal algebra of one node and all '
              'layers, density ratios, orography, sec2_lat / Coriolis from sin(lat), assembly with the concrete transforms and '
              'spectral operators with their default clip=True) and proved mirror- and rotation-equivariant end to end on modal '
              'states (any number of layers, any densities, both layouts); that model is run against the implementation '
              '(arguments of to_modal recorded, whole output). '
              'The Legendre-table hypotheses H_parity and H_p_pairs are themselves THEOREMS about the recurrence of '
              'associated_legendre.evaluate (Model/Legendre.v, arithmetic regenerated from the source) for the table '
              'basis.p[a] = evaluate(M, L, x)[|m(a)|] of both layouts (Thm/SymmetryLegendre.v), given only that the inputs of the '
              'recurrence are symmetric (x[J-1-j] = -x[j], sqrt(1-x^2) table symmetric): the ..._from_recurrence corollaries '
              'restate the synthesis / analysis, primitive-equation and shallow-water equivariance theorems with no hypothesis '
              'about Legendre values; the implementation basis.p is compared with that recurrence model on every small grid. '
              'The table hypotheses are re-checked numerically on every explored grid; Held-Suarez '
              'explicit terms (no Coq model) and whole steps of the concrete operators are decided by the '
              'equivariance oracles on the implementation (exploration), for every grid-step rotation and the mirror.')
LEVEL_NOTE = ('theorems are about the Gallina models (Model/Symmetry.v actions, Model/SHT.v transforms, Model/Deriv.v '
              'operators, Model/Invariants.v step terms, Model/PrimEq.v nodal column algebra - the latter tied to the code by '
              'properties C04 / C03); rotation and mirror equivariance of the assembled explicit primitive-equation tendencies '
              'and of the implicit terms / inverse are proved; the shallow-water explicit terms are modelled (Model/ShallowWater.v, tied to '
              'the code by correspondence of the nodal stage and of the whole output) and proved equivariant; Held-Suarez explicit '
              'terms are explored (oracles); the ..._from_recurrence theorems assume EXACT symmetry of the latitude nodes: the '
              'Gauss nodes of the implementation (scipy roots_legendre) are bitwise symmetric, the equiangular nodes '
              '(np.sin of a linspace) only to rounding (a few ulp), so for equiangular grids the exact statement applies to the '
              'symmetrised nodes and the numerical H_parity obligation covers the rounding')
TECHNIQUE = 'Coq proof of equivariance of every building block and of the integrator term language; table obligations; equivariance oracles on the implementation'

TOL = 1e-11
import os
_DEBUG = bool(os.environ.get('C10_DEBUG'))
_WORST = {}


# ---------------------------------------------------------------------------
# numpy reference of the actions (independent of the Coq model: written from the
# basis documentation of fourier.real_basis / real_basis_with_zero_imag)
# ---------------------------------------------------------------------------
def layout(g):
    R = g.modal_shape[0]
    fast = (R % 2 == 0)
    rows = np.arange(R)
    if fast:
        wav = rows // 2; iscos = rows % 2 == 0
    else:
        wav = (rows + 1) // 2; iscos = rows % 2 == 1
    partner = np.where(iscos, rows + 1, rows - 1)
    partner[partner < 0] = 0
    return fast, wav, iscos, partner


def rot_tables(g, k, n=None):
    fast, wav, _, _ = layout(g)
    n = int(wav.max()) + 1 if n is None else n
    I = g.longitude_nodes
    j = np.arange(n)
    ang = 2 * np.pi * ((j * int(k)) % I) / I          # argument reduced in integer arithmetic (accurate for large wavenumbers)
    c, s = np.cos(ang), np.sin(ang)
    s[(j * int(k)) % I == 0] = 0.0
    return c, s


def rot_np(g, x, k):
    fast, wav, iscos, partner = layout(g)
    c, s = rot_tables(g, k)
    x = np.asarray(x, dtype=np.float64)
    sg = np.where(iscos, 1.0, -1.0)
    return c[wav][:, None] * x + (sg * s[wav])[:, None] * x[..., partner, :]


def mir_np(g, x, pseudo=False):
    fast, wav, _, _ = layout(g)
    x = np.asarray(x, dtype=np.float64)
    l = np.arange(g.modal_shape[1])
    sgn = np.where((l[None, :] + wav[:, None]) % 2 == 0, 1.0, -1.0)
    return (-1.0 if pseudo else 1.0) * sgn * x


def shift_np(g, z, k):
    z = np.asarray(z, dtype=np.float64); I = g.longitude_nodes
    out = z.copy()
    out[..., :I, :] = np.roll(z[..., :I, :], -k, axis=-2)
    return out


def flip_np(g, z):
    z = np.asarray(z, dtype=np.float64); J = g.latitude_nodes
    out = z.copy()
    out[..., :J] = z[..., :J][..., ::-1]
    return out


class Sym:
    """T = (mirror?) o (rotation by k steps), acting on modal arrays / nodal arrays / states."""
    def __init__(self, g, k=0, mirror=False):
        self.g = g; self.k = int(k); self.mirror = bool(mirror)
        self.name = ('mirror' if mirror else '') + ('+' if mirror and k else '') + (f'rot{k}' if k or not mirror else '')

    def modal(self, x, pseudo=False):
        x = np.asarray(x, dtype=np.float64)
        if x.ndim < 2: return x
        y = rot_np(self.g, x, self.k) if self.k else x
        return mir_np(self.g, y, pseudo) if self.mirror else y

    def nodal(self, z, odd=False):
        y = shift_np(self.g, z, self.k) if self.k else np.asarray(z, dtype=np.float64)
        return (-1.0 if odd else 1.0) * flip_np(self.g, y) if self.mirror else y

    def vec(self, v):
        """(u, v) modal components of a true vector: u even, v odd under the mirror."""
        return (self.modal(v[0]), self.modal(v[1], pseudo=True))

    def state(self, st):
        """states: every field is a scalar except `vorticity` (pseudo-scalar); scalars of rank < 2 (sim_time) are untouched"""
        import dataclasses
        jax = dyn.mods()['jax']
        tm = lambda v, ps: jax.tree_util.tree_map(lambda leaf: self.modal(leaf, pseudo=ps), v)
        if dataclasses.is_dataclass(st):
            return type(st)(**{f.name: tm(getattr(st, f.name), f.name == 'vorticity') for f in dataclasses.fields(st)})
        return tm(st, False)


def _grid(a):
    kw = dict(a.get('fast_kw', {}))
    if a.get('mesh'):                    # device mesh (z, x, y): FastSphericalHarmonics with model parallelism
        m = dyn.mods(); jax = m['jax']; sh = m['sh']
        z, x, y = a['mesh']
        mesh = jax.sharding.Mesh(np.array(jax.devices()[: z * x * y]).reshape(z, x, y), ('z', 'x', 'y'))
        return sh.Grid(longitude_wavenumbers=a['M'], total_wavenumbers=a['L'], longitude_nodes=a['I'], latitude_nodes=a['J'],
                       latitude_spacing=a.get('spacing', 'gauss'), longitude_offset=a.get('offset', 0.0), radius=a.get('radius'),
                       spherical_harmonics_impl=sh.FastSphericalHarmonics, spmd_mesh=mesh)
    return dyn.grid(M=a['M'], L=a['L'], I=a['I'], J=a['J'], spacing=a.get('spacing', 'gauss'), impl=a.get('impl', 'real'),
                    offset=a.get('offset', 0.0), radius=a.get('radius'), **kw)


def indep_sin_lat(spacing, J):
    """sin(latitude) of the nodes from the grid DEFINITION (not from the implementation's tables)"""
    if spacing == 'gauss':          # Newton iteration on the three-term recurrence of P_J (extended precision), Tricomi start
        x = np.cos(np.pi * (np.arange(J, 0, -1) - 0.25) / (J + 0.5)).astype(np.longdouble)
        for _ in range(6):
            p0 = np.ones_like(x); p1 = x.copy()
            for n in range(2, J + 1):
                p0, p1 = p1, ((2 * n - 1) * x * p1 - (n - 1) * p0) / n
            x = x - p1 * (x * x - 1) / (J * (x * p1 - p0)) if J > 1 else x * 0
        return x.astype(np.float64)
    if spacing == 'equiangular':
        return np.sin(-np.pi / 2 + (np.arange(J) + 0.5) * np.pi / J)
    return np.sin(-np.pi / 2 + np.arange(J) * np.pi / (J - 1))


def _sin_lat_padded(g, a):
    out = np.zeros(g.nodal_shape[1]); out[: g.latitude_nodes] = indep_sin_lat(a.get('spacing', 'gauss'), g.latitude_nodes)
    return out


def _basis_tables(g):
    """(f [I,R], p [R,J,L]) of the implementation on the un-padded index ranges, rows expanded."""
    b = g.spherical_harmonics.basis
    fast, wav, iscos, partner = layout(g)
    I, J = g.longitude_nodes, g.latitude_nodes
    f = np.asarray(b.f, dtype=np.float64)
    if f.ndim == 3:                      # stacked_fourier_transforms: (i, sign, m) order 'F'
        f = np.reshape(f, (f.shape[0], -1), order='F')
    p = np.asarray(b.p, dtype=np.float64)
    if fast:
        p = np.repeat(p, 2, axis=0)
    return f[:I], p[:, :J, :], np.asarray(b.w, dtype=np.float64)[:J]


GRIDS_QUICK = [dict(M=4, L=5, I=13, J=7, spacing='gauss', impl='real', offset=0.0),
               dict(M=4, L=5, I=13, J=7, spacing='gauss', impl='fast', offset=0.25),
               dict(M=3, L=4, I=10, J=6, spacing='equiangular', impl='real', offset=-0.5),
               dict(M=3, L=4, I=10, J=5, spacing='equiangular_with_poles', impl='fast', offset=0.1),
               # the stacked Fourier path (default only above 128 wavenumbers) must be exercised explicitly
               dict(M=4, L=5, I=13, J=7, spacing='gauss', impl='fast', offset=0.0, fast_kw=dict(stacked_fourier_transforms=True)),
               # longitude_nodes = 2 (wavenumbers - 1): the top wavenumber sits on the Nyquist frequency; radius != 1
               dict(M=4, L=5, I=6, J=7, spacing='gauss', impl='real', offset=0.0, radius=2.5),
               # size thresholds above the test-suite, skinny shapes: many latitudes; 128 < M <= 256 (stacked Fourier by DEFAULT)
               dict(M=2, L=3, I=8, J=300, spacing='gauss', impl='real', offset=0.0, light=True),
               dict(M=130, L=131, I=260, J=4, spacing='gauss', impl='fast', offset=0.0, light=True)]
GRIDS_THOROUGH = GRIDS_QUICK + [
    dict(M=2, L=3, I=6, J=520, spacing='equiangular', impl='fast', offset=0.0),
    dict(M=3, L=4, I=8, J=1030, spacing='gauss', impl='real', offset=0.0, light=True),
    dict(M=2, L=3, I=8, J=300, spacing='gauss', impl='fast', offset=0.0),
    dict(M=130, L=131, I=260, J=4, spacing='gauss', impl='fast', offset=0.0),
    dict(M=130, L=140, I=259, J=5, spacing='equiangular', impl='real', offset=0.0, light=True),
    dict(M=260, L=261, I=520, J=3, spacing='gauss', impl='fast', offset=0.0, light=True),          # above the stacked range again
    dict(M=2, L=3, I=96, J=4, spacing='gauss', impl='real', offset=0.0),                 # wide
    dict(M=4, L=5, I=13, J=7, spacing='gauss', impl='fast', offset=0.0, mesh=[1, 2, 2]),
    dict(M=3, L=4, I=10, J=6, spacing='equiangular', impl='fast', offset=0.2, mesh=[2, 2, 2], radius=2.0),
    dict(M=2, L=3, I=4, J=48, spacing='equiangular', impl='fast', offset=0.0),           # tall
    dict(M=3, L=7, I=10, J=9, spacing='gauss', impl='real', offset=0.0, radius=0.5),     # total_wavenumbers > M + 1
    dict(M=4, L=5, I=13, J=7, spacing='gauss', impl='fast', offset=0.0, fast_kw=dict(base_shape_multiple=8)),
    dict(M=4, L=5, I=6, J=6, spacing='equiangular', impl='fast', offset=0.3, fast_kw=dict(base_shape_multiple=4), radius=3.0),
    dict(M=4, L=5, I=12, J=6, spacing='gauss', impl='real', offset=0.0),
    dict(M=5, L=6, I=16, J=8, spacing='gauss', impl='fast', offset=1.0),
    dict(M=4, L=6, I=13, J=9, spacing='equiangular', impl='fast', offset=0.0),
    dict(M=4, L=5, I=14, J=8, spacing='equiangular_with_poles', impl='real', offset=2.0),
    dict(M=6, L=7, I=19, J=10, spacing='gauss', impl='real', offset=-0.3),
    dict(M=4, L=5, I=13, J=7, spacing='gauss', impl='fast', offset=0.0, fast_kw=dict(base_shape_multiple=4)),
    dict(M=4, L=5, I=13, J=7, spacing='gauss', impl='fast', offset=0.0, fast_kw=dict(stacked_fourier_transforms=False)),
]
DYN_GRID = dict(M=4, L=5, I=13, J=7, spacing='gauss', impl='real', offset=0.0)


SW_MODEL_QUICK = [
    dict(M=3, L=4, I=8, J=5, spacing='gauss', impl='real', layers=1, dens=[1.0], orog=False, omega=1.0),
    dict(M=3, L=4, I=8, J=4, spacing='gauss', impl='real', layers=2, dens=[1.0, 1.25], orog=True, omega=1.0),
    dict(M=3, L=4, I=8, J=4, spacing='gauss', impl='fast', layers=3, dens=[1.0, 1.3125, 2.125], orog=True, omega=0.75, radius=2.5),
    # densities that are NOT non-decreasing: both branches of np.minimum(., 1) below and above the diagonal
    dict(M=3, L=5, I=7, J=6, spacing='equiangular', impl='real', layers=3, dens=[1.5, 1.0, 1.25], orog=True, omega=0.5, offset=0.25),
]
SW_MODEL_THOROUGH = SW_MODEL_QUICK + [
    dict(M=4, L=5, I=10, J=6, spacing='gauss', impl='fast', layers=3, dens=[1.0, 1.0, 1.75], orog=True, omega=2.0, radius=0.5),
    dict(M=4, L=6, I=9, J=7, spacing='gauss', impl='real', layers=2, dens=[2.0, 3.0], orog=False, omega=1.0),
    dict(M=2, L=3, I=6, J=4, spacing='equiangular', impl='fast', layers=4, dens=[1.0, 1.125, 1.25, 4.0], orog=True, omega=1.0, offset=-0.5),
]


def generate(ctx):
    rng = ctx.rng
    quick = ctx.tier == 'quick'
    grids = GRIDS_QUICK if quick else GRIDS_THOROUGH
    for n, cfg in enumerate(SW_MODEL_QUICK if quick else SW_MODEL_THOROUGH):
        ctx.count('sw_model:%s/%d layers' % (cfg['impl'], cfg['layers']))
        yield 'sw_model', dict(cfg, seed=int(np.random.Generator(np.random.PCG64([ctx.seed, 1010, n])).integers(0, 2 ** 31)))
    if os.environ.get('C10_ONLY') == 'sw_model':          # (builder's switch for quick self-tests; never set by ./check)
        return
    for g in grids:
        ctx.count('grid:%s/%s' % (g['impl'], g['spacing']))
        yield 'tables', dict(g)
        yield 'actions', dict(g, seed=int(rng.integers(0, 2 ** 31)))
        yield 'sht', dict(g, seed=int(rng.integers(0, 2 ** 31)))
        if not g.get('mesh') and not (g.get('light') and quick):   # (eager shard_map operators are slow: sharded = unsharded is C12's business)
            yield 'ops', dict(g, seed=int(rng.integers(0, 2 ** 31)))
    for g in (grids[:2] + grids[5:6]) if quick else [gg for gg in grids[:10] if not gg.get('mesh')]:
        yield 'radius', dict(g, seed=int(rng.integers(0, 2 ** 31)))
    for g in grids[:2] if quick else grids[:3]:
        yield 'diag', dict(g, seed=int(rng.integers(0, 2 ** 31)))
    def dyn_case(kind, impl='real', spacing='gauss', integrator=None, filters=(), nsteps=0, ks='all', **extra):
        a = dict(DYN_GRID, impl=impl, spacing=spacing, kind=kind, integrator=integrator, filters=list(filters), nsteps=nsteps,
                 ks=ks, seed=int(rng.integers(0, 2 ** 31)), **extra)
        ctx.count('dynamics:' + kind)
        return 'dynamics', a
    if quick:
        yield dyn_case('dry', integrator='imex_rk_sil3', filters=['exponential'], nsteps=3)
        yield dyn_case('moist', integrator='crank_nicolson_rk3', filters=['diffusion'], nsteps=2)
        yield dyn_case('sw', integrator='crank_nicolson_rk2', filters=['exponential'], nsteps=3)
        yield dyn_case('hs')
        yield dyn_case('dry', impl='fast', spacing='equiangular', integrator='backward_forward_euler', nsteps=1)
        # planets with 2*Omega != 1 in model units (twice / half the Earth's rotation rate)
        yield dyn_case('dry', integrator='backward_forward_euler', nsteps=2, ks=2, omega_factor=2.0, reassign=True, levels='near_equi', vmap=True)
        yield dyn_case('moist', ks=2, omega_factor=0.5, levels='jitter')
        yield dyn_case('sw', ks=2, omega_factor=2.0, reassign=True)
        yield dyn_case('dry', impl='fast', fast_kw=dict(stacked_fourier_transforms=True))
        # options, sizes, structured states (self-review checklist)
        yield dyn_case('sw', ks=2, layers=3, radius=2.5, integrator='backward_forward_euler', nsteps=2, variants=['rest', 'single_top', 'zonal'], vmap=True)
        yield dyn_case('sw', ks=2, layers=1)
        yield dyn_case('moist', ks=2, amp='big', eq_kw=dict(vertical_advection='upwind'), eta=-0.03, reassign=True, levels='thin', vmap=True,
                       variants=['zero_q', 'rest', 'single_top', 'sym'])
        yield dyn_case('dry', ks=2, eq_kw=dict(include_vertical_advection=False, vertical_matmul_method='sparse'), K=2, radius=0.5, levels='loose_ends')
        yield dyn_case('dry', ks=2, impl='fast', fast_kw=dict(base_shape_multiple=4), integrator='crank_nicolson_rk2',
                       filters=['exponential'], nsteps=2, scale='custom')
        yield dyn_case('hs', ks=2, hs_params='alt', amp='big', levels='f32')
    else:
        for layers in (1, 2, 3, 4):
            yield dyn_case('sw', layers=layers, radius=[1.0, 2.5, 0.5, 1.0][layers - 1], integrator='imex_rk_sil3', filters=['exponential'],
                           nsteps=2, variants=['rest', 'single_top', 'zonal', 'sym'])
        for kind in ('dry', 'moist', 'cloud'):
            yield dyn_case(kind, amp='big', eq_kw=dict(vertical_advection='upwind'), integrator='crank_nicolson_rk3', nsteps=2, eta=-0.03,
                           variants=['zero_q', 'rest', 'single_top', 'zonal', 'sym'])
            yield dyn_case(kind, eq_kw=dict(include_vertical_advection=False, vertical_matmul_method='sparse'), integrator='imex_rk_sil3',
                           nsteps=2, radius=2.0)
            yield dyn_case(kind, impl='fast', fast_kw=dict(base_shape_multiple=4), integrator='crank_nicolson_rk2', filters=['exponential'],
                           nsteps=2, scale='custom', amp='big')
            yield dyn_case(kind, eq_kw=dict(vertical_matmul_method='dense'), K=1, ks=3)
            yield dyn_case(kind, K=2, ks=3, integrator='backward_forward_euler', nsteps=2)
            yield dyn_case(kind, K=5, ks=3, M=3, L=7, I=10, J=9, integrator='backward_forward_euler', nsteps=1)
        yield dyn_case('hs', hs_params='alt', amp='big')
        for lv in ('near_equi', 'jitter', 'f32', 'thin', 'loose_ends'):
            yield dyn_case('dry', levels=lv, K=4, integrator='crank_nicolson_rk3', nsteps=2, vmap=True)
            yield dyn_case('moist', levels=lv, K=3, integrator='imex_rk_sil3', filters=['exponential'], nsteps=2, eq_kw=dict(vertical_advection='upwind'))
            yield dyn_case('hs', levels=lv, K=5, ks=3)
        yield dyn_case('sw', layers=3, vmap=True, ks=3)
        yield dyn_case('cloud', vmap=True, ks=3, amp='big')
        yield dyn_case('hs', hs_params='alt', impl='fast', fast_kw=dict(base_shape_multiple=4), K=5)
        for kind in ('dry', 'time', 'moist', 'cloud', 'sw'):
            for integ in dyn.INTEGRATORS:
                yield dyn_case(kind, integrator=integ, filters=['exponential', 'diffusion'], nsteps=3)
        yield dyn_case('dry', integrator='semi_implicit_leapfrog', filters=['exponential'], nsteps=3)
        yield dyn_case('sw', integrator='semi_implicit_leapfrog', nsteps=3)
        yield dyn_case('hs')
        yield dyn_case('hs', spacing='equiangular')
        for kind in ('dry', 'moist', 'sw'):
            yield dyn_case(kind, impl='fast', spacing='equiangular', integrator='imex_rk_sil3', filters=['exponential'], nsteps=2)
            yield dyn_case(kind, impl='real', spacing='equiangular', integrator='crank_nicolson_rk4', nsteps=2, I=12, J=8)  # (grids with pole nodes have sec2_lat = inf: no dynamics there)
        yield dyn_case('dry', integrator='crank_nicolson_rk2', nsteps=2, I=12, J=6)
        for kind in ('dry', 'moist', 'sw'):
            for of in (2.0, 0.5):
                yield dyn_case(kind, integrator='imex_rk_sil3', filters=['exponential'], nsteps=2, omega_factor=of, reassign=True)
        yield dyn_case('dry', integrator='imex_rk_sil3', nsteps=2, M=5, L=6, I=16, J=8, impl='fast')


def _legendre_from_recurrence(ctx, a, g, fast, p, tag):
    """Inputs of the Legendre recurrence (Thm/SymmetryLegendre.v H_x_antisym / H_y_sym) on the implementation's own node
    function, and basis.p against the recurrence model leg_basis_p (Model/Legendre.v through Extract/ExC10.v 40-43)."""
    sh = dyn.mods()['sh']
    M, L, J = int(g.longitude_wavenumbers), int(g.total_wavenumbers), int(g.latitude_nodes)
    spacing = a.get('spacing', 'gauss')
    x = np.asarray(sh.get_latitude_nodes(J, spacing)[0], dtype=np.float64).copy()      # what basis hands to evaluate(n_m, n_l, x)
    y = np.sqrt(1 - x * x)                                                               # first statement of _evaluate_rhombus
    ctx.oracle('the latitude axis of the grid is the node table handed to associated_legendre.evaluate (bitwise)',
               bool(np.array_equal(np.asarray(g.nodal_axes[1], dtype=np.float64)[:J], x)), None)
    ex = float(np.abs(x[::-1] + x).max()); ey = float(np.abs(y[::-1] - y).max())
    if spacing == 'gauss':
        # measured on the unchanged tree: scipy.special.roots_legendre returns BITWISE antisymmetric nodes (n = 2..1030)
        ok = bool(np.array_equal(x[::-1], -x) and np.array_equal(y[::-1], y)); how = 'bitwise'
        detail = {'x_asym': ex, 'y_asym': ey}
    else:
        # np.sin(np.linspace(..)) is antisymmetric only to rounding (measured: up to 2 ulp(1) in x on the unchanged tree):
        # tolerance 4 ulp(1) = 2^-50 in x, propagated through y = sqrt(1 - x^2) (|dy| <= |x| |dx| / y, plus one rounding)
        pos = y > 0
        amp = float(np.max(np.abs(x[pos]) / y[pos])) if pos.any() else 0.0
        tx = 2.0 ** -50; ty = 2.0 ** -50 * (1.0 + amp)
        ok = bool(ex <= tx and ey <= ty); how = 'to rounding: |x[J-1-j]+x[j]| <= 2^-50, |y[J-1-j]-y[j]| <= 2^-50 (1 + max|x|/y)'
        detail = {'x_asym': ex, 'tol_x': tx, 'y_asym': ey, 'tol_y': ty}
    ctx.table_obligation(f'H_nodes_sym_exact (inputs of the Legendre recurrence: x antisymmetric, sqrt(1-x^2) symmetric; {how}) ' + tag, ok, detail)
    ctx.count('recurrence inputs:' + ('bitwise symmetric' if (ex == 0.0 and ey == 0.0) else 'symmetric to rounding'))
    R, _, C = p.shape
    if p.size > 1500 or L > 8:
        ctx.count('basis.p vs recurrence model: skipped (large table; C01 compares evaluate itself)'); return
    r = ctx.model.call(40, [M, L], [])
    if r is None or not int(r[1]):
        ctx.exact('associated_legendre.evaluate accepts the sizes of the grid (model: legendre_defined)', True, False); return
    keys = r[2:]
    vals = [float(np.sqrt(np.float64(float(k)))) for k in keys]
    arrs = [x, y, keys, vals]
    pm = float(np.abs(p).max()) + 1e-300
    mo = ctx.model.call(41, [int(fast), R, M, L, J, C], arrs)
    ctx.corr('basis.p (rows expanded, zero padding included) = recurrence model leg_basis_p on the same node / sqrt tables',
             p, mo, scale=pm)
    res = ctx.model.call(42, [int(fast), R, M, L, J, C], arrs)
    if ex == 0.0 and ey == 0.0:
        ctx.exact('parity residual of the recurrence model on bitwise symmetric nodes is exactly zero (theorem H_parity_from_recurrence replayed)',
                  bool(res is not None and all(v == 0 for v in res)), True)
    else:
        ctx.corr('parity residual of the recurrence model on nodes symmetric to rounding vs zero', np.zeros(p.shape), res, scale=pm)
    nd = ctx.model.call(43, [], [x, y])
    ctx.corr('y*y = generated radicand 1 - x*x of the node table', y * y, nd[:J], scale=1.0)
    ctx.corr('node symmetry residuals x[J-1-j] + x[j], y[J-1-j] - y[j]: model definition vs numpy',
             np.concatenate([x[::-1] + x, y[::-1] - y]), nd[J:], scale=1.0)
    ctx.count('basis.p vs recurrence model')


# ---------------------------------------------------------------------------
# table obligations
# ---------------------------------------------------------------------------
def r_tables(ctx, a):
    g = _grid(a)
    fast, wav, iscos, partner = layout(g)
    I, J = g.longitude_nodes, g.latitude_nodes
    R, C = g.modal_shape
    f, p, w = _basis_tables(g)
    tag = f"[{a['impl']},{a.get('spacing')},M{a['M']}L{a['L']}I{I}J{J}]"
    # the implementation's modal axes agree with the row bookkeeping of the model
    mo = ctx.model.call(8, [int(fast), R])
    ctx.exact('row bookkeeping (wavenumber, cos row, partner) vs numpy reference',
              np.concatenate([wav, iscos.astype(int), partner]).tolist(), [int(v) for v in mo])
    mrows = np.abs(np.asarray(g.modal_axes[0]))
    lim = 2 * g.longitude_wavenumbers if fast else R
    ctx.oracle('|modal_axes m| of every (unpadded) row is the wavenumber of the cos/sin pair it belongs to',
               bool(np.all(mrows[:lim] == wav[:lim])), {'modal_axes': mrows.tolist(), 'wav': wav.tolist()})
    # H_rot_table for every k
    sg = np.where(iscos, 1.0, -1.0)
    worst = 0.0
    for k in range(I):
        c, s = rot_tables(g, k)
        res = np.roll(f, -k, axis=0) - (c[wav][None, :] * f - (sg * s[wav])[None, :] * f[:, partner])
        worst = max(worst, float(np.abs(res).max()))
        if k in (1, I - 1) and f.size <= 4096:          # (exact-rational model only on small tables; large ones: numpy reference)
            ctx.corr(f'H_rot_table residual k={k}: model definition vs numpy', res,
                     ctx.model.call(6, [int(fast), I, f.shape[1], k], [c, s, f.ravel()]), scale=1.0)
    # basis entries are exp(2 pi i j k / I) with phase index up to M*I: for the size class M*I > 4096 (not visited before)
    # the accuracy of the implementation's own table scales with that index; small grids keep 1e-13
    tol_rot = 1e-13 * max(1.0, g.longitude_wavenumbers * I / 4096.0)
    ctx.table_obligation('H_rot_table ' + tag, worst <= tol_rot, {'max_residual_over_k': worst, 'tol': tol_rot})
    c1, s1 = rot_tables(g, 1)
    ctx.table_obligation('H_rot_unit (c0=1, s0=0, c^2+s^2=1) ' + tag,
                         c1[0] == 1.0 and s1[0] == 0.0 and float(np.abs(c1 ** 2 + s1 ** 2 - 1).max()) <= 1e-14,
                         {'c': c1.tolist(), 's': s1.tolist()})
    # latitude nodes against the grid definition (independent of the implementation)
    e0 = float(np.abs(np.asarray(g.nodal_axes[1], dtype=np.float64)[:J] - indep_sin_lat(a.get('spacing', 'gauss'), J)).max())
    ctx.table_obligation('H_lat_nodes (sin(lat) nodes = definition of the spacing) ' + tag, e0 <= 1e-14, {'err': e0})
    # H_nodes_sym
    sin_lat = np.asarray(g.nodal_axes[1], dtype=np.float64)[:J]
    e1 = float(np.abs(w - w[::-1]).max()); e2 = float(np.abs(sin_lat + sin_lat[::-1]).max())
    ctx.table_obligation('H_nodes_sym (weights symmetric, sin(lat) antisymmetric) ' + tag, e1 <= 1e-14 and e2 <= 1e-14,
                         {'w_asym': e1, 'sinlat_asym': e2})
    e3 = float(np.abs(np.asarray(g.cos_lat)[:J] - np.asarray(g.cos_lat)[:J][::-1]).max())
    with np.errstate(all='ignore'):
        s2 = np.asarray(g.sec2_lat, dtype=np.float64)[:J]
        e4 = float(np.max(np.where(s2 == s2[::-1], 0.0, np.abs(s2 / s2[::-1] - 1))))
    ctx.table_obligation('H_metric_sym (cos_lat, sec2_lat symmetric) ' + tag, e3 <= 1e-14 and e4 <= 1e-12, {'cos': e3, 'sec2': e4})
    # H_parity, H_p_pairs
    l = np.arange(p.shape[2])
    sgn = np.where((l[None, :] + wav[:, None]) % 2 == 0, 1.0, -1.0)[: p.shape[0]]
    resp = p[:, ::-1, :] - sgn[:, None, :] * p
    pm = float(np.abs(p).max())
    ctx.table_obligation('H_parity ' + tag, float(np.abs(resp).max()) <= 1e-13 * pm, {'max_residual': float(np.abs(resp).max()), 'scale': pm})
    if p.size <= 8192:                                  # (exact-rational model only on small tables; large ones: numpy reference)
        ctx.corr('H_parity residual: model definition vs numpy', resp,
                 ctx.model.call(7, [int(fast), p.shape[0], J, p.shape[2]], [p.ravel()]), scale=pm)
    ctx.table_obligation('H_p_pairs (cos and sin rows share the Legendre table) ' + tag,
                         bool(np.all(p == p[partner[: p.shape[0]]])), None)
    _legendre_from_recurrence(ctx, a, g, fast, p, tag)
    # derivative recurrence weights: same for the two rows of a pair (needed by the rotation lemmas of D1/D2)
    wa, wb = g._derivative_recurrence_weights
    nz = wav > 0
    ctx.table_obligation('H_weights_pairs (recurrence weights agree on cos/sin partner rows) ' + tag,
                         bool(np.all(wa[nz] == wa[partner][nz]) and np.all(wb[nz] == wb[partner][nz])), None)
    # longitudes: equispaced from the offset
    lon = np.asarray(g.longitudes, dtype=np.float64)[:I]
    e5 = float(np.abs(lon - (a.get('offset', 0.0) + 2 * np.pi * np.arange(I) / I)).max())
    ctx.table_obligation('H_lon_nodes (longitudes = offset + 2 pi i / I) ' + tag, e5 <= 1e-14, {'err': e5, 'first': float(lon[0])})
    # Coriolis table: model vs implementation, invariant under shifts, odd under reversal
    c = dyn.coords(g, [0.0, 0.5, 1.0]); specs = dyn.pe_specs()
    gc = c.horizontal            # (the coordinate system's own grid: un-sharded copy when g carries a device mesh)
    eq = dyn.pe_equation('dry', c, specs, [250.0, 250.0])
    cor = np.asarray(eq.coriolis_parameter, dtype=np.float64)
    om = float(specs.angular_velocity)
    mo = ctx.model.call(5, [gc.nodal_shape[0], gc.nodal_shape[1]], [[om], _sin_lat_padded(gc, a)])
    ctx.corr('coriolis_parameter (primitive equations) vs model', cor, mo, scale=2 * abs(om))
    pe = dyn.mods()['pe']; scales = dyn.mods()['scales']
    for fac in (2.0, 0.5):
        specs2 = pe.PrimitiveEquationsSpecs.from_si(angular_velocity_si=fac * scales.ANGULAR_VELOCITY)
        eq2 = dyn.pe_equation('dry', c, specs2, [250.0, 250.0])
        om2 = float(specs2.angular_velocity)
        mo3 = ctx.model.call(5, [gc.nodal_shape[0], gc.nodal_shape[1]], [[om2], _sin_lat_padded(gc, a)])
        for n in (1, 2):
            ctx.corr(f'coriolis_parameter (primitive equations, {fac} x Earth rotation, read #{n} on the same coordinates) vs model',
                     np.asarray(eq2.coriolis_parameter, dtype=np.float64), mo3, scale=2 * abs(om2))
    swc = dyn.layer_coords(g, 1)
    sweq = dyn.sw_equation(swc, [1.0], [1.0], omega=0.75)
    cor2 = np.asarray(sweq.coriolis_parameter, dtype=np.float64)
    mo2 = ctx.model.call(5, [gc.nodal_shape[0], gc.nodal_shape[1]], [[0.75], _sin_lat_padded(gc, a)])
    ctx.corr('coriolis_parameter (shallow water) vs model', cor2, mo2, scale=1.5)
    for nm, cc in (('primitive equations', cor), ('shallow water', cor2)):
        ctx.oracle_close(f'Coriolis field invariant under longitude shifts ({nm})', shift_np(gc, cc, 1), cc, tol_rel=1e-14)
        ctx.oracle_close(f'Coriolis field odd under latitude reversal ({nm})', flip_np(gc, cc)[:I, :J], -cc[:I, :J], tol_rel=1e-14)


# ---------------------------------------------------------------------------
# correspondence of the extracted actions
# ---------------------------------------------------------------------------
def r_actions(ctx, a):
    g = _grid(a); rng = np.random.Generator(np.random.PCG64(a['seed']))
    fast, wav, iscos, partner = layout(g)
    R, C = g.modal_shape; In, Jn = g.nodal_shape; I = g.longitude_nodes
    x = util.small_rationals(rng, (R, C))
    for k in ([1] if a.get('light') else sorted({1, int(rng.integers(0, I)), I - 1})):
        c, s = rot_tables(g, k)
        ctx.corr(f'rot_modal k={k}', rot_np(g, x, k), ctx.model.call(0, [int(fast), R, C], [c, s, x.ravel()]), scale=4.0)
    for ps in ((1,) if a.get('light') else (0, 1)):
        ctx.corr(f'mir_modal pseudo={ps}', mir_np(g, x, bool(ps)), ctx.model.call(1, [int(fast), R, C, ps], [x.ravel()]), scale=2.0)
    if (In, Jn) == (I, g.latitude_nodes):
        z = util.small_rationals(rng, (In, Jn))
        for k in (1, I - 1, int(rng.integers(0, I))):
            ctx.exact(f'shift_lon k={k}', shift_np(g, z, k).ravel().tolist(), [float(v) for v in ctx.model.call(2, [In, Jn, k], [z.ravel()])])
        ctx.exact('flip_lat', flip_np(g, z).ravel().tolist(), [float(v) for v in ctx.model.call(3, [In, Jn], [z.ravel()])])
    if a.get('light'): return          # (large arrays: one rotation, one mirror through the exact model; the rest on small grids)
    # stack action, composed
    xs = util.small_rationals(rng, (2, R, C))
    k = int(rng.integers(1, I)); c, s = rot_tables(g, k)
    ctx.corr('mirror o rotation on a stack (pseudo-scalar)', Sym(g, k, True).modal(xs, pseudo=True),
             ctx.model.call(9, [int(fast), 2, R, C, 1], [c, s, xs.ravel()]), scale=4.0)
    # rotation by k steps = k-fold composition of the one-step tables (angle addition)
    c1, s1 = rot_tables(g, 1); n = len(c1)
    for k in (2, 5):
        ck, sk = rot_tables(g, k)
        ctx.corr(f'rot tables of k={k} steps from one step (angle addition)', np.concatenate([ck, sk]),
                 ctx.model.call(4, [k, n], [c1, s1]), scale=1.0, tol_rel=1e-13)


# ---------------------------------------------------------------------------
# oracles: transforms and spectral operators of the implementation
# ---------------------------------------------------------------------------
def _syms(g, rng, ks='all'):
    I = g.longitude_nodes
    kk = list(range(I)) if ks == 'all' else sorted({1, I - 1} | {int(rng.integers(0, I)) for _ in range(int(ks))})
    out = [Sym(g, k) for k in kk]
    out.append(Sym(g, 0, True))
    out.append(Sym(g, int(rng.integers(1, I)), True))
    return out


def _close(ctx, clause, lhs, rhs, floor=0.0):
    """tree-wise comparison, tolerance TOL relative to the scale of each field"""
    la = dyn.tree_leaves(lhs); lb = dyn.tree_leaves(rhs)
    ok = len(la) == len(lb)
    if not ok:
        return ctx.oracle(clause, False, 'tree structures differ')
    fl = [float(np.max(np.abs(np.asarray(t)))) if np.size(t) else 0.0 for t in dyn.tree_leaves(floor)] if not isinstance(floor, float) else None
    for n, (u, v) in enumerate(zip(la, lb)):
        u = np.asarray(u, dtype=np.float64); v = np.asarray(v, dtype=np.float64)
        sc = max(float(np.max(np.abs(u))) if u.size else 0.0, float(np.max(np.abs(v))) if v.size else 0.0,
                 (fl[n] if fl is not None and n < len(fl) else (floor if isinstance(floor, float) else 0.0)), 1e-300)
        if not (np.all(np.isfinite(u)) and np.all(np.isfinite(v))):
            return ctx.oracle(clause, False, f'leaf {n}: non-finite values')
        if _DEBUG:
            _WORST[clause] = max(_WORST.get(clause, 0.0), float(np.max(np.abs(u - v))) / sc if u.size else 0.0)
        if not ctx.oracle_close(clause, u, v, scale=sc, tol_rel=TOL):
            return False
    return True


def r_sht(ctx, a):
    g = _grid(a); rng = np.random.Generator(np.random.PCG64(a['seed']))
    I, J = g.longitude_nodes, g.latitude_nodes
    for lead in (((2,), ()) if a.get('mesh') else ((2,), (), (2, 3))):           # field ranks 2..4, different content per slice
        x = dyn.modal_field(rng, g, lead, degree=g.total_wavenumbers - 1)
        z = np.zeros(lead + tuple(g.nodal_shape)); z[..., :I, :J] = util.small_rationals(rng, lead + (I, J))
        zx = np.asarray(g.to_nodal(x)); az = np.asarray(g.to_modal(z))
        for T in (_syms(g, rng) if lead == (2,) and not a.get('mesh') and not a.get('light') else _syms(g, rng, ks=1)):
            _close(ctx, 'to_nodal is equivariant: to_nodal(T x) = T to_nodal(x)', np.asarray(g.to_nodal(T.modal(x))), T.nodal(zx))
            _close(ctx, 'to_modal is equivariant: to_modal(T z) = T to_modal(z)', np.asarray(g.to_modal(T.nodal(z))), T.modal(az))
            _close(ctx, 'integrate is invariant: integrate(T z) = integrate(z)', np.asarray(g.integrate(T.nodal(z))), np.asarray(g.integrate(z)),
                   floor=float(np.abs(z).max()) * (g.radius ** 2))
            ctx.count('sym:' + ('mirror' if T.mirror else 'rot'))
        ctx.count('rank:%d' % (len(lead) + 2))
        if lead == (2,):
            # transformation contexts: the same relations under jax.jit and jax.vmap, shapes under jax.eval_shape
            jax = dyn.mods()['jax']; jnp = dyn.mods()['jnp']
            T = Sym(g, int(rng.integers(1, g.longitude_nodes)), True)
            for nm, fn, arg, want in (('to_nodal', g.to_nodal, T.modal(x), T.nodal(zx)), ('to_modal', g.to_modal, T.nodal(z), T.modal(az))):
                _close(ctx, f'{nm} is equivariant under jax.jit: jit({nm})(T x) = T {nm}(x)', np.asarray(jax.jit(fn)(jnp.asarray(arg))), want)
                if not a.get('mesh'):
                    _close(ctx, f'{nm} is equivariant under jax.vmap over the leading axis', np.asarray(jax.vmap(fn)(jnp.asarray(arg))), want)
                ctx.oracle(f'jax.eval_shape({nm}) = shape of the result',
                           tuple(jax.eval_shape(fn, jnp.asarray(arg)).shape) == tuple(np.shape(want)))


def r_ops(ctx, a):
    g = _grid(a); rng = np.random.Generator(np.random.PCG64(a['seed'])); m = dyn.mods()
    filtering = m['filtering']
    x = dyn.modal_field(rng, g, (2,), degree=g.total_wavenumbers - 1)
    y = dyn.modal_field(rng, g, (2,), degree=g.total_wavenumbers - 1)
    scal = {'laplacian': g.laplacian, 'inverse_laplacian': g.inverse_laplacian, 'clip_wavenumbers': g.clip_wavenumbers,
            'd_dlon': g.d_dlon,
            'exponential_filter': filtering.exponential_filter(g, 4, 2),
            'horizontal_diffusion_filter': filtering.horizontal_diffusion_filter(g, 0.01, 2)}
    N = lambda t: np.asarray(t, dtype=np.float64)
    syms_ops = _syms(g, rng, ks=3)
    for T in syms_ops:
        for nm, fn in scal.items():
            _close(ctx, f'{nm} commutes with T (scalar -> scalar)', N(fn(T.modal(x))), T.modal(N(fn(x))))
        # latitude derivatives: anti-commute with the mirror parity (map even <-> odd)
        for nm in ('cos_lat_d_dlat', 'sec_lat_d_dlat_cos2'):
            fn = getattr(g, nm)
            _close(ctx, f'{nm}: scalar -> odd field (sign flips under the mirror, commutes with rotations)',
                   N(fn(T.modal(x))), T.modal(N(fn(x)), pseudo=True))
        for clip in (True, False):
            gr = g.cos_lat_grad(x, clip=clip)
            _close(ctx, 'cos_lat_grad maps T s to T (u even, v odd)', [N(t) for t in g.cos_lat_grad(T.modal(x), clip=clip)],
                   list(T.vec([N(t) for t in gr])))
            v = (x, y)
            _close(ctx, 'div_cos_lat of a transformed vector is the transformed scalar',
                   N(g.div_cos_lat(T.vec(v), clip=clip)), T.modal(N(g.div_cos_lat(v, clip=clip))))
            _close(ctx, 'curl_cos_lat of a transformed vector is the transformed pseudo-scalar',
                   N(g.curl_cos_lat(T.vec(v), clip=clip)), T.modal(N(g.curl_cos_lat(v, clip=clip)), pseudo=True))
        if T is syms_ops[-1]:
            jax = m['jax']; jnp = m['jnp']
            lin = dict(scal, cos_lat_d_dlat=g.cos_lat_d_dlat, sec_lat_d_dlat_cos2=g.sec_lat_d_dlat_cos2,
                       div_cos_lat=lambda q: g.div_cos_lat((q, 0.5 * q)), curl_cos_lat=lambda q: g.curl_cos_lat((q, -q)))
            wct = dyn.modal_field(rng, g, (2,), degree=g.total_wavenumbers - 1)
            for nm, fn in lin.items():
                base = N(fn(jnp.asarray(x)))
                odd = nm in ('cos_lat_d_dlat', 'sec_lat_d_dlat_cos2')
                # (div of (q, q/2) and curl of (q, -q) mix parities: rotation part of T only for those two)
                Tc = Sym(g, T.k, False) if nm in ('div_cos_lat', 'curl_cos_lat') else T
                wantT = Tc.modal(base, pseudo=odd)
                _close(ctx, f'{nm} commutes with T under jax.jit', N(jax.jit(fn)(jnp.asarray(Tc.modal(x)))), wantT)
                _close(ctx, f'{nm} commutes with T under jax.vmap over the leading axis', N(jax.vmap(fn)(jnp.asarray(Tc.modal(x)))), wantT)
                pv, tv = jax.jvp(fn, (jnp.asarray(x),), (jnp.asarray(y),))
                _close(ctx, f'{nm} is linear: jvp = the operator applied to the tangent', N(tv), N(fn(jnp.asarray(y))))
                _, vjp = jax.vjp(fn, jnp.asarray(x)); (ct,) = vjp(jnp.asarray(wct))
                ct = N(ct)
                ctx.oracle(f'{nm}: reverse-mode derivative finite', bool(np.all(np.isfinite(ct))))
                lhs = float(np.vdot(N(tv), wct)); rhs = float(np.vdot(y, ct))
                sc = float(np.sum(np.abs(N(tv) * wct)) + np.sum(np.abs(y * ct))) + 1e-300
                ctx.oracle(f'{nm}: vjp is the adjoint of jvp (<J v, w> = <v, J^T w>)', abs(lhs - rhs) <= TOL * sc, {'lhs': lhs, 'rhs': rhs})
            ctx.count('context:jit/vmap/jvp/vjp')
        kv = g.k_cross((x, y))
        sgn = -1.0 if T.mirror else 1.0
        _close(ctx, 'k_cross commutes with rotations and flips sign under the mirror',
               [N(t) for t in g.k_cross(T.vec((x, y)))], [sgn * t for t in T.vec([N(t) for t in kv])])
        # jitted helpers with the grid as static argument
        sh = m['sh']
        if a.get('spacing') != 'equiangular_with_poles':          # (division by cos(lat) = 0 at pole nodes)
            uvn = sh.vor_div_to_uv_nodal(g, x, y)
            _close(ctx, 'vor_div_to_uv_nodal(T vorticity, T divergence) = T (u even, v odd) on the nodes',
                   [N(t) for t in sh.vor_div_to_uv_nodal(g, T.modal(x, pseudo=True), T.modal(y))],
                   [T.nodal(N(uvn[0])), T.nodal(N(uvn[1]), odd=True)])
        # velocities from (pseudo-scalar vorticity, scalar divergence)
        uv = sh.get_cos_lat_vector(x, y, g)
        _close(ctx, 'get_cos_lat_vector(T vorticity, T divergence) = T (u, v)',
               [N(t) for t in sh.get_cos_lat_vector(T.modal(x, pseudo=True), T.modal(y), g)], list(T.vec([N(t) for t in uv])))


# ---------------------------------------------------------------------------
# oracles: tendencies and trajectories
# ---------------------------------------------------------------------------
def _boundaries(rng, K, kind):
    """sigma level sets: uneven random, or the near-coincidence / extreme-spacing classes"""
    if not kind:
        return util.uneven_boundaries(rng, K)
    e = np.arange(K + 1) / K
    if kind == 'near_equi':                      # equidistant to 1e-7 but not exactly
        return np.round(e, 7)
    if kind == 'jitter':                         # equidistant + 2^-22 on every other interface
        b = e + 2.0 ** -22 * (np.arange(K + 1) % 2); b[0] = 0.0; b[-1] = 1.0; return b
    if kind == 'f32':                            # float32-accumulated equidistant boundaries
        b = np.concatenate([[0.0], np.cumsum(np.full(K, 1.0 / K, np.float32)).astype(np.float64)]); b[-1] = 1.0; return b
    if kind == 'thin':                           # a 2^-30 thin layer between thick ones
        b = util.uneven_boundaries(rng, K); b[2] = b[1] + 2.0 ** -30; return b
    if kind == 'loose_ends':                     # first / last interface only isclose to 0 / 1 (accepted by the constructor)
        b = util.uneven_boundaries(rng, K); b[0] = 8e-9; b[-1] = 0.999998; return b
    raise ValueError(kind)


AMP_BIG = dict(vort=0.3, div=0.1, T=10.0, lnps=0.3, tr=0.05)


def _variant(st, g, which):
    """structured (non-random) states derived from a random one"""
    import dataclasses
    jax = dyn.mods()['jax']
    mm, ll = g.modal_mesh
    fast, wav, iscos, partner = layout(g)
    def per_field(name, x):
        x = np.asarray(x, dtype=np.float64)
        if x.ndim < 2: return x
        if which == 'rest':                    # exactly at rest: no flow, no temperature / pressure perturbation
            return x * 0.0 if name in ('vorticity', 'divergence', 'temperature_variation', 'potential') else \
                (x * (ll == 0) if name == 'log_surface_pressure' else x)
        if which == 'single_top':              # one coefficient, at the highest retained total wavenumber, highest m (cos row)
            sel = np.zeros(x.shape[-2:]); row = int(np.where(iscos & (wav == wav[: (2 * g.longitude_wavenumbers if fast else None)].max()))[0][0])
            sel[row, g.total_wavenumbers - 2] = 1.0
            return x * 0.0 + 0.125 * sel * (0.0 if name in () else 1.0)
        if which == 'zonal':                   # zonally symmetric
            return x * (wav == 0)[:, None]
        if which == 'zero_q':                  # identically zero humidity / tracers
            return x * 0.0 if name == 'tracers' else x
        if which == 'sym':                     # symmetric about the equator (vorticity antisymmetric)
            return 0.5 * (x + mir_np(g, x, pseudo=(name == 'vorticity')))
        raise ValueError(which)
    kw = {}
    for f in dataclasses.fields(st):
        kw[f.name] = jax.tree_util.tree_map(lambda leaf, n=f.name: per_field(n, leaf), getattr(st, f.name))
    return type(st)(**kw)


def _dyn_setup(a, rng):
    """returns (grid, random orography, state maker, fn(oro, state) -> dict of results [jitted once],
    eager pieces: dict(mk_eq, specs, omega, explicit) built on the SAME coordinate system object)"""
    m = dyn.mods(); jax = m['jax']; jnp = m['jnp']; ti = m['ti']; pe = m['pe']; sw = m['sw']; sc = m['sc']; scales = m['scales']
    g = _grid(a); kind = a['kind']
    deg = g.total_wavenumbers - 2
    oro = dyn.modal_field(rng, g, (), deg, amp=0.05 if kind == 'sw' else 0.01)
    K = int(a.get('K', 3))
    dt = 0.05 if kind == 'sw' else 0.02
    eta = float(a.get('eta', 0.03))
    lf = a.get('integrator') == 'semi_implicit_leapfrog'
    of = float(a.get('omega_factor', 1.0))     # rotation rate in units of the Earth's
    amp = AMP_BIG if a.get('amp') == 'big' else None
    if kind == 'sw':
        layers = int(a.get('layers', 2))
        c = dyn.layer_coords(g, layers)
        dens = 1.0 + 0.25 * np.arange(layers)
        refp = np.asarray([1.0, 0.5, 0.75, 0.625][:layers])
        specs = sw.ShallowWaterSpecs(dens, float(a.get('radius') or 1.0), 1.0 * of, 1.0, scales.DEFAULT_SCALE)
        mk_eq = lambda o: sw.ShallowWaterEquations(c, specs, o, refp)
        mk_state = lambda: dyn.sw_state(rng, c, deg)
    else:
        c = dyn.coords(g, _boundaries(rng, K, a.get('levels')))
        u = scales.units
        scale = scales.Scale(2.0e6 * u.m, 3.0e4 * u.s, 2.0 * u.kg, 1.0 * u.degK) if a.get('scale') == 'custom' else scales.DEFAULT_SCALE
        specs = pe.PrimitiveEquationsSpecs.from_si(angular_velocity_si=of * scales.ANGULAR_VELOCITY, scale=scale)
        tref = 250.0 + rng.integers(-20, 21, size=K).astype(np.float64)
        k2 = 'dry' if kind == 'hs' else kind
        cls = getattr(pe, dyn.PE_CLASSES[k2])
        ekw = dict(a.get('eq_kw', {}))
        if ekw.get('vertical_advection') == 'upwind':
            ekw['vertical_advection'] = sc.upwind_vertical_advection
        mk_eq = lambda o: cls(tref, o, c, specs, **ekw)
        lnps0 = 0.0
        if kind == 'hs':
            lnps0 = float(np.log(specs.nondimensionalize(1e5 * u.pascal))) * 3.5449077
        mk_state = lambda: dyn.pe_state(rng, c, deg, dyn.PE_TRACERS[k2], with_time=(k2 != 'dry'), lnps0=lnps0, amp=amp)
    if kind == 'hs':
        from dinosaur import held_suarez
        hkw = {}
        if a.get('hs_params') == 'alt':
            hkw = dict(p0=0.9e5 * u.pascal, sigma_b=0.5, kf=1 / (0.5 * u.day), ka=1 / (20 * u.day), ks=1 / (2 * u.day),
                       minT=240 * u.degK, maxT=300 * u.degK, dTy=40 * u.degK, dThz=20 * u.degK)
        hs = held_suarez.HeldSuarezForcing(c, specs, tref, **hkw)
        def fn(o, st):
            return {'held_suarez.explicit_terms': hs.explicit_terms(st)}
        eager = dict(mk_eq=None, explicit=lambda o, st: hs.explicit_terms(st), name='held_suarez.explicit_terms', omega=None)
    else:
        eager = dict(mk_eq=mk_eq, explicit=lambda o, st: mk_eq(o).explicit_terms(st), name='explicit_terms',
                     omega=float(specs.angular_velocity))
        def fn(o, st):
            eq = mk_eq(o)
            out = {'explicit_terms': eq.explicit_terms(st), 'implicit_terms': eq.implicit_terms(st),
                   'implicit_inverse': eq.implicit_inverse(st, eta)}
            if a.get('integrator'):
                filt = dyn.step_filters(a.get('filters', []), g, dt)
                if lf:
                    lfilt = [ti.exponential_leapfrog_step_filter(g, dt, tau=10 * dt, order=3)] if 'exponential' in a.get('filters', []) else []
                    step = ti.step_with_filters(ti.semi_implicit_leapfrog(eq, dt, alpha=0.5), lfilt)
                    u2 = (st, jax.tree_util.tree_map(lambda q: q * 1.0625, st))
                    for _ in range(a['nsteps']): u2 = step(u2)
                    out[f"{a['nsteps']} steps of semi_implicit_leapfrog with filters {a.get('filters', [])}"] = u2[1]
                else:
                    step = ti.step_with_filters(dyn.integrator(a['integrator'], eq, dt), filt)
                    u2 = st
                    for _ in range(a['nsteps']): u2 = step(u2)
                    out[f"{a['nsteps']} steps of {a['integrator']} with filters {a.get('filters', [])}"] = u2
            return out
    return g, oro, mk_state, jax.jit(fn), eager


def _to_jnp(tree):
    m = dyn.mods()
    return m['jax'].tree_util.tree_map(lambda q: m['jnp'].asarray(q, dtype=np.float64), tree)


def _coriolis_unchanged(ctx, a, g, eq, omega, when):
    """coriolis_parameter read on the live equation object = model 2*Omega*sin(lat) at the grid nodes, and the grid's
    cached nodal mesh is still the mesh of its nodal axes"""
    sin_lat = np.asarray(g.nodal_axes[1], dtype=np.float64)
    mo = ctx.model.call(5, [g.nodal_shape[0], g.nodal_shape[1]], [[omega], _sin_lat_padded(g, a)])
    ctx.corr(f'coriolis_parameter vs model 2*Omega*sin(lat) ({when} the dynamics calls)',
             np.asarray(eq.coriolis_parameter, dtype=np.float64), mo, scale=2 * abs(omega))
    lon, sl = g.nodal_mesh
    want = np.meshgrid(np.asarray(g.nodal_axes[0]), sin_lat, indexing='ij')
    ctx.oracle(f'evaluations are pure: the cached Grid.nodal_mesh is unchanged ({when} the dynamics calls)',
               bool(np.array_equal(np.asarray(lon), want[0]) and np.array_equal(np.asarray(sl), want[1])))


def _bit_identical(x, y):
    la, lb = dyn.tree_leaves(x), dyn.tree_leaves(y)
    return len(la) == len(lb) and all(np.array_equal(np.asarray(u), np.asarray(v)) for u, v in zip(la, lb))


def r_dynamics(ctx, a):
    rng = np.random.Generator(np.random.PCG64(a['seed']))
    g, oro, mk_state, fn, eager = _dyn_setup(a, rng)
    st = mk_state()
    eq0 = eager['mk_eq'](_to_jnp(oro)) if eager['mk_eq'] else None
    if eq0 is not None:
        _coriolis_unchanged(ctx, a, g, eq0, eager['omega'], 'before')
    base = dyn.tree_to_np(fn(_to_jnp(oro), _to_jnp(st)))
    ctx.oracle('results finite', dyn.tree_all_finite(base))
    syms = _syms(g, rng, ks=a.get('ks', 'all'))
    for T in syms:
        res = dyn.tree_to_np(fn(_to_jnp(T.modal(oro)), _to_jnp(T.state(st))))
        for name in base:
            want = T.state(base[name])
            _close(ctx, f"{a['kind']}: {name.split(' with filters')[0] if 'steps of' in name else name} commutes with T "
                        f"({'mirror' if T.mirror else 'rotation by grid steps'}; orography transformed too)",
                   res[name], want)
        ctx.count('sym:' + ('mirror' if T.mirror else 'rot'))
    # the same relation evaluated eagerly (every call re-reads the tables) on the SAME coordinate-system / grid
    # objects, in the order F(x), F(T x), F(x): no state may be carried between evaluations
    T = syms[-1]                                  # mirror o rotation
    ex = eager['explicit']; nm = eager['name']
    e1 = dyn.tree_to_np(ex(_to_jnp(oro), _to_jnp(st)))
    e2 = dyn.tree_to_np(ex(_to_jnp(T.modal(oro)), _to_jnp(T.state(st))))
    e3 = dyn.tree_to_np(ex(_to_jnp(oro), _to_jnp(st)))
    ctx.oracle(f"{a['kind']}: evaluations are pure: {nm}(x) evaluated again after {nm}(T x) is bit-identical",
               _bit_identical(e1, e3))
    _close(ctx, f"{a['kind']}: {nm} commutes with T when evaluated eagerly on the same objects (order F(x), F(T x), F(x))",
           e2, T.state(e1))
    _close(ctx, f"{a['kind']}: compiled and eager evaluation of {nm} agree", base[nm], e1)
    if eq0 is not None and a.get('reassign'):
        # one equation object reused after re-assigning its orography attribute (and back)
        eqr = eager['mk_eq'](_to_jnp(oro))
        r1 = dyn.tree_to_np(eqr.explicit_terms(_to_jnp(st)))
        eqr.orography = _to_jnp(T.modal(oro))
        r2 = dyn.tree_to_np(eqr.explicit_terms(_to_jnp(T.state(st))))
        eqr.orography = _to_jnp(oro)
        r3 = dyn.tree_to_np(eqr.explicit_terms(_to_jnp(st)))
        ctx.oracle(f"{a['kind']}: evaluations are pure: an equation object whose orography attribute is re-assigned "
                   f"(x, T x, x) gives bit-identical results to fresh objects",
                   _bit_identical(r1, e1) and _bit_identical(r2, e2) and _bit_identical(r3, e1))
    if a.get('vmap'):
        # transformation contexts: the pair (x, T x) as a batch through jit(vmap(explicit_terms)) (orography batched too)
        jax = dyn.mods()['jax']; jnp = dyn.mods()['jnp']
        stack = lambda u, v: jax.tree_util.tree_map(lambda p_, q_: jnp.stack([jnp.asarray(p_, dtype=np.float64), jnp.asarray(q_, dtype=np.float64)]), u, v)
        vb = dyn.tree_to_np(jax.jit(jax.vmap(ex))(stack(oro, T.modal(oro)), stack(st, T.state(st))))
        first = jax.tree_util.tree_map(lambda t: t[0], vb); second = jax.tree_util.tree_map(lambda t: t[1], vb)
        _close(ctx, f"{a['kind']}: {nm} under jit(vmap) over the batch (x, T x): slice 0 = un-batched evaluation", first, e1)
        _close(ctx, f"{a['kind']}: {nm} under jit(vmap) over the batch (x, T x): slice 1 = T (slice 0)", second, T.state(first))
        ctx.count('context:vmap')
    # structured states through the same compiled function
    for which in a.get('variants', []):
        if which == 'zero_q' and a['kind'] not in ('moist', 'cloud'): continue
        sv = _variant(st, g, which)
        bv = dyn.tree_to_np(fn(_to_jnp(oro), _to_jnp(sv)))
        ctx.oracle(f'results finite (structured state: {which})', dyn.tree_all_finite(bv))
        for Tv in (syms[0], syms[1], syms[-2], syms[-1]):
            rv = dyn.tree_to_np(fn(_to_jnp(Tv.modal(oro)), _to_jnp(Tv.state(sv))))
            for name in bv:
                # scale: that of the same field for the random state (a state at rest produces rounding-level noise only)
                _close(ctx, f"{a['kind']}: {name.split(' with filters')[0] if 'steps of' in name else name} commutes with T "
                            f"({'mirror' if Tv.mirror else 'rotation by grid steps'}; orography transformed too)", rv[name], Tv.state(bv[name]),
                       floor=base[name])
        ctx.count('variant:' + which)
    if eq0 is not None:
        _coriolis_unchanged(ctx, a, g, eq0, eager['omega'], 'after')
    if _DEBUG:
        for k2, v2 in sorted(_WORST.items()): print('   worst rel err %.2e  %s' % (v2, k2))


def r_diag(ctx, a):
    """the per-node inputs of the nodal column algebra (Model/PrimEq.v NCol, Model/Symmetry.v ncol_mirror) on the
    implementation: compute_diagnostic_state of the transformed state = permuted nodal fields with the parities
    u even, v odd, vorticity odd, divergence / T' / tracers even, grad lnps (even, odd), sigma_dot even."""
    rng = np.random.Generator(np.random.PCG64(a['seed'])); m = dyn.mods(); pe = m['pe']; jax = m['jax']
    g = _grid(a); c = dyn.coords(g, util.uneven_boundaries(rng, 3))
    st = dyn.pe_state(rng, c, g.total_wavenumbers - 2, ('specific_humidity',))
    f = jax.jit(lambda x: pe.compute_diagnostic_state(x, c))
    base = f(_to_jnp(st))
    odd = {'vorticity': True, 'cos_lat_u': (False, True), 'cos_lat_grad_log_sp': (False, True)}
    for T in _syms(g, rng, ks=2):
        res = f(_to_jnp(T.state(st)))
        for name in ('vorticity', 'divergence', 'temperature_variation', 'cos_lat_u', 'sigma_dot_explicit', 'sigma_dot_full',
                     'cos_lat_grad_log_sp', 'u_dot_grad_log_sp', 'tracers'):
            u = getattr(res, name); v = getattr(base, name); od = odd.get(name, False)
            if isinstance(od, tuple):
                want = [T.nodal(np.asarray(t), odd=o) for t, o in zip(v, od)]; got = [np.asarray(t) for t in u]
            else:
                want = jax.tree_util.tree_map(lambda t: T.nodal(np.asarray(t), odd=od), v); got = dyn.tree_to_np(u)
            _close(ctx, f'diagnostic state of T x: {name} is the permuted nodal field with parity '
                        f'{"(even, odd)" if isinstance(od, tuple) else ("odd" if od else "even")}', got, want)
        ctx.count('sym:' + ('mirror' if T.mirror else 'rot'))


def r_radius(ctx, a):
    """two grids that differ in ONE field (radius), used in the same process in the order g1, g2, g1 through the jitted
    helpers whose static argument is the grid: the results must not be confused, and scale with the radius"""
    rng = np.random.Generator(np.random.PCG64(a['seed'])); m = dyn.mods(); sh = m['sh']
    if a.get('spacing') == 'equiangular_with_poles': return          # (division by cos(lat) = 0 at pole nodes)
    g1 = _grid(a); r1 = float(g1.radius); g2 = _grid(dict(a, radius=2.0 * r1))
    x = dyn.modal_field(rng, g1, (2,), degree=g1.total_wavenumbers - 2); y = dyn.modal_field(rng, g1, (2,), degree=g1.total_wavenumbers - 2)
    N = lambda t: np.asarray(t, dtype=np.float64)
    u1 = [N(t) for t in sh.vor_div_to_uv_nodal(g1, x, y)]
    u2 = [N(t) for t in sh.vor_div_to_uv_nodal(g2, x, y)]
    u3 = [N(t) for t in sh.vor_div_to_uv_nodal(g1, x, y)]
    ctx.oracle('evaluations are pure: vor_div_to_uv_nodal on grid g1 is bit-identical before and after a call on a grid of another radius',
               _bit_identical(u1, u3))
    _close(ctx, 'vor_div_to_uv_nodal scales with the radius (radius doubled: velocities doubled)', u2, [2.0 * t for t in u1])
    z1 = [N(t) for t in sh.uv_nodal_to_vor_div_modal(g1, u1[0], u1[1])]
    z2 = [N(t) for t in sh.uv_nodal_to_vor_div_modal(g2, u1[0], u1[1])]
    z3 = [N(t) for t in sh.uv_nodal_to_vor_div_modal(g1, u1[0], u1[1])]
    ctx.oracle('evaluations are pure: uv_nodal_to_vor_div_modal on grid g1 is bit-identical before and after a call on a grid of another radius',
               _bit_identical(z1, z3))
    _close(ctx, 'uv_nodal_to_vor_div_modal scales with 1/radius', z2, [0.5 * t for t in z1])
    for nm in ('laplacian', 'inverse_laplacian'):
        fac = 0.25 if nm == 'laplacian' else 4.0
        _close(ctx, f'{nm} scales with radius^-2 / radius^2', N(getattr(g2, nm)(x)), fac * N(getattr(g1, nm)(x)))
    T = Sym(g1, int(rng.integers(1, g1.longitude_nodes)), True)
    _close(ctx, 'uv_nodal_to_vor_div_modal(T u, T v) = (T vorticity as pseudo-scalar, T divergence)',
           [N(t) for t in sh.uv_nodal_to_vor_div_modal(g1, T.nodal(u1[0]), T.nodal(u1[1], odd=True))],
           [T.modal(z1[0], pseudo=True), T.modal(z1[1])])


# ---------------------------------------------------------------------------
# shallow water: the Coq model of ShallowWaterEquations.explicit_terms (Model/ShallowWater.v) against the implementation
# ---------------------------------------------------------------------------
def r_sw_model(ctx, a):
    from unittest import mock
    m = dyn.mods(); sh = m['sh']; sw = m['sw']; scales = m['scales']
    rng = np.random.Generator(np.random.PCG64(a['seed']))
    g = _grid(a); N = int(a['layers'])
    fast, wav, iscos, partner = layout(g)
    R, L = g.modal_shape; I, J = g.nodal_shape
    if (I, J) != (g.longitude_nodes, g.latitude_nodes) or tuple(g.modal_padding) != (0, 0):
        ctx.count('sw_model:skipped padded layout'); return
    c = dyn.layer_coords(g, N); gc = c.horizontal
    dens = np.asarray(a['dens'], dtype=np.float64); omega = float(a['omega']); rad = float(g.radius)
    refp = np.asarray([1.0, 0.5, 0.75, 0.625, 0.875][:N])
    specs = sw.ShallowWaterSpecs(dens, rad, omega, 1.0, scales.DEFAULT_SCALE)
    deg = g.total_wavenumbers - 2
    oro = dyn.modal_field(rng, g, (), deg, amp=0.5) if a.get('orog') else None
    mk_eq = lambda o: sw.ShallowWaterEquations(c, specs, None if o is None else _to_jnp(o), refp)
    eq = mk_eq(oro)
    st = dyn.sw_state(rng, c, deg, amp=dict(vort=0.5, div=0.25, pot=1.0))
    vort, dive, pot = (np.asarray(t, dtype=np.float64) for t in (st.vorticity, st.divergence, st.potential))
    N64 = lambda t: np.asarray(t, dtype=np.float64)
    rec = []; outs = []
    orig = sh.Grid.to_modal
    def rec_to_modal(self, z):
        rec.append(N64(z)); out = orig(self, z); outs.append(N64(out)); return out
    with mock.patch.object(sh.Grid, 'to_modal', rec_to_modal):
        res = eq.explicit_terms(_to_jnp(st))
    ctx.exact('number of to_modal calls in ShallowWaterEquations.explicit_terms', len(rec), 1)
    if len(rec) != 1: return
    bge = rec[0]
    ctx.exact('shape of the nodal array handed to to_modal (b[0], b[1], g[0], g[1], e) x layers x nodes', list(bge.shape), [5, N, I, J])
    if list(bge.shape) != [5, N, I, J]: return
    # (1) small pieces: density ratios, sec2_lat, Coriolis parameter
    ctx.corr('get_density_ratios vs model', N64(eq.density_ratios), ctx.model.call(21, [N], [dens]), scale=float(np.max(dens) / np.min(dens)))
    sinlat = N64(gc.nodal_axes[1])[:J]
    sec2 = N64(gc.sec2_lat)[:J]; cor = N64(eq.coriolis_parameter)
    ctx.corr('sec2_lat and coriolis_parameter rows vs model (from sin(lat))', np.concatenate([sec2, cor[0, :J]]),
             ctx.model.call(22, [J], [[omega], sinlat]), scale=float(max(sec2.max(), 2 * abs(omega))))
    ctx.oracle('coriolis_parameter does not depend on longitude', bool(np.all(cor == cor[:1, :])))
    # (2) the nodal algebra on the implementation's own nodal inputs
    nu = N64(gc.to_nodal(np.stack([N64(t) for t in sh.get_cos_lat_vector(vort, dive, gc)])))
    nz = N64(gc.to_nodal(gc.clip_wavenumbers(vort))); nph = N64(gc.to_nodal(gc.clip_wavenumbers(pot)))
    P = I * J
    s2 = np.broadcast_to(sec2[None, :], (I, J)).reshape(P); fc = cor.reshape(P)
    umax = float(max(np.abs(nu).max(), 1e-30)); tv = float(np.abs(nz).max() + np.abs(fc).max())
    sc_nodal = umax * max(tv, float(np.abs(nph).max()), umax) * float(s2.max())
    mo = ctx.model.call(20, [N, P], [nu[0].reshape(N, P).ravel(), nu[1].reshape(N, P).ravel(), nz.reshape(N, P).ravel(),
                                     nph.reshape(N, P).ravel(), s2, fc])
    ctx.corr('nodal_b, nodal_g, nodal_e (argument of to_modal) vs the nodal column model on the nodal inputs', bge.reshape(5, N, P), mo, scale=sc_nodal)
    # (3) the same arrays and the whole output from the MODAL state through the model's own transforms / operators
    f, p, w = _basis_tables(g)
    wa, wb = (N64(t) for t in g._derivative_recurrence_weights)
    ints = [int(fast), R, L, I, J, N, int(oro is not None)]
    arrs = [f.ravel(), p.ravel(), w, [rad, omega], wa.ravel(), wb.ravel(), dens, sinlat,
            (oro if oro is not None else np.zeros((R, L))).ravel(), vort.ravel(), dive.ravel(), pot.ravel(), sec2]
    mo = ctx.model.call(25, ints, arrs)
    ctx.corr('nodal_b, nodal_g, nodal_e vs the model evaluated from the modal state (get_cos_lat_vector, clip, to_nodal, nodal algebra)',
             np.transpose(bge, (1, 0, 2, 3)), mo, scale=sc_nodal)
    out = np.stack([N64(res.vorticity), N64(res.divergence), N64(res.potential)])
    bm = float(np.abs(outs[0]).max())
    pmax = float(np.abs(pot).max() * N + (np.abs(oro).max() if oro is not None else 0.0))
    sc_out = bm * (L + 3) / rad + L * (L + 1) / rad ** 2 * (pmax + bm)
    mo = ctx.model.call(24, ints, arrs)
    ctx.corr('ShallowWaterEquations.explicit_terms (vorticity, divergence, potential tendencies, all layers) vs the assembled model',
             out, mo, scale=sc_out)
    ctx.oracle('explicit tendencies not identically zero (non-trivial case)', bool(np.abs(out).max() > 1e-3 * sc_out), {'max': float(np.abs(out).max())})
    # (4) the property on this configuration: explicit_terms commutes with the mirror and with grid-step rotations
    base = dyn.tree_to_np(res)
    for T in (Sym(g, 0, True), Sym(g, int(rng.integers(1, I)), False), Sym(g, int(rng.integers(1, I)), True)):
        rt = dyn.tree_to_np(mk_eq(None if oro is None else T.modal(oro)).explicit_terms(_to_jnp(T.state(st))))
        _close(ctx, f"sw: explicit_terms commutes with T ({'mirror' if T.mirror else 'rotation by grid steps'}; orography transformed too)",
               rt, T.state(base))
        ctx.count('sym:' + ('mirror' if T.mirror else 'rot'))


RUNNERS = {'sw_model': r_sw_model, 'radius': r_radius, 'diag': r_diag, 'tables': r_tables, 'actions': r_actions, 'sht': r_sht, 'ops': r_ops, 'dynamics': r_dynamics}
