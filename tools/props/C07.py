"""C07 - sharded (model-parallel) execution equals single-device execution:
correspondence of Model/Sharding.v with the real shard_map code paths of
dinosaur.jax_numpy_utils / spherical_harmonic / coordinate_systems /
primitive_equations / filtering / time_integration on up to 8 forced host
devices, and the property's own clause (sharded == unsharded after removing
padding; padding never creates non-finite values) evaluated on the
implementation."""
import itertools
import math
import numpy as np
from harness import util

THEOREMS = ['C07_allgather_twoway_correct', 'C07_reducescatter_twoway_correct', 'C07_odd_mesh_rejected',
            'C07_parallel_cumsum_per_device', 'C07_parallel_cumsum_correct', 'C07_stack_unstack_sharded',
            'C07_sharded_dlon_correct', 'C07_modal_shape_divisible', 'C07_shapes_divisible',
            'C07_vertical_pad_crop', 'C07_einsum_subscripts_sound', 'C07_allgather_matches_source',
            'C07_reducescatter_matches_source', 'C07_cumsum_matches_source', 'C07_hyps_satisfiable']
LEVEL = 'proof'
LEVEL_TEXT = ('machine-checked theorems (Coq) for every field, EVERY ring size n = 1 or even (not only <= 8 devices), '
              'every chunk size and all data: two-way all-gather matmul and matmul/reduce-scatter (fori_loop invariant) '
              'equal the unsharded contraction, odd sizes rejected; parallel prefix/suffix sums (every n >= 1) equal the '
              'sequential ones; per-shard stack/unstack and frequency-offset longitude derivative equal the global ones '
              'given the even shard length that modal_shape guarantees (divisibility lemma for all base multiples); '
              'vertical pad/crop commutes with level-wise maps. The Gallina model is executed (extraction) against the '
              'real shard_map implementation on meshes with up to 8 host devices')
LEVEL_NOTE = ('theorems are about the Gallina model Model/Sharding.v: a ring of n devices with ppermute = rotation given by '
              'the perm lists, all_gather(tiled) = concatenation in device order, axis_index = d, psum 1 = n; the index '
              'expressions, operand offsets, permutations, loop bounds, guards and comparison operators of the model are '
              'proved equal to the ones regenerated from jax_numpy_utils.py each run (Gen/ShardingSrc.v, fail-closed). NOT modelled / '
              'not proved: that XLA collectives implement rotation/concatenation, that shard_map partitions as the specs say, '
              'that with_sharding_constraint is the identity, batch axes (pointwise) - these are exercised by the correspondence '
              'on <= 8 devices only. Transforms / filters / implicit operators on a mesh are covered by the implementation-level '
              'oracle (sharded == unsharded, finite), not by a model.')
TECHNIQUE = 'loop-invariant induction over the fori_loop counter; differential testing sharded vs unsharded vs model'

_jax = None
_meshes = {}


def J():
    global _jax
    if _jax is None:
        jax = util.setup_jax()
        import jax.numpy as jnp
        from dinosaur import jax_numpy_utils as jnu, spherical_harmonic as sh, coordinate_systems as cs
        _jax = (jax, jnp, jnu, sh, cs)
    return _jax


def mesh_of(shape, names):
    jax = J()[0]
    key = (tuple(shape), tuple(names))
    if key not in _meshes:
        n = math.prod(shape)
        _meshes[key] = jax.sharding.Mesh(np.array(jax.devices()[:n]).reshape(shape), tuple(names))
    return _meshes[key]


def P(*a):
    return J()[0].sharding.PartitionSpec(*a)


def idata(seed, shape, lo=-9, hi=9):
    """integer-valued float64 data, a deterministic function of (seed, shape)."""
    r = np.random.Generator(np.random.PCG64(int(seed)))
    return r.integers(lo, hi + 1, size=tuple(shape)).astype(np.float64)


# ---------------------------------------------------------------------------
# generation
# ---------------------------------------------------------------------------
def _einsum_cases(ctx):
    rng = ctx.rng
    quick = ctx.tier == 'quick'
    XY = ['x', 'y']; ZXY = ['z', 'x', 'y']
    cases = []
    # plain matmul over a 1-D ring embedded in a 2-D mesh: every even size (incl. 6) and 1
    for n in ([1, 2, 4, 6, 8] if quick else [1, 2, 4, 6, 8, 2, 4, 8]):
        a, c, k = int(rng.integers(1, 3)), int(rng.integers(1, 4)), int(rng.integers(1, 3))
        cases.append(dict(subscripts='ij,jk->ik', lhs_shape=[n * a, n * c], rhs_shape=[n * c, k], axis_names=XY,
                          mesh_shape=[n, 1], rhs_spec=['x', 'y'], out_spec=['x', 'y']))
    cases.append(dict(subscripts='ij,jk->ik', lhs_shape=[4, 6], rhs_shape=[6, 4], axis_names=XY, mesh_shape=[2, 2],
                      rhs_spec=['x', 'y'], out_spec=['x', 'y']))
    cases.append(dict(subscripts='ij,jk->ik', lhs_shape=[3, 3], rhs_shape=[3, 4], axis_names=XY, mesh_shape=[1, 4],
                      rhs_spec=['x', 'y'], out_spec=['x', 'y']))
    # odd ring sizes > 1 must be rejected
    for n in ([3] if quick else [3, 5, 7]):
        cases.append(dict(subscripts='ij,jk->ik', lhs_shape=[n, n], rhs_shape=[n, 2], axis_names=XY, mesh_shape=[n, 1],
                          rhs_spec=['x', 'y'], out_spec=['x', 'y']))
    # the einsum patterns of the transforms / vertical operators
    meshes = [(1, 2, 2), (1, 4, 2), (2, 2, 2)] if quick else \
        [(1, 2, 2), (1, 4, 2), (2, 2, 2), (1, 2, 4), (1, 8, 1), (1, 1, 8), (2, 4, 1), (2, 1, 4), (4, 2, 1), (1, 1, 1), (1, 2, 1), (1, 1, 2)]
    for (z, x, y) in meshes:
        Z = z * int(rng.integers(1, 3)); m = x * int(rng.integers(1, 3)); j = y * int(rng.integers(1, 3))
        l = y * int(rng.integers(1, 3)); i = x * int(rng.integers(1, 3))
        sp4 = ['z', None, 'x', 'y']; sp3 = ['z', 'x', 'y']
        tr = [dict(subscripts='mjl,zsml->zsmj', lhs_shape=[m, j, l], rhs_shape=[Z, 2, m, l], rhs_spec=sp4, out_spec=sp4),   # inverse Legendre
              dict(subscripts='ism,zsmj->zij', lhs_shape=[i, 2, m], rhs_shape=[Z, 2, m, j], rhs_spec=sp4, out_spec=sp3),    # inverse Fourier (stacked)
              dict(subscripts='im,zmj->zij', lhs_shape=[i, 2 * m], rhs_shape=[Z, 2 * m, j], rhs_spec=sp3, out_spec=sp3),    # inverse Fourier
              dict(subscripts='ism,zij->zsmj', lhs_shape=[i, 2, m], rhs_shape=[Z, i, j], rhs_spec=sp3, out_spec=sp4),       # forward Fourier (stacked)
              dict(subscripts='im,zij->zmj', lhs_shape=[i, 2 * m], rhs_shape=[Z, i, j], rhs_spec=sp3, out_spec=sp3),        # forward Fourier
              dict(subscripts='mjl,zsmj->zsml', lhs_shape=[m, j, l], rhs_shape=[Z, 2, m, j], rhs_spec=sp4, out_spec=sp4)]   # forward Legendre
        for t in tr:   # rings of size 1 (x or y = 1) are valid, trivial cases and are kept
            cases.append(dict(t, axis_names=ZXY, mesh_shape=[z, x, y]))
    for (z, x, y) in ([(8, 1, 1), (4, 1, 2)] if quick else [(8, 1, 1), (4, 1, 2), (2, 2, 2), (4, 2, 1), (2, 1, 1)]):
        g = z * int(rng.integers(1, 3)); m = x * 2; l = y * 2
        cases.append(dict(subscripts='gh,hml->gml', lhs_shape=[g, g], rhs_shape=[g, m, l], axis_names=ZXY,
                          mesh_shape=[z, x, y], rhs_spec=['z', 'x', 'y'], out_spec=['z', 'x', 'y']))
        cases.append(dict(subscripts='lgh,hml->gml', lhs_shape=[l, g, g], rhs_shape=[g, m, l], axis_names=ZXY,
                          mesh_shape=[z, x, y], rhs_spec=['z', 'x', 'y'], out_spec=['z', 'x', 'y']))
    out = []
    combos = [(True, False), (False, False), (None, True), (True, True), (False, True)]
    variants = [dict(dtypes=['float64', 'float32'], repeat=True), dict(dtypes=['int32', 'int32']), dict(strided=True, precision='highest'),
                dict(kind='ones', dtypes=['float32', 'float32']), dict(kind='ramp', dtypes=['float64', 'int32'], strided=True),
                dict(dtypes=['float32', 'float64'], precision='tensorfloat32', repeat=True)]
    for k, cs_ in enumerate(cases):
        if not quick:
            sel = combos if cs_['subscripts'] in ('ij,jk->ik', 'gh,hml->gml', 'lgh,hml->gml') else [combos[(k + t) % 5] for t in range(3)]
        elif k < 5:
            sel = combos[:3]                       # rings of size 1,2,4,6,8: gather, scatter, default
        elif cs_['subscripts'] == 'ij,jk->ik':
            sel = [combos[k % 2]]
        else:
            sel = [combos[k % 5]]
        for t, (g, rv) in enumerate(sel):
            c2 = dict(cs_, gather=g, rev=rv, seed=int(rng.integers(0, 2 ** 31)))
            # operand forms / dtypes / precision / repetition: every 4th case in quick, every 2nd in thorough
            if (k + t) % (4 if quick else 2) == 1:
                c2.update(variants[(k // 2 + t) % len(variants)])
            out.append(c2)
    return out


def generate(ctx):
    rng = ctx.rng
    quick = ctx.tier == 'quick'
    for c in _einsum_cases(ctx):
        ctx.count('einsum n-mesh=%s' % 'x'.join(map(str, c['mesh_shape'])))
        yield 'einsum', c
    # subscript logic incl. malformed requests
    logic = [('ij', 'jk', 'ik', ['x', 'y'], ['x', 'y']), ('ij', 'jk', 'ik', [None, 'y'], ['x', 'y']),
             ('ij', 'jk', 'ik', ['x', 'y'], [None, 'y']), ('ijk', 'jkl', 'il', ['x', 'y', None], ['x', None]),
             ('mjl', 'zsml', 'zsmj', ['z', None, 'x', 'y'], ['z', None, 'x', 'y']),
             ('ism', 'zsmj', 'zij', ['z', None, 'x', 'y'], ['z', 'x', 'y']),
             ('ism', 'zij', 'zsmj', ['z', 'x', 'y'], ['z', None, 'x', 'y']),
             ('ism', 'zij', 'zsmj', ['z', 'x', 'y'], ['z', 'y', 'x', None]),
             ('lgh', 'hml', 'gml', ['z', 'x', 'y'], ['z', 'x', 'y']), ('gh', 'hml', 'gml', [None, 'x', 'y'], ['z', 'x', 'y']),
             ('ij', 'jk', 'ik', ['y', 'x'], ['y', 'x'])]
    for (l, r, o, rs, os_) in logic:
        yield 'logic', dict(lhs=l, rhs=r, out=o, rhs_spec=rs, out_spec=os_, out_size=int(rng.integers(1, 50)), rhs_size=int(rng.integers(1, 50)))
    # cumulative sums: every ring size 1..8 (no evenness needed), leading and non-leading sharded axes
    ns = [1, 2, 3, 4, 6, 8] if quick else [1, 2, 3, 4, 5, 6, 7, 8]
    for n in ns:
        for (ndim, axis) in ([(1, 0), (2, 0), (2, 1), (3, -2), (3, 0)] if not quick else [(1, 0), (2, 1), (3, -2), (3, 0)][(n % 2):][:3]):
            c = int(rng.integers(1, 4))
            shape = [int(rng.integers(1, 4)) for _ in range(ndim)]; shape[axis] = n * c
            ctx.count('cumsum n=%d' % n)
            yield 'cumsum', dict(n=n, shape=shape, axis=axis, seed=int(rng.integers(0, 2 ** 31)))
    # options / forms: method='jax' with a sharding, a sharded axis that is not the summed one (single-device path),
    # float32 / integer inputs, read-only strided views, all-ones data (prefix sums = positions)
    cv = [dict(n=4, shape=[8, 3], axis=0, dtype='float32'), dict(n=2, shape=[4, 5], axis=1, shard_axis=0),
          dict(n=4, shape=[3, 8], axis=1, method='jax', kind='ones'), dict(n=8, shape=[8, 2], axis=0, dtype='int32', strided=True),
          dict(n=6, shape=[2, 12, 2], axis=-2, kind='ones', strided=True), dict(n=2, shape=[6, 4], axis=-2, shard_axis=-1, dtype='float32'),
          dict(n=3, shape=[9], axis=0, dtype='int64', kind='ramp'), dict(n=4, shape=[4, 4], axis=0, method='jax', shard_axis=1)]
    for v in (cv[:5] if quick else cv):
        yield 'cumsum', dict(v, seed=int(rng.integers(0, 2 ** 31)))
    yield 'api', dict(seed=int(rng.integers(0, 2 ** 31)))
    # reshapes and longitude derivative under a mesh
    ms = [(1, 2, 2), (2, 4, 1), (2, 2, 2)] if quick else [(1, 2, 2), (2, 4, 1), (2, 2, 2), (1, 8, 1), (1, 4, 2), (1, 1, 1), (4, 2, 1), (1, 2, 4), (2, 1, 4)]
    for (z, x, y) in ms:
        for Z in (([1, z * 2] if z > 1 else [1, 3]) if not quick else [z * 2 if z > 1 else (1 if x == 2 else 3)]):
            q = int(rng.integers(1, 4))
            yield 'reshape', dict(mesh=[z, x, y], Z=Z, M=2 * q * x, L=y * int(rng.integers(1, 3)), seed=int(rng.integers(0, 2 ** 31)))
            yield 'dlon', dict(mesh=[z, x, y], Z=Z, M=2 * q * x, L=y * int(rng.integers(1, 3)), seed=int(rng.integers(0, 2 ** 31)))
    # padded shapes for every base multiple / mesh
    for _ in range(30 if quick else 300):
        x, y = [(1, 1), (1, 2), (2, 1), (2, 2), (4, 1), (1, 4), (4, 2), (2, 4), (8, 1), (1, 8)][int(rng.integers(0, 10))]
        yield 'shapes', dict(lw=int(rng.integers(1, 40)), tw=int(rng.integers(1, 40)), lon=int(rng.integers(1, 80)),
                             lat=int(rng.integers(1, 40)), base=int(rng.choice([1, 2, 3, 4, 5, 8, 16])), x=x, y=y)
    # vertical pad / crop
    for z in ([2, 4] if quick else [1, 2, 4, 8]):
        for K in ([3, 4, 5] if quick else [1, 2, 3, 4, 5, 7, 8, 9, 13]):
            yield 'vpad', dict(z=z, K=K, seed=int(rng.integers(0, 2 ** 31)))


    # ---- whole operators on a mesh (implementation-level oracle: sharded == unsharded, padding inert) ----
    all_meshes = [(z, x, y) for z in (1, 2, 4, 8) for x in (1, 2, 4, 8) for y in (1, 2, 4, 8) if z * x * y <= 8]
    six = [(6, 1, 1), (1, 6, 1), (1, 1, 6), (3, 2, 1)]                  # even non-power-of-two rings, odd z
    gm = [(2, 1, 1), (1, 4, 2), (2, 2, 2), six[int(rng.integers(1, 3))]] if quick else all_meshes + six
    gopts = [dict(), dict(kind='top', clip_n=2), dict(stacked=True, rev=False), dict(kind='top', stacked=True),
             dict(stacked=False, rev=True, radius=2.5, clip_n=3), dict(kind='const', stacked=True, rev=True), dict(kind='zero', precision='float32')]
    for i, (z, x, y) in enumerate(gm):
        L = int(rng.integers(4, 8)) if quick else int(rng.integers(4, 11))
        K = int(rng.choice([3, 5])) if z > 1 else int(rng.integers(1, 4))      # level counts not divisible by z
        base = [None, 1, 2][i % 3] if x * y > 1 or z > 1 else 4
        ctx.count('grid mesh=%dx%dx%d' % (z, x, y))
        extra = dict(ranks=[['2-D'], ['surface']][i % 2]) if (quick or i % 3) else {}
        # every Grid constructor option is also exercised ON a mesh (latitude spacing, longitude offset; radius is in gopts)
        gridkw = dict(spacing=['equiangular', 'equiangular_with_poles', 'gauss'][i % 3], lon_offset=[None, 0.25, None, 1.0][i % 4])
        yield 'grid', dict(dict(mesh=[z, x, y], L=L, K=K, base=base, seed=int(rng.integers(0, 2 ** 31))), **gopts[i % len(gopts)], **extra, **gridkw)
    # resolution / layout thresholds: wide and tall grids, longitude_nodes = 2 (wavenumbers - 1) and 2 (wavenumbers + 1),
    # total_wavenumbers > longitude_wavenumbers + 1, base multiples 4 and 8, non-unit radius
    dimsets = [[4, 5, 300, 6], [3, 9, 8, 150], [5, 6, 8, 5], [4, 9, 10, 7], [2, 3, 4, 3], [6, 6, 16, 9]]
    lm = [((1, 2, 2), 4), ((2, 4, 1), 8)] if quick else [((1, 2, 2), 4), ((2, 4, 1), 8), ((1, 1, 8), 1), ((1, 8, 1), 2), ((2, 2, 2), 8), ((4, 1, 2), 4)]
    for i, (m, base) in enumerate(lm):
        dims = dimsets[(i + int(rng.integers(0, len(dimsets)))) % len(dimsets)] if quick else dimsets[i % len(dimsets)]
        yield 'grid', dict(mesh=list(m), L=dims[0], K=[3, 1, 2][i % 3], base=base, dims=dims, seed=int(rng.integers(0, 2 ** 31)),
                           radius=[None, 2.5][i % 2], stacked=[None, True][(i // 2) % 2], kind=['random', 'top'][i % 2],
                           ranks=[] if quick else ['2-D', 'surface'], lon_offset=[0.5, None][i % 2],
                           spacing=(['equiangular_with_poles', 'equiangular', 'gauss'][i % 3] if dims[3] <= 10 else None))
    for m in ([[(1, 3, 1), (1, 1, 3)][int(rng.integers(0, 2))]] if quick else [(1, 3, 1), (1, 1, 3), (2, 3, 1), (1, 5, 1), (1, 1, 7)]):
        yield 'grid_reject', dict(mesh=list(m), L=4, seed=int(rng.integers(0, 2 ** 31)))
    # the registered known finding (fixed, literal arguments: do not change without updating known_findings.json)
    yield 'maybe_ambiguous', dict(grid='T21', mesh=[1, 2, 2], K=2, seed=7)
    fm = [(None, 4, 8), ((1, 2, 2), None, 5), ((2, 2, 1), 2, 6), (None, 3, 7), (None, 8, 6)] if quick else \
        [(None, 4, 8), (None, 3, 7), (None, 8, 5), (None, 2, 6)] + [(m, [None, 1, 2, 4][k % 4], 4 + k % 6) for k, m in enumerate(all_meshes + six)]
    for i, (m, base, L) in enumerate(fm):
        tau = float(rng.integers(1, 9)) / 16
        ratio = [None, 1e-3, 1e3, 1.0, 30.0][i % 5]                     # dt / tau over many decades
        dt = float(rng.integers(1, 9)) / 64 if ratio is None else tau * ratio
        yield 'filters', dict(mesh=list(m) if m else None, L=L, base=base, K=2, seed=int(rng.integers(0, 2 ** 31)),
                              dt=dt, tau=tau, order=int(rng.integers(1, 4)), cutoff=[0.25, 0.0, 0.6][i % 3],
                              radius=[None, 3.0][i % 2], kind=['random', 'top', 'const'][i % 3])
    im = [(2, 1, 1), (2, 2, 2), (4, 1, 2)] if quick else all_meshes + [(6, 1, 1), (3, 2, 1)]
    for i, (z, x, y) in enumerate(im):
        k = int(rng.integers(1, 3)) if z > 1 else int(rng.integers(2, 5))
        b = util.uneven_boundaries(rng, z * k, 4).tolist()
        ctx.count('implicit mesh=%dx%dx%d' % (z, x, y))
        eta = [float(rng.integers(1, 33)) / 64, 1e-3, 10.0, -0.25][i % 4]
        yield 'implicit', dict(mesh=[z, x, y], L=int(rng.integers(4, 7)), bounds=b, seed=int(rng.integers(0, 2 ** 31)), eta=eta,
                               radius=[None, 2.0][i % 2], consts=bool((i // 2) % 2), kind=['random', 'top', 'random', 'zero'][i % 4])
    if not quick:
        for i, (z, x, y) in enumerate([(2, 1, 1), (1, 2, 2), (2, 2, 2), (1, 4, 2), (4, 2, 1), (8, 1, 1), (1, 1, 8), (1, 8, 1), (2, 1, 4), (4, 1, 1), (1, 6, 1)]):
            k = 2 if z > 1 else 4
            b = util.uneven_boundaries(rng, max(z * k // (2 if z == 8 else 1), z), 4).tolist()
            yield 'step', dict(mesh=[z, x, y], L=6, bounds=b, seed=int(rng.integers(0, 2 ** 31)),
                               advection=['centered', 'upwind', 'none'][i % 3], kind=['random', 'dry'][(i // 3) % 2], consts=bool(i % 2))


# ---------------------------------------------------------------------------
# runners
# ---------------------------------------------------------------------------
def _axis_code(names, a):
    return 0 if a is None else names.index(a) + 1


def _model_logic(ctx, Ls, Rs, Os, rhs_spec, out_spec, names):
    ints = [len(Ls), len(Rs), len(Os)] + [ord(ch) for ch in Ls + Rs + Os] + \
           [_axis_code(names, s) for s in rhs_spec] + [_axis_code(names, s) for s in out_spec]
    m = ctx.model.call(9, ints, [])
    r, t = int(m[0]), int(m[1])
    return (chr(r) if r >= 0 else None), (chr(t) if t >= 0 else None), [int(v) for v in m[2:2 + len(Ls)]], [int(v) for v in m[2 + len(Ls):]]


def _impl_logic(Ls, Rs, Os, rhs_spec, out_spec):
    jnu = J()[2]
    try: r = jnu._determine_reduce_subscript(Ls, Rs, Os, P(*rhs_spec))
    except ValueError: r = None
    try: t = jnu._determine_transfer_subscript(Ls, Rs, Os, P(*out_spec))
    except ValueError: t = None
    return r, t


def r_logic(ctx, a):
    names = ['z', 'x', 'y']
    rm, tm, _, _ = _model_logic(ctx, a['lhs'], a['rhs'], a['out'], a['rhs_spec'], a['out_spec'], names)
    ri, ti = _impl_logic(a['lhs'], a['rhs'], a['out'], a['rhs_spec'], a['out_spec'])
    ctx.exact('_determine_reduce_subscript', ri, rm)
    ctx.exact('_determine_transfer_subscript', ti, tm)
    ctx.count('logic reduce=%s transfer=%s' % (ri is not None, ti is not None))
    g = ctx.model.call(10, [a['out_size'], a['rhs_size']], [])
    ctx.exact('default gather_inputs', int(a['out_size'] > a['rhs_size']), int(g[0]))


def _einsum_model(ctx, a, lhs, rhs, gather, mesh_sizes):
    """Global result predicted by the ring model (None = rejected)."""
    Ls, rest = a['subscripts'].split(','); Rs, Os = rest.split('->')
    names = a['axis_names']
    r, t, lp_g, lp_s = _model_logic(ctx, Ls, Rs, Os, a['rhs_spec'], a['out_spec'], names)
    assert r is not None and t is not None
    ring = a['rhs_spec'][Rs.index(r)]
    n = mesh_sizes[ring]
    t_axis = a['out_spec'][Os.index(t)]
    size = {}
    for s, d in zip(Ls, lhs.shape): size[s] = d
    for s, d in zip(Rs, rhs.shape): size[s] = d
    E = [s for s in Ls if s in Rs and s not in Os and s != r]         # reduced but not over the ring
    B = [s for s in Os if s != t]                                      # batch / pointwise
    assert all((s in Rs or s in Os) for s in Ls) and all((s in Ls or s in Os) for s in Rs)
    T = size[t]; Rn = size[r]; cr = Rn // n
    esz = [size[s] for s in E]; ne = math.prod(esz)
    out = np.zeros([size[s] for s in Os])
    same = (t_axis == ring)
    for bvals in itertools.product(*[range(size[s]) for s in B]):
        env = dict(zip(B, bvals))

        def L(ti, ev, ri):
            e2 = dict(env); e2[t] = ti; e2[r] = ri; e2.update(zip(E, ev))
            return lhs[tuple(e2[s] for s in Ls)]

        def Rv(ev, ri):
            e2 = dict(env); e2[r] = ri; e2.update(zip(E, ev))
            return rhs[tuple(e2[s] for s in Rs)]
        evs = list(itertools.product(*[range(k) for k in esz]))
        rloc = [[Rv(ev, d * cr + rr) for ev in evs for rr in range(cr)] for d in range(n)]
        if gather:
            A = T // n if same else T
            c = ne * cr
            lh = []
            for d in range(n):
                for ai in range(A):
                    ti = d * A + ai if same else ai
                    for q in range(n):
                        lh += [L(ti, ev, q * cr + rr) for ev in evs for rr in range(cr)]
            m = ctx.model.call(0, [n, c, A, int(a['rev'])], [lh, sum(rloc, [])])
            if m is None: return None
            m = np.array([float(v) for v in m]).reshape(n, A)
            col = m.reshape(-1) if same else m[0]
            if not same:
                for d in range(1, n):
                    ctx.exact('model: replicated rows agree on every ring device', m[d].tolist(), m[0].tolist())
        else:
            assert same, 'scatter strategy needs the transfer axis on the ring'
            c = T // n; cj = ne * cr
            lh = []
            for d in range(n):
                for ai in range(T):
                    lh += [L(ai, ev, d * cr + rr) for ev in evs for rr in range(cr)]
            m = ctx.model.call(1, [n, c, cj, int(a['rev'])], [lh, sum(rloc, [])])
            if m is None: return None
            col = np.array([float(v) for v in m])
        idx = tuple(env[s] if s != t else slice(None) for s in Os)
        out[idx] = col
    return out


def _operand(seed, shape, kind='random', dtype='float64', strided=False):
    """integer-valued operand; optionally a read-only, non-contiguous view of a larger array; 'ones' / 'ramp' make
    index errors visible as counts"""
    shape = list(shape)
    full = idata(seed, [2 * shape[0]] + shape[1:]) if strided else idata(seed, shape)
    if kind == 'ones': full = np.ones_like(full)
    if kind == 'ramp': full = (np.arange(full.size, dtype=np.float64).reshape(full.shape) % 17) - 8
    full = full.astype(dtype)
    if strided:
        full = full[::2]; full.setflags(write=False)
        assert not full.flags['C_CONTIGUOUS'] or full.shape[0] <= 1 or full.ndim == 0
    return full


def r_einsum(ctx, a):
    jax, jnp, jnu, sh, cs = J()
    mesh = mesh_of(a['mesh_shape'], a['axis_names'])
    sizes = dict(zip(a['axis_names'], a['mesh_shape']))
    dl, dr = a.get('dtypes', ['float64', 'float64'])
    lhs = _operand(a['seed'], a['lhs_shape'], a.get('kind', 'random'), dl, a.get('strided', False))
    rhs = _operand(a['seed'] + 1, a['rhs_shape'], 'random', dr, a.get('strided', False))
    expected = np.einsum(a['subscripts'], lhs.astype(np.float64), rhs.astype(np.float64))   # independent reference
    err = None
    kw = dict(gather_inputs=a['gather'], reverse_arg_order=a['rev'], precision=a.get('precision', 'float32'), mesh=mesh,
              rhs_spec=P(*a['rhs_spec']), out_spec=P(*a['out_spec']))
    try:
        got = np.asarray(jnu.sharded_einsum(a['subscripts'], lhs, jnp.asarray(rhs), **kw))
    except Exception as e:  # rejection happens while tracing inside shard_map
        got = None; err = repr(e)
    gather = a['gather']
    if gather is None:
        gather = math.prod(expected.shape) > math.prod(rhs.shape)
    lhs64 = lhs.astype(np.float64); rhs64 = rhs.astype(np.float64)
    mod = _einsum_model(ctx, a, lhs64, rhs64, gather, sizes)
    Ls, rest = a['subscripts'].split(','); Rs, Os = rest.split('->')
    ri, ti = _impl_logic(Ls, Rs, Os, a['rhs_spec'], a['out_spec'])
    n = sizes[a['rhs_spec'][Rs.index(ri)]]
    ctx.count('einsum ring n=%d %s' % (n, 'gather' if gather else 'scatter'))
    ctx.count('einsum dtypes=%s/%s strided=%s' % (dl, dr, bool(a.get('strided'))))
    want_reject = n > 1 and n % 2 == 1
    ctx.exact('sharded_einsum accepted', [got is not None], [mod is not None])
    ctx.oracle('odd mesh sizes > 1 are rejected (axis_size must be 1 or even), everything else accepted',
               (got is None) == want_reject and (got is not None or 'axis_size must be 1 or even' in (err or '')),
               {'n': n, 'error': err})
    if got is None or mod is None:
        return
    scale = float(np.abs(lhs64).max() * np.abs(rhs64).max() * max(1, lhs.size)) + 1.0
    ctx.corr('sharded_einsum vs ring model', got, list(map(_F, mod.ravel())), scale=scale)
    ctx.oracle_close('sharded einsum = unsharded einsum', np.asarray(got, dtype=np.float64), expected, scale=scale, tol_rel=0.0)
    ctx.oracle('sharded einsum finite', bool(np.isfinite(got).all()))
    single = jnu.sharded_einsum(a['subscripts'], lhs, jnp.asarray(rhs), mesh=None, precision=a.get('precision', 'float32'),
                                rhs_spec=P(*a['rhs_spec']), out_spec=P(*a['out_spec']))
    ctx.oracle('sharded einsum: same dtype and values as the mesh=None path',
               bool(np.asarray(single).dtype == got.dtype and np.array_equal(np.asarray(single, dtype=np.float64), np.asarray(got, dtype=np.float64))),
               [str(np.asarray(single).dtype), str(got.dtype)])
    if a.get('repeat'):
        # purity: the same call again, after a different call on the same mesh, is bit-identical
        jnu.sharded_einsum(a['subscripts'], lhs, jnp.asarray(rhs[::-1].copy() if rhs.ndim else rhs), **kw)
        again = np.asarray(jnu.sharded_einsum(a['subscripts'], lhs, jnp.asarray(rhs), **kw))
        ctx.oracle('sharded einsum repeated is bit-identical', bool(np.array_equal(again, got)))


def r_api(ctx, a):
    """argument validation / option dispatch of sharded_einsum and cumsum that does not need a mesh"""
    jax, jnp, jnu, sh, cs = J()
    lhs = idata(a['seed'], [4, 4]); rhs = idata(a['seed'] + 1, [4, 3])
    for subs, okay in (('ij,jk->ik', True), ('ij,...jk->...ik', False), ('ij,jk', False), ('ij,jk,kl->il', False), ('ij jk->ik', False)):
        for mesh in (None, mesh_of([2, 1], ['x', 'y'])):
            try:
                r = jnu.sharded_einsum(subs, lhs, jnp.asarray(rhs), mesh=mesh, rhs_spec=P('x', 'y'), out_spec=P('x', 'y')); acc = True
            except ValueError:
                acc = False
            ctx.oracle('sharded_einsum accepts exactly two-operand subscripts without ellipsis', acc == okay, [subs, acc])
            if acc:
                ctx.oracle_close('sharded einsum = unsharded einsum', np.asarray(r), lhs @ rhs, tol_rel=0.0)
    x = idata(a['seed'] + 2, [6, 3])
    for f in (jnu.cumsum, jnu.reverse_cumsum):
        try: f(x, 0, method='foo'); acc = True
        except ValueError: acc = False
        ctx.oracle('cumsum rejects unknown methods', not acc)
        for bad in (2, -3):
            try: f(x, bad); acc = True
            except (ValueError, IndexError): acc = False
            ctx.oracle('cumsum rejects an out-of-range axis', not acc, bad)


def _F(v):
    from fractions import Fraction
    return Fraction(float(v))


def r_cumsum(ctx, a):
    jax, jnp, jnu, sh, cs = J()
    n = a['n']; shape = a['shape']; axis = a['axis']; nd = len(shape)
    ax = axis % nd
    sax = a.get('shard_axis', axis) % nd          # the sharded axis need not be the summed one (single-device path)
    method = a.get('method', 'dot'); dtype = a.get('dtype', 'float64')
    mesh = mesh_of([n], ['z'])
    spec = [None] * nd; spec[sax] = 'z'
    sharding = jax.sharding.NamedSharding(mesh, P(*spec))
    x = _operand(a['seed'], shape, a.get('kind', 'random'), dtype, a.get('strided', False))
    x64 = x.astype(np.float64)
    c = shape[ax] // n
    sharded_sum = (sax == ax and method == 'dot')
    ctx.count('cumsum method=%s dtype=%s %s' % (method, dtype, 'parallel' if sharded_sum else 'single-device path'))
    scale = float(np.abs(x64).sum(axis=ax).max()) + 1.0
    for rev in (0, 1):
        f = jnu.reverse_cumsum if rev else jnu.cumsum
        xin = jax.device_put(jnp.asarray(x), sharding)
        got_j = f(xin, axis, method=method, sharding=sharding)
        got = np.asarray(got_j, dtype=np.float64)
        single_j = f(jnp.asarray(x), axis, method=method)
        single = np.asarray(single_j, dtype=np.float64)
        seq = np.flip(np.cumsum(np.flip(x64, ax), ax), ax) if rev else np.cumsum(x64, ax)
        for (idx, col), (_, gcol) in zip(util.columns(x64, ax), util.columns(got, ax)):
            if sharded_sum:
                ctx.corr(f'_parallel_dot_cumsum per device reverse={rev}', gcol, ctx.model.call(2, [n, c, rev], [col]), scale=scale)
            ctx.corr(f'_dot_cumsum sharded={int(sharded_sum)} reverse={rev}', gcol,
                     ctx.model.call(3, [n, c, int(sharded_sum), rev] if sharded_sum else [1, shape[ax], 0, rev], [col]), scale=scale)
        ctx.oracle_close(f'sharded cumsum = sequential cumsum (reverse={rev})', got, seq, scale=scale, tol_rel=0.0)
        ctx.oracle_close(f'sharded cumsum = unsharded dot cumsum (reverse={rev})', got, single, scale=scale, tol_rel=0.0)
        ctx.oracle('sharded cumsum has the dtype of the unsharded one', got_j.dtype == single_j.dtype, [str(got_j.dtype), str(single_j.dtype)])
        again = np.asarray(f(xin, axis, method=method, sharding=sharding), dtype=np.float64)
        ctx.oracle('sharded cumsum repeated is bit-identical', bool(np.array_equal(again, got)))


def r_reshape(ctx, a):
    jax, jnp, jnu, sh, cs = J()
    z, x, y = a['mesh']; mesh = mesh_of(a['mesh'], ['z', 'x', 'y'])
    Z, M, L = a['Z'], a['M'], a['L']
    X = idata(a['seed'], [Z, M, L], -99, 99)
    un_s = np.asarray(sh._unstack_m(jnp.asarray(X), mesh))
    un_g = np.asarray(sh._unstack_m(jnp.asarray(X), None))
    ctx.corr('_unstack_m on mesh vs model', un_s, ctx.model.call(4, [Z, M, L, x], [X.ravel()]), scale=100.0)
    ctx.corr('_unstack_m no mesh vs model', un_g, ctx.model.call(4, [Z, M, L, 0], [X.ravel()]), scale=100.0)
    ctx.oracle_close('_unstack_m sharded = unsharded', un_s, un_g, tol_rel=0.0)
    Y = idata(a['seed'] + 7, [Z, 2, M // 2, L], -99, 99)
    st_s = np.asarray(sh._stack_m(jnp.asarray(Y), mesh))
    st_g = np.asarray(sh._stack_m(jnp.asarray(Y), None))
    ctx.corr('_stack_m on mesh vs model', st_s, ctx.model.call(5, [Z, M // 2, L, x], [Y.ravel()]), scale=100.0)
    ctx.corr('_stack_m no mesh vs model', st_g, ctx.model.call(5, [Z, M // 2, L, 0], [Y.ravel()]), scale=100.0)
    ctx.oracle_close('_stack_m sharded = unsharded', st_s, st_g, tol_rel=0.0)
    ctx.oracle_close('stack(unstack(x)) = x on the mesh', np.asarray(sh._stack_m(jnp.asarray(un_s), mesh)), X, tol_rel=0.0)


def r_dlon(ctx, a):
    jax, jnp, jnu, sh, cs = J()
    z, x, y = a['mesh']; mesh = mesh_of(a['mesh'], ['z', 'x', 'y'])
    Z, M, L = a['Z'], a['M'], a['L']
    X = idata(a['seed'], [Z, M, L], -99, 99)
    d_s = np.asarray(sh._fourier_derivative_for_real_basis_with_zero_imag(jnp.asarray(X), mesh))
    d_g = np.asarray(sh._fourier_derivative_for_real_basis_with_zero_imag(jnp.asarray(X), None))
    scale = 100.0 * M
    for (idx, col), (_, scol), (_, gcol) in zip(util.columns(X, 1), util.columns(d_s, 1), util.columns(d_g, 1)):
        ctx.corr('longitude derivative on mesh vs model', scol, ctx.model.call(6, [M, x], [col]), scale=scale)
        ctx.corr('longitude derivative no mesh vs model', gcol, ctx.model.call(6, [M, 0], [col]), scale=scale)
    ctx.oracle_close('longitude derivative sharded = unsharded', d_s, d_g, tol_rel=0.0)


def r_shapes(ctx, a):
    jax, jnp, jnu, sh, cs = J()
    mesh = mesh_of([1, a['x'], a['y']], ['z', 'x', 'y'])
    s = sh.FastSphericalHarmonics(longitude_wavenumbers=a['lw'], total_wavenumbers=a['tw'], longitude_nodes=a['lon'],
                                  latitude_nodes=a['lat'], spmd_mesh=mesh, base_shape_multiple=a['base'])
    got = list(s.nodal_shape) + list(s.modal_shape)
    m = ctx.model.call(7, [a['lon'], a['lat'], a['lw'], a['tw'], a['base'], a['x'], a['y']], [])
    ctx.exact('nodal_shape/modal_shape', got, [int(v) for v in m])
    nx_, ny_, mx_, my_ = got
    ok = (mx_ % (2 * a['x']) == 0 and my_ % a['y'] == 0 and nx_ % a['x'] == 0 and ny_ % a['y'] == 0
          and 2 * a['lw'] <= mx_ < 2 * a['lw'] + 2 * a['base'] * a['x'] and a['tw'] <= my_ < a['tw'] + a['base'] * a['y']
          and a['lon'] <= nx_ < a['lon'] + a['base'] * a['x'] and a['lat'] <= ny_ < a['lat'] + a['base'] * a['y'])
    ctx.oracle('padded shapes: divisible by the mesh (x-modal into even shards), minimal, never smaller than the limits', ok, got)
    ctx.oracle('mask is False on all padding', bool(not s.mask[2 * a['lw']:, :].any() and not s.mask[:, a['tw']:].any()))


def r_vpad(ctx, a):
    jax, jnp, jnu, sh, cs = J()
    z, K = a['z'], a['K']
    mesh = mesh_of([z, 1, 1], ['z', 'x', 'y'])
    x = idata(a['seed'], [K, 2, 2])

    def f(u):
        return 2 * u + (jnp.arange(u.shape[0]) + 1.0)[:, None, None]
    got = np.asarray(sh._with_vertical_padding(f, mesh)(jnp.asarray(x)))
    padded, pad = sh._vertical_pad(jnp.asarray(x), mesh)
    exp_pad = None if K == 1 else (-K) % z
    want = 2 * x + (np.arange(K) + 1.0)[:, None, None]
    for (idx, col), (_, gcol) in zip(util.columns(x, 0), util.columns(got, 0)):
        m = ctx.model.call(8, [K, z], [col])
        if K > 1:
            ctx.exact('vertical padding amount', [0 if pad is None else int(pad)], [int(m[0])])
        ctx.exact('levels returned', [got.shape[0]], [int(m[1])])
        ctx.corr('_with_vertical_padding vs model', gcol, m[2:], scale=30.0)
    ctx.oracle('vertical padding makes the level count a multiple of z', K == 1 or (padded.shape[0] % z == 0 and (pad or 0) == exp_pad), [int(padded.shape[0]), pad])
    ctx.oracle_close('crop(f(pad(x))) = f(x) for a level-wise map', got, want, tol_rel=0.0)
    ctx.oracle('padded levels are zeros', bool((np.asarray(padded)[K:] == 0).all()))


RUNNERS = {'einsum': r_einsum, 'api': r_api, 'logic': r_logic, 'cumsum': r_cumsum, 'reshape': r_reshape, 'dlon': r_dlon,
           'shapes': r_shapes, 'vpad': r_vpad}


# ---------------------------------------------------------------------------
# whole operators on a mesh
# ---------------------------------------------------------------------------
_coords = {}


def coords_of(mesh, L, bounds, base, opts=None):
    """CoordinateSystem with FastSphericalHarmonics; mesh None = single device.
    opts: stacked / rev (FastSphericalHarmonics options), radius, dims = [lw, tw, lon_nodes, lat_nodes],
    spacing (latitude_spacing), lon_offset (longitude_offset)."""
    import functools
    jax, jnp, jnu, sh, cs = J()
    from dinosaur import sigma_coordinates as sc
    opts = {k: v for k, v in (opts or {}).items() if v is not None}
    key = (tuple(mesh) if mesh else None, L, tuple(bounds), base, tuple(sorted((k, tuple(v) if isinstance(v, list) else v) for k, v in opts.items())))
    if key not in _coords:
        kw = {}
        if base is not None: kw['base_shape_multiple'] = base
        if 'stacked' in opts: kw['stacked_fourier_transforms'] = bool(opts['stacked'])
        if 'rev' in opts: kw['reverse_einsum_arg_order'] = bool(opts['rev'])
        if 'precision' in opts: kw['transform_precision'] = opts['precision']
        impl = functools.partial(sh.FastSphericalHarmonics, **kw) if kw else sh.FastSphericalHarmonics
        if 'dims' in opts:
            lw, tw, lon, lat = opts['dims']
            grid = sh.Grid(longitude_wavenumbers=lw, total_wavenumbers=tw, longitude_nodes=lon, latitude_nodes=lat,
                           radius=opts.get('radius'), spherical_harmonics_impl=impl,
                           latitude_spacing=opts.get('spacing', 'gauss'), longitude_offset=opts.get('lon_offset', 0.0))
        else:
            grid = sh.Grid.with_wavenumbers(longitude_wavenumbers=L, spherical_harmonics_impl=impl, radius=opts.get('radius'),
                                            latitude_spacing=opts.get('spacing', 'gauss'), longitude_offset=opts.get('lon_offset', 0.0))
        m = mesh_of(mesh, ['z', 'x', 'y']) if mesh else None
        _coords[key] = cs.CoordinateSystem(grid, sc.SigmaCoordinates(np.asarray(bounds, dtype=np.float64)), spmd_mesh=m)
    return _coords[key]


def _grid_opts(a, unsharded=False):
    """options of a case; the single-device reference keeps every Grid constructor option
    (radius, dims, latitude_spacing, longitude_offset) but always uses the default (unstacked,
    non-reversed) transforms, so every option is compared against the same plain computation."""
    o = {'radius': a.get('radius'), 'dims': a.get('dims'), 'spacing': a.get('spacing'), 'lon_offset': a.get('lon_offset')}
    if not unsharded:
        o.update(stacked=a.get('stacked'), rev=a.get('rev'), precision=a.get('precision'))
    return o


# independent (numpy, from the documented layout) references on the unpadded FastSphericalHarmonics layout:
# row i <-> m = i // 2 (even: cos, odd: sin; row 1 is the unused imaginary part of m = 0), column l.
def _ref_mask(lw, tw):
    i = np.arange(2 * lw)[:, None]; l = np.arange(tw)[None, :]
    return ((i // 2) <= l) & (i != 1)


def _ref_d_dlon(x):
    out = np.zeros_like(x); m = (np.arange(x.shape[-2]) // 2)[:, None]
    out[..., 0::2, :] = (m * 1.0)[0::2] * x[..., 1::2, :]
    out[..., 1::2, :] = -(m * 1.0)[1::2] * x[..., 0::2, :]
    return out


def _ref_lap(x, radius):
    l = np.arange(x.shape[-1]); return x * (-l * (l + 1) / radius ** 2)


def _ref_inv_lap(x, radius):
    l = np.arange(x.shape[-1]); w = np.zeros(x.shape[-1]); w[1:] = -radius ** 2 / (l[1:] * (l[1:] + 1)); return x * w


def _ref_clip(x, n):
    out = x.copy(); out[..., x.shape[-1] - n:] = 0; return out


def _structured(kind, seed, shape, mask):
    """modal test fields: random integers, a single non-zero coefficient at the highest retained wavenumbers, the
    constant mode only, identically zero."""
    x = idata(seed, shape) * mask
    if kind == 'top':
        y = np.zeros_like(x)
        y[..., -1, -1] = x[..., -1, -1] + 10.0     # sin part of m = M-1, l = L-1 (masked in: M-1 <= L-1)
        y[..., -2, -1] = 7.0; y[..., 0, -1] = -3.0
        y[..., 2, -2] = 4.0; y[..., 0, -3] = 2.0     # and the two wavenumbers below (clip_wavenumbers with n = 2, 3)
        return y * mask
    if kind == 'const':
        y = np.zeros_like(x); y[..., 0, 0] = 5.0; return y
    if kind == 'zero':
        return np.zeros_like(x)
    return x


def _digest(sph):
    import hashlib
    h = hashlib.sha1()
    for t in (sph.basis.f, sph.basis.p, sph.basis.w, sph.mask):
        h.update(np.ascontiguousarray(np.asarray(t)).tobytes())
    return h.hexdigest()


def _pad_to(x, shape2):
    return np.pad(x, [(0, 0)] * (x.ndim - 2) + [(0, shape2[0] - x.shape[-2]), (0, shape2[1] - x.shape[-1])])


def _cmp_padded(ctx, what, big, small, scale, pad_zero=True):
    """`big` lives on the padded layout, `small` on the unpadded one."""
    big = np.asarray(big); small = np.asarray(small)
    a, b = small.shape[-2:]
    ctx.oracle('%s: no non-finite values on the padded layout' % what, bool(np.isfinite(big).all()))
    if big.shape[:-2] != small.shape[:-2]:
        ctx.oracle('%s: sharded result (padding removed) = unsharded result' % what, False, [list(big.shape), list(small.shape)])
        return
    ctx.oracle_close('%s: sharded result (padding removed) = unsharded result' % what, big[..., :a, :b], small, scale=scale)
    if not pad_zero:
        return
    rest = big.copy(); rest[..., :a, :b] = 0
    ctx.oracle('%s: padding stays zero' % what, bool((rest == 0).all()), float(np.abs(rest).max()) if rest.size else 0.0)


def _ref_sin_lat(n, spacing):
    """latitude nodes from their documentation, independently of dinosaur"""
    if spacing == 'gauss':
        return np.polynomial.legendre.leggauss(n)[0]
    if spacing == 'equiangular':
        return np.sin(-np.pi / 2 + (np.arange(n) + 0.5) * np.pi / n)
    if spacing == 'equiangular_with_poles':
        return np.sin(-np.pi / 2 + np.arange(n) * (np.pi / (n - 1) if n > 1 else 0.0))
    raise ValueError(spacing)


def _grid_attributes(ctx, a, g0, g1):
    """every public attribute of the Grid on the mesh equals (on the unpadded part) the attribute of the
    single-device Grid built with the same constructor options, and the documented definition."""
    nx, ny = g0.nodal_shape; mx, my = g0.modal_shape
    spacing = a.get('spacing') or 'gauss'; off = a.get('lon_offset') or 0.0; radius = a.get('radius') or 1.0

    def same(what, v1, v0, sl):
        v1 = np.asarray(v1, dtype=np.float64)[sl]; v0 = np.asarray(v0, dtype=np.float64)
        if v1.shape != v0.shape:
            return ctx.oracle('Grid attribute on a mesh = unsharded Grid attribute: %s' % what, False, [list(v1.shape), list(v0.shape)])
        fin = np.isfinite(v0)
        ctx.oracle('Grid attribute on a mesh has the same non-finite entries (poles) as unsharded: %s' % what, bool((np.isfinite(v1) == fin).all()))
        ctx.oracle_close('Grid attribute on a mesh = unsharded Grid attribute: %s' % what, np.where(fin, v1, 0.0), np.where(fin, v0, 0.0),
                         scale=max(1.0, float(np.abs(v0[fin]).max()) if fin.any() else 1.0))
    lonsl = (slice(0, nx),); latsl = (slice(0, ny),)
    same('longitudes', g1.longitudes, g0.longitudes, lonsl)
    same('latitudes', g1.latitudes, g0.latitudes, latsl)
    same('nodal_axes[0]', g1.nodal_axes[0], g0.nodal_axes[0], lonsl)
    same('nodal_axes[1] (sin latitude)', g1.nodal_axes[1], g0.nodal_axes[1], latsl)
    same('cos_lat', g1.cos_lat, g0.cos_lat, latsl)
    with np.errstate(divide='ignore', invalid='ignore'):
        same('sec2_lat', g1.sec2_lat, g0.sec2_lat, latsl)
    same('quadrature weights', g1.spherical_harmonics.basis.w, g0.spherical_harmonics.basis.w, latsl)
    same('nodal_mesh[1]', g1.nodal_mesh[1], g0.nodal_mesh[1], (slice(0, nx), slice(0, ny)))
    same('laplacian_eigenvalues', g1.laplacian_eigenvalues, g0.laplacian_eigenvalues, (slice(0, my),))
    same('modal_axes[0]', g1.modal_axes[0], g0.modal_axes[0], (slice(0, mx),))
    same('modal_axes[1]', g1.modal_axes[1], g0.modal_axes[1], (slice(0, my),))
    ctx.oracle('Grid scalar attributes on a mesh = unsharded (radius, offsets, spacing, limits)',
               (g1.radius, g1.longitude_offset, g1.latitude_spacing, g1.longitude_wavenumbers, g1.total_wavenumbers, g1.longitude_nodes, g1.latitude_nodes)
               == (g0.radius, g0.longitude_offset, g0.latitude_spacing, g0.longitude_wavenumbers, g0.total_wavenumbers, g0.longitude_nodes, g0.latitude_nodes)
               and g1.radius == radius and g1.latitude_spacing == spacing and g1.longitude_offset == off)
    sp1 = g1.spherical_harmonics
    ctx.oracle('the spherical-harmonics object of the mesh Grid carries the Grid options',
               (sp1.latitude_spacing, sp1.longitude_nodes, sp1.latitude_nodes, sp1.longitude_wavenumbers, sp1.total_wavenumbers)
               == (spacing, g0.longitude_nodes, g0.latitude_nodes, g0.longitude_wavenumbers, g0.total_wavenumbers))
    # documented definitions (independent of the implementation)
    ctx.oracle_close('Grid on a mesh: sin(latitude) nodes = documented %s nodes' % spacing, np.asarray(g1.nodal_axes[1])[:ny],
                     _ref_sin_lat(g0.latitude_nodes, spacing), scale=1.0)
    ctx.oracle_close('Grid on a mesh: longitudes = offset + 2 pi i / n', np.asarray(g1.longitudes)[:nx],
                     off + 2 * np.pi * np.arange(g0.longitude_nodes) / g0.longitude_nodes, scale=2 * np.pi + abs(off))
    l = np.arange(g0.total_wavenumbers)
    ctx.oracle_close('Grid on a mesh: laplacian eigenvalues = -l(l+1)/radius^2', np.asarray(g1.laplacian_eigenvalues)[:my],
                     -l * (l + 1) / radius ** 2, scale=float(my * (my + 1)))


def r_grid_reject(ctx, a):
    """odd x / y mesh sizes > 1 cannot be served by the two-way collectives: the transforms must raise, not return
    wrong values (odd z is fine: only the cumulative sums run over z)."""
    jax, jnp, jnu, sh, cs = J()
    c1 = coords_of(a['mesh'], a['L'], [0.0, 0.5, 1.0], None)
    g1 = c1.horizontal
    x1 = idata(a['seed'], (2,) + g1.modal_shape)
    for name, arg in (('to_nodal', x1), ('to_modal', idata(a['seed'], (2,) + g1.nodal_shape))):
        try:
            getattr(g1, name)(jnp.asarray(arg)); msg = None; raised = False
        except Exception as e:
            msg = repr(e); raised = True
        ctx.oracle('odd mesh sizes > 1 are rejected (axis_size must be 1 or even), everything else accepted',
                   raised and 'axis_size must be 1 or even' in msg, {'op': name, 'error': msg})


def r_grid(ctx, a):
    jax, jnp, jnu, sh, cs = J()
    K = a['K']; b = np.linspace(0, 1, K + 1).tolist()
    c0 = coords_of(None, a['L'], b, 1, _grid_opts(a, True)); c1 = coords_of(a['mesh'], a['L'], b, a['base'], _grid_opts(a))
    g0 = c0.horizontal; g1 = c1.horizontal
    lw, tw = g0.longitude_wavenumbers, g0.total_wavenumbers
    radius = a.get('radius') or 1.0
    mask0 = _ref_mask(lw, tw)                       # independent of the implementation's own mask
    ctx.oracle('mask (unpadded layout) = documented layout', bool(g0.modal_shape == mask0.shape and (g0.mask == mask0).all()))
    ctx.oracle('mask of the padded layout = padded mask', bool((g1.mask == _pad_to(mask0, g1.modal_shape)).all()))
    _grid_attributes(ctx, a, g0, g1)
    ctx.count('grid spacing=%s lon_offset=%s radius=%s' % (a.get('spacing') or 'gauss', a.get('lon_offset'), a.get('radius')))
    dig = _digest(g1.spherical_harmonics)
    x0 = _structured(a.get('kind', 'random'), a['seed'], (K,) + g0.modal_shape, mask0)
    x1 = _pad_to(x0, g1.modal_shape)
    ctx.count('grid data=%s stacked=%s rev=%s' % (a.get('kind', 'random'), a.get('stacked'), a.get('rev')))
    n0 = np.asarray(g0.to_nodal(jnp.asarray(x0))); n1 = np.asarray(g1.to_nodal(jnp.asarray(x1)))
    _cmp_padded(ctx, 'to_nodal', n1, n0, 4 * float(np.abs(x0).sum(axis=(1, 2)).max()) + 1)
    y0 = idata(a['seed'] + 3, (K,) + g0.nodal_shape); y1 = _pad_to(y0, g1.nodal_shape)
    m0 = np.asarray(g0.to_modal(jnp.asarray(y0))); m1 = np.asarray(g1.to_modal(jnp.asarray(y1)))
    _cmp_padded(ctx, 'to_modal', m1, m0, float(np.abs(y0).sum(axis=(1, 2)).max()) + 1)
    d0 = np.asarray(g0.d_dlon(jnp.asarray(x0))); d1 = np.asarray(g1.d_dlon(jnp.asarray(x1)))
    dscale = float(np.abs(x0).max() * lw) + 1
    _cmp_padded(ctx, 'd_dlon', d1, d0, dscale)
    _cmp_padded(ctx, 'd_dlon vs the documented recurrence', d1, _ref_d_dlon(x0), dscale)
    # all field ranks the code supports: 3-D (levels, m, l), surface (1, m, l) and plain 2-D (m, l)
    for tag, sl in (('2-D field', 0), ('surface field', slice(0, 1))):
        if tag.split()[0] not in a.get('ranks', ['2-D', 'surface']): continue
        e0 = np.asarray(g0.d_dlon(jnp.asarray(x0[sl]))); e1 = np.asarray(g1.d_dlon(jnp.asarray(x1[sl])))
        _cmp_padded(ctx, 'd_dlon (%s)' % tag, e1, e0, dscale)
        f0 = np.asarray(g0.to_nodal(jnp.asarray(x0[sl]))); f1 = np.asarray(g1.to_nodal(jnp.asarray(x1[sl])))
        _cmp_padded(ctx, 'to_nodal (%s)' % tag, f1, f0, 4 * float(np.abs(x0).sum(axis=(1, 2)).max()) + 1)
        h0 = np.asarray(g0.to_modal(jnp.asarray(y0[sl]))); h1 = np.asarray(g1.to_modal(jnp.asarray(y1[sl])))
        _cmp_padded(ctx, 'to_modal (%s)' % tag, h1, h0, float(np.abs(y0).sum(axis=(1, 2)).max()) + 1)
        for name in ('cos_lat_d_dlat', 'laplacian'):
            r0 = np.asarray(getattr(g0, name)(jnp.asarray(x0[sl]))); r1 = np.asarray(getattr(g1, name)(jnp.asarray(x1[sl])))
            _cmp_padded(ctx, '%s (%s)' % (name, tag), r1, r0, float(np.abs(r0).max()) * 4 + 1, pad_zero=(name != 'cos_lat_d_dlat'))
    M1 = g1.modal_shape[0]
    for (idx, col), (_, dcol) in zip(util.columns(x1, 1), util.columns(d1, 1)):
        if a.get('no_model'): break          # oracle-only use from the C01 / C09 plugins (their model has no such command)
        if idx[1] < 2:     # two columns per level are enough (each costs a model call)
            ctx.corr('Grid.d_dlon on mesh vs model', dcol, ctx.model.call(6, [M1, a['mesh'][1]], [col]), scale=float(np.abs(x0).max() * M1) + 1)
    cn = int(a.get('clip_n', 1))
    refs = {'laplacian': _ref_lap(x0, radius), 'inverse_laplacian': _ref_inv_lap(x0, radius), 'clip_wavenumbers': _ref_clip(x0, cn)}
    for name in ('cos_lat_d_dlat', 'laplacian', 'inverse_laplacian', 'clip_wavenumbers'):
        kw = {'n': cn} if name == 'clip_wavenumbers' else {}
        r0 = np.asarray(getattr(g0, name)(jnp.asarray(x0), **kw)); r1 = np.asarray(getattr(g1, name)(jnp.asarray(x1), **kw))
        # cos_lat_d_dlat documents an artifact in the highest wavenumber: on a padded layout it lands in the
        # first padded column (l = L); it must be inert, i.e. invisible after the next transform
        _cmp_padded(ctx, name, r1, r0, float(np.abs(r0).max()) * 4 + 1, pad_zero=(name != 'cos_lat_d_dlat'))
        if name in refs:
            _cmp_padded(ctx, '%s vs its definition' % name, r1, refs[name], float(np.abs(refs[name]).max()) * 4 + 1)
        if name == 'cos_lat_d_dlat':
            _cmp_padded(ctx, 'to_nodal(cos_lat_d_dlat)', np.asarray(g1.to_nodal(jnp.asarray(r1))),
                        np.asarray(g0.to_nodal(jnp.asarray(r0))), 4 * float(np.abs(r0).sum(axis=(1, 2)).max()) + 1)
    # pytrees with scalars, and purity: same object, same input, after other work -> bit-identical; tables untouched
    t1 = g1.to_nodal({'f': jnp.asarray(x1), 's': 1.5})
    ctx.oracle('to_nodal repeated (inside a pytree, after other calls) is bit-identical',
               bool(np.array_equal(np.asarray(t1['f']), n1)) and float(t1['s']) == 1.5)
    ctx.oracle('to_modal repeated is bit-identical', bool(np.array_equal(np.asarray(g1.to_modal(jnp.asarray(y1))), m1)))
    ctx.oracle('cached basis tables / mask are not mutated by the transforms', _digest(g1.spherical_harmonics) == dig)
    # maybe_to_nodal / maybe_to_modal decide by shape equality: only meaningful where the padded nodal and modal
    # shapes differ (on coinciding layouts the call is ambiguous by construction: counted, not judged)
    z, xm, ym = a['mesh']
    if K % z != 0:
        pass      # maybe_to_* impose the dycore sharding, which needs a level count divisible by z
    elif g1.nodal_shape == g1.modal_shape:
        ctx.count('maybe_to_*: ambiguous layout (nodal_shape == modal_shape) skipped')
    else:
        ctx.count('maybe_to_*: checked')
        sn = 4 * float(np.abs(x0).sum(axis=(1, 2)).max()) + 1; sm = float(np.abs(y0).sum(axis=(1, 2)).max()) + 1
        try:
            tr = cs.maybe_to_nodal({'m': jnp.asarray(x1), 'n': jnp.asarray(y1)}, c1)
            _cmp_padded(ctx, 'maybe_to_nodal(modal)', np.asarray(tr['m']), n0, sn)
            ctx.oracle('maybe_to_nodal(nodal) is the identity', bool(np.array_equal(np.asarray(tr['n']), y1)))
            tr = cs.maybe_to_modal({'m': jnp.asarray(x1), 'n': jnp.asarray(y1)}, c1)
            _cmp_padded(ctx, 'maybe_to_modal(nodal)', np.asarray(tr['n']), m0, sm)
            ctx.oracle('maybe_to_modal(modal) is the identity', bool(np.array_equal(np.asarray(tr['m']), x1)))
        except Exception as e:
            ctx.oracle('maybe_to_nodal / maybe_to_modal accept a mixed nodal/modal pytree on an unambiguous layout', False, repr(e)[:300])
    # sharding constraints are semantically the identity (3-D, surface, 2-D leaves and scalars)
    if K % z == 0:
        tree = {'v': jnp.asarray(x1), 'p': jnp.asarray(x1[:1]), 'o': jnp.asarray(x1[0]), 's': 2.5}
        fns = [('with_dycore_sharding', c1.with_dycore_sharding)]
        if g1.modal_shape[0] % (xm * z) == 0:
            fns += [('with_physics_sharding', c1.with_physics_sharding), ('dycore_to_physics_sharding', c1.dycore_to_physics_sharding),
                    ('physics_to_dycore_sharding', c1.physics_to_dycore_sharding)]
        for nm, fn in fns:
            try:
                o = fn(tree)
                ok = all(np.array_equal(np.asarray(o[k]), np.asarray(tree[k])) for k in ('v', 'p', 'o')) and float(o['s']) == 2.5
                det = None
            except Exception as e:
                ok = False; det = repr(e)[:300]
            ctx.oracle('%s is the identity' % nm, ok, det)


def r_filters(ctx, a):
    jax, jnp, jnu, sh, cs = J()
    from dinosaur import filtering, time_integration as ti
    K = a['K']; b = np.linspace(0, 1, K + 1).tolist()
    opts = {'radius': a.get('radius')}
    c0 = coords_of(None, a['L'], b, 1, opts); c1 = coords_of(a['mesh'], a['L'], b, a['base'], opts)
    g0 = c0.horizontal; g1 = c1.horizontal
    radius = a.get('radius') or 1.0
    ctx.count('filters padding=%s' % (tuple(g1.modal_padding),))
    mask0 = _ref_mask(g0.longitude_wavenumbers, g0.total_wavenumbers)
    kind = a.get('kind', 'random')
    x0 = {'u': _structured(kind, a['seed'], (K,) + g0.modal_shape, mask0), 'p': _structured(kind, a['seed'] + 1, (1,) + g0.modal_shape, mask0)}
    x1 = {k: _pad_to(v, g1.modal_shape) for k, v in x0.items()}
    dt, tau, order = a['dt'], a['tau'], a['order']
    cutoff = a.get('cutoff', 0.25)
    # independent numpy formulas of the documented damping factors (l = total wavenumber, Lmax = tw - 1)
    l = np.arange(g0.total_wavenumbers, dtype=np.float64); k = l / l.max()
    ref_exp = lambda att, p, c: np.exp((k > c) * (-att * (((k - c) / (1 - c)) ** (2 * p))))
    lam = l * (l + 1) / radius ** 2
    refs = {'exponential_step_filter': ref_exp(dt / tau, order + 1, cutoff),
            'horizontal_diffusion_step_filter': np.exp(-(dt / (tau * lam.max() ** order)) * lam ** order),
            'exponential_filter': ref_exp(16, order + 1, 0.5),
            'horizontal_diffusion_filter': np.exp(-(dt * 1e-3) * lam ** order)}
    fs = {'exponential_step_filter': lambda g: ti.exponential_step_filter(g, dt, tau, order + 1, cutoff),
          'horizontal_diffusion_step_filter': lambda g: ti.horizontal_diffusion_step_filter(g, dt, tau, order)}
    for name, mk in fs.items():
        r0 = mk(g0)(x0, x0); r1 = mk(g1)(x1, x1)
        for kk in x0:
            _cmp_padded(ctx, name, r1[kk], r0[kk], float(np.abs(x0[kk]).max()) + 1)
            _cmp_padded(ctx, name + ' vs its formula', r1[kk], x0[kk] * refs[name], float(np.abs(x0[kk]).max()) + 1)
    # leapfrog form: only the future slice is filtered
    lf0 = ti.exponential_leapfrog_step_filter(g0, dt, tau, order + 1, cutoff)(None, (x0, x0))
    lf1 = ti.exponential_leapfrog_step_filter(g1, dt, tau, order + 1, cutoff)(None, (x1, x1))
    for kk in x0:
        ctx.oracle('exponential_leapfrog_step_filter leaves the current slice untouched', bool(np.array_equal(np.asarray(lf1[0][kk]), x1[kk])))
        _cmp_padded(ctx, 'exponential_leapfrog_step_filter', lf1[1][kk], lf0[1][kk], float(np.abs(x0[kk]).max()) + 1)
        _cmp_padded(ctx, 'exponential_leapfrog_step_filter vs its formula', lf1[1][kk], x0[kk] * refs['exponential_step_filter'],
                    float(np.abs(x0[kk]).max()) + 1)
    fs2 = {'exponential_filter': lambda g: filtering.exponential_filter(g, 16, order + 1, 0.5),
           'horizontal_diffusion_filter': lambda g: filtering.horizontal_diffusion_filter(g, dt * 1e-3, order)}
    for name, mk in fs2.items():
        r0 = mk(g0)(x0); r1 = mk(g1)(x1)
        for kk in x0:
            _cmp_padded(ctx, name, r1[kk], r0[kk], float(np.abs(x0[kk]).max()) + 1)
            _cmp_padded(ctx, name + ' vs its formula', r1[kk], x0[kk] * refs[name], float(np.abs(x0[kk]).max()) + 1)
    # per-level attenuation (array-valued filter parameter) and repeated application of the same filter object
    att = (np.arange(K) + 1.0)[:, None, None] * 4.0
    f1 = filtering.exponential_filter(g1, att, order + 1, 0.5); f0 = filtering.exponential_filter(g0, att, order + 1, 0.5)
    a1 = np.asarray(f1(x1['u'])); _cmp_padded(ctx, 'exponential_filter (per-level attenuation)', a1, f0(x0['u']), float(np.abs(x0['u']).max()) + 1)
    ref = np.stack([x0['u'][i] * ref_exp(att[i, 0, 0], order + 1, 0.5) for i in range(K)])
    _cmp_padded(ctx, 'exponential_filter (per-level attenuation) vs its formula', a1, ref, float(np.abs(x0['u']).max()) + 1)
    f1(x1['p'])
    ctx.oracle('filter object reused: bit-identical result', bool(np.array_equal(np.asarray(f1(x1['u'])), a1)))


def _pe_state(pe, c0, c1, K, seed, scales=(1.0, 1.0, 1.0, 1.0), tracers=False, kind='random'):
    jnp = J()[1]
    ms = c0.horizontal.modal_shape; mask = _ref_mask(c0.horizontal.longitude_wavenumbers, c0.horizontal.total_wavenumbers)

    def mkst(c):
        fields = []
        for i, (k, sc_) in enumerate(zip((K, K, K, 1, K), tuple(scales) + (scales[0],))):
            fields.append(jnp.asarray(_pad_to(sc_ * _structured('zero' if (kind == 'dry' and i == 4) else ('random' if kind == 'dry' else kind), seed + i, (k,) + ms, mask), c.horizontal.modal_shape)))
        return pe.State(vorticity=fields[0], divergence=fields[1], temperature_variation=fields[2],
                        log_surface_pressure=fields[3], tracers={'q': fields[4]} if tracers else {})
    return mkst(c0), mkst(c1)


def _cmp_states(ctx, what, s1, s0, rel=16.0):
    for fld in ('vorticity', 'divergence', 'temperature_variation', 'log_surface_pressure'):
        a0 = np.asarray(getattr(s0, fld)); a1 = np.asarray(getattr(s1, fld))
        _cmp_padded(ctx, '%s.%s' % (what, fld), a1, a0, rel * float(np.abs(a0).max()) + 1e-30)
    for k in s0.tracers:
        a0 = np.asarray(s0.tracers[k]); a1 = np.asarray(s1.tracers[k])
        _cmp_padded(ctx, '%s.tracers' % what, a1, a0, rel * float(np.abs(a0).max()) + 1e-30)


def _pe_setup(a, tracers=False, scales=(1.0, 1.0, 1.0, 1.0), **eqkw):
    from dinosaur import primitive_equations as pe, scales as dscales
    b = a['bounds']; K = len(b) - 1
    opts = {'radius': a.get('radius')}
    c0 = coords_of(None, a['L'], b, 1, opts); c1 = coords_of(a['mesh'], a['L'], b, None, opts)
    if a.get('consts'):      # non-default physical constants
        u = dscales.units
        specs = pe.PrimitiveEquationsSpecs.from_si(ideal_gas_constant_si=300.0 * u.J / u.kilogram / u.kelvin,
                                                   kappa_si=0.25 * u.dimensionless, angular_velocity_si=1e-4 / u.s)
    else:
        specs = pe.PrimitiveEquationsSpecs.from_si()
    Tref = 250.0 + 10.0 * np.arange(K)
    eq0 = pe.PrimitiveEquations(Tref, np.zeros(c0.horizontal.modal_shape), c0, specs, **eqkw)
    eq1 = pe.PrimitiveEquations(Tref, np.zeros(c1.horizontal.modal_shape), c1, specs, **eqkw)
    s0, s1 = _pe_state(pe, c0, c1, K, a['seed'], scales, tracers, a.get('kind', 'random'))
    return pe, eq0, eq1, s0, s1


def r_implicit(ctx, a):
    import dataclasses
    pe, eq0, eq1, s0, s1 = _pe_setup(a)
    ctx.count('implicit data=%s radius=%s consts=%s' % (a.get('kind', 'random'), a.get('radius'), bool(a.get('consts'))))
    i1 = eq1.implicit_terms(s1)
    _cmp_states(ctx, 'implicit_terms', i1, eq0.implicit_terms(s0))
    inv = {}
    for m in ('split', 'stacked', 'blockwise'):
        inv[m] = eq1.implicit_inverse(s1, a['eta'], method=m)
        _cmp_states(ctx, 'implicit_inverse[%s]' % m, inv[m], eq0.implicit_inverse(s0, a['eta'], method='split'), rel=64.0)
    # both vertical matmul strategies on the mesh
    for vm in ('dense', 'sparse'):
        eqv = dataclasses.replace(eq1, vertical_matmul_method=vm)
        _cmp_states(ctx, 'implicit_terms[%s]' % vm, eqv.implicit_terms(s1), eq0.implicit_terms(s0))
    # purity: same equation object, same state, after the other calls
    again = eq1.implicit_terms(s1)
    ctx.oracle('implicit_terms repeated on the same object is bit-identical',
               all(np.array_equal(np.asarray(getattr(again, f)), np.asarray(getattr(i1, f)))
                   for f in ('divergence', 'temperature_variation', 'log_surface_pressure')))
    again = eq1.implicit_inverse(s1, a['eta'], method='split')
    ctx.oracle('implicit_inverse repeated on the same object is bit-identical',
               all(np.array_equal(np.asarray(getattr(again, f)), np.asarray(getattr(inv['split'], f)))
                   for f in ('divergence', 'temperature_variation', 'log_surface_pressure')))


def r_step(ctx, a):
    jax = J()[0]
    from dinosaur import time_integration as ti, sigma_coordinates as sc
    eqkw = {}
    if a.get('advection') == 'upwind': eqkw['vertical_advection'] = sc.upwind_vertical_advection
    if a.get('advection') == 'none': eqkw['include_vertical_advection'] = False
    ctx.count('step advection=%s data=%s' % (a.get('advection', 'centered'), a.get('kind', 'random')))
    pe, eq0, eq1, s0, s1 = _pe_setup(a, tracers=True, scales=(1e-3, 1e-3, 1e-2, 1e-3), **eqkw)
    _cmp_states(ctx, 'explicit_terms', jax.jit(eq1.explicit_terms)(s1), jax.jit(eq0.explicit_terms)(s0), rel=64.0)
    _cmp_states(ctx, 'imex_rk_sil3 step', jax.jit(ti.imex_rk_sil3(eq1, time_step=0.01))(s1),
                jax.jit(ti.imex_rk_sil3(eq0, time_step=0.01))(s0), rel=64.0)


def r_maybe_ambiguous(ctx, a):
    """KNOWN FINDING (inherent to the shape-based dispatch of maybe_to_nodal / maybe_to_modal): on padded layouts
    whose nodal and modal shapes coincide a modal field is taken for a nodal one (and vice versa) and returned
    unchanged, so the sharded call differs from the unsharded one.  One fixed case; the first clause fails on the
    unchanged tree and is registered in known_findings.json, the other clauses state what still holds."""
    jax, jnp, jnu, sh, cs = J()
    from dinosaur import sigma_coordinates as sc
    K = a['K']
    mk = getattr(sh.Grid, a['grid'])
    c0 = cs.CoordinateSystem(mk(spherical_harmonics_impl=sh.FastSphericalHarmonics), sc.SigmaCoordinates.equidistant(K))
    c1 = cs.CoordinateSystem(mk(spherical_harmonics_impl=sh.FastSphericalHarmonics), sc.SigmaCoordinates.equidistant(K),
                             spmd_mesh=mesh_of(a['mesh'], ['z', 'x', 'y']))
    g0 = c0.horizontal; g1 = c1.horizontal
    mask0 = _ref_mask(g0.longitude_wavenumbers, g0.total_wavenumbers)
    x0 = idata(a['seed'], (K,) + g0.modal_shape) * mask0; x1 = _pad_to(x0, g1.modal_shape)
    y0 = idata(a['seed'] + 1, (K,) + g0.nodal_shape); y1 = _pad_to(y0, g1.nodal_shape)
    n0 = np.asarray(cs.maybe_to_nodal(jnp.asarray(x0), c0)); n1 = np.asarray(cs.maybe_to_nodal(jnp.asarray(x1), c1))
    m0 = np.asarray(cs.maybe_to_modal(jnp.asarray(y0), c0)); m1 = np.asarray(cs.maybe_to_modal(jnp.asarray(y1), c1))
    sn = 4 * float(np.abs(x0).sum(axis=(1, 2)).max()) + 1; sm = float(np.abs(y0).sum(axis=(1, 2)).max()) + 1
    a_, b_ = g0.nodal_shape; c_, d_ = g0.modal_shape
    ok = bool(n1.shape[-2:] >= (a_, b_) and np.all(np.abs(n1[..., :a_, :b_] - n0) <= ctx.tol_rel * sn)
              and np.all(np.abs(m1[..., :c_, :d_] - m0) <= ctx.tol_rel * sm))
    ctx.oracle('maybe_to_nodal / maybe_to_modal on a mesh: sharded result (padding removed) = unsharded result, '
               'also when the padded nodal and modal shapes coincide', ok,
               {'nodal_shape': list(g1.nodal_shape), 'modal_shape': list(g1.modal_shape),
                'max |maybe_to_nodal sharded - unsharded|': float(np.abs(n1[..., :a_, :b_] - n0).max()),
                'max |maybe_to_modal sharded - unsharded|': float(np.abs(m1[..., :c_, :d_] - m0).max())})
    # what still holds
    ctx.oracle('this layout is ambiguous: padded nodal_shape == modal_shape', g1.nodal_shape == g1.modal_shape, [list(g1.nodal_shape), list(g1.modal_shape)])
    ctx.oracle('unsharded layout is not ambiguous', g0.nodal_shape != g0.modal_shape)
    _cmp_padded(ctx, 'explicit to_nodal on the ambiguous layout', np.asarray(g1.to_nodal(jnp.asarray(x1))), np.asarray(g0.to_nodal(jnp.asarray(x0))), sn)
    _cmp_padded(ctx, 'explicit to_modal on the ambiguous layout', np.asarray(g1.to_modal(jnp.asarray(y1))), np.asarray(g0.to_modal(jnp.asarray(y0))), sm)
    ctx.oracle_close('unsharded maybe_to_nodal(modal) = to_nodal', n0, np.asarray(g0.to_nodal(jnp.asarray(x0))), scale=sn)
    ctx.oracle_close('unsharded maybe_to_modal(nodal) = to_modal', m0, np.asarray(g0.to_modal(jnp.asarray(y0))), scale=sm)
    ctx.oracle('maybe_to_* on the mesh return finite values', bool(np.isfinite(n1).all() and np.isfinite(m1).all()))


RUNNERS.update({'grid': r_grid, 'grid_reject': r_grid_reject, 'filters': r_filters, 'implicit': r_implicit, 'step': r_step,
                'maybe_ambiguous': r_maybe_ambiguous})
