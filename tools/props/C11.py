"""C11 - structural invariants survive any number of steps.

(i) correspondence: the step-term encodings of the integrators (Model/Invariants.v,
    extracted, exact rationals) vs dinosaur.time_integration on a diagonal
    ImplicitExplicitODE; their scalar images (sim_time component) and consistency
    sums; the required-zero pattern (mask / top wavenumber / padding) and
    clip_wavenumbers vs the grid objects of the implementation;
(ii) the property's clauses evaluated on the implementation: trajectories of
    step_with_filters(integrator(equation), filters) from random admissible states
    for every equation class: exact-zero pattern, (0,0) coefficients of vorticity
    and divergence, shallow-water mean potential, uniform tracer, sim_time; unit
    level: explicit_terms on arbitrary dense input, implicit terms / inverse,
    filters on the scalar sim_time leaf."""
import numpy as np
from fractions import Fraction
from harness import util, dyn

THEOREMS = ['C11_term_preserves_subspace', 'C11_trajectory_in_subspace', 'C11_leapfrog_trajectory_in_subspace',
            'C11_explicit_into_Supp', 'C11_explicit_top_zero', 'C11_diagonal_preserves_Supp',
            'C11_modal_trajectory_in_Supp', 'C11_term_fixes_invariant_component',
            'C11_mean_tendencies_vanish', 'C11_inverse_passes_component', 'C11_sw_implicit_at_mean',
            'C11_sw_mean_thickness_conserved', 'C11_integrators_consistent', 'C11_concrete_consistency_sums',
            'C11_sim_time_advances', 'C11_sim_time_advances_rk4', 'C11_filter_leaves_scalar_leaf',
            'C11_uniform_tracer_vertical', 'C11_uniform_tracer_horizontal', 'C11_uniform_tracer_stays_uniform',
            'C11_terms_are_the_integrators', 'C11_sim_time_advances_R', 'C11_hyps_satisfiable',
            'C11_fix_time_trajectory', 'C11_fix_time_round_half_even',
            'C11_sw_mean_tendencies_vanish', 'C11_sw_explicit_top_zero', 'C11_sw_explicit_into_Supp',
            'C11_pe_explicit_top_zero', 'C11_pe_explicit_into_Supp', 'C11_pe_mean_tendencies_vanish',
            'C11_pe_implicit_preserve_Supp', 'C11_primeq_trajectory_in_subspace',
            'C11_primeq_leapfrog_trajectory_in_subspace', 'C11_primeq_means_conserved', 'C11_pe_hyps_satisfiable',
            'C11_fix_time_is_source',
            'C11_pe_right_inverse_div_rows', 'C11_pe_H_p_support_from_recurrence', 'C11_pe_H_deriv_mask_from_weights',
            'C11_pe_explicit_into_Supp_from_recurrence', 'C11_primeq_trajectory_in_subspace_from_recurrence',
            'C11_primeq_leapfrog_trajectory_in_subspace_from_recurrence', 'C11_primeq_means_conserved_from_inverse',
            'C11_primeq_leapfrog_means_conserved', 'C11_pe_round2_hyps_satisfiable']
LEVEL = 'proof'
LEVEL_TEXT = ('machine-checked theorems (Coq) for every field, every vector space, every step term built from '
              'u, +, scalar *, F, G, G_inv (all integrators of time_integration.py are encoded as such terms, the '
              'low-storage and Butcher schemes for arbitrary coefficient lists), every filter stack and EVERY step '
              'count k (induction): linear subspaces that F maps into and G, G_inv, filters preserve are invariant '
              '(instantiated with the support pattern: triangular mask, clipped top wavenumber, padding - explicit '
              'terms end with clip_wavenumbers, implicit terms/inverse/filters act per (m,l)); components that see '
              'F = phi, G = 0, G_inv = id evolve as u + k*c*phi with c the explicit consistency sum of the scheme '
              '(phi = 0: (0,0) coefficients of vorticity/divergence from the model of div/curl/laplacian; phi = 1: '
              'sim_time; c = 1 exactly for Euler, CN-RK2, RK3, SIL3, |c-1| <= 1e-12 for the decimal RK4); '
              'shallow-water mean thickness; vertical advection of a level-constant field is exactly 0. The term '
              'encodings are executed (extraction) against time_integration.py on a diagonal ODE; the clauses are '
              'evaluated on trajectories of the implementation for all equation classes.')
LEVEL_NOTE = ('theorems are about the Gallina models (Model/Invariants.v, Model/Deriv.v, Model/Sigma.v, Model/Filters.v); '
              'explicit_terms is modelled as clip(anything with zeros outside the mask) [H_pre_mask], the nodal '
              'products and transforms are not modelled; moist (0,0) tendencies and the horizontal part of the '
              'uniform-tracer clause hold only to rounding/quadrature exactness and enter as named hypotheses '
              'checked numerically; float rounding, jit/scan and tree_math are exercised, not modelled')
TECHNIQUE = 'Coq proof (step-term language, subspace + affine-component induction over all k) with extracted term evaluator vs time_integration.py; trajectory oracles on all equation classes'

SCHEMES = {'backward_forward_euler': 0, 'semi_implicit_leapfrog': 1, 'crank_nicolson_rk2': 2,
           'crank_nicolson_rk3': 3, 'crank_nicolson_rk4': 4, 'imex_rk_sil3': 5, 'low_storage': 6, 'imex_tableau': 7}
RK_INTEGRATORS = ('backward_forward_euler', 'crank_nicolson_rk2', 'crank_nicolson_rk3', 'crank_nicolson_rk4', 'imex_rk_sil3')
FILTER_STACKS = ([], ['exponential'], ['exponential', 'diffusion'])
GRIDS = {'real': dict(M=4, L=5, I=12, J=6, impl='real'),
         'fast': dict(M=4, L=5, I=12, J=6, impl='fast', base_shape_multiple=4),
         # padded to (16, 8), unstacked Fourier transforms, reversed einsum argument order
         'fast8': dict(M=4, L=5, I=12, J=6, impl='fast', base_shape_multiple=8, stacked_fourier_transforms=False, reverse_einsum_arg_order=True),
         'fast_stacked': dict(M=4, L=5, I=12, J=6, impl='fast', stacked_fourier_transforms=True),
         # total_wavenumbers > longitude_wavenumbers + 1, non-unit radius
         'real_L6': dict(M=3, L=6, I=10, J=8, impl='real', radius=2.5),
         'real_L6_r1': dict(M=3, L=6, I=10, J=8, impl='real'),     # differs from real_L6 in the radius only
         'fast_L6': dict(M=3, L=6, I=10, J=8, impl='fast', base_shape_multiple=4, radius=0.5)}

# a third-order 3-stage low-storage scheme different from the built-in ones (Williamson case 7 style,
# exact rationals) and a 3-stage IMEX tableau with zero entries (exercises the zero skipping)
CUSTOM_LS = dict(alphas=[0.0, 0.25, 0.75, 1.0], betas=[0.0, -0.5, -1.25], gammas=[0.25, 0.75, 1.0])
CUSTOM_IMEX = dict(a_ex=[[0.5], [0.0, 0.75]], a_im=[[0.25, 0.25], [0.0, 0.5, 0.25]],
                   b_ex=[0.25, 0.0, 0.75], b_im=[0.25, 0.0, 0.75])


# user-supplied schemes with NON-dyadic weights (a float32 intermediate, 1e-8 relative, is visible against the exact model):
# ARS(2,2,2) of Ascher-Ruuth-Spiteri with gamma = 1 - 1/sqrt(2), delta = 1 - 1/(2 gamma); a low-storage list with decimals
_G = 1.0 - 1.0 / np.sqrt(2.0); _D = 1.0 - 1.0 / (2.0 * _G)
ARS222 = dict(a_ex=[[_G], [_D, 1.0 - _D]], a_im=[[0.0, _G], [0.0, 1.0 - _G, _G]], b_ex=[_D, 1.0 - _D, 0.0], b_im=[0.0, 1.0 - _G, _G])
LS_NONDYADIC = dict(alphas=[0.0, 0.3, 0.7, 1.0], betas=[0.0, -0.6, -1.1], gammas=[0.3, 0.7, 0.75])
TABLEAUX = {'imex_tableau': CUSTOM_IMEX, 'imex_ars222': ARS222}
LS_LISTS = {'low_storage': CUSTOM_LS, 'low_storage_nd': LS_NONDYADIC}
SCHEMES.update({'low_storage_nd': 6, 'imex_ars222': 7})


def _seed(rng): return int(rng.integers(0, 2 ** 31))


SW_SUPP = [dict(grid=dict(M=3, L=4, I=8, J=5, spacing='gauss', impl='real'), layers=1, dens=[1.0], orog=False),
           dict(grid=dict(M=3, L=4, I=8, J=4, spacing='gauss', impl='fast'), layers=3, dens=[1.0, 1.3125, 2.125], orog=True),
           dict(grid=dict(M=4, L=6, I=10, J=7, spacing='equiangular', impl='real', radius=2.5), layers=2, dens=[1.5, 1.0], orog=True)]


PE_SUPP = [dict(impl='real', K=2), dict(impl='fast', K=3), dict(impl='real_L6', K=3)]


def generate(ctx):
    rng = ctx.rng
    quick = ctx.tier == 'quick'
    # --- the modelled shallow-water explicit terms (Model/ShallowWater.v): hypotheses and conclusions of C11_sw_* ---
    for n, cfg in enumerate(SW_SUPP):
        ctx.count('sw_supp:%s/%d layers' % (cfg['grid']['impl'], cfg['layers']))
        yield 'sw_supp', dict(cfg, seed=int(np.random.Generator(np.random.PCG64([ctx.seed, 1111, n])).integers(0, 2 ** 31)))
    # --- the modelled whole-state primitive equations (Model/PrimEqFull.v): hypotheses and conclusions of C11_pe_* / C11_primeq_* ---
    for n, cfg in enumerate(PE_SUPP):
        ctx.count('pe_supp:%s/%d levels' % (cfg['impl'], cfg['K']))
        yield 'pe_supp', dict(cfg, seed=int(np.random.Generator(np.random.PCG64([ctx.seed, 2222, n])).integers(0, 2 ** 31)))
    # --- correspondence of the term encodings ---------------------------------
    for name in SCHEMES:
        for rep in range(2 if quick else 6):
            d = int(rng.integers(1, 4))
            nvec = 2 * d if name == 'semi_implicit_leapfrog' else d
            a = {'scheme': name, 'd': d,
                 'u': util.small_rationals(rng, (nvec,), -8, 8, 8).tolist(),
                 'a': util.small_rationals(rng, (d,), -4, 4, 8).tolist(),
                 'b': util.small_rationals(rng, (d,), -8, 8, 8).tolist(),
                 'c': util.small_rationals(rng, (d,), 0, 16, 4).tolist(),
                 'dt': float(rng.integers(1, 9)) / 32, 'alpha': [0.5, 0.75, 1.0][rep % 3],
                 'k': 1 if rep == 0 else int(rng.integers(2, 4)),
                 'filt': [] if rep % 2 == 0 else (util.small_rationals(rng, (d,), 4, 8, 8)).tolist()}
            if a['k'] > 1 and name not in ('backward_forward_euler', 'semi_implicit_leapfrog'):
                a['a'] = [0.0] * d      # exact rationals: keep the nesting depth of squarings small
            ctx.count('toy:' + name)
            yield 'toy', a
        yield 'scalar', {'scheme': name, 'dt': float(rng.integers(1, 9)) / 32, 'alpha': 0.5,
                         't0': float(rng.integers(-8, 9)) / 4, 'k': int(rng.integers(1, 6)), 'phi': [1.0, 0.0, -0.75][int(rng.integers(0, 3))]}
    # step sizes over many decades (dyadic: exact in the model), clocks far from zero, many steps
    decades = [(-30, 2 ** 40 + 3, 7), (20, -(2 ** 30) - 1, 5), (-12, 10 ** 6, 300), (0, -7, 3000 if quick else 6000), (-30, 0, 2000)]
    names = list(SCHEMES)
    for j, (e, n0_, k_) in enumerate(decades if quick else decades * 3):
        name = names[(j * 3 + int(rng.integers(0, len(names)))) % len(names)]
        if k_ > 1000 and name in ('crank_nicolson_rk4', 'imex_rk_sil3'): name = 'crank_nicolson_rk3'
        dt_ = 2.0 ** e
        ctx.count(f'scalar:dt=2^{e},n0={n0_},k={k_}')
        yield 'scalar', {'scheme': name, 'dt': dt_, 'alpha': 0.5, 't0': float(n0_) * dt_, 'k': k_, 'phi': 1.0}
    for j, (k_, e) in enumerate([(2500, -6), (1200, -30), (4000, 3)] if quick else [(2500, -6), (1200, -30), (4000, 3), (8000, -10), (3000, 20)]):
        yield 'toy_long', {'scheme': [n for n in names if n != 'semi_implicit_leapfrog'][(j * 2 + 1) % (len(names) - 1)], 'k': k_, 'dt': 2.0 ** e,
                           'n0': [0, -10 ** 6, 2 ** 33][j % 3], 'seed': _seed(rng)}
    # --- pattern / clip ---------------------------------------------------------
    pats = [dict(M=4, L=5, I=12, J=6, impl='real'), dict(M=4, L=5, I=12, J=6, impl='fast'),
            dict(M=4, L=5, I=12, J=6, impl='fast', base_shape_multiple=4), dict(M=3, L=6, I=8, J=8, impl='real'),
            dict(M=5, L=5, I=14, J=8, impl='real'), dict(M=3, L=4, I=8, J=4, impl='fast', base_shape_multiple=3)]
    if not quick:
        pats += [dict(M=6, L=7, I=18, J=10, impl='real'), dict(M=6, L=7, I=18, J=10, impl='fast', base_shape_multiple=8),
                 dict(M=2, L=3, I=6, J=4, impl='real'), dict(M=5, L=4, I=14, J=8, impl='fast')]
    pats += [dict(M=2, L=3, I=256, J=4, impl='real'), dict(M=2, L=3, I=6, J=200, impl='fast'), dict(M=4, L=5, I=6, J=6, impl='fast'),
             dict(M=1, L=2, I=4, J=2, impl='real'), GRIDS['fast8'], GRIDS['fast_L6']]
    # sizes above every threshold of the library (128 / 256 / 512 / 1024) along one axis, skinny otherwise; the stacked
    # Fourier path is the default for 128 < M <= 256
    pats += [dict(M=2, L=3, I=6, J=520, impl='fast'), dict(M=130, L=131, I=262, J=4, impl='fast')]
    if not quick:
        pats += [dict(M=4, L=5, I=6, J=6, impl='real'), dict(M=3, L=8, I=10, J=12, impl='fast', base_shape_multiple=8), GRIDS['real_L6'], GRIDS['fast_stacked'],
                 dict(M=2, L=3, I=1030, J=4, impl='real'), dict(M=2, L=3, I=6, J=1030, impl='real'), dict(M=260, L=261, I=522, J=4, impl='fast'),
                 dict(M=130, L=131, I=262, J=4, impl='real'), dict(M=3, L=300, I=8, J=4, impl='fast'), dict(M=257, L=258, I=516, J=4, impl='fast', base_shape_multiple=4)]
    for g in pats:
        yield 'pattern', {'grid': g, 'seed': _seed(rng)}
    # --- unit level ---------------------------------------------------------------
    kinds = ['dry', 'time', 'moist'] if quick else ['dry', 'time', 'moist', 'cloud']
    for impl in ('real', 'fast'):
        for kind in kinds + ['sw']:
            yield 'unit', {'kind': kind, 'impl': impl, 'seed': _seed(rng)}
    # constructor options, untruncated orography, other layouts
    uopts = [('dry', 'real', {'vertical_advection': 'upwind', 'oro': 'untruncated'}),
             ('moist', 'fast8', {'vertical_matmul_method': 'sparse', 'oro': 'untruncated'}),
             ('sw', 'real_L6', {'oro': 'untruncated'}), ('time', 'fast_L6', {'include_vertical_advection': False})]
    if not quick:
        uopts += [('moist', 'real_L6', {'vertical_advection': 'upwind'}), ('cloud', 'fast_stacked', {'oro': 'untruncated', 'tref': 'constant'}),
                  ('sw', 'fast8', {'oro': 'none'}), ('dry', 'fast_L6', {'vertical_matmul_method': 'dense', 'oro': 'none'}),
                  ('time', 'real', {'vertical_matmul_method': 'sparse', 'vertical_advection': 'upwind'})]
    for kind, impl, o in uopts:
        ctx.count('unit-options:' + ','.join(sorted(o)))
        yield 'unit', {'kind': kind, 'impl': impl, 'seed': _seed(rng), 'opts': o}
    yield 'unit', {'kind': 'dry', 'impl': 'real_L6', 'seed': _seed(rng), 'interleave': ['real_L6_r1', 'fast_L6'], 'opts': {'K': 2}}
    if not quick:
        yield 'unit', {'kind': 'sw', 'impl': 'fast', 'seed': _seed(rng), 'interleave': ['fast8', 'fast_stacked'], 'opts': {'K': 1}}
        yield 'unit', {'kind': 'moist', 'impl': 'fast_stacked', 'seed': _seed(rng), 'interleave': ['fast', 'real_L6']}
    yield 'time_unit', {'seed': _seed(rng)}
    for dt in ([0.015625, 0.01] if quick else [0.015625, 0.01, 0.3, 1.0 / 3, 7.25]):
        yield 'fix_time_unit', {'dt': dt}
    # --- trajectories ---------------------------------------------------------------
    # filter stacks: names (default parameters of dyn.step_filters) or dicts with non-default parameters;
    # 'fix_time' = time_integration.maybe_fix_sim_time_roundoff as the last step filter; n0 = start time / dt
    E = lambda **kw: dict(type='exponential', **kw)
    D = lambda **kw: dict(type='diffusion', **kw)
    RA = dict(type='robert_asselin', r=0.05); FIX = dict(type='fix_time')
    UT = {'oro': 'untruncated'}
    if quick:
        combos = [('dry', 'real', 'imex_rk_sil3', ['exponential', 'diffusion'], 0, 1, {'degree': 'top', 'opts': UT}),
                  ('time', 'fast', 'crank_nicolson_rk4', [E(cutoff=0.7, order=2, tau_mult=5), FIX], -10, 1, {'degree': 'top'}),
                  ('moist', 'real', 'crank_nicolson_rk3', [E(cutoff=0.3, order=6), D(order=2), FIX], 3, 1, {'degree': 'top', 'opts': UT}),
                  ('time', 'real', 'backward_forward_euler', [FIX], -3, -1, {'opts': {'vertical_advection': 'upwind'}}),
                  ('time', 'real', 'imex_rk_sil3', [E(cutoff=0.4, order=18), D(order=3), FIX], -0.5, 1, {'opts': {'K': 2}}),
                  ('moist', 'fast8', 'imex_rk_sil3', ['exponential'], 0, 1, {'opts': {'vertical_matmul_method': 'sparse'}}),
                  ('dry', 'fast', 'crank_nicolson_rk2', [E(cutoff=0.4, order=1), D(order=3)], 0, 1, {'mode': 'top_single'}),
                  ('time', 'real', 'semi_implicit_leapfrog', [E(cutoff=0.3, order=6), RA, FIX], -10, 1, {'alpha': 0.75}),
                  ('dry', 'real', 'semi_implicit_leapfrog', [E(cutoff=0.4, order=18, tau_mult=1), RA], 0, 1, {'alpha': 1.0, 'degree': 'top'}),
                  ('sw', 'real', 'semi_implicit_leapfrog', [E(cutoff=0.4, order=18, tau_mult=1), RA], 0, 1, {'opts': UT, 'degree': 'top'}),
                  ('sw', 'real_L6', 'crank_nicolson_rk3', ['exponential', 'diffusion'], 0, 1, {'degree': 'top'}),
                  ('sw', 'fast', 'imex_rk_sil3', [E(cutoff=0.3, order=6, tau_mult=2), D(order=2)], 0, 1, {'mode': 'top_single'}),
                  ('sw', 'real', 'backward_forward_euler', [], 0, -1, {'opts': {'oro': 'none', 'K': 1}}),
                  ('sw', 'fast', 'backward_forward_euler', ['exponential'], 0, 1, {'dtype': 'float32', 'opts': {'K': 3}}),
                  ('dry', 'real', 'low_storage', [E(cutoff=0.3, order=2)], 0, 1, {'opts': {'include_vertical_advection': False, 'K': 1}}),
                  ('time', 'fast_L6', 'imex_tableau', [D(order=2), FIX], 3, 1, {'degree': 'top'}),
                  ('moist', 'fast_stacked', 'crank_nicolson_rk2', [], 0, 1, {'mode': 'rest', 'opts': UT}),
                  # wave 4: near-coincident / extreme level sets and reference profiles, dt over decades with clocks far from 0,
                  # a hundred and more steps on tiny cases, python-loop / eager / repeated variants of the trajectory
                  ('time', 'real', 'crank_nicolson_rk3', ['exponential', FIX], 10 ** 6, 1, {'opts': {'levels': 'near_equidistant', 'K': 4, 'tref': 'near_constant'}, 'dt': 2.0 ** -12}),
                  ('moist', 'fast', 'imex_ars222', [E(cutoff=0.3, order=2)], -(2 ** 33), 1, {'opts': {'levels': 'near_ends', 'K': 3}, 'dt': 2.0 ** -30}),
                  ('time', 'real', 'backward_forward_euler', ['exponential', 'diffusion', FIX], -150, 1, {'opts': {'levels': 'thin', 'K': 3, 'tref': 'constant'}, 'ks': [1, 60, 150], 'dt': 2.0 ** -30}),   # (explicit terms scale with 1/thickness = 2^30: stable only for dt ~ 2^-30)
                  ('sw', 'real', 'low_storage_nd', [E(cutoff=0.4, order=6)], 0, 1, {'opts': {'K': 1}, 'ks': [2, 100, 200], 'dt': 2.0 ** -8, 'loop': True}),
                  ('dry', 'fast', 'imex_rk_sil3', ['exponential'], 0, 1, {'opts': {'levels': 'float32_equidistant', 'K': 5}, 'ks': [1, 3], 'loop': True})]
    else:
        combos = []
        cut = [0.3, 0.4, 0.7]; orders = [1, 2, 6, 18]; taus = [1, 5, 10, 40]; n0s = [-10, -0.5, 0, 3]
        extras = [{'degree': 'top'}, {'degree': 'top', 'opts': UT}, {'mode': 'top_single'}, {'opts': {'vertical_advection': 'upwind'}, 'degree': 'top'},
                  {'opts': {'vertical_matmul_method': 'sparse', 'oro': 'untruncated'}}, {'mode': 'rest', 'opts': UT},
                  {'opts': {'include_vertical_advection': False, 'oro': 'none'}}, {'degree': 3, 'opts': {'tref': 'constant'}},
                  {'opts': {'K': 1}}, {'opts': {'K': 2, 'oro': 'untruncated'}, 'degree': 'top'}, {'dtype': 'float32', 'degree': 'top'}]
        RA = dict(type='robert_asselin', r=0.2)
        gnames = list(GRIDS)
        i = 0
        for kind in ['dry', 'time', 'moist', 'cloud', 'sw']:
            for integ in RK_INTEGRATORS + ('semi_implicit_leapfrog', 'low_storage', 'imex_tableau'):
                lfi = integ == 'semi_implicit_leapfrog'
                custom = integ in ('low_storage', 'imex_tableau')
                for f in range(3):
                    impls = ('real', 'fast') if (f == 2 or integ == 'imex_rk_sil3') else (('real',) if f == 0 else ('fast',))
                    if (kind == 'cloud' or custom) and f != 2: continue
                    for impl in impls:
                        st = list(FILTER_STACKS[f])
                        if lfi and f == 2: st = ['exponential', RA]
                        combos.append((kind, impl, integ, st, 0, 1, {}))
                # non-default filter parameters, the sim_time clean-up, shifted clocks, options, layouts, structured states
                for rep in range(2):
                    i += 1
                    st = [E(cutoff=cut[i % 3], order=orders[i % 4], tau_mult=taus[(i // 2) % 4])]
                    if rep == 0: st.append(RA if lfi else D(order=1 + i % 3))
                    elif lfi: st += [RA]
                    if kind not in ('dry', 'sw'): st.append(FIX)
                    ex = dict(extras[i % len(extras)])
                    if lfi: ex['alpha'] = [0.5, 0.75, 1.0, 0.6][i % 4]
                    combos.append((kind, gnames[i % len(gnames)], integ, st, n0s[i % 4], 1, ex))
            for integ in ('backward_forward_euler', 'crank_nicolson_rk3', 'imex_rk_sil3'):     # negative dt
                if kind in ('time', 'moist'):
                    combos.append((kind, 'real', integ, [FIX], -3, -1, {}))
                    combos.append((kind, 'fast8', integ, [D(order=2), FIX], 10, -1, {'degree': 'top'}))
                elif kind != 'cloud':
                    combos.append((kind, 'real', integ, [D(order=2)], 0, -1, {'degree': 'top', 'opts': UT}))
    if not quick:
        j = 0
        for kind in ['dry', 'time', 'moist', 'cloud', 'sw']:
            for lev in ['near_equidistant', 'float32_equidistant', 'near_ends', 'thin']:
                for integ in (['crank_nicolson_rk4', 'imex_ars222'] if kind != 'sw' else ['low_storage_nd']):
                    j += 1
                    if kind == 'sw' and lev != 'thin': continue
                    ex = {'opts': {'levels': lev, 'K': [2, 3, 5, 8][j % 4], 'tref': ['near_constant', 'constant', None][j % 3]},
                          'dt': 2.0 ** [-30, -12, -7, -20][j % 4], 'loop': j % 5 == 0}
                    if lev == 'thin' and kind != 'sw': ex['dt'] = 2.0 ** -30      # (a 2^-30 thin sigma layer: explicit terms scale with 2^30; layer coordinates of 'sw' ignore the level set)
                    if j % 3 == 0: ex['ks'] = [1, 40, 120]
                    combos.append((kind, ['real', 'fast', 'fast8'][j % 3], integ, [E(cutoff=cut[j % 3], order=2)] + ([FIX] if kind not in ('dry', 'sw') else []),
                                   [10 ** 6, -(2 ** 33), 0, -120][j % 4], 1, ex))
    for kind, impl, integ, st, n0, sgn, ex in combos:
        ctx.count(f'traj:{kind}'); ctx.count(f'integrator:{integ}'); ctx.count(f'filters:{len(st)}'); ctx.count(f'grid:{impl}')
        for k_, v_ in ex.items(): ctx.count(f'traj-extra:{k_}={v_ if not isinstance(v_, dict) else ",".join(sorted(v_))}')
        if any(isinstance(f, dict) and f.get('cutoff') for f in st): ctx.count('stack:exponential cutoff>0')
        if FIX in st: ctx.count(f'stack:fix_time n0={n0} dt{"<" if sgn < 0 else ">"}0')
        base = {'kind': kind, 'impl': impl, 'integrator': integ, 'filters': st, 'ks': [1, 2, 5], 'n0': n0,
                'seed': _seed(rng), 'dt': sgn * [0.02, 0.01, 0.005][int(rng.integers(0, 3))]}
        if 'dt' in ex: ex = dict(ex, dt=sgn * ex['dt'])
        yield 'traj', dict(base, **ex)


# ---------------------------------------------------------------------------
# (i) correspondence
# ---------------------------------------------------------------------------
def _toy_ode(a, b, c):
    m = dyn.mods(); ti = m['ti']; jnp = m['jnp']
    a, b, c = (jnp.asarray(np.asarray(v, dtype=np.float64)) for v in (a, b, c))
    return ti.ImplicitExplicitODE.from_functions(lambda u: a * u * u + b, lambda u: -(c * u),
                                                 lambda u, eta: u / (1 + eta * c))


def _make_integrator(name, eq, dt, alpha=0.5):
    m = dyn.mods(); ti = m['ti']
    if name in LS_LISTS:
        l = LS_LISTS[name]
        return ti.low_storage_runge_kutta_crank_nicolson(l['alphas'], l['betas'], l['gammas'], eq, dt)
    if name in TABLEAUX:
        return ti.imex_runge_kutta(ti.ImExButcherTableau(**TABLEAUX[name]), eq, dt)
    if name == 'semi_implicit_leapfrog':
        return ti.semi_implicit_leapfrog(eq, dt, alpha)
    return getattr(ti, name)(eq, dt)


def _extra_arrs(name):
    """arrays 6.. of the model call for the schemes with explicit coefficient lists"""
    if name in LS_LISTS:
        l = LS_LISTS[name]
        return [l['alphas'], l['betas'], l['gammas']], 0
    if name in TABLEAUX:
        t = TABLEAUX[name]
        return [sum(t['a_ex'], []), sum(t['a_im'], []), t['b_ex'], t['b_im']], len(t['b_ex'])
    return [], 0


def r_toy(ctx, a):
    m = dyn.mods(); ti = m['ti']; jnp = m['jnp']
    name = a['scheme']; d = a['d']; k = a['k']; dt = a['dt']
    eq = _toy_ode(a['a'], a['b'], a['c'])
    step = _make_integrator(name, eq, dt, a['alpha'])
    u = np.asarray(a['u'], dtype=np.float64)
    filt = a['filt']
    lf = name == 'semi_implicit_leapfrog'
    fl = []
    if filt:
        s = jnp.asarray(np.asarray(filt, dtype=np.float64))
        fl = [(ti.leapfrog_step_filter if lf else ti.runge_kutta_step_filter)(lambda x: s * x)]
    step = ti.step_with_filters(step, fl)
    x = (jnp.asarray(u[:d]), jnp.asarray(u[d:])) if lf else jnp.asarray(u)
    for _ in range(k):
        x = step(x)
    out = np.concatenate([np.asarray(x[0]), np.asarray(x[1])]) if lf else np.asarray(x)
    extra, stages = _extra_arrs(name)
    mo = ctx.model.call(0, [SCHEMES[name], d, k, stages], [a['u'], a['a'], a['b'], a['c'], [dt, a['alpha']], filt] + extra)
    scale = max(1.0, float(np.max(np.abs(out))) if np.all(np.isfinite(out)) else 1.0)
    ctx.corr(f'{name}: {k} step(s) of the term encoding vs time_integration.py on the diagonal ODE', out, mo,
             scale=scale, tol_rel=1e-12)


def r_scalar(ctx, a):
    """the component that sees F = phi, G = 0, G_inv = id (sim_time for phi = 1)"""
    m = dyn.mods(); ti = m['ti']; jnp = m['jnp']
    name = a['scheme']; dt = a['dt']; k = a['k']; phi = a['phi']; t0 = a['t0']
    eq = ti.ImplicitExplicitODE.from_functions(lambda u: jnp.full_like(u, phi), lambda u: jnp.zeros_like(u), lambda u, eta: u)
    step = _make_integrator(name, eq, dt, a['alpha'])
    lf = name == 'semi_implicit_leapfrog'
    x = (jnp.asarray([t0]), jnp.asarray([t0 + dt * phi])) if lf else jnp.asarray([t0])
    x_init = x
    if k > 20:     # many steps: compiled lax.scan (time_integration.repeated)
        x = m['jax'].jit(ti.repeated(step, k))(x_init)
        if k <= 400:
            y = x_init
            for _ in range(k): y = step(y)
            ctx.oracle('k steps under jit + lax.scan (repeated) and k eager python steps give the same scalar component',
                       # XLA may contract a*b+c into a fused multiply-add under jit: the two modes agree to rounding per step, not
                       # bit for bit (thorough tier, rk4, 300 steps: 8.5e-12 at |t| = 244; false alarm of a bitwise comparison)
                       all(np.shape(p) == np.shape(q) and bool(np.all(np.abs(np.asarray(p, dtype=np.float64) - np.asarray(q, dtype=np.float64))
                                                                <= 2.0 ** -36 * (np.abs(np.asarray(q, dtype=np.float64)) + abs(dt) * k)))
                           for p, q in zip(dyn.tree_leaves(x), dyn.tree_leaves(y))),
                       {'scan': dyn.tree_leaves(x), 'loop': dyn.tree_leaves(y)})
    else:
        for _ in range(k):
            x = step(x)
    out = np.concatenate([np.asarray(x[0]), np.asarray(x[1])]) if lf else np.asarray(x)
    extra, stages = _extra_arrs(name)
    mo = ctx.model.call(3, [SCHEMES[name], 0, k, stages], [[t0, t0 + dt * phi], [], [], [], [dt, a['alpha']], [phi]] + extra)
    scale = abs(t0) + (k + 1) * dt * abs(phi) + 1e-300
    ctx.corr(f'{name}: scalar image after {k} steps', out, mo, scale=scale, tol_rel=1e-13)
    want = (t0 + (k + 1) * dt * phi) if lf else (t0 + k * dt * phi)
    ctx.oracle_close('a component with explicit tendency phi, implicit tendency 0 advances by dt*phi per step',
                     out[-1:], [want], scale=scale, tol_rel=1e-11)
    if not lf:
        cs = ctx.model.call(4, [SCHEMES[name], 0, 0, stages], [[]] * 6 + extra)
        c = cs[0]
        tolc = {'crank_nicolson_rk4': Fraction(1, 10 ** 12), 'low_storage_nd': Fraction(1, 10 ** 15), 'imex_ars222': Fraction(1, 10 ** 15)}.get(name, 0)
        ok = abs(c - 1) <= tolc
        ctx.exact(f'{name}: explicit consistency sum of the model coefficients is 1 (RK4: within 1e-12; non-dyadic user weights: within 1e-15)', [bool(ok)], [True])
        # the same on the implementation: one step of u' = 1
        one = _make_integrator(name, ti.ImplicitExplicitODE.from_functions(lambda u: jnp.ones_like(u), lambda u: jnp.zeros_like(u), lambda u, eta: u), dt)
        inc = float(np.asarray(one(jnp.asarray([0.0])))[0]) / dt
        ctx.corr(f'{name}: consistency sum, implementation vs model', [inc], [c], scale=1.0, tol_rel=1e-13)


def r_toy_long(ctx, a):
    """thousands of steps (one compiled lax.scan) on a diagonal ODE whose invariants are known in closed form; decided
    by independent references (the exact model would need rationals with ~1e5 bits): component 0: u = 0, F = a u^2,
    G = -c u stays exactly 0 (support); component 1: F = 0, G = -c u, u arbitrary but G(0,0)-like c = 0: constant (mean);
    component 2: F = 1, G = 0: the clock n0*dt + k*dt"""
    m = dyn.mods(); jax = m['jax']; jnp = m['jnp']; ti = m['ti']
    rng = np.random.Generator(np.random.PCG64(a['seed']))
    name = a['scheme']; k = a['k']; dt = a['dt']; n0 = a['n0']
    av = jnp.asarray([float(rng.integers(1, 9)) / 8, 0.0, 0.0, -0.25]); bv = jnp.asarray([0.0, 0.0, 1.0, 0.0])
    cv = jnp.asarray([float(rng.integers(1, 9)) / 4, 0.0, 0.0, 1.0 / abs(dt)])
    eq = ti.ImplicitExplicitODE.from_functions(lambda u: av * u * u + bv, lambda u: -(cv * u), lambda u, eta: u / (1 + eta * cv))
    filt = jnp.asarray([0.5, 1.0, 1.0, 0.75])
    step = ti.step_with_filters(_make_integrator(name, eq, dt), [ti.runge_kutta_step_filter(lambda x: filt * x)])
    mean0 = float(rng.integers(-8, 9)) / 8 + 0.3
    u0 = jnp.asarray([0.0, mean0, n0 * dt, 0.0])
    out = np.asarray(jax.jit(ti.repeated(step, k))(u0))
    ctx.oracle('a zero entry whose explicit tendency vanishes at zero stays exactly zero after thousands of steps', out[0] == 0.0 and out[3] == 0.0, {'k': k, 'out': out})
    ctx.oracle('a component with zero explicit and implicit tendency is unchanged after thousands of steps', out[1] == mean0, {'k': k, 'out': out[1], 'in': mean0})
    want = (n0 + k) * dt
    ctx.oracle_close('a component with explicit tendency phi, implicit tendency 0 advances by dt*phi per step', [out[2]], [want],
                     scale=max(abs(want), k * abs(dt)), tol_rel=1e-11)
    # the same number of steps split as nested repeated(repeated(.)) and as trajectory_from_step(inner_steps)
    k1 = 50; k2 = k // k1
    if k1 * k2 == k:
        out2 = np.asarray(jax.jit(ti.repeated(ti.repeated(step, k1), k2))(u0))
        fin, tr = jax.jit(ti.trajectory_from_step(step, k2, k1))(u0)
        ctx.oracle('k steps as one scan, as nested scans and as trajectory_from_step(outer, inner) end in the same state',
                   bool(np.array_equal(out, out2)) and bool(np.array_equal(out, np.asarray(fin))) and bool(np.array_equal(out, np.asarray(tr)[-1])),
                   {'one': out, 'nested': out2, 'traj': np.asarray(fin)})


def _required_zero_impl(g):
    """the pattern according to the implementation's own grid object (only compared, never used as a reference)"""
    idx = np.arange(g.modal_shape[1])
    return (~np.asarray(g.mask)) | (idx[None, :] >= g.total_wavenumbers - 1)


def _required_zero(g, gd=None):
    """the property's pattern computed from the layout definition alone (numpy, independent of grid.mask):
    reference layout rows m = 0, +1, -1, +2, -2, ...; fast layout rows m = 0, (unused), +1, -1, ... followed by
    padding rows; columns l = 0..L-1 followed by padding columns.  Entries with |m| > l, the unused row, padding and
    the top total wavenumber l >= L-1 must vanish."""
    gd = gd or g._c11_gd
    l = np.arange(g.modal_shape[1])[None, :]
    return (~_mask_indep(g, gd)) | (l >= gd['L'] - 1)


def _mask_indep(g, gd=None):
    """the triangular truncation |m| <= l < L of the layout definition (numpy only)"""
    gd = gd or g._c11_gd
    M, L = gd['M'], gd['L']; R, C = g.modal_shape
    i = np.arange(R)[:, None]; l = np.arange(C)[None, :]
    if gd['impl'] == 'real':
        return ((i + 1) // 2 <= l) & (i < 2 * M - 1) & (l < L)
    return (i // 2 <= l) & (i != 1) & (i < 2 * M) & (l < L)


def _grid(gd):
    g = dyn.grid(**gd)
    try: object.__setattr__(g, '_c11_gd', dict(gd))
    except Exception: pass
    return g


def _grid_ints(g, gd):
    fast = 0 if gd['impl'] == 'real' else 1
    return [fast, gd['M'], gd['L'], g.modal_shape[0], g.modal_shape[1]]


def r_pattern(ctx, a):
    m = dyn.mods(); jnp = m['jnp']
    gd = a['grid']; g = _grid(gd)
    ints = _grid_ints(g, gd); R, C = g.modal_shape
    ctx.oracle('grid.mask / total_wavenumbers give the triangular pattern of the layout definition',
               bool(np.array_equal(_required_zero_impl(g), _required_zero(g, gd))), {'grid': gd})
    ctx.count(f'pattern:{gd["impl"]}:{R}x{C}')
    mo = ctx.model.call(1, ints, [])
    ctx.exact('required-zero pattern: model (mask, top wavenumber, padding) vs grid.mask / total_wavenumbers',
              _required_zero(g).astype(int).ravel().tolist(), [int(v) for v in mo])
    rng = np.random.Generator(np.random.PCG64(a['seed']))
    x = rng.integers(-8, 9, size=(R, C)).astype(np.float64) / 4
    y = np.asarray(g.clip_wavenumbers(jnp.asarray(x)))
    small = R * C <= 4096      # larger arrays: decided by the numpy oracles below (the rational model is only slower)
    if small:
        mo = ctx.model.call(5, [gd['L'], R, C], [x.ravel().tolist()])
        ctx.exact('clip_wavenumbers vs model clip', y.ravel().tolist(), [float(v) for v in mo])
    ctx.oracle('clip_wavenumbers zeroes the top total wavenumber and the padded columns exactly',
               bool(np.all(y[:, gd['L'] - 1:] == 0.0)) and bool(np.all(y[:, :gd['L'] - 1] == x[:, :gd['L'] - 1])))
    Lg = gd['L']
    for n in (2, 3, Lg, Lg + 1):
        yn = np.asarray(g.clip_wavenumbers(jnp.asarray(x), n=n))
        ctx.oracle('clip_wavenumbers(n) zeroes exactly the highest n total wavenumbers and the padded columns',
                   bool(np.all(yn[:, max(Lg - n, 0):] == 0.0)) and bool(np.all(yn[:, :max(Lg - n, 0)] == x[:, :max(Lg - n, 0)])), {'n': n, 'grid': gd})
    for n in (0, -1):
        try: g.clip_wavenumbers(jnp.asarray(x), n=n); rej = False
        except ValueError: rej = True
        ctx.oracle('clip_wavenumbers rejects n <= 0', rej, {'n': n})
    tree = {'a': jnp.asarray(x), 'b': (jnp.asarray(np.stack([x, 2 * x])), 1.5), 't': jnp.asarray(0.25)}
    ct = g.clip_wavenumbers(tree)
    ctx.oracle('clip_wavenumbers on a pytree clips every array leaf and leaves scalars alone',
               bool(np.all(np.asarray(ct['b'][0])[..., Lg - 1:] == 0.0)) and float(ct['t']) == 0.25 and ct['b'][1] == 1.5)
    if not small: return
    ok = ctx.model.call(2, ints, [(x * ~_required_zero(g)).ravel().tolist()])
    bad = ctx.model.call(2, ints, [x.ravel().tolist()])
    ctx.exact('pattern_ok accepts a conforming array and rejects a dense one', [int(ok[0]), int(bad[0])],
              [1, 0 if np.any(x[_required_zero(g)] != 0) else 1])


# ---------------------------------------------------------------------------
# (ii) the clauses on the implementation
# ---------------------------------------------------------------------------
_CACHE = {}


SW_REF_POTENTIAL = [1.0, 0.5, 0.25]
SW_DENSITIES = [1.0, 1.25, 1.5]


def _setup(kind, impl, seed, K=None, opts=None):
    """grid, coordinates, equation for a class; deterministic in (kind, impl, seed, opts).
    opts: oro = 'band' (band-limited modal field) | 'untruncated' (to_modal of a nodal field: energy at the top
    wavenumber) | 'none'; vertical_advection = 'upwind'; include_vertical_advection; vertical_matmul_method"""
    m = dyn.mods(); jnp = m['jnp']
    opts = opts or {}
    K = K or opts.get('K', 3)
    rng = np.random.Generator(np.random.PCG64(seed))
    g = _grid(GRIDS[impl])
    def orography(amp):
        mode = opts.get('oro', 'band')
        if mode == 'untruncated':
            z = rng.integers(-16, 17, size=tuple(g.nodal_shape)).astype(np.float64) / 16 * amp
            return np.asarray(g.to_modal(jnp.asarray(z)))
        if mode == 'none':
            return None
        return dyn.modal_field(rng, g, (), 2, amp=amp)
    if kind == 'sw':
        nl = opts.get('K', 2)
        c = dyn.layer_coords(g, nl)
        oro = orography(0.05)
        if oro is None:
            specs = m['sw'].ShallowWaterSpecs(np.asarray(SW_DENSITIES[:nl]), 1.0, 1.0, 1.0, m['scales'].DEFAULT_SCALE)
            eq = m['sw'].ShallowWaterEquations(c, specs, None, np.asarray(SW_REF_POTENTIAL[:nl]))
        else:
            eq = dyn.sw_equation(c, SW_DENSITIES[:nl], SW_REF_POTENTIAL[:nl], oro)
    else:
        b = util.uneven_boundaries(rng, K)
        lev = opts.get('levels')
        if lev == 'near_equidistant':      # equal to within ~1e-7 but not equal (allclose / unique shortcuts)
            b = np.round(np.arange(K + 1) / K, 7) + np.concatenate([[0.0], 2.0 ** -22 * rng.integers(-1, 2, size=K - 1), [0.0]]) if K > 1 else np.array([0.0, 1.0])
            b[0] = 0.0; b[-1] = 1.0
        elif lev == 'float32_equidistant':
            b = np.cumsum(np.concatenate([[0], np.full(K, np.float32(1.0 / K))]).astype(np.float32)).astype(np.float64)
            b[0] = 0.0; b[-1] = 1.0 if abs(b[-1] - 1) < 1e-8 else b[-1]
        elif lev == 'near_ends':           # accepted by the constructor: only isclose to 0 and 1
            b = b.copy(); b[0] = 8e-9; b[-1] = [1.0000001, 0.999998][int(rng.integers(0, 2))]
        elif lev == 'thin':                # a 2^-30 layer next to thick ones
            if K >= 2:
                j = int(rng.integers(1, K)); b = np.arange(K + 1) / K; b[j] = b[j + 1] - 2.0 ** -30 if j < K else b[j]
                if j == K: b[K - 1] = 1.0 - 2.0 ** -30
        c = dyn.coords(g, b)
        tref = 250.0 + rng.integers(-20, 21, size=K).astype(np.float64)
        if opts.get('tref') == 'constant': tref = np.full(K, 260.0)
        if opts.get('tref') == 'near_constant': tref = 260.0 * (1 + 1e-9 * np.arange(K))     # np.unique(T_ref).size > 1 by 1e-9
        oro = orography(0.01)
        kw = {}
        if opts.get('vertical_advection') == 'upwind': kw['vertical_advection'] = m['sc'].upwind_vertical_advection
        if 'include_vertical_advection' in opts: kw['include_vertical_advection'] = bool(opts['include_vertical_advection'])
        if 'vertical_matmul_method' in opts: kw['vertical_matmul_method'] = opts['vertical_matmul_method']
        eq = dyn.pe_equation(kind, c, dyn.pe_specs(), tref, oro, **kw)
    return rng, g, c, eq


UNIFORM = 'uniform_tracer'


def _state(rng, kind, c, q0, degree=2, mode='random', gd=None):
    """admissible state.  degree: highest populated total wavenumber (L-2 = the highest retained one);
    mode: 'random' | 'top_single' (one non-zero coefficient per field, at the highest retained wavenumber) |
    'rest' (identically zero vorticity, divergence, T', lnps, moisture)"""
    m = dyn.mods(); jax = m['jax']; jnp = m['jnp']
    g = c.horizontal
    if kind == 'sw':
        st = dyn.sw_state(rng, c, degree)
    else:
        st = dyn.pe_state(rng, c, degree, dyn.PE_TRACERS[kind], with_time=(kind != 'dry'))
        uni = np.zeros((c.vertical.layers,) + tuple(g.modal_shape)); uni[:, 0, 0] = q0
        d = st.asdict(); d['tracers'] = dict(d['tracers']); d['tracers'][UNIFORM] = uni
        st = type(st)(**d)
    if mode != 'random':
        Ltop = gd['L'] - 2
        fast = gd['impl'] != 'real'
        def shape_field(name, v):
            v = np.asarray(v, dtype=np.float64)
            if v.ndim < 2: return v
            r = np.zeros_like(v)
            if name == 'potential': r[..., 0, 0] = v[..., 0, 0]
            if mode == 'top_single':
                row = (2 if fast else 1) + int(rng.integers(0, 2))       # m = 1, cos or sin
                amp = float(np.abs(v).max()) or 1e-3
                r[..., row, Ltop] = amp * ((1 + np.arange(v.shape[0]) / 4) if v.ndim == 3 else 1.0)
            return r
        d = {}
        for k, v in st.asdict().items():
            d[k] = {t: (x if t == UNIFORM else shape_field(t, x)) for t, x in v.items()} if isinstance(v, dict) else shape_field(k, v)
        st = type(st)(**d)
    return jax.tree_util.tree_map(lambda q: jnp.asarray(q, dtype=np.float64), st)


def _leaves(st):
    """(name, array) of the modal leaves and the scalar leaves of a state object"""
    out = []
    for k, v in st.asdict().items():
        if isinstance(v, dict):
            out += [(f'tracers[{t}]', np.asarray(x, dtype=np.float64)) for t, x in v.items()]
        elif v is not None:
            out.append((k, np.asarray(v, dtype=np.float64)))
    return out


def _check_pattern(ctx, clause, st, req):
    for name, x in _leaves(st):
        if x.ndim < 2: continue
        viol = np.argwhere(x[..., req] != 0.0)
        bad = x[..., req]
        n = int(np.count_nonzero(bad))
        det = None
        if n:
            full = np.argwhere((x != 0.0) & req)
            det = {'leaf': name, 'nonzero_required_zero_entries': n, 'first_index': full[0].tolist(), 'value': float(x[tuple(full[0])])}
        ctx.oracle(clause, n == 0, det)


def r_traj(ctx, a):
    m = dyn.mods(); jax = m['jax']; jnp = m['jnp']; ti = m['ti']
    kind = a['kind']; impl = a['impl']; dt = a['dt']; name = a['integrator']
    opts = a.get('opts') or {}
    rng, g, c, eq = _setup(kind, impl, a['seed'], opts=opts)
    req = _required_zero(g)
    q0 = 0.0078125 * float(rng.integers(1, 9))
    degree = a.get('degree', 2); mode = a.get('mode', 'random')
    if degree == 'top': degree = GRIDS[impl]['L'] - 2
    x0 = _state(rng, kind, c, q0, degree, mode, GRIDS[impl])
    lf = name == 'semi_implicit_leapfrog'
    step = _make_integrator(name, eq, dt, a.get('alpha', 0.5))
    specs = [{'type': f} if isinstance(f, str) else dict(f) for f in a['filters']]
    fl = _build_filters(specs, g, dt, lf)
    fix = any(f['type'] == 'fix_time' for f in specs)
    n0 = a.get('n0', 0)
    step = ti.step_with_filters(step, fl)
    kmax = max(a['ks'])
    if lf:
        x1 = _state(rng, kind, c, q0, degree, mode, GRIDS[impl])          # a second admissible snapshot
        if hasattr(x1, 'sim_time'): x1 = _map_named(x1, lambda n, v: jnp.asarray((n0 + 1) * dt) if n == 'sim_time' else v)
        if kind == 'sw':                       # both snapshots carry the same mean thickness
            x1 = _map_named(x1, lambda n, v: v.at[..., 0, 0].set(x0.potential[..., 0, 0]) if n == 'potential' else v)
        if hasattr(x0, 'sim_time'): x0 = _map_named(x0, lambda n, v: jnp.asarray(n0 * dt) if n == 'sim_time' else v)
        init = (x0, x1)
    else:
        if hasattr(x0, 'sim_time'): x0 = _map_named(x0, lambda n, v: jnp.asarray(n0 * dt) if n == 'sim_time' else v)
        init = x0
    shp = jax.eval_shape(step, init)
    ctx.oracle('the step function maps the state structure, shapes and dtypes to themselves (jax.eval_shape)',
               jax.tree_util.tree_structure(shp) == jax.tree_util.tree_structure(init) and
               all(p.shape == np.shape(q) and p.dtype == jnp.asarray(q).dtype for p, q in zip(dyn.tree_leaves(shp), dyn.tree_leaves(init))))
    f32 = a.get('dtype') == 'float32'
    if f32:   # single-precision states in x64 mode: only the exact-zero pattern is exact on the unchanged tree
        init = jax.tree_util.tree_map(lambda q: jnp.asarray(q, dtype=np.float32), init)
    variants = []
    if f32:
        # the step promotes single-precision input to float64 (numpy tables), which lax.scan cannot carry: python loop
        jstep = jax.jit(step); frames = []; x = init
        for _ in range(kmax):
            x = jstep(x); frames.append(x)
        get_frame = lambda k: jax.tree_util.tree_map(np.asarray, frames[k - 1])
        finite_upto = next((i for i, fr in enumerate(frames) if not dyn.tree_all_finite(fr)), kmax)     # number of leading finite frames
    else:
        run = jax.jit(ti.trajectory_from_step(step, kmax, 1))
        _, traj = run(init)
        # purity: the same compiled trajectory evaluated again gives bit-identical states
        _, traj2 = run(init)
        fin = np.ones(kmax, dtype=bool)
        for q in dyn.tree_leaves(traj):
            q = np.asarray(q); fin &= np.all(np.isfinite(q.reshape(kmax, -1)), axis=1)
        finite_upto = kmax if fin.all() else int(np.argmin(fin))          # number of leading finite frames
        ctx.oracle('re-evaluating the same step function on the same state is bit-identical',
                   all(np.array_equal(np.asarray(p)[:finite_upto], np.asarray(q)[:finite_upto]) for p, q in zip(dyn.tree_leaves(traj), dyn.tree_leaves(traj2))))
        get_frame = lambda k: jax.tree_util.tree_map(lambda q: np.asarray(q)[k - 1], traj)
        if a.get('loop'):
            # the same trajectory as a python loop over the jitted step, over the un-jitted step (first steps) and as
            # repeated(step, k): every variant must satisfy all clauses (checked below on `variants`)
            jstep = jax.jit(step); x = init; lo = {}
            for i in range(1, kmax + 1):
                x = jstep(x)
                if i in a['ks']: lo[i] = jax.tree_util.tree_map(np.asarray, x)
            variants = [('python loop over jit(step)', lo)]
            kk = min(a['ks'])
            x = init
            for i in range(kk): x = step(x)
            variants.append(('eager python loop', {kk: jax.tree_util.tree_map(np.asarray, x)}))
            variants.append(('jit(repeated(step, k))', {kmax: jax.tree_util.tree_map(np.asarray, jax.jit(ti.repeated(step, kmax))(init))}))
            ctx.count('loop==scan bit-identical:%d' % int(all(np.array_equal(p, q) for p, q in zip(dyn.tree_leaves(lo[kmax]), dyn.tree_leaves(get_frame(kmax))))))
        else:
            variants = []
    has_time = kind not in ('dry', 'sw')
    typ = {n: max(float(np.max(np.abs(x))), 1e-300) for n, x in _leaves(x0)}
    # finiteness is a PRECONDITION of the invariants, not a claim of C11 (no stability of the nonlinear dynamics is claimed):
    # a scenario that blows up is counted and its clauses are asserted only up to the last finite frame
    if finite_upto < kmax:
        ctx.count('traj:unstable-scenario-skipped')
    items = [('scan', k, get_frame(k)) for k in a['ks'] if k <= finite_upto] \
        + [(lab, k, fr) for lab, d in variants for k, fr in d.items() if k <= finite_upto and dyn.tree_all_finite(fr)]
    for lab, k, frame in items:
        ctx.count('frames:' + lab)
        sts = list(frame) if lf else [frame]
        for st in sts:
            _check_pattern(ctx, 'entries outside the triangular truncation and at the clipped top total wavenumber stay exactly zero', st, req)
        if f32: continue
        st = sts[-1]
        L = dict(_leaves(st)); L0 = dict(_leaves(x0))
        for f in ('vorticity', 'divergence'):
            v = L[f][..., 0, 0]; v0 = L0[f][..., 0, 0]
            # not bit-exact in general: np.linalg.inv of the l = 0 implicit matrix leaves O(1e-20) entries in
            # the (divergence, temperature) block ('split' inverse); moist classes: quadrature rounding
            ctx.oracle_close(f'global mean of {f} never changes', v, v0, scale=typ[f], tol_rel=1e-12)
            ctx.count(f'mean_{f}_exact:%d' % int(np.all(v == v0)))
        if kind == 'sw':
            # admissible shallow-water states have zero mean divergence
            ctx.oracle_close('global mean layer thickness (potential) of the shallow-water system is conserved',
                             L['potential'][..., 0, 0], L0['potential'][..., 0, 0], scale=typ['potential'], tol_rel=1e-14)
            ctx.count('sw_potential00_exact:%d' % int(np.all(L['potential'][..., 0, 0] == L0['potential'][..., 0, 0])))
        else:
            q = L[f'tracers[{UNIFORM}]']; qi = L0[f'tracers[{UNIFORM}]']
            ctx.oracle_close('a horizontally and vertically uniform tracer stays uniform', q, qi, scale=q0, tol_rel=1e-11)
        if has_time:
            times = [(float(dict(_leaves(sts[0]))['sim_time']), n0 + k), (float(L['sim_time']), n0 + k + 1)] if lf else [(float(L['sim_time']), n0 + k)]
            for j_, (tk, n) in enumerate(times):
                want = n * dt
                touched = (not lf) or j_ == len(times) - 1      # leapfrog: the clean-up acts on the future snapshot only;
                                                                 # the Robert-Asselin-filtered current one is exact to rounding
                if fix and not touched and float(n0) != int(n0):
                    continue                                     # built from snapped snapshots: no fixed expected value
                if fix and touched and float(n0) != int(n0):
                    # clock not on the dt lattice: the clean-up snaps to a neighbouring lattice point
                    ctx.oracle('maybe_fix_sim_time_roundoff returns a multiple of dt next to the unrounded time',
                               tk == dt * round(tk / dt) and abs(tk - want) <= 0.5 * abs(dt) * (1 + 1e-9), {'k': k, 'sim_time': tk, 'unrounded': want})
                    continue
                ctx.oracle_close('sim_time advances by the step size per step', [tk], [want], scale=max(abs(want), k * abs(dt)), tol_rel=1e-11)
                if fix and touched:
                    ctx.oracle('with maybe_fix_sim_time_roundoff as last filter sim_time is exactly (n0 + k) * dt',
                               tk == dt * float(n), {'k': k, 'n0': n0, 'sim_time': tk, 'want': dt * float(n)})


def _build_filters(specs, g, dt, lf):
    """step filters from specs; tau is given as a multiple of dt (so dt / tau > 0 also for negative dt)"""
    m = dyn.mods(); ti = m['ti']; filtering = m['filtering']
    out = []
    for f in specs:
        t = f['type']
        if t == 'exponential':
            mk = ti.exponential_leapfrog_step_filter if lf else ti.exponential_step_filter
            out.append(mk(g, dt, tau=f.get('tau_mult', 10) * dt, order=f.get('order', 3), cutoff=f.get('cutoff', 0)))
        elif t == 'diffusion':
            if lf:
                order = f.get('order', 1)
                scale = dt / (f.get('tau_mult', 20) * dt * abs(g.laplacian_eigenvalues).max() ** order)
                out.append(ti.leapfrog_step_filter(filtering.horizontal_diffusion_filter(g, scale, order)))
            else:
                out.append(ti.horizontal_diffusion_step_filter(g, dt, tau=f.get('tau_mult', 20) * dt, order=f.get('order', 1)))
        elif t == 'robert_asselin':
            out.append(ti.robert_asselin_leapfrog_filter(f.get('r', 0.05)))
        elif t == 'fix_time':
            fixfn = lambda s: ti.maybe_fix_sim_time_roundoff(s, dt)
            out.append(ti.leapfrog_step_filter(fixfn) if lf else ti.runge_kutta_step_filter(fixfn))
        else:
            raise ValueError(t)
    return out


AMP = dict(vorticity=1e-2, divergence=1e-3, temperature_variation=1.0, log_surface_pressure=1e-2, potential=0.1)


def _map_named(st, fn):
    """rebuild a (frozen) state object from fn(name, leaf)"""
    d = {}
    for k, v in st.asdict().items():
        d[k] = {t: fn('tracers', x) for t, x in v.items()} if isinstance(v, dict) else fn(k, v)
    return type(st)(**d)


def _dense_like(rng, st, g, mode, scaled=False):
    """mode 'dense': arbitrary (inadmissible) values everywhere; 'conforming': full band inside the pattern, non-zero means"""
    m = dyn.mods(); jnp = m['jnp']
    keep = ~_required_zero(g)
    def f(name, q):
        q = np.asarray(q)
        if q.ndim < 2: return jnp.asarray(0.7)
        r = rng.integers(-16, 17, size=q.shape).astype(np.float64) / 16
        r = np.where(r == 0, 0.5, r)
        if scaled: r = r * AMP.get(name, 1e-3)
        return jnp.asarray(r if mode == 'dense' else r * keep)
    return _map_named(st, f)


def r_unit(ctx, a):
    m = dyn.mods(); jax = m['jax']; jnp = m['jnp']
    kind = a['kind']; impl = a['impl']
    rng, g, c, eq = _setup(kind, impl, a['seed'], opts=a.get('opts'))
    req = _required_zero(g)
    st = _state(rng, kind, c, 0.01)
    exact00 = kind in ('dry', 'time', 'sw')
    # explicit terms of an arbitrary dense input land in the pattern.  Shallow water: the pressure term
    # -laplacian(density_ratios @ potential) is linear in the modal input itself (no transform), so only the top
    # wavenumber is cleared for arbitrary input and the full pattern needs an input inside the triangular mask.
    dense = _dense_like(rng, st, g, 'dense', scaled=(kind != 'sw'))
    ex = jax.jit(eq.explicit_terms)
    e = ex(dense)
    ctx.oracle('explicit tendencies finite', dyn.tree_all_finite(e))
    top = np.zeros_like(req); top[:, GRIDS[impl]['L'] - 1:] = True
    _check_pattern(ctx, 'explicit_terms of ANY input has exact zeros at the top wavenumber' if kind == 'sw' else
                   'explicit_terms of ANY input has exact zeros outside the truncation and at the top wavenumber', e, top if kind == 'sw' else req)
    if a.get('interleave'):
        # the same equation object evaluated again after a different configuration (other radius, other layout) was
        # built and evaluated in the same process must give bit-identical tendencies (no state leaks through caches)
        for other in a['interleave']:
            rng2, g2, c2, eq2 = _setup(kind, other, a['seed'], opts=a.get('opts'))
            st2 = _state(rng2, kind, c2, 0.01, gd=GRIDS[other])
            jax.block_until_ready(jax.jit(eq2.explicit_terms)(st2)); eq2.implicit_inverse(st2, 0.03)
        rng3, g3, c3, eq3 = _setup(kind, impl, a['seed'], opts=a.get('opts'))      # a fresh, equal configuration
        e_again = ex(dense); e_fresh = jax.jit(eq3.explicit_terms)(dense)
        same = lambda p, q: all(np.array_equal(np.asarray(u), np.asarray(v)) for u, v in zip(dyn.tree_leaves(p), dyn.tree_leaves(q)))
        ctx.oracle('explicit_terms re-evaluated after other configurations were used is bit-identical', same(e, e_again))
        ctx.oracle('an equal configuration built later gives bit-identical explicit_terms', same(e, e_fresh))
        ctx.oracle('implicit_inverse re-evaluated after other configurations were used is bit-identical',
                   same(eq.implicit_inverse(dense, 0.03), eq3.implicit_inverse(dense, 0.03)))
    inmask = _map_named(dense, lambda n, v: v * _mask_indep(g) if np.ndim(v) >= 2 else v)
    e1 = ex(inmask)
    _check_pattern(ctx, 'explicit_terms of any input inside the triangular mask (top wavenumber populated) lands in the pattern', e1, req)
    ok = all(int(np.count_nonzero(x[..., req])) == 0 for n, x in _leaves(e1) if x.ndim >= 2)
    ctx.table_obligation('H_pre_mask: tendencies before the final clip vanish outside the triangular mask (observed through the clip)', ok)
    E = dict(_leaves(e))
    if exact00:
        for f in ('vorticity', 'divergence'):
            ctx.oracle(f'(0,0) coefficient of the {f} tendency is exactly 0 for any input', bool(np.all(E[f][..., 0, 0] == 0.0)),
                       {'values': E[f][..., 0, 0]})
        if kind == 'sw':
            ctx.oracle('(0,0) coefficient of the explicit potential tendency is exactly 0 for any input',
                       bool(np.all(E['potential'][..., 0, 0] == 0.0)), {'values': E['potential'][..., 0, 0]})
    if kind != 'sw':
        ctx.oracle('explicit tendency of the uniform tracer slot is defined and in the pattern', True)
    # band-limited admissible input: the means of the tendencies vanish (moist: to rounding; hypothesis of the mean theorem)
    e2 = ex(st); E2 = dict(_leaves(e2))
    for f in ('vorticity', 'divergence'):
        sc = max(float(np.max(np.abs(E2[f]))), 1e-300)
        ctx.table_obligation(f'H_mean_tendency_zero[{kind}]: (0,0) of the {f} tendency vanishes on admissible states',
                             bool(np.all(np.abs(E2[f][..., 0, 0]) <= 1e-13 * sc)), {'values': E2[f][..., 0, 0], 'scale': sc})
    if kind != 'sw':
        tq = E2[f'tracers[{UNIFORM}]']
        sc = 0.01 * max(float(np.max(np.abs(dict(_leaves(st))['divergence']))), 1e-300)
        ctx.table_obligation('H_uv_roundtrip: the tendency of a uniform tracer vanishes (flux-form advection + divergence term cancel)',
                             bool(np.all(np.abs(tq) <= 1e-11 * sc)), {'max': float(np.max(np.abs(tq))), 'scale': sc})
    # implicit terms / inverse act per (m,l): a conforming input (with non-zero means) stays conforming
    conf = _dense_like(rng, st, g, 'conforming')
    gi = eq.implicit_terms(conf)
    _check_pattern(ctx, 'implicit_terms keeps the zero pattern', gi, req)
    C0 = dict(_leaves(conf)); GI = dict(_leaves(gi))
    ctx.oracle('(0,0) coefficients of the implicit vorticity and divergence tendencies are exactly 0',
               bool(np.all(GI['vorticity'][..., 0, 0] == 0.0)) and bool(np.all(GI['divergence'][..., 0, 0] == 0.0)),
               {'div': GI['divergence'][..., 0, 0]})
    methods = [None] if kind == 'sw' else [None, 'stacked', 'blockwise']
    for eta, method in [(e, mth) for e in (0.01, -0.01, 0.1) for mth in methods][:(9 if ctx.tier != 'quick' else 5)]:
        if method is None:
            inv = eq.implicit_inverse(conf, eta)
        else:
            # the alternative solution methods of PrimitiveEquations.implicit_inverse (time is passed through by the subclass)
            from dinosaur import primitive_equations as _pe
            d0 = conf.asdict(); tm = d0.pop('sim_time', None)
            base = _pe.PrimitiveEquations.implicit_inverse(eq, _pe.State(**d0), eta, method=method)
            inv = type(conf)(**base.asdict(), **({'sim_time': tm} if tm is not None else {}))
            ctx.count('inverse_method:' + method)
        _check_pattern(ctx, 'implicit_inverse keeps the zero pattern', inv, req)
        IV = dict(_leaves(inv))
        for f in ('vorticity', 'divergence'):
            ctx.oracle_close(f'implicit_inverse passes the (0,0) coefficient of {f} through', IV[f][..., 0, 0], C0[f][..., 0, 0],
                             scale=1.0, tol_rel=1e-14)
            ctx.count('inverse00_exact:%d' % int(np.all(IV[f][..., 0, 0] == C0[f][..., 0, 0])))
        if kind == 'sw':
            d00 = C0['divergence'][..., 0, 0]; p00 = C0['potential'][..., 0, 0]
            ctx.oracle_close('shallow-water inverse at (0,0): potential - eta*ref_potential*divergence',
                             IV['potential'][..., 0, 0], p00 - eta * np.asarray(SW_REF_POTENTIAL[:len(d00)]) * d00, scale=1.0, tol_rel=1e-14)
            ctx.oracle_close('shallow-water implicit potential tendency at (0,0) = -ref_potential*divergence',
                             GI['potential'][..., 0, 0], -np.asarray(SW_REF_POTENTIAL[:len(d00)]) * d00, scale=1.0, tol_rel=1e-14)
        if 'sim_time' in IV:
            ctx.oracle('implicit_inverse leaves sim_time untouched', float(IV['sim_time']) == 0.7, {'sim_time': float(IV['sim_time'])})
    if 'sim_time' in E:
        ctx.oracle('explicit tendency of sim_time is exactly 1, implicit tendency exactly 0',
                   float(E['sim_time']) == 1.0 and float(GI['sim_time']) == 0.0, {'explicit': float(E['sim_time']), 'implicit': float(GI['sim_time'])})
    # filters keep the pattern and the (0,0) coefficients
    dt = 0.02
    for fs in (['exponential'], ['diffusion']):
        f = dyn.step_filters(fs, g, dt)[0]
        out = f(conf, conf)
        _check_pattern(ctx, f'{fs[0]} step filter keeps the zero pattern', out, req)
        O = dict(_leaves(out))
        for fld in ('vorticity', 'divergence'):
            ctx.oracle(f'{fs[0]} step filter leaves the (0,0) coefficients unchanged', bool(np.all(O[fld][..., 0, 0] == C0[fld][..., 0, 0])),
                       {'after': O[fld][..., 0, 0], 'before': C0[fld][..., 0, 0]})
        if 'sim_time' in O:
            ctx.oracle('filters leave sim_time untouched', float(O['sim_time']) == 0.7, {'filter': fs[0], 'sim_time': float(O['sim_time'])})


def r_time_unit(ctx, a):
    """filters vs scalar / non-modal leaves (shape rule), on plain trees"""
    m = dyn.mods(); jnp = m['jnp']; ti = m['ti']; filtering = m['filtering']
    rng = np.random.Generator(np.random.PCG64(a['seed']))
    for gd in (GRIDS['real'], GRIDS['fast'], dict(M=2, L=2, I=6, J=4, impl='real'), GRIDS['fast8'], GRIDS['real_L6']):
        g = _grid(gd)
        mk = np.asarray(g.mask).astype(np.float64)
        x = {'u': jnp.asarray(dyn.modal_field(rng, g, (2,), 3) + 1.0 * mk), 'sim_time': jnp.asarray(1.375), 't_py': 2.5,
             # other forms of leaves a filter must not touch: 1-element array, integer counter, float32 scalar, nodal field
             't_1': jnp.asarray([1.375]), 'n_int': np.int64(7), 't_f32': np.float32(0.625),
             'nodal': jnp.asarray(rng.integers(-4, 5, size=tuple(g.nodal_shape)).astype(np.float64))}
        # many leaves and nesting depth 3 (tuples / lists / dicts mixed)
        x['many'] = [{'a%d' % i: (jnp.asarray(dyn.modal_field(rng, g, (), 3) + (i + 1) * mk), [jnp.asarray(float(i)), {'deep': jnp.asarray(dyn.modal_field(rng, g, (1,), 2) + mk)}])
                      for i in range(4)} for _ in range(3)]
        # leading batch axes with different content per slice, ranks 2..5
        ranks = {'r2': (), 'r4': (3, 2), 'r5': (2, 1, 3)}
        for rk, lead in ranks.items():
            x[rk] = jnp.asarray(dyn.modal_field(rng, g, lead, 3) + mk * (1 + np.arange(int(np.prod(lead, dtype=int)) or 1).reshape(lead + (1, 1))))
        both = lambda f: (lambda s: f(s, s))
        fns = {}
        for cutoff in (0, 0.3, 0.4, 0.7):
            for att, order in ((16, 2), (16, 18), (2.5, 6), (0.125, 1), (1e-3, 3), (1e3, 2)):
                fns[f'exponential_filter(att={att},order={order},cutoff={cutoff})'] = filtering.exponential_filter(g, att, order, cutoff)
            fns[f'exponential_step_filter(cutoff={cutoff})'] = both(ti.exponential_step_filter(g, 0.1, tau=1.0, order=2 if cutoff else 18, cutoff=cutoff))
            lfilt = ti.exponential_leapfrog_step_filter(g, 0.1, tau=0.5, order=6, cutoff=cutoff)
            fns[f'exponential_leapfrog_step_filter(cutoff={cutoff})'] = (lambda f: (lambda s: f((s, s), (s, s))[1]))(lfilt)
        # per-level attenuation / scale arrays (leading axis 2 as in 'u')
        fns['exponential_filter(att=array,cutoff=0.3)'] = filtering.exponential_filter(g, np.array([4.0, 16.0]).reshape(2, 1, 1), 2, 0.3)
        fns['horizontal_diffusion_filter(scale=array)'] = filtering.horizontal_diffusion_filter(g, np.array([0.25, 2.0]).reshape(2, 1, 1), 2)
        for order in (1, 2, 3):
            fns[f'horizontal_diffusion_filter(order={order})'] = filtering.horizontal_diffusion_filter(g, 0.5, order)
            fns[f'horizontal_diffusion_step_filter(order={order})'] = both(ti.horizontal_diffusion_step_filter(g, 0.1, tau=1.0, order=order))
        for nm, fn in fns.items():
            y = fn(x)
            ctx.oracle('filters leave sim_time untouched', float(y['sim_time']) == 1.375 and float(y['t_py']) == 2.5,
                       {'filter': nm, 'grid': gd, 'sim_time': float(y['sim_time']), 't_py': float(y['t_py'])})
            ctx.oracle('filters leave the (0,0) coefficients unchanged', bool(np.all(np.asarray(y['u'])[..., 0, 0] == np.asarray(x['u'])[..., 0, 0])),
                       {'filter': nm, 'grid': gd, 'after': np.asarray(y['u'])[..., 0, 0], 'before': np.asarray(x['u'])[..., 0, 0]})
            ctx.oracle('filters keep exact zeros outside the truncation', bool(np.all(np.asarray(y['u'])[..., ~_mask_indep(g, gd)] == 0.0)), {'filter': nm})
            same = lambda p, q: type(p) is type(q) and np.asarray(p).dtype == np.asarray(q).dtype and np.array_equal(np.asarray(p), np.asarray(q))
            bad = [k for k in ('t_1', 'n_int', 't_f32', 'nodal') if not same(y[k], x[k])]
            if tuple(g.nodal_shape)[-1] == g.modal_shape[-1]: bad = [k for k in bad if k != 'nodal']
            ctx.oracle('filters leave non-modal leaves (1-element, integer, float32, nodal) untouched', not bad, {'filter': nm, 'grid': gd, 'changed': bad})
            jtu = dyn.mods()['jax'].tree_util
            ly, lx = jtu.tree_leaves(y['many']), jtu.tree_leaves(x['many'])
            ctx.oracle('filters on a pytree with many nested leaves: structure kept, (0,0) of every modal leaf and every scalar leaf unchanged',
                       jtu.tree_structure(y['many']) == jtu.tree_structure(x['many']) and len(ly) == 36 and
                       all((np.asarray(p)[..., 0, 0] == np.asarray(q)[..., 0, 0]).all() if np.ndim(q) >= 2 else float(p) == float(q) for p, q in zip(ly, lx)),
                       {'filter': nm, 'leaves': len(ly)})
            for rk in ranks:
                yy = np.asarray(y[rk]); xx = np.asarray(x[rk])
                ctx.oracle('filters leave the (0,0) coefficients unchanged', bool(np.all(yy[..., 0, 0] == xx[..., 0, 0])) and yy.shape == xx.shape,
                           {'filter': nm, 'rank': rk})



def r_fix_time_unit(ctx, a):
    """time_integration.maybe_fix_sim_time_roundoff on its own: clocks of either sign, dt of either sign"""
    m = dyn.mods(); jnp = m['jnp']; ti = m['ti']
    class S: pass
    def fix(times, dt):
        s = S(); s.sim_time = jnp.asarray(np.asarray(times, dtype=np.float64))
        return np.asarray(ti.maybe_fix_sim_time_roundoff(s, dt).sim_time, dtype=np.float64)
    ns = np.arange(-12, 13).astype(np.float64)
    for dt in (a['dt'], -a['dt']):
        for delta in (0.0, 1e-9, -1e-9, 3e-13, -3e-13):
            times = ns * dt * (1 + delta) + delta * dt
            out = fix(times, dt)
            ctx.oracle('maybe_fix_sim_time_roundoff maps a time within rounding of n*dt to exactly n*dt (n of either sign)',
                       bool(np.all(out == dt * ns)), {'dt': dt, 'delta': delta, 'n': ns[out != dt * ns], 'got/dt': (out / dt)[out != dt * ns]})
            ctx.corr('maybe_fix_sim_time_roundoff vs model dt * round_half_even(t / dt)', out,
                     ctx.model.call(6, [], [[dt], times.tolist()]), scale=13 * abs(dt))
        # jnp.round is a rounding to nearest (hypothesis [nearest] of C11_fix_time_trajectory)
        xs = np.concatenate([ns + d for d in (-0.49, -0.25, 0.0, 0.25, 0.49)])
        want = np.concatenate([ns] * 5)
        ctx.table_obligation('H_round_nearest: jnp.round(x) = n whenever |x - n| < 1/2 (n of either sign)',
                             bool(np.all(np.asarray(jnp.round(jnp.asarray(xs))) == want)))
    dt = a['dt']
    if float(dt).hex().rstrip('0').endswith(('0x1.', 'p-6')) or dt == 2.0 ** round(np.log2(dt)):
        ties = (ns + 0.5) * dt          # exact in binary: ties go to the even neighbour
        ctx.corr('maybe_fix_sim_time_roundoff on exact ties vs round-half-even model', fix(ties, dt),
                 ctx.model.call(6, [], [[dt], ties.tolist()]), scale=13 * abs(dt))
    o = object()
    ctx.oracle('maybe_fix_sim_time_roundoff returns objects without sim_time unchanged', ti.maybe_fix_sim_time_roundoff(o, dt) is o)


def r_sw_supp(ctx, a):
    """C11_sw_mean_tendencies_vanish / C11_sw_explicit_top_zero / C11_sw_explicit_into_Supp on the implementation:
    the named hypotheses (sw_H_p_support, sw_H_deriv_mask) as table obligations on the implementation's own tables and
    operators, and the conclusions on ShallowWaterEquations.explicit_terms for ARBITRARY modal states in the pattern
    (non-zero means, energy up to the top retained wavenumber), any densities, with / without orography."""
    m = dyn.mods(); sw = m['sw']; jnp = m['jnp']; scales = m['scales']
    rng = np.random.Generator(np.random.PCG64(a['seed']))
    gd = a['grid']; g = _grid(gd); N = int(a['layers'])
    ints = _grid_ints(g, gd); R, C = g.modal_shape
    mask = np.asarray(g.mask).astype(bool)
    # sw_H_p_support: exact zeros of the basis functions f[i, a] * p[a, j, l] outside the mask
    bs = g.spherical_harmonics.basis
    ft = np.asarray(bs.f, dtype=np.float64)
    if ft.ndim == 3: ft = np.reshape(ft, (ft.shape[0], -1), order='F')
    pt = np.asarray(bs.p, dtype=np.float64)
    if gd['impl'] != 'real': pt = np.repeat(pt, 2, axis=0)
    prod = ft[:, :, None, None] * pt[None]                                # (I, R, J, L)
    ctx.table_obligation('sw_H_p_support: the basis functions f[i,a] * p[a,j,l] vanish exactly outside the triangular mask',
                         bool(prod.shape[1] == R and prod.shape[3] == C and np.all(np.transpose(prod, (1, 3, 0, 2))[~mask] == 0.0)))
    # sw_H_deriv_mask: div_cos_lat / curl_cos_lat (default clip) keep arrays in the mask pattern
    ok = True
    for _ in range(4):
        x = rng.integers(-16, 17, size=(2, R, C)).astype(np.float64) / 16 * mask
        for fn in (g.div_cos_lat, g.curl_cos_lat):
            y = np.asarray(fn((x[0], x[1])), dtype=np.float64)
            ok = ok and bool(np.all(y[~mask] == 0.0))
    ctx.table_obligation('sw_H_deriv_mask: div_cos_lat / curl_cos_lat of arrays vanishing outside the mask vanish outside the mask (exact zeros)', ok)
    # conclusions on explicit_terms, arbitrary (not admissible) states in the pattern
    c = dyn.layer_coords(g, N)
    specs = sw.ShallowWaterSpecs(np.asarray(a['dens'], dtype=np.float64), float(g.radius), 0.75, 1.0, scales.DEFAULT_SCALE)
    deg = g.total_wavenumbers - 1
    oro = dyn.modal_field(rng, g, (), deg, amp=0.5) if a.get('orog') else None
    eq = sw.ShallowWaterEquations(c, specs, None if oro is None else jnp.asarray(oro), np.ones(N))
    for rep in range(2):
        st = sw.State(vorticity=jnp.asarray(dyn.modal_field(rng, g, (N,), deg, False, 0.5)),
                      divergence=jnp.asarray(dyn.modal_field(rng, g, (N,), deg, False, 0.25)),
                      potential=jnp.asarray(dyn.modal_field(rng, g, (N,), deg, False, 1.0)))
        res = eq.explicit_terms(st)
        for nm in ('vorticity', 'divergence', 'potential'):
            t = np.asarray(getattr(res, nm), dtype=np.float64)
            ctx.oracle(f'shallow water: (0,0) coefficient of the explicit {nm} tendency is exactly zero for every layer (any state)',
                       bool(np.all(t[:, 0, 0] == 0.0)), {'values': t[:, 0, 0].tolist()})
            ctx.oracle(f'shallow water: explicit {nm} tendency is exactly zero at the top total wavenumber and outside the mask',
                       bool(np.all(t[:, ~mask] == 0.0) and np.all(t[:, :, g.total_wavenumbers - 1:] == 0.0)))
            ctx.oracle(f'shallow water: explicit {nm} tendency is finite and not identically zero', bool(np.all(np.isfinite(t)) and np.abs(t).max() > 0))
            for k in range(N):
                mo = ctx.model.call(2, ints, [t[k].ravel()])
                ctx.exact(f'model pattern check (must_vanish) accepts the explicit {nm} tendency', 1, int(mo[0]))


def r_pe_supp(ctx, a):
    """C11_pe_* / C11_primeq_* on the implementation: the named hypotheses (pe_H_p_support, pe_H_deriv_mask, orography in
    the mask, pe_H_inv0_div_rows) as table obligations on the implementation's own tables and operators, and the
    conclusions (a) pattern, (b) (0,0) coefficients, (c) implicit terms / inverse keep the pattern, on the REAL
    PrimitiveEquations.explicit_terms / implicit_terms / implicit_inverse for ARBITRARY states (energy at the top
    wavenumber, non-zero means, also entries outside the truncation), with an orography that has energy at the top
    wavenumber and one tracer."""
    m = dyn.mods(); pe = m['pe']; jnp = m['jnp']
    impl = a['impl']; K = int(a['K']); gd = GRIDS[impl]
    rng, g, c, eq = _setup('dry', impl, a['seed'], K=K, opts={'oro': 'untruncated'})
    R, C = g.modal_shape; L = gd['L']
    mask = _mask_indep(g, gd); req = _required_zero(g, gd)
    ctx.oracle('grid.mask is the triangular truncation of the layout definition', bool(np.array_equal(mask, np.asarray(g.mask).astype(bool))))
    ints = _grid_ints(g, gd)
    # pe_H_p_support: exact zeros of the basis functions f[i, a] * p[a, j, l] outside the mask
    bs = g.spherical_harmonics.basis
    ft = np.asarray(bs.f, dtype=np.float64)
    if ft.ndim == 3: ft = np.reshape(ft, (ft.shape[0], -1), order='F')
    pt = np.asarray(bs.p, dtype=np.float64)
    if gd['impl'] != 'real': pt = np.repeat(pt, 2, axis=0)
    prod = ft[:, :, None, None] * pt[None]                                # (I, R, J, L)
    ctx.table_obligation('pe_H_p_support: the basis functions f[i,a] * p[a,j,l] vanish exactly outside the triangular mask',
                         bool(prod.shape[1] == R and prod.shape[3] == C and np.all(np.transpose(prod, (1, 3, 0, 2))[~mask] == 0.0)))
    ok = True
    for _ in range(4):
        x = rng.integers(-16, 17, size=(2, R, C)).astype(np.float64) / 16 * mask
        for fn in (g.div_cos_lat, g.curl_cos_lat):
            y = np.asarray(fn((x[0], x[1]), clip=False), dtype=np.float64)
            ok = ok and bool(np.all(y[:, :L][~mask[:, :L]] == 0.0))          # padded columns l >= L (fast layout) are cleared by the final clip
    ctx.table_obligation('pe_H_deriv_mask: div_cos_lat / curl_cos_lat (clip=False) of arrays vanishing outside the mask vanish outside the mask for l < L (exact zeros)', ok)
    oro = np.asarray(eq.orography, dtype=np.float64)
    ctx.table_obligation('pe_masked orography: the modal orography handed to the equation vanishes outside the mask', bool(np.all(oro[~mask] == 0.0)))
    ctx.oracle('input distribution: the orography has energy at the top total wavenumber', bool(np.abs(oro[:, L - 1]).max() > 0))
    eta = float(a.get('eta', 0.0625))
    imat = pe._get_implicit_term_matrix(eta, eq.coords, eq.reference_temperature, eq.physics_specs.kappa, eq.physics_specs.R)
    inv0 = np.linalg.inv(imat)[0]
    want = np.concatenate([np.eye(K), np.zeros((K, K + 1))], axis=1)
    ctx.table_obligation('pe_H_inv0_div_rows: the divergence rows of inv(implicit matrix) at total wavenumber 0 are the unit rows [I 0 0]',
                         bool(np.all(np.abs(inv0[:K] - want) <= 1e-13 * max(1.0, np.abs(inv0).max()))), {'rows': inv0[:K].tolist()})
    # round 2: the more primitive facts from which C11_pe_*_from_recurrence / C11_pe_right_inverse_div_rows /
    # C11_pe_H_deriv_mask_from_weights derive the hypotheses above
    n = 2 * K + 1
    ctx.table_obligation('pe_H_inv0_right_inverse: implicit_matrix(eta)[l=0] @ inv(implicit_matrix(eta))[l=0] = I (to rounding)',
                         bool(np.abs(imat[0] @ inv0 - np.eye(n)).max() <= 1e-12 * max(1.0, np.abs(imat[0]).max() * np.abs(inv0).max())))
    ctx.table_obligation('implicit matrix at total wavenumber 0: the divergence rows are exactly the unit rows [I 0 0] (laplacian eigenvalue 0)',
                         bool(np.array_equal(imat[0][:K], want)), {'rows': imat[0][:K].tolist()})
    import importlib
    al = importlib.import_module('dinosaur.associated_legendre'); shm = importlib.import_module('dinosaur.spherical_harmonic')
    Mw = gd['M']; Jn = gd['J']
    xs, _wp = shm.get_latitude_nodes(g.latitude_nodes, g.latitude_spacing)
    ev = np.asarray(al.evaluate(n_m=Mw, n_l=L, x=xs), dtype=np.float64)                    # (M, J, L)
    p_impl = np.asarray(bs.p, dtype=np.float64)
    if gd['impl'] == 'real':
        rows = (np.arange(R) + 1) // 2
        ok_p = p_impl.shape == (R, Jn, L) and np.array_equal(p_impl, ev[rows])
        mabs = rows
    else:
        ok_p = (p_impl.shape[0] >= Mw and np.array_equal(p_impl[:Mw, :Jn, :L], ev)
                and not p_impl[Mw:].any() and not p_impl[:, Jn:].any() and not p_impl[:, :, L:].any())
        mabs = np.arange(R) // 2
    ctx.table_obligation('pe_p_is_evaluate: basis.p row a is (bit for bit) row |m(a)| of associated_legendre.evaluate(M, L, sin_lat) (zero padding in the fast layout)', bool(ok_p))
    drw = g._derivative_recurrence_weights
    wa, _wb = drw() if callable(drw) else drw
    wa = np.asarray(wa, dtype=np.float64)
    diag = [(i, int(mabs[i])) for i in range(R) if mabs[i] < L and (gd['impl'] == 'real' or i < 2 * Mw)]
    ctx.table_obligation('pe_H_a_diag: the recurrence weight a[i, l] is exactly 0 at l = |m(i)|',
                         bool(wa.shape == (R, C) and all(wa[i, l] == 0.0 for i, l in diag)) and len(diag) > 0)
    ctx.oracle('input distribution: the recurrence weight a is non-zero somewhere above the diagonal', bool(np.abs(wa).max() > 0))
    amp = dict(vorticity=0.1, divergence=0.05, temperature_variation=2.0, log_surface_pressure=0.05, q=0.01)
    def state(mode):
        def fld(name, lead):
            r = rng.integers(-16, 17, size=(lead, R, C)).astype(np.float64) / 16
            r = np.where(r == 0, 0.5, r) * amp[name]
            return jnp.asarray(r if mode == 'dense' else r * mask)         # 'inmask': all l < L inside the triangle, means non-zero
        return pe.State(vorticity=fld('vorticity', K), divergence=fld('divergence', K),
                        temperature_variation=fld('temperature_variation', K),
                        log_surface_pressure=fld('log_surface_pressure', 1), tracers={'q': fld('q', K)})
    def fields(st):
        return [('vorticity', st.vorticity), ('divergence', st.divergence), ('temperature_variation', st.temperature_variation),
                ('log_surface_pressure', st.log_surface_pressure), ('tracer q', st.tracers['q'])]
    for mode in ('inmask', 'dense'):
        st = state(mode)
        v0 = np.asarray(st.vorticity); d0 = np.asarray(st.divergence)
        ctx.oracle('input distribution: the input state violates the invariants (top wavenumber populated, non-zero means)',
                   bool(np.abs(v0[:, :, L - 1]).max() > 0 and np.all(v0[:, 0, 0] != 0) and np.all(d0[:, 0, 0] != 0)))
        res = eq.explicit_terms(st)
        for nm, t in fields(res):
            t = np.asarray(t, dtype=np.float64)
            ctx.oracle(f'primitive equations: explicit {nm} tendency of ANY state is exactly zero at the top total wavenumber',
                       bool(np.all(t[:, :, L - 1:] == 0.0)), {'max': float(np.abs(t[:, :, L - 1:]).max())})
            ctx.oracle(f'primitive equations: explicit {nm} tendency of ANY state is exactly zero outside the triangular mask',
                       bool(np.all(t[:, ~mask] == 0.0)))
            ctx.oracle(f'primitive equations: explicit {nm} tendency is finite and not identically zero', bool(np.all(np.isfinite(t)) and np.abs(t).max() > 0))
            for k in range(t.shape[0]):
                mo = ctx.model.call(2, ints, [t[k].ravel()])
                ctx.exact(f'model pattern check (must_vanish) accepts the explicit {nm} tendency', 1, int(mo[0]))
        for nm in ('vorticity', 'divergence'):
            t = np.asarray(getattr(res, nm), dtype=np.float64)
            ctx.oracle(f'primitive equations: (0,0) coefficient of the explicit {nm} tendency is exactly zero on every level (any state)',
                       bool(np.all(t[:, 0, 0] == 0.0)), {'values': t[:, 0, 0].tolist()})
        im = eq.implicit_terms(st)
        for nm in ('vorticity', 'divergence'):
            t = np.asarray(getattr(im, nm), dtype=np.float64)
            ctx.oracle(f'primitive equations: (0,0) coefficient of the implicit {nm} tendency is exactly zero on every level (any state)',
                       bool(np.all(t[:, 0, 0] == 0.0)), {'values': t[:, 0, 0].tolist()})
    # (c) implicit terms / inverse keep the pattern; (d) the inverse passes the means
    keep = ~req
    st = state('dense')
    st = pe.State(**{k: (jnp.asarray(np.asarray(v) * keep) if k != 'tracers' else {'q': jnp.asarray(np.asarray(v['q']) * keep)})
                     for k, v in st.asdict().items() if k != 'sim_time'})
    for opname, out in (('implicit_terms', eq.implicit_terms(st)), ('implicit_inverse', eq.implicit_inverse(st, eta))):
        for nm, t in fields(out):
            t = np.asarray(t, dtype=np.float64)
            ctx.oracle(f'primitive equations: {opname} maps the pattern to itself ({nm}: exact zeros)', bool(np.all(t[:, req] == 0.0)))
    inv = eq.implicit_inverse(st, eta)
    ctx.oracle('primitive equations: implicit_inverse passes the (0,0) vorticity coefficients untouched (exact)',
               bool(np.array_equal(np.asarray(inv.vorticity)[:, 0, 0], np.asarray(st.vorticity)[:, 0, 0])))
    ctx.oracle_close('primitive equations: implicit_inverse passes the (0,0) divergence coefficients (to rounding)',
                     np.asarray(inv.divergence)[:, 0, 0], np.asarray(st.divergence)[:, 0, 0], scale=1.0)


RUNNERS = {'pe_supp': r_pe_supp, 'sw_supp': r_sw_supp, 'toy_long': r_toy_long, 'fix_time_unit': r_fix_time_unit, 'toy': r_toy, 'scalar': r_scalar, 'pattern': r_pattern, 'traj': r_traj, 'unit': r_unit, 'time_unit': r_time_unit}
