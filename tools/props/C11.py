"""C11 - structural invariants survive any number of steps.

(i) correspondence: the step-term encodings of the integrators (Model/Invariants.v,
    extracted, exact rationals) vs dinosaur.time_integration on a diagonal
    ImplicitExplicitODE; their scalar images (sim_time component) and consistency
    sums; the required-zero pattern (mask / top wavenumber / padding) and
    clip_wavenumbers vs the grid objects of the implementation;
(ii) the property's clauses evaluated on the implementation: trajectories of
    step_with_filters(integrator(equation), filters) from random admissible states
    for every equation class: exact-zero pattern, (0,0) coefficients of vorticity
    and divergence, shallow-water mean potential, uniform tracer, sim_time; unit
    level: explicit_terms on arbitrary dense input, implicit terms / inverse,
    filters on the scalar sim_time leaf."""
import numpy as np
from fractions import Fraction
from harness import util, dyn

THEOREMS = ['C11_term_preserves_subspace', 'C11_trajectory_in_subspace', 'C11_leapfrog_trajectory_in_subspace',
            'C11_explicit_into_Supp', 'C11_explicit_top_zero', 'C11_diagonal_preserves_Supp',
            'C11_modal_trajectory_in_Supp', 'C11_term_fixes_invariant_component',
            'C11_mean_tendencies_vanish', 'C11_inverse_passes_component', 'C11_sw_implicit_at_mean',
            'C11_sw_mean_thickness_conserved', 'C11_integrators_consistent', 'C11_concrete_consistency_sums',
            'C11_sim_time_advances', 'C11_sim_time_advances_rk4', 'C11_filter_leaves_scalar_leaf',
            'C11_uniform_tracer_vertical', 'C11_uniform_tracer_horizontal', 'C11_uniform_tracer_stays_uniform',
            'C11_terms_are_the_integrators', 'C11_sim_time_advances_R', 'C11_hyps_satisfiable',
            'C11_fix_time_trajectory', 'C11_fix_time_round_half_even']
LEVEL = 'proof'
LEVEL_TEXT = ('machine-checked theorems (Coq) for every field, every vector space, every step term built from '
              'u, +, scalar *, F, G, G_inv (all integrators of time_integration.py are encoded as such terms, the '
              'low-storage and Butcher schemes for arbitrary coefficient lists), every filter stack and EVERY step '
              'count k (induction): linear subspaces that F maps into and G, G_inv, filters preserve are invariant '
              '(instantiated with the support pattern: triangular mask, clipped top wavenumber, padding - explicit '
              'terms end with clip_wavenumbers, implicit terms/inverse/filters act per (m,l)); components that see '
              'F = phi, G = 0, G_inv = id evolve as u + k*c*phi with c the explicit consistency sum of the scheme '
              '(phi = 0: (0,0) coefficients of vorticity/divergence from the model of div/curl/laplacian; phi = 1: '
              'sim_time; c = 1 exactly for Euler, CN-RK2, RK3, SIL3, |c-1| <= 1e-12 for the decimal RK4); '
              'shallow-water mean thickness; vertical advection of a level-constant field is exactly 0. The term '
              'encodings are executed (extraction) against time_integration.py on a diagonal ODE; the clauses are '
              'evaluated on trajectories of the implementation for all equation classes.')
LEVEL_NOTE = ('theorems are about the Gallina models (Model/Invariants.v, Model/Deriv.v, Model/Sigma.v, Model/Filters.v); '
              'explicit_terms is modelled as clip(anything with zeros outside the mask) [H_pre_mask], the nodal '
              'products and transforms are not modelled; moist (0,0) tendencies and the horizontal part of the '
              'uniform-tracer clause hold only to rounding/quadrature exactness and enter as named hypotheses '
              'checked numerically; float rounding, jit/scan and tree_math are exercised, not modelled')
TECHNIQUE = 'Coq proof (step-term language, subspace + affine-component induction over all k) with extracted term evaluator vs time_integration.py; trajectory oracles on all equation classes'

SCHEMES = {'backward_forward_euler': 0, 'semi_implicit_leapfrog': 1, 'crank_nicolson_rk2': 2,
           'crank_nicolson_rk3': 3, 'crank_nicolson_rk4': 4, 'imex_rk_sil3': 5, 'low_storage': 6, 'imex_tableau': 7}
RK_INTEGRATORS = ('backward_forward_euler', 'crank_nicolson_rk2', 'crank_nicolson_rk3', 'crank_nicolson_rk4', 'imex_rk_sil3')
FILTER_STACKS = ([], ['exponential'], ['exponential', 'diffusion'])
GRIDS = {'real': dict(M=4, L=5, I=12, J=6, impl='real'),
         'fast': dict(M=4, L=5, I=12, J=6, impl='fast', base_shape_multiple=4)}

# a third-order 3-stage low-storage scheme different from the built-in ones (Williamson case 7 style,
# exact rationals) and a 3-stage IMEX tableau with zero entries (exercises the zero skipping)
CUSTOM_LS = dict(alphas=[0.0, 0.25, 0.75, 1.0], betas=[0.0, -0.5, -1.25], gammas=[0.25, 0.75, 1.0])
CUSTOM_IMEX = dict(a_ex=[[0.5], [0.0, 0.75]], a_im=[[0.25, 0.25], [0.0, 0.5, 0.25]],
                   b_ex=[0.25, 0.0, 0.75], b_im=[0.25, 0.0, 0.75])


def _seed(rng): return int(rng.integers(0, 2 ** 31))


def generate(ctx):
    rng = ctx.rng
    quick = ctx.tier == 'quick'
    # --- correspondence of the term encodings ---------------------------------
    for name in SCHEMES:
        for rep in range(2 if quick else 6):
            d = int(rng.integers(1, 4))
            nvec = 2 * d if name == 'semi_implicit_leapfrog' else d
            a = {'scheme': name, 'd': d,
                 'u': util.small_rationals(rng, (nvec,), -8, 8, 8).tolist(),
                 'a': util.small_rationals(rng, (d,), -4, 4, 8).tolist(),
                 'b': util.small_rationals(rng, (d,), -8, 8, 8).tolist(),
                 'c': util.small_rationals(rng, (d,), 0, 16, 4).tolist(),
                 'dt': float(rng.integers(1, 9)) / 32, 'alpha': [0.5, 0.75, 1.0][rep % 3],
                 'k': 1 if rep == 0 else int(rng.integers(2, 4)),
                 'filt': [] if rep % 2 == 0 else (util.small_rationals(rng, (d,), 4, 8, 8)).tolist()}
            if a['k'] > 1 and name not in ('backward_forward_euler', 'semi_implicit_leapfrog'):
                a['a'] = [0.0] * d      # exact rationals: keep the nesting depth of squarings small
            ctx.count('toy:' + name)
            yield 'toy', a
        yield 'scalar', {'scheme': name, 'dt': float(rng.integers(1, 9)) / 32, 'alpha': 0.5,
                         't0': float(rng.integers(-8, 9)) / 4, 'k': int(rng.integers(1, 6)), 'phi': [1.0, 0.0, -0.75][int(rng.integers(0, 3))]}
    # --- pattern / clip ---------------------------------------------------------
    pats = [dict(M=4, L=5, I=12, J=6, impl='real'), dict(M=4, L=5, I=12, J=6, impl='fast'),
            dict(M=4, L=5, I=12, J=6, impl='fast', base_shape_multiple=4), dict(M=3, L=6, I=8, J=8, impl='real'),
            dict(M=5, L=5, I=14, J=8, impl='real'), dict(M=3, L=4, I=8, J=4, impl='fast', base_shape_multiple=3)]
    if not quick:
        pats += [dict(M=6, L=7, I=18, J=10, impl='real'), dict(M=6, L=7, I=18, J=10, impl='fast', base_shape_multiple=8),
                 dict(M=2, L=3, I=6, J=4, impl='real'), dict(M=5, L=4, I=14, J=8, impl='fast')]
    for g in pats:
        yield 'pattern', {'grid': g, 'seed': _seed(rng)}
    # --- unit level ---------------------------------------------------------------
    kinds = ['dry', 'time', 'moist'] if quick else ['dry', 'time', 'moist', 'cloud']
    for impl in ('real', 'fast'):
        for kind in kinds + ['sw']:
            yield 'unit', {'kind': kind, 'impl': impl, 'seed': _seed(rng)}
    yield 'time_unit', {'seed': _seed(rng)}
    for dt in ([0.015625, 0.01] if quick else [0.015625, 0.01, 0.3, 1.0 / 3, 7.25]):
        yield 'fix_time_unit', {'dt': dt}
    # --- trajectories ---------------------------------------------------------------
    # filter stacks: names (default parameters of dyn.step_filters) or dicts with non-default parameters;
    # 'fix_time' = time_integration.maybe_fix_sim_time_roundoff as the last step filter; n0 = start time / dt
    E = lambda **kw: dict(type='exponential', **kw)
    D = lambda **kw: dict(type='diffusion', **kw)
    RA = dict(type='robert_asselin', r=0.05); FIX = dict(type='fix_time')
    if quick:
        combos = [('dry', 'real', 'imex_rk_sil3', ['exponential', 'diffusion'], 0, 1),
                  ('time', 'fast', 'crank_nicolson_rk4', [E(cutoff=0.7, order=2, tau_mult=5), FIX], -10, 1),
                  ('moist', 'real', 'crank_nicolson_rk3', [E(cutoff=0.3, order=6), D(order=2), FIX], 3, 1),
                  ('time', 'real', 'backward_forward_euler', [FIX], -3, -1),
                  ('time', 'real', 'imex_rk_sil3', [E(cutoff=0.4, order=18), D(order=3), FIX], -0.5, 1),
                  ('moist', 'fast', 'imex_rk_sil3', ['exponential'], 0, 1),
                  ('dry', 'fast', 'crank_nicolson_rk2', [E(cutoff=0.4, order=1), D(order=3)], 0, 1),
                  ('time', 'real', 'semi_implicit_leapfrog', [E(cutoff=0.3, order=6), RA, FIX], -10, 1),
                  ('dry', 'real', 'semi_implicit_leapfrog', [E(cutoff=0.4, order=18, tau_mult=1), RA], 0, 1),
                  ('sw', 'real', 'semi_implicit_leapfrog', [E(cutoff=0.4, order=18, tau_mult=1), RA], 0, 1),
                  ('sw', 'real', 'crank_nicolson_rk3', ['exponential', 'diffusion'], 0, 1),
                  ('sw', 'fast', 'imex_rk_sil3', [E(cutoff=0.3, order=6, tau_mult=2), D(order=2)], 0, 1),
                  ('sw', 'real', 'backward_forward_euler', [], 0, 1)]
    else:
        combos = []
        cut = [0.3, 0.4, 0.7]; orders = [1, 2, 6, 18]; taus = [1, 5, 10, 40]; n0s = [-10, -0.5, 0, 3]
        i = 0
        for kind in ['dry', 'time', 'moist', 'cloud', 'sw']:
            for integ in RK_INTEGRATORS + ('semi_implicit_leapfrog',):
                lfi = integ == 'semi_implicit_leapfrog'
                for f in range(3):
                    impls = ('real', 'fast') if (f == 2 or integ == 'imex_rk_sil3') else (('real',) if f == 0 else ('fast',))
                    if kind == 'cloud' and f != 2: continue
                    for impl in impls:
                        st = list(FILTER_STACKS[f])
                        if lfi and f == 2: st = ['exponential', RA]
                        combos.append((kind, impl, integ, st, 0, 1))
                # non-default filter parameters, the sim_time clean-up, shifted clocks
                for rep in range(2):
                    i += 1
                    st = [E(cutoff=cut[i % 3], order=orders[i % 4], tau_mult=taus[(i // 2) % 4])]
                    if rep == 0: st.append(RA if lfi else D(order=1 + i % 3))
                    elif lfi: st += [RA]
                    if kind not in ('dry', 'sw'): st.append(FIX)
                    combos.append((kind, 'real' if (i + rep) % 2 else 'fast', integ, st, n0s[i % 4], 1))
            if kind in ('time', 'moist'):
                for integ in ('backward_forward_euler', 'crank_nicolson_rk3', 'imex_rk_sil3'):
                    combos.append((kind, 'real', integ, [FIX], -3, -1))         # negative dt, positive start time
                    combos.append((kind, 'real', integ, [D(order=2), FIX], 10, -1))
    for kind, impl, integ, st, n0, sgn in combos:
        ctx.count(f'traj:{kind}'); ctx.count(f'integrator:{integ}'); ctx.count(f'filters:{len(st)}')
        if any(isinstance(f, dict) and f.get('cutoff') for f in st): ctx.count('stack:exponential cutoff>0')
        if FIX in st: ctx.count(f'stack:fix_time n0={n0} dt{"<" if sgn < 0 else ">"}0')
        yield 'traj', {'kind': kind, 'impl': impl, 'integrator': integ, 'filters': st, 'ks': [1, 2, 5], 'n0': n0,
                       'seed': _seed(rng), 'dt': sgn * [0.02, 0.01, 0.005][int(rng.integers(0, 3))]}


# ---------------------------------------------------------------------------
# (i) correspondence
# ---------------------------------------------------------------------------
def _toy_ode(a, b, c):
    m = dyn.mods(); ti = m['ti']; jnp = m['jnp']
    a, b, c = (jnp.asarray(np.asarray(v, dtype=np.float64)) for v in (a, b, c))
    return ti.ImplicitExplicitODE.from_functions(lambda u: a * u * u + b, lambda u: -(c * u),
                                                 lambda u, eta: u / (1 + eta * c))


def _make_integrator(name, eq, dt, alpha=0.5):
    m = dyn.mods(); ti = m['ti']
    if name == 'low_storage':
        return ti.low_storage_runge_kutta_crank_nicolson(CUSTOM_LS['alphas'], CUSTOM_LS['betas'], CUSTOM_LS['gammas'], eq, dt)
    if name == 'imex_tableau':
        return ti.imex_runge_kutta(ti.ImExButcherTableau(**CUSTOM_IMEX), eq, dt)
    if name == 'semi_implicit_leapfrog':
        return ti.semi_implicit_leapfrog(eq, dt, alpha)
    return getattr(ti, name)(eq, dt)


def _extra_arrs(name):
    """arrays 6.. of the model call for the schemes with explicit coefficient lists"""
    if name == 'low_storage':
        return [CUSTOM_LS['alphas'], CUSTOM_LS['betas'], CUSTOM_LS['gammas']], 0
    if name == 'imex_tableau':
        t = CUSTOM_IMEX
        return [sum(t['a_ex'], []), sum(t['a_im'], []), t['b_ex'], t['b_im']], len(t['b_ex'])
    return [], 0


def r_toy(ctx, a):
    m = dyn.mods(); ti = m['ti']; jnp = m['jnp']
    name = a['scheme']; d = a['d']; k = a['k']; dt = a['dt']
    eq = _toy_ode(a['a'], a['b'], a['c'])
    step = _make_integrator(name, eq, dt, a['alpha'])
    u = np.asarray(a['u'], dtype=np.float64)
    filt = a['filt']
    lf = name == 'semi_implicit_leapfrog'
    fl = []
    if filt:
        s = jnp.asarray(np.asarray(filt, dtype=np.float64))
        fl = [(ti.leapfrog_step_filter if lf else ti.runge_kutta_step_filter)(lambda x: s * x)]
    step = ti.step_with_filters(step, fl)
    x = (jnp.asarray(u[:d]), jnp.asarray(u[d:])) if lf else jnp.asarray(u)
    for _ in range(k):
        x = step(x)
    out = np.concatenate([np.asarray(x[0]), np.asarray(x[1])]) if lf else np.asarray(x)
    extra, stages = _extra_arrs(name)
    mo = ctx.model.call(0, [SCHEMES[name], d, k, stages], [a['u'], a['a'], a['b'], a['c'], [dt, a['alpha']], filt] + extra)
    scale = max(1.0, float(np.max(np.abs(out))) if np.all(np.isfinite(out)) else 1.0)
    ctx.corr(f'{name}: {k} step(s) of the term encoding vs time_integration.py on the diagonal ODE', out, mo,
             scale=scale, tol_rel=1e-12)


def r_scalar(ctx, a):
    """the component that sees F = phi, G = 0, G_inv = id (sim_time for phi = 1)"""
    m = dyn.mods(); ti = m['ti']; jnp = m['jnp']
    name = a['scheme']; dt = a['dt']; k = a['k']; phi = a['phi']; t0 = a['t0']
    eq = ti.ImplicitExplicitODE.from_functions(lambda u: jnp.full_like(u, phi), lambda u: jnp.zeros_like(u), lambda u, eta: u)
    step = _make_integrator(name, eq, dt, a['alpha'])
    lf = name == 'semi_implicit_leapfrog'
    x = (jnp.asarray([t0]), jnp.asarray([t0 + dt * phi])) if lf else jnp.asarray([t0])
    for _ in range(k):
        x = step(x)
    out = np.concatenate([np.asarray(x[0]), np.asarray(x[1])]) if lf else np.asarray(x)
    extra, stages = _extra_arrs(name)
    mo = ctx.model.call(3, [SCHEMES[name], 0, k, stages], [[t0, t0 + dt * phi], [], [], [], [dt, a['alpha']], [phi]] + extra)
    scale = abs(t0) + (k + 1) * dt * abs(phi) + 1e-300
    ctx.corr(f'{name}: scalar image after {k} steps', out, mo, scale=scale, tol_rel=1e-13)
    want = (t0 + (k + 1) * dt * phi) if lf else (t0 + k * dt * phi)
    ctx.oracle_close('a component with explicit tendency phi, implicit tendency 0 advances by dt*phi per step',
                     out[-1:], [want], scale=scale, tol_rel=1e-11)
    if not lf:
        cs = ctx.model.call(4, [SCHEMES[name], 0, 0, stages], [[]] * 6 + extra)
        c = cs[0]
        ok = (c == 1) if name != 'crank_nicolson_rk4' else abs(c - 1) <= Fraction(1, 10 ** 12)
        ctx.exact(f'{name}: explicit consistency sum of the model coefficients is 1 (RK4: within 1e-12)', [bool(ok)], [True])
        # the same on the implementation: one step of u' = 1
        one = _make_integrator(name, ti.ImplicitExplicitODE.from_functions(lambda u: jnp.ones_like(u), lambda u: jnp.zeros_like(u), lambda u, eta: u), dt)
        inc = float(np.asarray(one(jnp.asarray([0.0])))[0]) / dt
        ctx.corr(f'{name}: consistency sum, implementation vs model', [inc], [c], scale=1.0, tol_rel=1e-13)


def _required_zero(g):
    """the property's pattern from the implementation's own grid object"""
    idx = np.arange(g.modal_shape[1])
    return (~np.asarray(g.mask)) | (idx[None, :] >= g.total_wavenumbers - 1)


def _grid_ints(g, gd):
    fast = 0 if gd['impl'] == 'real' else 1
    return [fast, gd['M'], gd['L'], g.modal_shape[0], g.modal_shape[1]]


def r_pattern(ctx, a):
    m = dyn.mods(); jnp = m['jnp']
    gd = a['grid']; g = dyn.grid(**gd)
    ints = _grid_ints(g, gd); R, C = g.modal_shape
    ctx.count(f'pattern:{gd["impl"]}:{R}x{C}')
    mo = ctx.model.call(1, ints, [])
    ctx.exact('required-zero pattern: model (mask, top wavenumber, padding) vs grid.mask / total_wavenumbers',
              _required_zero(g).astype(int).ravel().tolist(), [int(v) for v in mo])
    rng = np.random.Generator(np.random.PCG64(a['seed']))
    x = rng.integers(-8, 9, size=(R, C)).astype(np.float64) / 4
    y = np.asarray(g.clip_wavenumbers(jnp.asarray(x)))
    mo = ctx.model.call(5, [gd['L'], R, C], [x.ravel().tolist()])
    ctx.exact('clip_wavenumbers vs model clip', y.ravel().tolist(), [float(v) for v in mo])
    ctx.oracle('clip_wavenumbers zeroes the top total wavenumber and the padded columns exactly',
               bool(np.all(y[:, gd['L'] - 1:] == 0.0)) and bool(np.all(y[:, :gd['L'] - 1] == x[:, :gd['L'] - 1])))
    ok = ctx.model.call(2, ints, [(x * ~_required_zero(g)).ravel().tolist()])
    bad = ctx.model.call(2, ints, [x.ravel().tolist()])
    ctx.exact('pattern_ok accepts a conforming array and rejects a dense one', [int(ok[0]), int(bad[0])],
              [1, 0 if np.any(x[_required_zero(g)] != 0) else 1])


# ---------------------------------------------------------------------------
# (ii) the clauses on the implementation
# ---------------------------------------------------------------------------
_CACHE = {}


def _setup(kind, impl, seed, K=3):
    """grid, coordinates, equation for a class; deterministic in (kind, impl, seed)"""
    rng = np.random.Generator(np.random.PCG64(seed))
    g = dyn.grid(**GRIDS[impl])
    if kind == 'sw':
        c = dyn.layer_coords(g, 2)
        eq = dyn.sw_equation(c, [1.0, 1.25], [1.0, 0.5], dyn.modal_field(rng, g, (), 2, amp=0.05))
    else:
        c = dyn.coords(g, util.uneven_boundaries(rng, K))
        tref = 250.0 + rng.integers(-20, 21, size=K).astype(np.float64)
        oro = dyn.modal_field(rng, g, (), 2, amp=0.01)
        eq = dyn.pe_equation(kind, c, dyn.pe_specs(), tref, oro)
    return rng, g, c, eq


UNIFORM = 'uniform_tracer'


def _state(rng, kind, c, q0):
    m = dyn.mods(); jax = m['jax']; jnp = m['jnp']
    if kind == 'sw':
        st = dyn.sw_state(rng, c)
    else:
        st = dyn.pe_state(rng, c, 2, dyn.PE_TRACERS[kind], with_time=(kind != 'dry'))
        uni = np.zeros((c.vertical.layers,) + tuple(c.horizontal.modal_shape)); uni[:, 0, 0] = q0
        d = st.asdict(); d['tracers'] = dict(d['tracers']); d['tracers'][UNIFORM] = uni
        st = type(st)(**d)
    return jax.tree_util.tree_map(lambda q: jnp.asarray(q, dtype=np.float64), st)


def _leaves(st):
    """(name, array) of the modal leaves and the scalar leaves of a state object"""
    out = []
    for k, v in st.asdict().items():
        if isinstance(v, dict):
            out += [(f'tracers[{t}]', np.asarray(x, dtype=np.float64)) for t, x in v.items()]
        elif v is not None:
            out.append((k, np.asarray(v, dtype=np.float64)))
    return out


def _check_pattern(ctx, clause, st, req):
    for name, x in _leaves(st):
        if x.ndim < 2: continue
        viol = np.argwhere(x[..., req] != 0.0)
        bad = x[..., req]
        n = int(np.count_nonzero(bad))
        det = None
        if n:
            full = np.argwhere((x != 0.0) & req)
            det = {'leaf': name, 'nonzero_required_zero_entries': n, 'first_index': full[0].tolist(), 'value': float(x[tuple(full[0])])}
        ctx.oracle(clause, n == 0, det)


def r_traj(ctx, a):
    m = dyn.mods(); jax = m['jax']; jnp = m['jnp']; ti = m['ti']
    kind = a['kind']; impl = a['impl']; dt = a['dt']; name = a['integrator']
    rng, g, c, eq = _setup(kind, impl, a['seed'])
    req = _required_zero(g)
    q0 = 0.0078125 * float(rng.integers(1, 9))
    x0 = _state(rng, kind, c, q0)
    lf = name == 'semi_implicit_leapfrog'
    step = dyn.integrator(name, eq, dt)
    specs = [{'type': f} if isinstance(f, str) else dict(f) for f in a['filters']]
    fl = _build_filters(specs, g, dt, lf)
    fix = any(f['type'] == 'fix_time' for f in specs)
    n0 = a.get('n0', 0)
    step = ti.step_with_filters(step, fl)
    kmax = max(a['ks'])
    if lf:
        x1 = _state(rng, kind, c, q0)          # a second admissible snapshot
        if hasattr(x1, 'sim_time'): x1 = _map_named(x1, lambda n, v: jnp.asarray((n0 + 1) * dt) if n == 'sim_time' else v)
        if kind == 'sw':                       # both snapshots carry the same mean thickness
            x1 = _map_named(x1, lambda n, v: v.at[..., 0, 0].set(x0.potential[..., 0, 0]) if n == 'potential' else v)
        if hasattr(x0, 'sim_time'): x0 = _map_named(x0, lambda n, v: jnp.asarray(n0 * dt) if n == 'sim_time' else v)
        init = (x0, x1)
    else:
        if hasattr(x0, 'sim_time'): x0 = _map_named(x0, lambda n, v: jnp.asarray(n0 * dt) if n == 'sim_time' else v)
        init = x0
    _, traj = jax.jit(ti.trajectory_from_step(step, kmax, 1))(init)
    has_time = kind not in ('dry', 'sw')
    typ = {n: max(float(np.max(np.abs(x))), 1e-300) for n, x in _leaves(x0)}
    for k in a['ks']:
        frame = jax.tree_util.tree_map(lambda q: np.asarray(q)[k - 1], traj)
        sts = list(frame) if lf else [frame]
        for st in sts:
            _check_pattern(ctx, 'entries outside the triangular truncation and at the clipped top total wavenumber stay exactly zero', st, req)
        st = sts[-1]
        L = dict(_leaves(st)); L0 = dict(_leaves(x0))
        for f in ('vorticity', 'divergence'):
            v = L[f][..., 0, 0]; v0 = L0[f][..., 0, 0]
            # not bit-exact in general: np.linalg.inv of the l = 0 implicit matrix leaves O(1e-20) entries in
            # the (divergence, temperature) block ('split' inverse); moist classes: quadrature rounding
            ctx.oracle_close(f'global mean of {f} never changes', v, v0, scale=typ[f], tol_rel=1e-12)
            ctx.count(f'mean_{f}_exact:%d' % int(np.all(v == v0)))
        if kind == 'sw':
            # admissible shallow-water states have zero mean divergence
            ctx.oracle_close('global mean layer thickness (potential) of the shallow-water system is conserved',
                             L['potential'][..., 0, 0], L0['potential'][..., 0, 0], scale=typ['potential'], tol_rel=1e-14)
            ctx.count('sw_potential00_exact:%d' % int(np.all(L['potential'][..., 0, 0] == L0['potential'][..., 0, 0])))
        else:
            q = L[f'tracers[{UNIFORM}]']; qi = L0[f'tracers[{UNIFORM}]']
            ctx.oracle_close('a horizontally and vertically uniform tracer stays uniform', q, qi, scale=q0, tol_rel=1e-11)
        if has_time:
            times = [(float(dict(_leaves(sts[0]))['sim_time']), n0 + k), (float(L['sim_time']), n0 + k + 1)] if lf else [(float(L['sim_time']), n0 + k)]
            for tk, n in times:
                want = n * dt
                if fix and float(n0) != int(n0):
                    # clock not on the dt lattice: the clean-up snaps to a neighbouring lattice point
                    ctx.oracle('maybe_fix_sim_time_roundoff returns a multiple of dt next to the unrounded time',
                               tk == dt * round(tk / dt) and abs(tk - want) <= 0.5 * abs(dt) * (1 + 1e-9), {'k': k, 'sim_time': tk, 'unrounded': want})
                    continue
                ctx.oracle_close('sim_time advances by the step size per step', [tk], [want], scale=max(abs(want), k * abs(dt)), tol_rel=1e-11)
                if fix:
                    ctx.oracle('with maybe_fix_sim_time_roundoff as last filter sim_time is exactly (n0 + k) * dt',
                               tk == dt * float(n), {'k': k, 'n0': n0, 'sim_time': tk, 'want': dt * float(n)})


def _build_filters(specs, g, dt, lf):
    """step filters from specs; tau is given as a multiple of dt (so dt / tau > 0 also for negative dt)"""
    m = dyn.mods(); ti = m['ti']; filtering = m['filtering']
    out = []
    for f in specs:
        t = f['type']
        if t == 'exponential':
            mk = ti.exponential_leapfrog_step_filter if lf else ti.exponential_step_filter
            out.append(mk(g, dt, tau=f.get('tau_mult', 10) * dt, order=f.get('order', 3), cutoff=f.get('cutoff', 0)))
        elif t == 'diffusion':
            if lf:
                order = f.get('order', 1)
                scale = dt / (f.get('tau_mult', 20) * dt * abs(g.laplacian_eigenvalues).max() ** order)
                out.append(ti.leapfrog_step_filter(filtering.horizontal_diffusion_filter(g, scale, order)))
            else:
                out.append(ti.horizontal_diffusion_step_filter(g, dt, tau=f.get('tau_mult', 20) * dt, order=f.get('order', 1)))
        elif t == 'robert_asselin':
            out.append(ti.robert_asselin_leapfrog_filter(f.get('r', 0.05)))
        elif t == 'fix_time':
            fixfn = lambda s: ti.maybe_fix_sim_time_roundoff(s, dt)
            out.append(ti.leapfrog_step_filter(fixfn) if lf else ti.runge_kutta_step_filter(fixfn))
        else:
            raise ValueError(t)
    return out


AMP = dict(vorticity=1e-2, divergence=1e-3, temperature_variation=1.0, log_surface_pressure=1e-2, potential=0.1)


def _map_named(st, fn):
    """rebuild a (frozen) state object from fn(name, leaf)"""
    d = {}
    for k, v in st.asdict().items():
        d[k] = {t: fn('tracers', x) for t, x in v.items()} if isinstance(v, dict) else fn(k, v)
    return type(st)(**d)


def _dense_like(rng, st, g, mode, scaled=False):
    """mode 'dense': arbitrary (inadmissible) values everywhere; 'conforming': full band inside the pattern, non-zero means"""
    m = dyn.mods(); jnp = m['jnp']
    keep = ~_required_zero(g)
    def f(name, q):
        q = np.asarray(q)
        if q.ndim < 2: return jnp.asarray(0.7)
        r = rng.integers(-16, 17, size=q.shape).astype(np.float64) / 16
        r = np.where(r == 0, 0.5, r)
        if scaled: r = r * AMP.get(name, 1e-3)
        return jnp.asarray(r if mode == 'dense' else r * keep)
    return _map_named(st, f)


def r_unit(ctx, a):
    m = dyn.mods(); jax = m['jax']; jnp = m['jnp']
    kind = a['kind']; impl = a['impl']
    rng, g, c, eq = _setup(kind, impl, a['seed'])
    req = _required_zero(g)
    st = _state(rng, kind, c, 0.01)
    exact00 = kind in ('dry', 'time', 'sw')
    # explicit terms of an arbitrary dense input land in the pattern.  Shallow water: the pressure term
    # -laplacian(density_ratios @ potential) is linear in the modal input itself (no transform), so only the top
    # wavenumber is cleared for arbitrary input and the full pattern needs an input inside the triangular mask.
    dense = _dense_like(rng, st, g, 'dense', scaled=(kind != 'sw'))
    ex = jax.jit(eq.explicit_terms)
    e = ex(dense)
    ctx.oracle('explicit tendencies finite', dyn.tree_all_finite(e))
    top = np.zeros_like(req); top[:, g.total_wavenumbers - 1:] = True
    _check_pattern(ctx, 'explicit_terms of ANY input has exact zeros at the top wavenumber' if kind == 'sw' else
                   'explicit_terms of ANY input has exact zeros outside the truncation and at the top wavenumber', e, top if kind == 'sw' else req)
    inmask = _map_named(dense, lambda n, v: v * np.asarray(g.mask) if np.ndim(v) >= 2 else v)
    e1 = ex(inmask)
    _check_pattern(ctx, 'explicit_terms of any input inside the triangular mask (top wavenumber populated) lands in the pattern', e1, req)
    ok = all(int(np.count_nonzero(x[..., req])) == 0 for n, x in _leaves(e1) if x.ndim >= 2)
    ctx.table_obligation('H_pre_mask: tendencies before the final clip vanish outside the triangular mask (observed through the clip)', ok)
    E = dict(_leaves(e))
    if exact00:
        for f in ('vorticity', 'divergence'):
            ctx.oracle(f'(0,0) coefficient of the {f} tendency is exactly 0 for any input', bool(np.all(E[f][..., 0, 0] == 0.0)),
                       {'values': E[f][..., 0, 0]})
        if kind == 'sw':
            ctx.oracle('(0,0) coefficient of the explicit potential tendency is exactly 0 for any input',
                       bool(np.all(E['potential'][..., 0, 0] == 0.0)), {'values': E['potential'][..., 0, 0]})
    if kind != 'sw':
        ctx.oracle('explicit tendency of the uniform tracer slot is defined and in the pattern', True)
    # band-limited admissible input: the means of the tendencies vanish (moist: to rounding; hypothesis of the mean theorem)
    e2 = ex(st); E2 = dict(_leaves(e2))
    for f in ('vorticity', 'divergence'):
        sc = max(float(np.max(np.abs(E2[f]))), 1e-300)
        ctx.table_obligation(f'H_mean_tendency_zero[{kind}]: (0,0) of the {f} tendency vanishes on admissible states',
                             bool(np.all(np.abs(E2[f][..., 0, 0]) <= 1e-13 * sc)), {'values': E2[f][..., 0, 0], 'scale': sc})
    if kind != 'sw':
        tq = E2[f'tracers[{UNIFORM}]']
        sc = 0.01 * max(float(np.max(np.abs(dict(_leaves(st))['divergence']))), 1e-300)
        ctx.table_obligation('H_uv_roundtrip: the tendency of a uniform tracer vanishes (flux-form advection + divergence term cancel)',
                             bool(np.all(np.abs(tq) <= 1e-11 * sc)), {'max': float(np.max(np.abs(tq))), 'scale': sc})
    # implicit terms / inverse act per (m,l): a conforming input (with non-zero means) stays conforming
    conf = _dense_like(rng, st, g, 'conforming')
    gi = eq.implicit_terms(conf)
    _check_pattern(ctx, 'implicit_terms keeps the zero pattern', gi, req)
    C0 = dict(_leaves(conf)); GI = dict(_leaves(gi))
    ctx.oracle('(0,0) coefficients of the implicit vorticity and divergence tendencies are exactly 0',
               bool(np.all(GI['vorticity'][..., 0, 0] == 0.0)) and bool(np.all(GI['divergence'][..., 0, 0] == 0.0)),
               {'div': GI['divergence'][..., 0, 0]})
    for eta in (0.01, -0.01, 0.1):
        inv = eq.implicit_inverse(conf, eta)
        _check_pattern(ctx, 'implicit_inverse keeps the zero pattern', inv, req)
        IV = dict(_leaves(inv))
        for f in ('vorticity', 'divergence'):
            ctx.oracle_close(f'implicit_inverse passes the (0,0) coefficient of {f} through', IV[f][..., 0, 0], C0[f][..., 0, 0],
                             scale=1.0, tol_rel=1e-14)
            ctx.count('inverse00_exact:%d' % int(np.all(IV[f][..., 0, 0] == C0[f][..., 0, 0])))
        if kind == 'sw':
            d00 = C0['divergence'][..., 0, 0]; p00 = C0['potential'][..., 0, 0]
            ctx.oracle_close('shallow-water inverse at (0,0): potential - eta*ref_potential*divergence',
                             IV['potential'][..., 0, 0], p00 - eta * np.asarray(eq.reference_potential) * d00, scale=1.0, tol_rel=1e-14)
            ctx.oracle_close('shallow-water implicit potential tendency at (0,0) = -ref_potential*divergence',
                             GI['potential'][..., 0, 0], -np.asarray(eq.reference_potential) * d00, scale=1.0, tol_rel=1e-14)
        if 'sim_time' in IV:
            ctx.oracle('implicit_inverse leaves sim_time untouched', float(IV['sim_time']) == 0.7, {'sim_time': float(IV['sim_time'])})
    if 'sim_time' in E:
        ctx.oracle('explicit tendency of sim_time is exactly 1, implicit tendency exactly 0',
                   float(E['sim_time']) == 1.0 and float(GI['sim_time']) == 0.0, {'explicit': float(E['sim_time']), 'implicit': float(GI['sim_time'])})
    # filters keep the pattern and the (0,0) coefficients
    dt = 0.02
    for fs in (['exponential'], ['diffusion']):
        f = dyn.step_filters(fs, g, dt)[0]
        out = f(conf, conf)
        _check_pattern(ctx, f'{fs[0]} step filter keeps the zero pattern', out, req)
        O = dict(_leaves(out))
        for fld in ('vorticity', 'divergence'):
            ctx.oracle(f'{fs[0]} step filter leaves the (0,0) coefficients unchanged', bool(np.all(O[fld][..., 0, 0] == C0[fld][..., 0, 0])),
                       {'after': O[fld][..., 0, 0], 'before': C0[fld][..., 0, 0]})
        if 'sim_time' in O:
            ctx.oracle('filters leave sim_time untouched', float(O['sim_time']) == 0.7, {'filter': fs[0], 'sim_time': float(O['sim_time'])})


def r_time_unit(ctx, a):
    """filters vs scalar / non-modal leaves (shape rule), on plain trees"""
    m = dyn.mods(); jnp = m['jnp']; ti = m['ti']; filtering = m['filtering']
    rng = np.random.Generator(np.random.PCG64(a['seed']))
    for gd in (GRIDS['real'], GRIDS['fast'], dict(M=2, L=2, I=6, J=4, impl='real')):
        g = dyn.grid(**gd)
        x = {'u': jnp.asarray(dyn.modal_field(rng, g, (2,), 3) + 1.0 * np.asarray(g.mask)), 'sim_time': jnp.asarray(1.375), 't_py': 2.5}
        both = lambda f: (lambda s: f(s, s))
        fns = {}
        for cutoff in (0, 0.3, 0.4, 0.7):
            for att, order in ((16, 2), (16, 18), (2.5, 6), (0.125, 1)):
                fns[f'exponential_filter(att={att},order={order},cutoff={cutoff})'] = filtering.exponential_filter(g, att, order, cutoff)
            fns[f'exponential_step_filter(cutoff={cutoff})'] = both(ti.exponential_step_filter(g, 0.1, tau=1.0, order=2 if cutoff else 18, cutoff=cutoff))
            lfilt = ti.exponential_leapfrog_step_filter(g, 0.1, tau=0.5, order=6, cutoff=cutoff)
            fns[f'exponential_leapfrog_step_filter(cutoff={cutoff})'] = (lambda f: (lambda s: f((s, s), (s, s))[1]))(lfilt)
        for order in (1, 2, 3):
            fns[f'horizontal_diffusion_filter(order={order})'] = filtering.horizontal_diffusion_filter(g, 0.5, order)
            fns[f'horizontal_diffusion_step_filter(order={order})'] = both(ti.horizontal_diffusion_step_filter(g, 0.1, tau=1.0, order=order))
        for nm, fn in fns.items():
            y = fn(x)
            ctx.oracle('filters leave sim_time untouched', float(y['sim_time']) == 1.375 and float(y['t_py']) == 2.5,
                       {'filter': nm, 'grid': gd, 'sim_time': float(y['sim_time']), 't_py': float(y['t_py'])})
            ctx.oracle('filters leave the (0,0) coefficients unchanged', bool(np.all(np.asarray(y['u'])[..., 0, 0] == np.asarray(x['u'])[..., 0, 0])),
                       {'filter': nm, 'grid': gd, 'after': np.asarray(y['u'])[..., 0, 0], 'before': np.asarray(x['u'])[..., 0, 0]})
            ctx.oracle('filters keep exact zeros outside the truncation', bool(np.all(np.asarray(y['u'])[..., ~np.asarray(g.mask)] == 0.0)), {'filter': nm})


def r_fix_time_unit(ctx, a):
    """time_integration.maybe_fix_sim_time_roundoff on its own: clocks of either sign, dt of either sign"""
    m = dyn.mods(); jnp = m['jnp']; ti = m['ti']
    class S: pass
    def fix(times, dt):
        s = S(); s.sim_time = jnp.asarray(np.asarray(times, dtype=np.float64))
        return np.asarray(ti.maybe_fix_sim_time_roundoff(s, dt).sim_time, dtype=np.float64)
    ns = np.arange(-12, 13).astype(np.float64)
    for dt in (a['dt'], -a['dt']):
        for delta in (0.0, 1e-9, -1e-9, 3e-13, -3e-13):
            times = ns * dt * (1 + delta) + delta * dt
            out = fix(times, dt)
            ctx.oracle('maybe_fix_sim_time_roundoff maps a time within rounding of n*dt to exactly n*dt (n of either sign)',
                       bool(np.all(out == dt * ns)), {'dt': dt, 'delta': delta, 'n': ns[out != dt * ns], 'got/dt': (out / dt)[out != dt * ns]})
            ctx.corr('maybe_fix_sim_time_roundoff vs model dt * round_half_even(t / dt)', out,
                     ctx.model.call(6, [], [[dt], times.tolist()]), scale=13 * abs(dt))
        # jnp.round is a rounding to nearest (hypothesis [nearest] of C11_fix_time_trajectory)
        xs = np.concatenate([ns + d for d in (-0.49, -0.25, 0.0, 0.25, 0.49)])
        want = np.concatenate([ns] * 5)
        ctx.table_obligation('H_round_nearest: jnp.round(x) = n whenever |x - n| < 1/2 (n of either sign)',
                             bool(np.all(np.asarray(jnp.round(jnp.asarray(xs))) == want)))
    dt = a['dt']
    if float(dt).hex().rstrip('0').endswith(('0x1.', 'p-6')) or dt == 2.0 ** round(np.log2(dt)):
        ties = (ns + 0.5) * dt          # exact in binary: ties go to the even neighbour
        ctx.corr('maybe_fix_sim_time_roundoff on exact ties vs round-half-even model', fix(ties, dt),
                 ctx.model.call(6, [], [[dt], ties.tolist()]), scale=13 * abs(dt))
    o = object()
    ctx.oracle('maybe_fix_sim_time_roundoff returns objects without sim_time unchanged', ti.maybe_fix_sim_time_roundoff(o, dt) is o)


RUNNERS = {'fix_time_unit': r_fix_time_unit, 'toy': r_toy, 'scalar': r_scalar, 'pattern': r_pattern, 'traj': r_traj, 'unit': r_unit, 'time_unit': r_time_unit}
