"""C02 - spectral differential operators: correspondence of Model/Deriv.v with
dinosaur.spherical_harmonic.Grid / fourier / jax_numpy_utils.shift, table
obligations for the recurrence-weight tables and the analytic derivatives of
the synthesised basis functions, and the property's own clauses evaluated on
the implementation."""
import functools
from fractions import Fraction
from math import comb
import numpy as np
from harness import util

THEOREMS = ['C02_gen_complete', 'C02_shift_down', 'C02_shift_up',
            'C02_dlon_pairs_ref', 'C02_dlon_pairs_fast', 'C02_dlon_twice_ref', 'C02_dlon_twice_fast',
            'C02_dlon_index_is_wavenumber',
            'C02_D1_entries', 'C02_D2_eq_D1_minus_2mu', 'C02_weight_exprs',
            'C02_cos2_laplacian_identity', 'C02_cos2_laplacian_identity_R',
            'C02_lap_inverse', 'C02_inverse_laplacian_zero',
            'C02_radius_scaling', 'C02_dlon_commutes',
            'C02_div_kcross', 'C02_curl_kcross', 'C02_curl_grad_spectral', 'C02_div_grad_spectral',
            'C02_vecid_sec2', 'C02_grad_top_clipped',
            'C02_hyps_satisfiable', 'C02_cos2_hyps_satisfiable_R', 'C02_legendre_derivative_relation_abstract',
            'C02_legendre_derivative_relation', 'C02_legendre_derivative_meaning', 'C02_legendre_derivative_nonvacuous']
LEVEL = 'proof'
LEVEL_TEXT = ('machine-checked theorems (Coq) for every field, every truncation (M, L), every padding and every radius r <> 0 '
              'about the Gallina model of shift / d_dlon / cos_lat_d_dlat / sec_lat_d_dlat_cos2 / laplacian / inverse_laplacian / '
              'clip / grad / div / curl / k_cross / get_cos_lat_vector, whose arithmetic expressions are regenerated from the source; '
              'facts about the sqrt tables (H_eps2, b = shifted a, +-m symmetry) and the analytic derivatives of the Legendre basis are '
              'table obligations checked on every explored grid; the model is executed (extraction) against the implementation')
LEVEL_NOTE = ('The table obligation "analytic-derivative relations of every basis function" is now ALSO a theorem about the recurrence of '
              'associated_legendre.py (C02_legendre_derivative_relation: (1-x^2) d/dx P_l^m = d1_wm(l, eps_l) P_(l-1)^m + d1_wp(l, eps_(l+1)) P_(l+1)^m on the '
              'coefficient-list model with the formal derivative, every field / order / degree / node, under sqrt-squares-to-radicand hypotheses); '
              'the numeric obligation is kept. '
              'theorems are about Model/Deriv.v + Gen/DerivExprs.v; the nodal transforms (to_nodal/to_modal, sec^2 multiplication) are not '
              'modelled here: identities that need them (curl grad = 0, div grad = laplacian, wind round trip) are proved from the abstract '
              'hypotheses H_sec2 (checked as table obligations on every basis vector) and evaluated as oracles on the implementation. '
              'Measured: with the default clip=True these hold only for fields whose top TWO total wavenumbers vanish (degree <= L-3); '
              'for degree L-2 the round trip needs vor_div_to_uv_nodal(clip=False) (both ranges are oracles, on random fields and on every '
              'basis vector; C02_grad_top_clipped proves which coefficient the default clip removes). Negative control (documented, not an '
              'oracle): Grid(longitude_wavenumbers=2,total_wavenumbers=3,longitude_nodes=8,latitude_nodes=6), vorticity = one-hot at '
              'm=+1,l=1 (=L-2): default clips return 0.75 instead of 1 at that coefficient; clip=(False,True) returns 1 to 1e-14.')

_state = {}


def J():
    if 'jnp' not in _state:
        util.setup_jax()
        import jax.numpy as jnp
        from dinosaur import spherical_harmonic as sh, fourier, jax_numpy_utils as jnu
        _state.update(jnp=jnp, sh=sh, fourier=fourier, jnu=jnu, grids={})
    return _state['jnp'], _state['sh'], _state['fourier'], _state['jnu']


def own_axes(fast, M, L, R, C):
    """Wavenumber axes, mask and the closed form of the recurrence weights computed here from the layout
    conventions (independent of the implementation's modal_axes / mask / cached weight tables)."""
    m = np.zeros(R, dtype=np.int64)
    for i in range(R):
        if fast: m[i] = (i // 2 if i % 2 == 0 else -(i // 2)) if i < 2 * M else 0
        else: m[i] = 0 if i == 0 else ((i + 1) // 2 if i % 2 else -(i // 2))
    l = np.array([j if j < L else 0 for j in range(C)], dtype=np.int64)
    mask = np.abs(m)[:, None] <= l[None, :]
    if fast:
        mask = mask & (np.arange(R)[:, None] != 1) & (np.arange(R)[:, None] < 2 * M) & (np.arange(C)[None, :] < L)
    a2 = [[Fraction(0)] * C for _ in range(R)]; b2 = [[Fraction(0)] * C for _ in range(R)]
    for i in range(R):
        for j in range(C):
            if mask[i, j]:
                mm, ll = int(abs(m[i])), int(l[j])
                if j != 0: a2[i][j] = Fraction(ll * ll - mm * mm, 4 * ll * ll - 1)
                if j != C - 1: b2[i][j] = Fraction((ll + 1) ** 2 - mm * mm, 4 * (ll + 1) ** 2 - 1)
    return m, l, mask, a2, b2


def own_nodes(nlon, nlat, spacing):
    """Longitudes and sin(latitude) of the nodes from the grid definition (not from the implementation)."""
    lon = 2 * np.pi * np.arange(nlon) / nlon
    if spacing == 'gauss':
        mu = np.polynomial.legendre.leggauss(nlat)[0]
    elif spacing == 'equiangular':
        mu = np.sin(-np.pi / 2 + (np.arange(nlat) + 0.5) * np.pi / nlat)
    else:
        mu = np.sin(-np.pi / 2 + np.arange(nlat) * np.pi / (nlat - 1))
    return lon, mu


def make_mesh(zxy):
    import jax
    z, x, y = zxy
    return jax.sharding.Mesh(np.array(jax.devices()[:z * x * y]).reshape(z, x, y), ('z', 'x', 'y'))


class G:
    """A grid of the implementation plus its tables."""

    def __init__(self, spec):
        jnp, sh, fourier, jnu = J()
        F = functools.partial(sh.FastSphericalHarmonics, transform_precision='float32')
        impl = {'ref': sh.RealSphericalHarmonics, 'fast': F,
                'fast4': functools.partial(F, base_shape_multiple=4),
                'fast8': functools.partial(F, base_shape_multiple=8),
                'fast4s': functools.partial(F, base_shape_multiple=4, stacked_fourier_transforms=True),
                'fast_rev': functools.partial(F, reverse_einsum_arg_order=True, stacked_fourier_transforms=False),
                'fastdef': sh.FastSphericalHarmonics}[spec['impl']]
        self.spec = spec
        self.fast = 0 if spec['impl'] == 'ref' else 1
        self.M, self.L = spec['M'], spec['L']
        self.r = 1.0 if spec['r'] == 'None' else float(Fraction(spec['r']))
        kw = {}
        if spec.get('mesh'): kw['spmd_mesh'] = make_mesh(spec['mesh'])
        self.g = sh.Grid(longitude_wavenumbers=self.M, total_wavenumbers=self.L, longitude_nodes=spec['nlon'],
                         latitude_nodes=spec['nlat'], latitude_spacing=spec.get('spacing', 'gauss'),
                         longitude_offset=float(spec.get('offset', 0.0)),
                         spherical_harmonics_impl=impl, radius=(None if spec['r'] == 'None' else self.r), **kw)
        self.R, self.C = self.g.modal_shape
        a, b = self.g._derivative_recurrence_weights
        self.a = np.asarray(a, dtype=np.float64); self.b = np.asarray(b, dtype=np.float64)
        self.mask = np.asarray(self.g.mask)
        self.m = np.asarray(self.g.modal_axes[0]); self.l = np.asarray(self.g.modal_axes[1])
        self.nlon, self.nlat = spec['nlon'], spec['nlat']
        # independent versions (layout conventions / grid definition), used as references by the oracles
        self.own_m, self.own_l, self.own_mask, self.own_a2, self.own_b2 = own_axes(self.fast, self.M, self.L, self.R, self.C)
        self.own_a = np.sqrt(np.array([[float(v) for v in row] for row in self.own_a2]))
        self.own_b = np.sqrt(np.array([[float(v) for v in row] for row in self.own_b2]))
        self.own_lon, self.own_mu = own_nodes(self.nlon, self.nlat, spec.get('spacing', 'gauss'))
        self.own_eig = -(self.own_l * (self.own_l + 1)).astype(np.float64) / self.r ** 2

    def own_cos(self):
        """cos(lat) on the (padded) nodal latitude axis, from the grid definition."""
        c = np.ones(self.g.nodal_shape[1]); c[:self.nlat] = np.sqrt(1 - self.own_mu ** 2)
        return c

    def ints(self, clip=1, n=1):
        return [self.fast, self.M, self.L, self.R, self.C, int(clip), int(n)]

    def call(self, ctx, cmd, x=None, y=None, clip=1, n=1):
        arrs = [[self.r], self.a.ravel(), self.b.ravel(),
                [] if x is None else np.asarray(x, dtype=np.float64).ravel(),
                [] if y is None else np.asarray(y, dtype=np.float64).ravel()]
        return ctx.model.call(cmd, self.ints(clip, n), arrs)


def grid(spec):
    J()
    key = repr(sorted(spec.items()))
    if key not in _state['grids']:
        _state['grids'][key] = G(spec)
    return _state['grids'][key]


def spec(impl, M, L, nlon, nlat, r='1', spacing='gauss', **extra):
    d = {'impl': impl, 'M': M, 'L': L, 'nlon': nlon, 'nlat': nlat, 'r': r, 'spacing': spacing}
    d.update(extra)
    return d


def extra_specs(tier):
    """Grids for the spectral (modal-only) runners: sizes 1 and 2, default / extreme radii, longitude_nodes = 2(M-1),
    more paddings, explicit Fourier options, longitude offset."""
    s = [spec('ref', 1, 1, 4, 3, '7/3', spectral_only=1), spec('fast4', 1, 2, 4, 4, 'None', spectral_only=1),
         spec('ref', 2, 3, 8, 6, 'None', spectral_only=1), spec('fast', 2, 2, 2, 3, '1/1000', spectral_only=1),
         spec('ref', 4, 5, 6, 7, '6371220', spectral_only=1), spec('fast8', 3, 5, 10, 7, '1/1000', spectral_only=1)]
    if tier != 'quick':
        s += [spec('fast8', 5, 9, 8, 10, '6371220', spectral_only=1), spec('ref', 3, 9, 4, 10, '1/1000', spectral_only=1),
              spec('fast', 1, 1, 4, 3, 'None', spectral_only=1), spec('fastdef', 22, 23, 64, 32, '6371220', spectral_only=1, big=1),
              spec('ref', 22, 23, 64, 32, '7/3', spectral_only=1, big=1)]
    return s


def nodal_option_specs(tier):
    """Grids for the nodal oracles with non-default transform options and a longitude offset."""
    s = [spec('fast4s', 4, 5, 13, 7, '7/3', offset=0.25), spec('fast_rev', 3, 5, 10, 8, 'None')]
    if tier != 'quick':
        s += [spec('fast8', 4, 6, 13, 8, '7/3', offset=1.5), spec('fastdef', 4, 5, 13, 7, '1'),
              spec('ref', 4, 5, 13, 7, '7/3', offset=0.25)]
    return s


def mesh_specs(tier):
    s = [spec('fast', 3, 5, 10, 7, '7/3', mesh=[2, 2, 1])]
    if tier != 'quick':
        s += [spec('fast', 4, 5, 13, 7, '7/3', mesh=[1, 2, 2]), spec('fast', 4, 5, 13, 7, '1', mesh=[1, 4, 2]), spec('fast', 4, 6, 13, 8, '7/3', mesh=[2, 2, 2]),
              spec('fast', 3, 4, 10, 6, '7/3', mesh=[1, 3, 2]), spec('fast', 3, 4, 10, 6, '1', mesh=[2, 1, 2]),
              spec('fast', 2, 3, 8, 6, '7/3', mesh=[1, 2, 4])]
    return s


def grid_specs(tier):
    s = [spec('ref', 4, 5, 13, 7, '1'), spec('ref', 3, 6, 10, 9, '7/3'), spec('ref', 4, 4, 13, 8, '7/3'),
         spec('fast', 4, 5, 13, 7, '7/3'), spec('fast4', 3, 5, 10, 7, '7/3'), spec('fast4', 4, 6, 13, 8, '1')]
    if tier != 'quick':
        s += [spec('ref', 1, 1, 4, 3, '7/3'), spec('ref', 1, 2, 4, 4, '1'), spec('ref', 2, 3, 8, 6, '1'),
              spec('ref', 8, 9, 25, 13, '7/3'), spec('ref', 6, 12, 19, 14, '1'), spec('ref', 10, 10, 31, 16, '7/3'),
              spec('fast', 1, 1, 4, 3, '1'), spec('fast', 2, 3, 8, 6, '7/3'), spec('fast', 8, 9, 25, 13, '1'),
              spec('fast4', 1, 2, 4, 4, '7/3'), spec('fast4', 6, 7, 19, 10, '7/3'), spec('fast4', 5, 11, 16, 13, '1'),
              spec('fast4', 8, 8, 25, 12, '7/3'),
              spec('ref', 4, 5, 13, 12, '1', 'equiangular'), spec('fast4', 4, 5, 13, 12, '7/3', 'equiangular'),
              spec('ref', 4, 5, 13, 13, '7/3', 'equiangular_with_poles')]
    return s


# ---------------------------------------------------------------------------
# case generation
# ---------------------------------------------------------------------------
def generate(ctx):
    rng = ctx.rng
    quick = ctx.tier == 'quick'
    # jax_numpy_utils.shift
    for n in ([1, 2, 3, 5] if quick else [1, 2, 3, 4, 5, 8]):
        x = rng.integers(-9, 10, size=(n,)).astype(float).tolist()
        yield 'shift', {'x': x, 'offsets': list(range(-n - 2, n + 3))}
    yield 'shift2d', {'x': rng.integers(-9, 10, size=(3, 4, 5)).astype(float).tolist()}
    yield 'clip_reject', {}
    # fourier derivatives with frequency offsets and non-grid sizes
    for n, off in ([(1, 0), (5, 0), (2, 0), (6, 3)] if quick else [(1, 0), (3, 0), (5, 0), (9, 0), (2, 0), (2, 5), (6, 3), (8, 0), (8, 8)]):
        x = rng.integers(-9, 10, size=(n, 3)).astype(float).tolist()
        yield 'fourier_deriv', {'n': n, 'off': off, 'x': x}
    # resolution-threshold and call-sequence triggers (independent second-wave mutations):
    #  * nodal wrappers on grids with very many latitude / longitude nodes but a tiny truncation
    #    (cos(lat) gets small near the poles only on fine grids)
    #  * the library's jitted nodal wrappers take `grid` as a static argument: reference / fast / padded
    #    grids used one after another in one process must not be confused by the jit cache
    for J_, I_, spc in ([(260, 10, 'gauss'), (64, 300, 'equiangular')] if quick else
                        [(260, 10, 'gauss'), (64, 300, 'equiangular'), (512, 12, 'gauss'), (301, 16, 'equiangular')]):
        yield 'wrappers_fine', {'M': 3, 'L': 4, 'I': I_, 'J': J_, 'spacing': spc, 'seed': int(rng.integers(0, 2 ** 31))}
    for cfg in [dict(M=4, L=5, I=13, J=7, spacing='gauss', offset=0.0, radius=1.0),
                dict(M=3, L=4, I=10, J=6, spacing='gauss', offset=0.1, radius=7.0 / 3.0)]:
        yield 'jit_static', {'cfg': cfg, 'seed': int(rng.integers(0, 2 ** 31))}
    for sp in grid_specs(ctx.tier):
        ctx.count('impl:%s' % sp['impl']); ctx.count('M=%d,L=%d' % (sp['M'], sp['L']))
        yield 'tables', {'grid': sp}
        yield 'onehot', {'grid': sp}
        for rep in range(2 if quick else 4):
            seed = int(rng.integers(0, 2 ** 31))
            yield 'random_ops', {'grid': sp, 'seed': seed, 'masked': rep % 2}
        if sp['spacing'] != 'equiangular_with_poles':
            yield 'analytic', {'grid': sp}
            yield 'sec2_hyp', {'grid': sp}
            yield 'roundtrip_basis', {'grid': sp}
            for rep in range(2 if quick else 4):
                yield 'vecid', {'grid': sp, 'seed': int(rng.integers(0, 2 ** 31))}
        yield 'spectral_id', {'grid': sp, 'seed': int(rng.integers(0, 2 ** 31))}
    # non-default transform options (stacked Fourier transforms, reversed einsum order, base multiple 8) and longitude offset:
    # the nodal oracles
    for sp in nodal_option_specs(ctx.tier):
        ctx.count('impl:%s' % sp['impl']); ctx.count('offset=%s' % sp.get('offset', 0))
        yield 'tables', {'grid': sp}
        yield 'random_ops', {'grid': sp, 'seed': int(rng.integers(0, 2 ** 31)), 'masked': 1}
        yield 'analytic', {'grid': sp}
        yield 'vecid', {'grid': sp, 'seed': int(rng.integers(0, 2 ** 31))}
        if not quick:
            yield 'roundtrip_basis', {'grid': sp}
    # modal-only grids: sizes 1 and 2, radius None / 1e-3 / Earth, longitude_nodes = 2(M-1), base_shape_multiple 8, T21
    for sp in extra_specs(ctx.tier):
        ctx.count('impl:%s' % sp['impl']); ctx.count('M=%d,L=%d' % (sp['M'], sp['L'])); ctx.count('radius=%s' % sp['r'])
        yield 'tables', {'grid': sp}
        if sp['M'] * sp['L'] <= 6 or (not quick and not sp.get('big')):
            yield 'onehot', {'grid': sp}
        yield 'random_ops', {'grid': sp, 'seed': int(rng.integers(0, 2 ** 31)), 'masked': 0}
        yield 'spectral_id', {'grid': sp, 'seed': int(rng.integers(0, 2 ** 31))}
    # argument forms (dtypes, views, ranks, pytrees, axes), purity / cached tables, device meshes
    forms_grids = [spec('ref', 3, 4, 10, 6, '7/3'), spec('fast4', 3, 5, 10, 7, '7/3')]
    for k, sp in enumerate(forms_grids):
        bs = [[2], [1], [2, 3], [1, 2, 1], ['R'], ['C']]
        yield 'forms', {'grid': sp, 'seed': int(rng.integers(0, 2 ** 31)), 'batches': bs[k::2] if quick else bs}
        yield 'purity', {'grid': sp, 'seed': int(rng.integers(0, 2 ** 31))}
    yield 'deriv_axes', {'seed': int(rng.integers(0, 2 ** 31)), 'shapes': [[5, 4, 7], [4, 6, 3]] if quick else [[5, 4, 7], [4, 6, 3], [7, 2, 5], [2, 7, 6], [1, 2, 3]]}
    yield 'constructors', {'seed': int(rng.integers(0, 2 ** 31))}
    # fourth-wave triggers
    #  B: radii 2^-30 .. 2^30 and the Earth radius for EVERY operator, non-dyadic data (exact model + numpy reference)
    radii = ['1/1073741824', '1073741824', '6371220', '6370000'] if quick else \
            ['1/1073741824', '1/4096', '7/3221225472', '4096', '1073741824', '2505397589', '6371220', '6370000', '1/1000']
    for k, r_ in enumerate(radii):
        for sp in ([spec('ref', 3, 5, 10, 7, r_), spec('fast4', 3, 5, 10, 7, r_)] if (not quick or k % 2 == 0) else [spec('fast4', 3, 5, 10, 7, r_)]):
            ctx.count('radius=%s' % r_)
            yield 'radii', {'grid': sp, 'seed': int(rng.integers(0, 2 ** 31)), 'nodal': 1 if (not quick or k in (0, 2)) else 0}
    #  D: jit / vmap / eval_shape / jvp / vjp of every operator as a linear map
    for sp in [spec('ref', 3, 5, 10, 7, '7/3'), spec('fast4', 3, 4, 10, 6, '6371220')]:
        yield 'transforms', {'grid': sp, 'seed': int(rng.integers(0, 2 ** 31)), 'nodal': 1}
    #  C: default-option Fast grid with 128 < M <= 256 (stacked Fourier transforms by default): numpy reference, analytic
    #     derivatives of selected basis vectors, vector identities and round trip; tall / wide grids beyond 256/512/1030 nodes
    for (M_, L_, I_, J_) in ([(130, 131, 264, 134)] if quick else [(130, 131, 264, 134), (200, 201, 404, 204), (256, 257, 516, 260)]):
        sp = spec('fastdef', M_, L_, I_, J_, '7/3')
        sel = [[0, 0], [0, 1], [0, L_ - 2], [0, L_ - 1], [2, 1], [3, L_ - 2], [2 * 64, 64], [2 * 64 + 1, L_ - 3], [2 * 129, 129], [2 * 129 + 1, L_ - 1],
               [2 * (M_ - 1), M_ - 1], [2 * (M_ - 1) + 1, L_ - 1]]
        yield 'big_default', {'grid': sp, 'seed': int(rng.integers(0, 2 ** 31))}
        yield 'analytic', {'grid': sp, 'sel': sel}
        yield 'vecid', {'grid': sp, 'seed': int(rng.integers(0, 2 ** 31))}
    for sp in ([spec('ref', 3, 4, 8, 1030, '7/3'), spec('fast', 3, 4, 1030, 6, '1')] if quick else
               [spec('ref', 3, 4, 8, 1030, '7/3'), spec('fast', 3, 4, 1030, 6, '1'), spec('fast4', 3, 4, 8, 520, '1'), spec('ref', 3, 4, 2050, 6, '7/3'),
                spec('fast', 3, 4, 8, 2050, '7/3'), spec('ref', 3, 4, 8, 300, '1', 'equiangular')]):
        ctx.count('nodes=%dx%d' % (sp['nlon'], sp['nlat']))
        yield 'analytic', {'grid': sp}
        yield 'vecid', {'grid': sp, 'seed': int(rng.integers(0, 2 ** 31))}
        yield 'roundtrip_basis', {'grid': sp}
    for sp in mesh_specs(ctx.tier):
        ctx.count('mesh=%s' % (sp['mesh'],))
        yield 'sharded', {'grid': sp, 'seed': int(rng.integers(0, 2 ** 31)), 'levels': [3] if quick else [3, 1, 5, 8], 'all_ops': 0 if quick else 1}


# ---------------------------------------------------------------------------
# helpers
# ---------------------------------------------------------------------------
def cmp(ctx, name, impl, model, onehot=False, scale=None):
    impl = np.asarray(impl, dtype=np.float64).ravel()
    ok = ctx.corr(name, impl, model, scale=scale)
    if model is None or len(model) != impl.size:
        return ok
    mz = np.array([v == 0 for v in model])
    iz = impl == 0
    if onehot:
        if not np.array_equal(mz, iz):
            ctx.exact(name + ': zero pattern', iz.astype(int).tolist(), mz.astype(int).tolist())
        else:
            ctx.comparisons += 1
    else:
        bad = mz & ~iz
        if bad.any():
            ctx.exact(name + ': structural zeros of the model are exact zeros', iz.astype(int).tolist(), mz.astype(int).tolist())
        else:
            ctx.comparisons += 1
    return ok


def ops_table(G_):
    """name -> (cmd, arity, impl function of (x, y, clip), outputs)."""
    g = G_.g
    jnp, sh, fourier, jnu = J()
    return {
        'd_dlon': (10, 1, lambda x, y, c: g.d_dlon(x)),
        'cos_lat_d_dlat': (11, 1, lambda x, y, c: g.cos_lat_d_dlat(x)),
        'sec_lat_d_dlat_cos2': (12, 1, lambda x, y, c: g.sec_lat_d_dlat_cos2(x)),
        'laplacian': (13, 1, lambda x, y, c: g.laplacian(x)),
        'inverse_laplacian': (14, 1, lambda x, y, c: g.inverse_laplacian(x)),
        'cos_lat_grad': (16, 1, lambda x, y, c: jnp.stack(g.cos_lat_grad(x, clip=c))),
        'k_cross': (17, 2, lambda x, y, c: jnp.stack(g.k_cross((x, y)))),
        'div_cos_lat': (18, 2, lambda x, y, c: g.div_cos_lat((x, y), clip=c)),
        'curl_cos_lat': (19, 2, lambda x, y, c: g.curl_cos_lat((x, y), clip=c)),
        'get_cos_lat_vector': (20, 2, lambda x, y, c: jnp.stack(sh.get_cos_lat_vector(x, y, g, clip=c))),
    }


# ---------------------------------------------------------------------------
# runners: generic pieces
# ---------------------------------------------------------------------------
def r_shift(ctx, a):
    jnp, sh, fourier, jnu = J()
    x = np.asarray(a['x'], dtype=np.float64)
    for off in a['offsets']:
        out = np.asarray(jnu.shift(jnp.asarray(x), off, axis=0))
        cmp(ctx, 'shift n=%d offset=%d' % (x.size, off), out, ctx.model.call(0, [x.size, off], [x]), onehot=True)


def r_shift2d(ctx, a):
    jnp, sh, fourier, jnu = J()
    x = np.asarray(a['x'], dtype=np.float64)
    for axis in (-1, -2):
        n = x.shape[axis]
        for off in (-1, 1, 2, -n, n + 1):
            out = np.asarray(jnu.shift(jnp.asarray(x), off, axis=axis))
            for (idx, col), (_, ocol) in zip(util.columns(x, axis), util.columns(out, axis)):
                cmp(ctx, 'shift axis=%d offset=%d' % (axis, off), ocol, ctx.model.call(0, [n, off], [col]), onehot=True)


def r_clip_reject(ctx, a):
    g = grid(spec('ref', 2, 3, 8, 6)).g
    x = np.ones(g.modal_shape)
    for n in (-1, 0, 1, 2):
        try:
            g.clip_wavenumbers(x, n); acc = 1
        except ValueError:
            acc = 0
        m = ctx.model.call(5, [n], [])
        ctx.exact('clip_wavenumbers accepts n=%d' % n, [acc], [int(v) for v in m])


def r_fourier_deriv(ctx, a):
    jnp, sh, fourier, jnu = J()
    x = np.asarray(a['x'], dtype=np.float64); n = a['n']; off = a['off']
    C = x.shape[1]
    if n % 2:
        out = np.asarray(fourier.real_basis_derivative(jnp.asarray(x), axis=-2))
        m = ctx.model.call(4, [0, 0, 0, n, C, 0, 0], [[1], [], [], x.ravel(), []])
        cmp(ctx, 'real_basis_derivative n=%d' % n, out, m)
    else:
        out = np.asarray(fourier.real_basis_derivative_with_zero_imag(jnp.asarray(x), axis=-2, frequency_offset=off))
        m = ctx.model.call(4, [1, 0, 0, n, C, 0, off], [[1], [], [], x.ravel(), []])
        cmp(ctx, 'real_basis_derivative_with_zero_imag n=%d off=%d' % (n, off), out, m)


def r_tables(ctx, a):
    G_ = grid(a['grid']); g = G_.g; R, C, L, M = G_.R, G_.C, G_.L, G_.M
    # axes and mask: exact
    m = G_.call(ctx, 1)
    ctx.exact('modal_axes m', G_.m.astype(int).tolist(), [int(v) for v in m[:R]])
    ctx.exact('modal_axes l', G_.l.astype(int).tolist(), [int(v) for v in m[R:R + C]])
    ctx.exact('mask', G_.mask.astype(int).ravel().tolist(), [int(v) for v in m[R + C:]])
    ctx.exact('modal_padding', [int(v) for v in g.modal_padding], [R - (2 * M if G_.fast else 2 * M - 1), C - L])
    # eigenvalues
    e = G_.call(ctx, 3)
    cmp(ctx, 'laplacian_eigenvalues', np.asarray(g.laplacian_eigenvalues, dtype=np.float64), e[:C], onehot=True)
    # H_eps2: squares of the float tables against the closed rational form (relative 2^-50), zero pattern exact
    t = G_.call(ctx, 2)
    a2 = t[:R * C]; b2 = t[R * C:]
    tol = Fraction(1, 2 ** 50)
    for nm, tab, cl in (('a', G_.a, a2), ('b', G_.b, b2)):
        worst = Fraction(0); ok = True; where = None
        for k, (v, q) in enumerate(zip(tab.ravel(), cl)):
            fv = Fraction(float(v)) ** 2
            if q == 0 or fv == 0:
                good = (q == 0 and fv == 0)
            else:
                err = abs(fv - q) / q; worst = max(worst, err); good = err <= tol
            if not good and ok:
                ok = False; where = [k // C, k % C, float(v), str(q)]
        ctx.table_obligation('H_eps2: %s[m,l]^2 = closed rational form (rel 2^-50), same zero pattern' % nm, ok,
                             {'worst_rel': float(worst), 'first_bad': where})
    # the model's closed form (regenerated from the source) against the formula written here:
    # a^2 = mask (l^2-m^2)/(4l^2-1), a[:,0] = 0;  b^2 = mask ((l+1)^2-m^2)/(4(l+1)^2-1), b[:,-1] = 0
    ctx.exact('closed form of a^2 (model, from the source) = (l^2-m^2)/(4l^2-1) on the mask', [str(v) for v in a2],
              [str(v) for row in G_.own_a2 for v in row])
    ctx.exact('closed form of b^2 (model, from the source) = ((l+1)^2-m^2)/(4(l+1)^2-1) on the mask', [str(v) for v in b2],
              [str(v) for row in G_.own_b2 for v in row])
    ctx.oracle_close('recurrence weight table a = sqrt of the closed form', G_.a, G_.own_a, scale=1.0, tol_rel=2.0 ** -48)
    ctx.oracle_close('recurrence weight table b = sqrt of the closed form', G_.b, G_.own_b, scale=1.0, tol_rel=2.0 ** -48)
    ctx.oracle('modal_axes / mask follow the documented layout', bool(np.array_equal(G_.m, G_.own_m) and np.array_equal(G_.l, G_.own_l)
                                                                     and np.array_equal(G_.mask, G_.own_mask)), None)
    ctx.oracle_close('laplacian_eigenvalues = -l(l+1)/radius^2', np.asarray(g.laplacian_eigenvalues, dtype=np.float64), G_.own_eig,
                     scale=float(np.abs(G_.own_eig).max()) + 1e-300, tol_rel=2.0 ** -48)
    # H_b_shift: b[i,l] = a[i,l+1] exactly for l+1 < L
    ctx.table_obligation('H_b_shift: b[m,l] == a[m,l+1] for l+1 < L (exact floats)',
                         bool(np.array_equal(G_.b[:, :L - 1], G_.a[:, 1:L])), None)
    # a vanishes at l = L.. (padding) and at l <= |m|; weights of the cos and sin rows agree
    ok = all((G_.a[i, l] == 0) for i in range(R) for l in range(C) if l >= L or l <= abs(int(G_.m[i])))
    ctx.table_obligation('H_a_zero: a[m,l] == 0 for l <= |m| and on padded columns', ok, None)
    p0 = 2 if G_.fast else 1
    rows_ok = all(np.array_equal(G_.a[i], G_.a[i + 1]) and np.array_equal(G_.b[i], G_.b[i + 1])
                  for i in range(p0, 2 * M - 1 + G_.fast - 1, 2))
    ctx.table_obligation('H_pair_sym: weight rows of +m and -m are identical', bool(rows_ok), None)
    # the longitude-derivative index equals |m| of the modal axis on unpadded rows
    jj = [(i // 2 if G_.fast else (i + 1) // 2) for i in range(R)]
    lim = 2 * M if G_.fast else R
    ctx.exact('|modal_axes m| equals derivative multiplier', [abs(int(v)) for v in G_.m[:lim]], jj[:lim])


def r_onehot(ctx, a):
    jnp, sh, fourier, jnu = J()
    G_ = grid(a['grid']); R, C = G_.R, G_.C
    X = np.eye(R * C).reshape(R * C, R, C)
    ops = ops_table(G_)
    for name in ('d_dlon', 'cos_lat_d_dlat', 'sec_lat_d_dlat_cos2', 'laplacian', 'inverse_laplacian'):
        cmd, ar, fn = ops[name]
        out = np.asarray(fn(jnp.asarray(X), None, True))
        for k in range(R * C):
            cmp(ctx, '%s one-hot (%d,%d)' % (name, k // C, k % C), out[k], G_.call(ctx, cmd, X[k]), onehot=True)
    for n in range(1, C + 2):
        x = np.arange(1, R * C + 1, dtype=np.float64).reshape(R, C)
        cmp(ctx, 'clip_wavenumbers n=%d' % n, np.asarray(G_.g.clip_wavenumbers(jnp.asarray(x), n)), G_.call(ctx, 15, x, n=n), onehot=True)
    # composite operators on the one-hots of the two top columns and of a few rows
    sel = [k for k in range(R * C) if (k % C) >= G_.L - 2 or (k // C) in (0, 1, 2, R - 1)]
    for name in ('cos_lat_grad', 'div_cos_lat', 'curl_cos_lat', 'get_cos_lat_vector'):
        cmd, ar, fn = ops[name]
        for c in (True, False):
            xs = X[sel]
            if ar == 1:
                out = np.asarray(fn(jnp.asarray(xs), None, c))
                out = np.moveaxis(out, 0, 1) if out.ndim == 4 else out
                for t, k in enumerate(sel):
                    cmp(ctx, '%s clip=%s one-hot (%d,%d)' % (name, c, k // C, k % C), out[t], G_.call(ctx, cmd, X[k], clip=c), onehot=True)
            else:
                z = np.zeros_like(xs)
                for which in (0, 1):
                    xa, ya = (xs, z) if which == 0 else (z, xs)
                    out = np.asarray(fn(jnp.asarray(xa), jnp.asarray(ya), c))
                    out = np.moveaxis(out, 0, 1) if out.ndim == 4 else out
                    for t, k in enumerate(sel):
                        cmp(ctx, '%s clip=%s one-hot arg%d (%d,%d)' % (name, c, which, k // C, k % C), out[t],
                            G_.call(ctx, cmd, xa[t], ya[t], clip=c), onehot=True)


def _rand(G_, seed, masked, deg=None, zero_mean=False):
    rng = np.random.Generator(np.random.PCG64(seed))
    x = rng.integers(-8, 9, size=(G_.R, G_.C)).astype(np.float64)
    if masked: x = x * G_.mask
    if deg is not None: x = x * (np.arange(G_.C) <= deg) * (np.arange(G_.C) < G_.L)
    if zero_mean: x[:, 0] = 0
    return x


def r_random_ops(ctx, a):
    jnp, sh, fourier, jnu = J()
    G_ = grid(a['grid']); R, C = G_.R, G_.C
    x = _rand(G_, a['seed'], a['masked']); y = _rand(G_, a['seed'] + 1, a['masked'])
    ops = ops_table(G_)
    for name, (cmd, ar, fn) in ops.items():
        clips = (True, False) if cmd in (16, 18, 19, 20) else (True,)
        for c in clips:
            out = np.asarray(fn(jnp.asarray(x), jnp.asarray(y), c))
            cmp(ctx, '%s clip=%s' % (name, c), out, G_.call(ctx, cmd, x, y, clip=c))
    # spectral part of uv_nodal_to_vor_div_modal: the jitted function applied to nodal data vs the model applied
    # to the implementation's own transforms of u/cos, v/cos
    against_numpy(ctx, G_, x, y)
    # identically zero input (state at rest): exact zeros out
    z = np.zeros((R, C))
    for name, (cmd, ar, fn) in ops.items():
        out = np.asarray(fn(jnp.asarray(z), jnp.asarray(z), True))
        ctx.oracle('%s of the zero field is exactly zero' % name, bool(np.all(out == 0)), None)
    if a['grid'].get('spacing') != 'equiangular_with_poles' and not a['grid'].get('spectral_only'):
        g = G_.g
        coslat = G_.own_cos()
        ctx.oracle_close('Grid.cos_lat = sqrt(1 - sin(lat)^2) at the nodes of the grid definition', np.asarray(g.cos_lat), coslat,
                         scale=1.0, tol_rel=2.0 ** -40)
        rng = np.random.Generator(np.random.PCG64(a['seed'] + 2))
        u = rng.integers(-8, 9, size=g.nodal_shape).astype(np.float64)
        v = rng.integers(-8, 9, size=g.nodal_shape).astype(np.float64)
        for c in (True, False):
            vor, div = sh.uv_nodal_to_vor_div_modal(g, jnp.asarray(u), jnp.asarray(v), clip=c)
            um = np.asarray(g.to_modal(jnp.asarray(u / coslat))); vm = np.asarray(g.to_modal(jnp.asarray(v / coslat)))
            cmp(ctx, 'uv_nodal_to_vor_div_modal (spectral part) clip=%s' % c, np.stack([np.asarray(vor), np.asarray(div)]),
                G_.call(ctx, 21, um, vm, clip=c))
            # vor_div_to_uv_nodal = to_nodal(get_cos_lat_vector)/cos
            uu, vv = sh.vor_div_to_uv_nodal(g, jnp.asarray(x), jnp.asarray(y), clip=c)
            cu, cv = sh.get_cos_lat_vector(jnp.asarray(x), jnp.asarray(y), g, clip=c)
            eu = np.asarray(g.to_nodal(cu)) / coslat; ev = np.asarray(g.to_nodal(cv)) / coslat
            s = float(max(np.abs(eu).max(), np.abs(ev).max(), 1e-300))
            ctx.oracle_close('vor_div_to_uv_nodal = to_nodal(get_cos_lat_vector)/cos_lat', np.stack([np.asarray(uu), np.asarray(vv)]),
                             np.stack([eu, ev]), scale=s)


# ---------------------------------------------------------------------------
# closed forms of the associated Legendre functions (exact rational polynomials)
# ---------------------------------------------------------------------------
def _padd(p, q):
    n = max(len(p), len(q)); return [(p[i] if i < len(p) else 0) + (q[i] if i < len(q) else 0) for i in range(n)]


def _pmul(p, q):
    out = [Fraction(0)] * (len(p) + len(q) - 1) if p and q else []
    for i, a in enumerate(p):
        for j, b in enumerate(q): out[i + j] += a * b
    return out


def _pder(p):
    return [i * p[i] for i in range(1, len(p))] or [Fraction(0)]


def _pscale(c, p): return [c * v for v in p]


def _peval(p, xs):
    out = []
    for x in xs:
        s = Fraction(0)
        for c in reversed(p): s = s * x + c
        out.append(float(s))
    return np.array(out)


@functools.lru_cache(maxsize=None)
def legendre_q(l, m):
    """q with P_l^m(x) = (1-x^2)^(m/2) q(x) up to sign: m-th derivative of the explicit sum for P_l."""
    c = [Fraction(0)] * (l + 1)
    for k in range(l // 2 + 1):
        c[l - 2 * k] = Fraction((-1) ** k * comb(l, k) * comb(2 * l - 2 * k, l), 2 ** l)
    for _ in range(m): c = _pder(c)
    return tuple(c)


def cosdtheta(q, m):
    """(1-x^2) d/dx [(1-x^2)^(m/2) q] = (1-x^2)^(m/2) [ (1-x^2) q' - m x q ]"""
    one_minus = [Fraction(1), Fraction(0), Fraction(-1)]
    return _padd(_pmul(one_minus, _pder(list(q))), _pscale(-m, _pmul([Fraction(0), Fraction(1)], list(q))))


def r_analytic(ctx, a):
    """Table obligation: the synthesised basis functions are c*(1-mu^2)^(m/2) q_lm(mu) {cos,sin}(m lambda) and
    to_nodal of the spectral derivatives of e_ml equals the analytic derivative of that closed form at the nodes.
    Oracle: per-coefficient agreement below the top total wavenumber."""
    jnp, sh, fourier, jnu = J()
    G_ = grid(a['grid']); g = G_.g; R, C, L = G_.R, G_.C, G_.L
    nlon, nlat = G_.nlon, G_.nlat
    # node coordinates from the grid definition (2 pi i / n; Gauss-Legendre / equiangular latitudes), not from the implementation
    lon, mu = G_.own_lon, G_.own_mu
    ctx.oracle_close('nodal_axes: longitudes 2 pi i/n + offset, sin(lat) of the stated spacing',
                     np.concatenate([np.asarray(g.nodal_axes[0])[:nlon] - g.longitude_offset, np.asarray(g.nodal_axes[1])[:nlat]]),
                     np.concatenate([lon, mu]), scale=1.0, tol_rel=2.0 ** -40)
    muq = [Fraction(float(v)) for v in mu]
    cos2 = 1 - mu ** 2
    gauss = a['grid'].get('spacing', 'gauss') == 'gauss'
    idx = [(i, l) for i in range(R) for l in range(C) if G_.mask[i, l]]
    if a.get('sel') is not None:            # large grids: a selection of basis vectors (row, l)
        idx = [(i, l) for (i, l) in (tuple(t) for t in a['sel']) if G_.mask[i, l]]
    X = np.zeros((len(idx), R, C))
    for t, (i, l) in enumerate(idx): X[t, i, l] = 1.0
    Xj = jnp.asarray(X)
    Y = np.asarray(g.to_nodal(Xj))[:, :nlon, :nlat]
    crop = lambda z: np.asarray(z)[..., :nlon, :nlat]
    n_dlon = crop(g.to_nodal(g.d_dlon(Xj)))
    d1 = g.cos_lat_d_dlat(Xj); n_d1 = crop(g.to_nodal(d1))
    d2 = g.sec_lat_d_dlat_cos2(Xj); n_d2 = crop(g.to_nodal(d2))
    n_lap = crop(g.to_nodal(g.laplacian(Xj)))
    grad = g.cos_lat_grad(Xj)
    worst = {'basis': 0.0, 'dlon': 0.0, 'd1': 0.0, 'd2': 0.0, 'lap': 0.0}
    bad = {}
    exp_d1 = np.zeros_like(Y); exp_dlon = np.zeros_like(Y); exp_d2 = np.zeros_like(Y)
    tol = 2.0 ** -36
    for t, (i, l) in enumerate(idx):
        m = abs(int(G_.own_m[i]))
        q = legendre_q(l, m)
        # the unnormalised closed form has coefficients ~ (2l)!/(2^l l!): beyond 1e308 for l ~ 200 (float conversion of the
        # exact value overflowed on the M = 200 grid of the thorough tier). The normalisation is fitted below anyway
        # (alpha, beta), so the polynomial is scaled to max |coefficient| = 1 first; exact in Fractions.
        _mx = max(abs(c_) for c_ in q) or Fraction(1)
        q = tuple(c_ / _mx for c_ in q)
        A = cos2 ** (m / 2.0) * _peval(list(q), muq)                       # P_l^m(mu_j) up to sign/normalisation
        q1 = cosdtheta(q, m)
        A1 = cos2 ** (m / 2.0) * _peval(q1, muq)                           # cos d/dtheta
        q2 = cosdtheta(tuple(q1), m)
        A2 = cos2 ** (m / 2.0) * _peval(q2, muq)
        cl, sl = np.cos(m * lon), np.sin(m * lon)
        # least-squares fit of (alpha, beta): Y = A (alpha cos + beta sin)
        B = np.stack([np.outer(cl, A).ravel(), np.outer(sl, A).ravel()], axis=1)
        if m == 0: B = B[:, :1]
        coef, *_ = np.linalg.lstsq(B, Y[t].ravel(), rcond=None)
        al = coef[0]; be = coef[1] if m else 0.0
        T = al * cl + be * sl; dT = m * (-al * sl + be * cl)
        sc = float(np.abs(Y[t]).max()) * (l + 2)
        def upd(key, got, want, scale):
            e = float(np.abs(got - want).max()) / max(scale, 1e-300)
            worst[key] = max(worst[key], e)
            # the three-term recurrence accumulates rounding linearly in the degree: at l = 255 (thorough tier, M = 256) the
            # implementation's basis is 1.95e-11 (relative) away from the exact closed form, against the flat 2^-36 = 1.46e-11.
            # The bound grows with the degree beyond l = 64; unchanged for every smaller grid.
            if e > tol * max(1.0, l / 64.0) and key not in bad: bad[key] = {'row': i, 'm': int(G_.m[i]), 'l': l, 'rel_err': e}
        upd('basis', Y[t], np.outer(T, A), float(np.abs(Y[t]).max()))
        exp_dlon[t] = np.outer(dT, A); exp_d1[t] = np.outer(T, A1); exp_d2[t] = np.outer(T, A1 - 2 * mu * A)
        upd('dlon', n_dlon[t], exp_dlon[t], sc)
        if l <= L - 2:      # D1 e_l has a component at l+1 which must be representable
            upd('d1', n_d1[t], exp_d1[t], sc)
            upd('d2', n_d2[t], exp_d2[t], sc)
        if cos2.min() > 0:
            lap_exp = np.outer(T, (A2 - m * m * A) / cos2) / G_.r ** 2     # analytic: (d2/dlon2 + (cos d/dlat)^2)/(r cos)^2
            upd('lap', n_lap[t], lap_exp, sc * (l + 1) / G_.r ** 2)
    for key, txt in (('basis', 'H_basis_closed_form: to_nodal(e_ml) = c (1-mu^2)^(m/2) q_lm(mu) trig(m lambda)'),
                     ('dlon', 'H_dlon_analytic: to_nodal(d_dlon e_ml) = d/dlambda of the synthesised basis function'),
                     ('d1', 'H_D1_analytic: to_nodal(cos_lat_d_dlat e_ml) = cos(lat) d/dlat of the synthesised basis function (l <= L-2)'),
                     ('d2', 'H_D2_analytic: to_nodal(sec_lat_d_dlat_cos2 e_ml) = sec(lat) d/dlat(cos^2 Y_ml) (l <= L-2)'),
                     ('lap', 'H_lap_analytic: to_nodal(laplacian e_ml) = analytic Laplacian of the synthesised basis function')):
        ctx.table_obligation(txt, key not in bad, {'worst_rel': worst[key], 'first_bad': bad.get(key)})
    # per-coefficient oracle below the top wavenumber (needs exact quadrature: gauss nodes)
    if gauss:
        pad = lambda z: jnp.asarray(np.pad(z, [(0, 0), (0, g.nodal_shape[0] - nlon), (0, g.nodal_shape[1] - nlat)]))
        below = (np.arange(C) < L - 1)
        sc = float(L + 1)
        an = np.asarray(g.to_modal(pad(exp_d1)))
        ctx.oracle_close('cos_lat_d_dlat agrees with the analytic derivative in every coefficient below the top wavenumber',
                         np.asarray(d1) * below, an * below, scale=sc)
        ctx.oracle_close('cos_lat_grad (lat component) agrees with the analytic derivative below the top wavenumber',
                         np.asarray(grad[1]) * below, an * below / G_.r, scale=sc / G_.r)
        an = np.asarray(g.to_modal(pad(exp_dlon)))
        ctx.oracle_close('d_dlon agrees with the analytic derivative in every coefficient',
                         np.asarray(g.d_dlon(Xj)) * (np.arange(C) < L), an * (np.arange(C) < L), scale=sc)
        ctx.oracle_close('cos_lat_grad (lon component) agrees with the analytic derivative below the top wavenumber',
                         np.asarray(grad[0]) * below, an * below / G_.r, scale=sc / G_.r)
        an = np.asarray(g.to_modal(pad(exp_d2)))
        ctx.oracle_close('sec_lat_d_dlat_cos2 agrees with the analytic derivative in every coefficient below the top wavenumber',
                         np.asarray(d2) * below, an * below, scale=sc)


# ---------------------------------------------------------------------------
# sec^2 hypotheses and vector identities through the nodal path
# ---------------------------------------------------------------------------
def _S(g, v):
    return g.to_modal(g.sec2_lat * g.to_nodal(v))


def _resolves(G_):
    return G_.spec.get('spacing', 'gauss') == 'gauss' and G_.nlat >= G_.L + 1 and G_.nlon >= 2 * G_.M + 1


def r_sec2_hyp(ctx, a):
    """H_sec2 (hypotheses of C02_vecid_sec2) on every basis vector psi = e_ml of degree <= L-3, with
    S = to_modal(sec^2 * to_nodal(.)) and G = cos_lat_grad (clipped):
      (S1) S commutes with d_dlon, (S2) D2(S z) = S(D1 z)|..., (S3) S inverts multiplication by cos^2."""
    jnp, sh, fourier, jnu = J()
    G_ = grid(a['grid']); g = G_.g; R, C, L = G_.R, G_.C, G_.L
    if not _resolves(G_) or L < 4:
        ctx.count('sec2_hyp skipped (grid does not resolve the products)'); return
    idx = [(i, l) for i in range(R) for l in range(1, L - 2) if G_.mask[i, l]]
    X = np.zeros((len(idx), R, C))
    for t, (i, l) in enumerate(idx): X[t, i, l] = 1.0
    X = jnp.asarray(X)
    gl, gt = g.cos_lat_grad(X)
    Sl, St = _S(g, gl), _S(g, gt)
    below = (np.arange(C) < L - 1)
    sc = float(L * L) / min(G_.r, 1.0) ** 2
    # (S2') curl: d_dlon(S gt) = D2(S gl) below the top wavenumber
    e1 = np.abs(np.asarray(g.d_dlon(St) - g.sec_lat_d_dlat_cos2(Sl)) * below).max()
    # (S3') div: d_dlon(S gl) + D2(S gt) = r * laplacian below the top wavenumber
    e2 = np.abs(np.asarray(g.d_dlon(Sl) + g.sec_lat_d_dlat_cos2(St) - G_.r * g.laplacian(X)) * below).max()
    ctx.table_obligation('H_sec2_curl: d_dlon(S G_lat e) = D2(S G_lon e) below the top wavenumber, every basis vector of degree <= L-3',
                         bool(e1 <= 2.0 ** -36 * sc), {'err': float(e1), 'scale': sc})
    ctx.table_obligation('H_sec2_div: d_dlon(S G_lon e) + D2(S G_lat e) = r*laplacian(e) below the top wavenumber, every basis vector of degree <= L-3',
                         bool(e2 <= 2.0 ** -36 * sc), {'err': float(e2), 'scale': sc})


def r_vecid(ctx, a):
    jnp, sh, fourier, jnu = J()
    G_ = grid(a['grid']); g = G_.g; R, C, L = G_.R, G_.C, G_.L
    # inverse Laplacian undoes the Laplacian on zero-mean fields (all grids, all degrees)
    x = _rand(G_, a['seed'], 0, deg=L - 1, zero_mean=True)
    sc = float(np.abs(x).max()) + 1e-300
    ctx.oracle_close('inverse_laplacian(laplacian(x)) = x on zero-mean fields', np.asarray(g.inverse_laplacian(g.laplacian(x))), x, scale=sc)
    ctx.oracle_close('laplacian(inverse_laplacian(x)) = x on zero-mean fields', np.asarray(g.laplacian(g.inverse_laplacian(x))), x, scale=sc)
    full = _rand(G_, a['seed'] + 5, 0)
    il = np.asarray(g.inverse_laplacian(full))
    ctx.oracle('inverse_laplacian is exactly zero at l = 0 and on padded columns',
               bool(np.all(il[:, 0] == 0) and np.all(il[:, L:] == 0)), None)
    if not _resolves(G_) or L < 4:
        ctx.count('vecid nodal part skipped (grid does not resolve the products)'); return
    psi = _rand(G_, a['seed'] + 1, 1, deg=L - 3)
    r = G_.r
    sc = float(np.abs(psi).max()) * L * L / min(r, 1.0) ** 2 + 1e-300
    gr = g.cos_lat_grad(psi)
    grs = (_S(g, gr[0]), _S(g, gr[1]))
    Z = np.zeros((R, C))
    ctx.oracle_close('curl grad = 0', np.asarray(g.curl_cos_lat(grs)), Z, scale=sc)
    ctx.oracle_close('div of a rotated gradient = 0', np.asarray(g.div_cos_lat(g.k_cross(grs))), Z, scale=sc)
    ctx.oracle_close('div grad = Laplacian', np.asarray(g.div_cos_lat(grs)), psi * G_.own_eig, scale=sc)
    ctx.oracle_close('laplacian(x) = -l(l+1)/r^2 x', np.asarray(g.laplacian(psi)), psi * G_.own_eig, scale=sc)
    # wind round trip: default clip needs degree <= L-3; clip=(False, True) degree <= L-2
    for deg, ca in ((L - 3, True), (L - 2, False)):
        vor = _rand(G_, a['seed'] + 2, 1, deg=deg, zero_mean=True)
        div = _rand(G_, a['seed'] + 3, 1, deg=deg, zero_mean=True)
        u, v = sh.vor_div_to_uv_nodal(g, jnp.asarray(vor), jnp.asarray(div), clip=ca)
        v2, d2 = sh.uv_nodal_to_vor_div_modal(g, u, v)
        s = float(max(np.abs(vor).max(), np.abs(div).max())) * L + 1e-300
        ctx.oracle_close('vorticity/divergence -> wind -> vorticity/divergence is the identity (degree <= L-%d, first clip=%s)' % (L - deg, ca),
                         np.stack([np.asarray(v2), np.asarray(d2)]), np.stack([vor, div]), scale=s)


def r_roundtrip_basis(ctx, a):
    """Wind round trip on every basis vector (as vorticity and as divergence):
    default clips: exact for degree <= L-3; vor_div_to_uv_nodal(clip=False): exact up to degree L-2
    (in particular the coefficient l = L-2 itself is reproduced exactly)."""
    jnp, sh, fourier, jnu = J()
    G_ = grid(a['grid']); g = G_.g; R, C, L = G_.R, G_.C, G_.L
    if not _resolves(G_) or L < 3:
        ctx.count('roundtrip_basis skipped (grid does not resolve the products)'); return
    for ca, top in ((True, L - 3), (False, L - 2)):
        idx = [(i, l) for i in range(R) for l in range(1, top + 1) if G_.mask[i, l]]
        if not idx: continue
        X = np.zeros((len(idx), R, C))
        for t, (i, l) in enumerate(idx): X[t, i, l] = 1.0
        Z = np.zeros_like(X)
        vor = np.concatenate([X, Z]); div = np.concatenate([Z, X])
        u, v = sh.vor_div_to_uv_nodal(g, jnp.asarray(vor), jnp.asarray(div), clip=ca)
        v2, d2 = sh.uv_nodal_to_vor_div_modal(g, u, v)
        err = np.maximum(np.abs(np.asarray(v2) - vor), np.abs(np.asarray(d2) - div)).reshape(2 * len(idx), -1).max(axis=1)
        tol = 2.0 ** -36 * L
        badk = [k for k in range(2 * len(idx)) if not err[k] <= tol]
        det = None
        if badk:
            k = badk[0]; i, l = idx[k % len(idx)]
            det = {'as': 'vorticity' if k < len(idx) else 'divergence', 'row': i, 'm': int(G_.m[i]), 'l': l, 'err': float(err[k]), 'tol': tol}
        ctx.oracle('vorticity/divergence -> wind -> vorticity/divergence is the identity on every basis vector of degree <= L-%d (first clip=%s)'
                   % (L - top, ca), not badk, det)
        if not ca:
            ctx.count('roundtrip one-hots at l=L-2 with clip=(False,True)', sum(1 for (_, l) in idx if l == L - 2))


def r_spectral_id(ctx, a):
    """Algebraic identities of the coefficient operators, on the implementation."""
    jnp, sh, fourier, jnu = J()
    G_ = grid(a['grid']); g = G_.g; R, C, L = G_.R, G_.C, G_.L
    r = G_.r
    for masked in (0, 1):
        x = _rand(G_, a['seed'] + masked, masked); y = _rand(G_, a['seed'] + 7 + masked, masked)
        A, B = G_.own_a, G_.own_b          # closed-form weights computed in this plugin
        def mmu(z):
            z = np.asarray(z); out = np.zeros_like(z)
            out[:, :-1] += (A * z)[:, 1:]; out[:, 1:] += (B * z)[:, :-1]
            return out
        d1 = np.asarray(g.cos_lat_d_dlat(x)); d2 = np.asarray(g.sec_lat_d_dlat_cos2(x))
        sc = float(np.abs(x).max()) * (L + 2) + 1e-300
        ctx.oracle_close('D2 = D1 - 2 M_mu', d2, d1 - 2 * mmu(x), scale=sc)
        # cos^2 identity for |m| <= l <= L-3
        mm = np.abs(G_.own_m)[:, None].astype(np.float64)
        lam = x * G_.own_eig * r ** 2
        lhs = np.asarray(g.cos_lat_d_dlat(g.cos_lat_d_dlat(x))) - mm ** 2 * x
        rhs = lam - mmu(mmu(lam))
        # rows: unpadded, and not the structurally-zero "imaginary part of m = 0" row 1 of the fast layout
        rows = (np.arange(R)[:, None] < (2 * G_.M if G_.fast else R)) & ((np.arange(R)[:, None] != 1) | (not G_.fast))
        sel = (np.arange(C)[None, :] + 3 <= L) & (np.arange(C)[None, :] >= mm) & rows
        ctx.oracle_close('(D1 D1 - m^2) x = (1 - M_mu^2)(r^2 laplacian x) for |m| <= l <= L-3', lhs * sel, rhs * sel, scale=sc * (L + 2))
        dd = np.asarray(g.d_dlon(g.d_dlon(x)))
        lim = (np.arange(R)[:, None] < (2 * G_.M if G_.fast else R))
        ctx.oracle_close('d_dlon d_dlon = -m^2', dd * lim, -mm ** 2 * x * lim, scale=sc * L)
        ctx.oracle_close('d_dlon commutes with cos_lat_d_dlat', np.asarray(g.d_dlon(g.cos_lat_d_dlat(x))) * lim,
                         np.asarray(g.cos_lat_d_dlat(g.d_dlon(x))) * lim, scale=sc * L)
        for c in (True, False):
            ctx.oracle_close('div(k x v) = -curl(v) clip=%s' % c, np.asarray(g.div_cos_lat(g.k_cross((x, y)), clip=c)),
                             -np.asarray(g.curl_cos_lat((x, y), clip=c)), scale=sc / min(r, 1.0))
            ctx.oracle_close('curl(k x v) = div(v) clip=%s' % c, np.asarray(g.curl_cos_lat(g.k_cross((x, y)), clip=c)),
                             np.asarray(g.div_cos_lat((x, y), clip=c)), scale=sc / min(r, 1.0))
        if masked:
            cg = np.asarray(g.curl_cos_lat(g.cos_lat_grad(x, clip=False), clip=False))
            ctx.oracle_close('curl(cos^2-weighted grad) = 2 M_mu d_dlon / r^2 (no sec^2)', cg * lim,
                             2 * mmu(np.asarray(g.d_dlon(x))) / r ** 2 * lim, scale=sc * L / min(r, 1.0) ** 2)
    # radius scaling: compare with the radius-1 grid of the same shape
    sp1 = dict(a['grid']); sp1['r'] = '1'
    G1 = grid(sp1); g1 = G1.g
    x = _rand(G_, a['seed'] + 11, 1); y = _rand(G_, a['seed'] + 12, 1)
    s = float(np.abs(x).max()) * (L + 2) ** 2 * max(r, 1 / r) ** 2
    ctx.oracle_close('laplacian is homogeneous of degree -2 in the radius', np.asarray(g.laplacian(x)) * r ** 2, np.asarray(g1.laplacian(x)), scale=s)
    ctx.oracle_close('inverse_laplacian is homogeneous of degree +2 in the radius', np.asarray(g.inverse_laplacian(x)) / r ** 2, np.asarray(g1.inverse_laplacian(x)), scale=s)
    ctx.oracle_close('cos_lat_grad is homogeneous of degree -1 in the radius', np.stack(g.cos_lat_grad(x)) * r, np.stack(g1.cos_lat_grad(x)), scale=s)
    ctx.oracle_close('div_cos_lat is homogeneous of degree -1 in the radius', np.asarray(g.div_cos_lat((x, y))) * r, np.asarray(g1.div_cos_lat((x, y))), scale=s)
    ctx.oracle_close('curl_cos_lat is homogeneous of degree -1 in the radius', np.asarray(g.curl_cos_lat((x, y))) * r, np.asarray(g1.curl_cos_lat((x, y))), scale=s)
    ctx.oracle_close('get_cos_lat_vector is homogeneous of degree +1 in the radius', np.stack(sh.get_cos_lat_vector(x, y, g)) / r,
                     np.stack(sh.get_cos_lat_vector(x, y, g1)), scale=s)


# ---------------------------------------------------------------------------
# argument forms, purity, axes, device meshes
# ---------------------------------------------------------------------------
class NP:
    """The documented operators written directly in numpy from the layout conventions and the closed-form weights
    of this plugin (no implementation attribute is used): an independent reference for large / sharded grids."""

    def __init__(self, G_):
        self.G = G_; self.R, self.C, self.L = G_.R, G_.C, G_.L
        self.l = G_.own_l.astype(np.float64); self.a = G_.own_a; self.b = G_.own_b; self.r = G_.r
        i = np.arange(self.R)
        self.j = (i // 2 if G_.fast else (i + 1) // 2).astype(np.float64)[:, None]
        self.cos_row = ((i % 2 == 0) if G_.fast else (i % 2 == 1))[:, None]        # rows holding cos coefficients

    @staticmethod
    def _sh(x, k, axis):
        out = np.zeros_like(x); n = x.shape[axis]
        src = [slice(None)] * x.ndim; dst = [slice(None)] * x.ndim
        if k > 0: src[axis] = slice(0, n - k); dst[axis] = slice(k, n)
        else: src[axis] = slice(-k, n); dst[axis] = slice(0, n + k)
        out[tuple(dst)] = x[tuple(src)]
        return out

    def dlon(self, x):      # cos row <- +j * sin row (next), sin row <- -j * cos row (previous)
        return self.j * np.where(self.cos_row, self._sh(x, -1, -2), -self._sh(x, 1, -2))

    def D1(self, x): return self._sh((self.l + 1) * self.a * x, -1, -1) + self._sh(-self.l * self.b * x, 1, -1)
    def D2(self, x): return self._sh((self.l - 1) * self.a * x, -1, -1) + self._sh(-(self.l + 2) * self.b * x, 1, -1)
    def lap(self, x): return x * self.G.own_eig
    def invlap(self, x):
        inv = np.zeros(self.C); inv[1:self.L] = 1.0 / self.G.own_eig[1:self.L]
        return x * inv
    def clip(self, x, c=True, n=1):
        if not c: return x
        keep = (np.arange(self.C) < self.L - n).astype(np.float64)
        return x * keep
    def grad(self, x, c=True): return np.stack([self.clip(self.dlon(x) / self.r, c), self.clip(self.D1(x) / self.r, c)])
    def div(self, u, v, c=True): return self.clip((self.dlon(u) + self.D2(v)) / self.r, c)
    def curl(self, u, v, c=True): return self.clip((self.dlon(v) - self.D2(u)) / self.r, c)
    def getvec(self, vor, dv, c=True):
        gs = self.grad(self.invlap(vor), c); gp = self.grad(self.invlap(dv), c)
        return np.stack([gp[0] - gs[1], gp[1] + gs[0]])

    def table(self):
        return {'d_dlon': lambda x, y, c: self.dlon(x), 'cos_lat_d_dlat': lambda x, y, c: self.D1(x),
                'sec_lat_d_dlat_cos2': lambda x, y, c: self.D2(x), 'laplacian': lambda x, y, c: self.lap(x),
                'inverse_laplacian': lambda x, y, c: self.invlap(x), 'cos_lat_grad': lambda x, y, c: self.grad(x, c),
                'k_cross': lambda x, y, c: np.stack([-y, x]), 'div_cos_lat': lambda x, y, c: self.div(x, y, c),
                'curl_cos_lat': lambda x, y, c: self.curl(x, y, c), 'get_cos_lat_vector': lambda x, y, c: self.getvec(x, y, c)}


def against_numpy(ctx, G_, x, y, what='', only=None):
    """every operator of the implementation against the numpy reference of this plugin"""
    jnp = J()[0]
    ref = NP(G_).table()
    for name, (cmd, ar, fn) in ops_table(G_).items():
        if only is not None and name not in only: continue
        for c in ((True, False) if cmd in (16, 18, 19, 20) and only is None else (True,)):
            want = ref[name](x, y, c)
            ctx.oracle_close('%s clip=%s = the documented operator (numpy reference)%s' % (name, c, what),
                             np.asarray(fn(jnp.asarray(x), jnp.asarray(y), c)), want, scale=float(np.abs(want).max()) + 1e-300)


def _bits(z):
    z = np.asarray(z)
    return z.shape, z.dtype.str, z.tobytes()


def r_forms(ctx, a):
    """Integer / float32 / numpy / read-only / strided / Fortran-ordered inputs, ranks 3..5 with different content per
    slice, batch sizes equal to R and C, size-1 batch, pytrees with scalars."""
    jnp, sh, fourier, jnu = J()
    G_ = grid(a['grid']); g = G_.g; R, C, L = G_.R, G_.C, G_.L
    rng = np.random.Generator(np.random.PCG64(a['seed']))
    xi = rng.integers(-8, 9, size=(R, C)); yi = rng.integers(-8, 9, size=(R, C))
    x = xi.astype(np.float64); y = yi.astype(np.float64)
    ops = ops_table(G_)
    ref = {}
    for name, (cmd, ar, fn) in ops.items():
        ref[name] = np.asarray(fn(jnp.asarray(x), jnp.asarray(y), True))
        sc = float(np.abs(ref[name]).max()) + 1e-300
        # integer-typed arrays against the model
        for dt in (np.int64, np.int32):
            out = np.asarray(fn(jnp.asarray(xi.astype(dt)), jnp.asarray(yi.astype(dt)), True))
            cmp(ctx, '%s on %s input' % (name, np.dtype(dt).name), out, G_.call(ctx, cmd, x, y, clip=True))
        # float32 input (x64 mode): float32 accuracy
        out = np.asarray(fn(jnp.asarray(x, dtype=jnp.float32), jnp.asarray(y, dtype=jnp.float32), True))
        ctx.oracle_close('%s on float32 input agrees with float64 to float32 accuracy' % name, out, ref[name], scale=sc, tol_rel=2.0 ** -20)
        # numpy (not jax) inputs in several memory forms: bit-identical
        ro_x, ro_y = x.copy(), y.copy(); ro_x.setflags(write=False); ro_y.setflags(write=False)
        big_x = np.full((2 * R, 3 * C), 99.0); big_x[::2, 1::3] = x
        big_y = np.full((2 * R, 3 * C), -99.0); big_y[::2, 1::3] = y
        for form, (fx, fy) in {'numpy': (x.copy(), y.copy()), 'read-only numpy': (ro_x, ro_y),
                               'strided view': (big_x[::2, 1::3], big_y[::2, 1::3]),
                               'Fortran order': (np.asfortranarray(x), np.asfortranarray(y))}.items():
            out = np.asarray(fn(fx, fy, True))
            ctx.oracle('%s: %s input gives the same result' % (name, form), _bits(out) == _bits(ref[name]),
                       {'max_abs_diff': float(np.abs(out - ref[name]).max()) if out.shape == ref[name].shape else 'shape'})
        ctx.oracle('%s does not modify its numpy inputs' % name, bool(np.array_equal(big_x[::2, 1::3], x) and np.array_equal(big_y[::2, 1::3], y)
                                                                      and big_x[1, 0] == 99.0), None)
        # ranks / batch axes with different content per slice
        for bshape in [tuple({'R': R, 'C': C}.get(t, t) for t in b) for b in a['batches']]:
            xb = rng.integers(-8, 9, size=bshape + (R, C)).astype(np.float64)
            yb = rng.integers(-8, 9, size=bshape + (R, C)).astype(np.float64)
            for c in ((True, False) if cmd in (16, 18, 19, 20) else (True,)):
                out = np.asarray(fn(jnp.asarray(xb), jnp.asarray(yb), c))
                two = out.ndim == xb.ndim + 1            # stacked pairs: leading axis 2
                first = True
                for idx in np.ndindex(*bshape):
                    o = out[(slice(None),) + idx] if two else out[idx]
                    if bshape == (2,) or (first and bshape in ((R,), (C,))):
                        cmp(ctx, '%s clip=%s batch %s slice %s' % (name, c, bshape, idx), o, G_.call(ctx, cmd, xb[idx], yb[idx], clip=c))
                    else:
                        single = np.asarray(fn(jnp.asarray(xb[idx]), jnp.asarray(yb[idx]), c))
                        ctx.oracle_close('%s clip=%s: slice %s of a batch %s = the operator on that slice' % (name, c, idx, bshape),
                                         o, single, scale=float(np.abs(single).max()) + 1e-300)
                    first = False
    # clip_wavenumbers: pytrees with python scalars, n as keyword, rank 3
    xb = rng.integers(-8, 9, size=(2, R, C)).astype(np.float64)
    for n in (1, 2, L):
        tree = {'a': jnp.asarray(x), 'b': (jnp.asarray(xb), 2.5), 'c': [jnp.asarray(yi)]}
        out = g.clip_wavenumbers(tree, n=n)
        cmp(ctx, 'clip_wavenumbers(pytree) n=%d leaf a' % n, np.asarray(out['a']), G_.call(ctx, 15, x, n=n), onehot=True)
        for k in range(2):
            cmp(ctx, 'clip_wavenumbers(pytree) n=%d leaf b[%d]' % (n, k), np.asarray(out['b'][0])[k], G_.call(ctx, 15, xb[k], n=n), onehot=True)
        cmp(ctx, 'clip_wavenumbers(pytree) n=%d integer leaf' % n, np.asarray(out['c'][0]), G_.call(ctx, 15, y, n=n), onehot=True)
        ctx.exact('clip_wavenumbers(pytree): python scalar leaf passes through', [float(out['b'][1])], [2.5])


def r_purity(ctx, a):
    """The same grid object evaluated repeatedly, interleaved with other inputs and other grids: bit-identical results,
    cached tables never modified; radius is a jit-static difference."""
    jnp, sh, fourier, jnu = J()
    G_ = G(a['grid']); g = G_.g; R, C, L = G_.R, G_.C, G_.L      # a FRESH grid object: its cached tables are pristine
    rng = np.random.Generator(np.random.PCG64(a['seed']))
    x = rng.integers(-8, 9, size=(R, C)).astype(np.float64); y = rng.integers(-8, 9, size=(R, C)).astype(np.float64)
    x2 = rng.integers(-8, 9, size=(R, C)).astype(np.float64)
    def tables():
        t = {'laplacian_eigenvalues': g.laplacian_eigenvalues, 'a': g._derivative_recurrence_weights[0],
             'b': g._derivative_recurrence_weights[1], 'mask': g.mask, 'm': g.modal_axes[0], 'l': g.modal_axes[1],
             'cos_lat': g.cos_lat, 'sec2_lat': g.sec2_lat, 'f': g.spherical_harmonics.basis.f, 'p': g.spherical_harmonics.basis.p,
             'w': g.spherical_harmonics.basis.w}
        return {k: _bits(np.array(v, copy=True)) for k, v in t.items()}
    before = tables()
    ops = ops_table(G_)
    order = list(ops)
    first = {}
    for name in order:
        first[name] = _bits(ops[name][2](jnp.asarray(x), jnp.asarray(y), True))
    for name in reversed(order):                       # other inputs in between, reversed order
        ops[name][2](jnp.asarray(x2), jnp.asarray(x), False)
        again = _bits(ops[name][2](jnp.asarray(x), jnp.asarray(y), True))
        ctx.oracle('%s: repeated evaluation (interleaved with other inputs) is bit-identical' % name, again == first[name], None)
    # the jitted nodal wrappers: this grid, a grid differing ONLY in the radius, this grid again (and the other order)
    spo = dict(a['grid']); spo['r'] = '5/2' if a['grid']['r'] != '5/2' else '1'
    Go = grid(spo); go = Go.g
    u = rng.integers(-8, 9, size=g.nodal_shape).astype(np.float64); v = rng.integers(-8, 9, size=g.nodal_shape).astype(np.float64)
    res = {}
    for tag, gg in (('A1', g), ('B1', go), ('A2', g), ('B2', go)):
        vd = sh.uv_nodal_to_vor_div_modal(gg, jnp.asarray(u), jnp.asarray(v))
        uv = sh.vor_div_to_uv_nodal(gg, jnp.asarray(x), jnp.asarray(y))
        res[tag] = (np.stack([np.asarray(t) for t in vd]), np.stack([np.asarray(t) for t in uv]))
    ctx.oracle('nodal wrappers: grid A before and after a call with a grid differing only in the radius: bit-identical',
               _bits(res['A1'][0]) == _bits(res['A2'][0]) and _bits(res['A1'][1]) == _bits(res['A2'][1]), None)
    ctx.oracle('nodal wrappers: grid B (other radius) repeated: bit-identical',
               _bits(res['B1'][0]) == _bits(res['B2'][0]) and _bits(res['B1'][1]) == _bits(res['B2'][1]), None)
    k = Go.r / G_.r
    ctx.oracle_close('uv_nodal_to_vor_div_modal with radius k*r = (1/k) * radius r (radius is not confused by the jit cache)',
                     res['B1'][0] * k, res['A1'][0], scale=float(np.abs(res['A1'][0]).max()) + 1e-300)
    ctx.oracle_close('vor_div_to_uv_nodal with radius k*r = k * radius r', res['B1'][1] / k, res['A1'][1],
                     scale=float(np.abs(res['A1'][1]).max()) + 1e-300)
    after = tables()
    for kname in before:
        ctx.oracle('cached table %s is not modified by any call' % kname, before[kname] == after[kname], None)
    # model anchor after everything ran: laplacian / inverse_laplacian still right
    cmp(ctx, 'laplacian after the call sequence', np.asarray(g.laplacian(jnp.asarray(x))), G_.call(ctx, 13, x))
    cmp(ctx, 'inverse_laplacian after the call sequence', np.asarray(g.inverse_laplacian(jnp.asarray(x))), G_.call(ctx, 14, x))


def r_deriv_axes(ctx, a):
    """fourier derivatives and shift along other axes (-1, -3; positive axes for shift), argument validation."""
    jnp, sh, fourier, jnu = J()
    rng = np.random.Generator(np.random.PCG64(a['seed']))
    for shape in [tuple(t) for t in a['shapes']]:
        x = rng.integers(-9, 10, size=shape).astype(np.float64)
        for axis in (-1, -2, -3):
            n = shape[axis]
            flat = np.moveaxis(x, axis, 0).reshape(n, -1)
            if n % 2:
                out = np.asarray(fourier.real_basis_derivative(jnp.asarray(x), axis=axis))
                m = ctx.model.call(4, [0, 0, 0, n, flat.shape[1], 0, 0], [[1], [], [], flat.ravel(), []])
                cmp(ctx, 'real_basis_derivative shape=%s axis=%d' % (shape, axis), np.moveaxis(out, axis, 0).reshape(n, -1), m)
            else:
                for off in (0, 4):
                    out = np.asarray(fourier.real_basis_derivative_with_zero_imag(jnp.asarray(x), axis, off))
                    m = ctx.model.call(4, [1, 0, 0, n, flat.shape[1], 0, off], [[1], [], [], flat.ravel(), []])
                    cmp(ctx, 'real_basis_derivative_with_zero_imag shape=%s axis=%d off=%d' % (shape, axis, off),
                        np.moveaxis(out, axis, 0).reshape(n, -1), m)
            for sax in (axis, x.ndim + axis):           # negative and the equivalent positive axis
                for off in (-1, 1, 2, -n + 1):
                    out = np.asarray(jnu.shift(jnp.asarray(x), off, axis=sax))
                    for (idx, col), (_, ocol) in zip(util.columns(x, sax), util.columns(out, sax)):
                        if idx and sum(idx) % 3: continue
                        cmp(ctx, 'shift axis=%d offset=%d' % (sax, off), ocol, ctx.model.call(0, [n, off], [col]), onehot=True)
    # validation: parity of the axis length and the sign of `axis`
    def raises(f):
        try:
            f(); return 0
        except ValueError:
            return 1
    xe = jnp.zeros((4, 3)); xo = jnp.zeros((5, 3))
    ctx.exact('real_basis_derivative rejects even length / non-negative axis; accepts odd length',
              [raises(lambda: fourier.real_basis_derivative(xe, axis=-2)), raises(lambda: fourier.real_basis_derivative(xo, axis=0)),
               raises(lambda: fourier.real_basis_derivative(xo, axis=-2))], [1, 1, 0])
    ctx.exact('real_basis_derivative_with_zero_imag rejects odd length / non-negative axis; accepts even length',
              [raises(lambda: fourier.real_basis_derivative_with_zero_imag(xo, axis=-2)),
               raises(lambda: fourier.real_basis_derivative_with_zero_imag(xe, axis=0)),
               raises(lambda: fourier.real_basis_derivative_with_zero_imag(xe, axis=-2))], [1, 1, 0])


def r_sharded(ctx, a):
    """The modal operators on a grid with a device mesh (padding multiple 8 per shard, d_dlon through shard_map with a
    per-shard frequency offset, vertical padding when the level count is not divisible by z) against the model."""
    jnp, sh, fourier, jnu = J()
    import jax
    z, xs, ys = a['grid']['mesh']
    if len(jax.devices()) < z * xs * ys:
        ctx.count('sharded skipped: not enough devices'); return
    G_ = grid(a['grid']); g = G_.g; R, C, L = G_.R, G_.C, G_.L
    rng = np.random.Generator(np.random.PCG64(a['seed']))
    x = rng.integers(-8, 9, size=(R, C)).astype(np.float64); y = rng.integers(-8, 9, size=(R, C)).astype(np.float64)
    ctx.exact('modal shape on the mesh', [R, C], [int(-(-2 * G_.M // (16 * xs)) * 16 * xs), int(-(-L // (8 * ys)) * 8 * ys)])
    cmp(ctx, 'd_dlon on mesh %s' % (a['grid']['mesh'],), np.asarray(g.d_dlon(jnp.asarray(x))), G_.call(ctx, 10, x))
    # (every d_dlon call on a mesh re-traces a shard_map: keep the number of calls small)
    against_numpy(ctx, G_, x, y, ' on mesh %s' % (a['grid']['mesh'],),
                  only=None if a.get('all_ops') else ('cos_lat_d_dlat', 'sec_lat_d_dlat_cos2', 'laplacian', 'inverse_laplacian', 'div_cos_lat'))
    ref = NP(G_)
    for k in a['levels']:
        xb = rng.integers(-8, 9, size=(k, R, C)).astype(np.float64)
        out = np.asarray(g.d_dlon(jnp.asarray(xb)))
        ctx.exact('d_dlon keeps the shape with %d levels on mesh %s' % (k, a['grid']['mesh']), list(out.shape), [k, R, C])
        if out.shape == xb.shape:
            ctx.oracle_close('d_dlon with %d levels on mesh %s = the documented operator (numpy reference)' % (k, a['grid']['mesh']),
                             out, ref.dlon(xb), scale=float(np.abs(xb).max()) * G_.M + 1e-300)
            if k == a['levels'][0]:
                cmp(ctx, 'd_dlon level %d of %d on mesh %s' % (k - 1, k, a['grid']['mesh']), out[k - 1], G_.call(ctx, 10, xb[k - 1]))
        gl = np.asarray(jnp.stack(g.cos_lat_grad(jnp.asarray(xb))))
        want = np.stack([ref.grad(xb[t]) for t in range(k)], axis=1)
        ctx.oracle_close('cos_lat_grad with %d levels on mesh = numpy reference' % k, gl, want, scale=float(np.abs(want).max()) + 1e-300)


def r_constructors(ctx, a):
    """Grid.with_wavenumbers / construct / named constructors pass every option through (radius, implementation,
    spacing, offset) and produce the documented sizes; dataclasses.replace gives a grid with its own tables."""
    import dataclasses, math
    jnp, sh, fourier, jnu = J()
    rng = np.random.Generator(np.random.PCG64(a['seed']))
    F = sh.FastSphericalHarmonics
    cases = []
    for M, deal, order in ((4, 'linear', 2), (3, 'quadratic', 3), (2, 'cubic', 4)):
        for impl, spc, off, rad in ((sh.RealSphericalHarmonics, 'gauss', 0.0, None), (F, 'equiangular', 0.3, 2.5)):
            got = sh.Grid.with_wavenumbers(M, dealiasing=deal, latitude_spacing=spc, longitude_offset=off,
                                           spherical_harmonics_impl=impl, radius=rad)
            want = sh.Grid(longitude_wavenumbers=M, total_wavenumbers=M + 1, longitude_nodes=order * M + 1,
                           latitude_nodes=math.ceil((order * M + 1) / 2), latitude_spacing=spc, longitude_offset=off,
                           radius=rad, spherical_harmonics_impl=impl)
            cases.append(('with_wavenumbers(%d,%s,%s)' % (M, deal, spc), got, want, rad))
    for impl, spc, off, rad in ((sh.RealSphericalHarmonics, 'gauss', 0.0, None), (F, 'equiangular', 0.3, 2.5)):
        got = sh.Grid.construct(max_wavenumber=3, gaussian_nodes=4, latitude_spacing=spc, longitude_offset=off, radius=rad,
                                spherical_harmonics_impl=impl)
        want = sh.Grid(longitude_wavenumbers=4, total_wavenumbers=5, longitude_nodes=16, latitude_nodes=8, latitude_spacing=spc,
                       longitude_offset=off, radius=rad, spherical_harmonics_impl=impl)
        cases.append(('construct(3,4,%s)' % spc, got, want, rad))
    for nm, mw, gn in (('T21', 21, 16), ('TL31', 31, 16)):
        got = getattr(sh.Grid, nm)(radius=6371220.0, spherical_harmonics_impl=F, longitude_offset=0.1)
        want = sh.Grid(longitude_wavenumbers=mw + 1, total_wavenumbers=mw + 2, longitude_nodes=4 * gn, latitude_nodes=2 * gn,
                       radius=6371220.0, spherical_harmonics_impl=F, longitude_offset=0.1)
        cases.append((nm, got, want, 6371220.0))
    for nm, got, want, rad in cases:
        ctx.oracle('Grid.%s equals the explicitly specified grid (sizes, spacing, offset, radius, implementation)' % nm,
                   bool(got == want) and got.radius == (1.0 if rad is None else rad)
                   and got.spherical_harmonics_impl is want.spherical_harmonics_impl, {'got': str(got)[:300]})
        l = np.asarray(got.modal_axes[1]).astype(np.float64)
        x = rng.integers(-8, 9, size=got.modal_shape).astype(np.float64)
        r = 1.0 if rad is None else rad
        ctx.oracle_close('Grid.%s: laplacian = -l(l+1)/radius^2' % nm, np.asarray(got.laplacian(x)), -l * (l + 1) / r ** 2 * x,
                         scale=float(np.abs(l * (l + 1) / r ** 2).max() * 8) + 1e-300)
        g1 = dataclasses.replace(got, radius=3.0 * r)
        ctx.oracle_close('dataclasses.replace(grid, radius=3r) has its own eigenvalues', np.asarray(g1.laplacian(x)) * 9.0,
                         np.asarray(got.laplacian(x)), scale=float(np.abs(l * (l + 1) / r ** 2).max() * 8) + 1e-300)
        if x.size < 500:
            ctx.oracle_close('dataclasses.replace(grid, radius=3r): cos_lat_grad scales by 1/3', np.stack(g1.cos_lat_grad(x)) * 3.0,
                             np.stack(got.cos_lat_grad(x)), scale=float(np.abs(np.stack(got.cos_lat_grad(x))).max()) + 1e-300)


def r_radii(ctx, a):
    """Every operator at radii 2^-30 .. 2^30 and the Earth radius, NON-dyadic data: against the exact model and the numpy
    reference, always relative to the size of the exact result (no absolute epsilon survives this)."""
    jnp, sh, fourier, jnu = J()
    G_ = grid(a['grid']); g = G_.g; R, C, L = G_.R, G_.C, G_.L
    rng = np.random.Generator(np.random.PCG64(a['seed']))
    x = rng.integers(-21, 22, size=(R, C)).astype(np.float64) / 7.0
    y = rng.integers(-21, 22, size=(R, C)).astype(np.float64) / 11.0
    ops = ops_table(G_)
    for name, (cmd, ar, fn) in ops.items():
        for c in ((True, False) if cmd in (16, 20) else (True,)):
            cmp(ctx, '%s clip=%s radius=%s (non-dyadic data)' % (name, c, a['grid']['r']), np.asarray(fn(jnp.asarray(x), jnp.asarray(y), c)),
                G_.call(ctx, cmd, x, y, clip=c))
    against_numpy(ctx, G_, x, y, ' radius=%s' % a['grid']['r'])
    zm = x.copy(); zm[:, 0] = 0; zm[:, L:] = 0
    ctx.oracle_close('inverse_laplacian(laplacian(x)) = x on zero-mean fields, radius=%s' % a['grid']['r'],
                     np.asarray(g.inverse_laplacian(g.laplacian(jnp.asarray(zm)))), zm, scale=float(np.abs(zm).max()) + 1e-300)
    il = np.asarray(g.inverse_laplacian(jnp.asarray(x)))
    ctx.oracle('inverse_laplacian is non-zero at every 1 <= l < L where the input is non-zero, radius=%s' % a['grid']['r'],
               bool(np.all((il[:, 1:L] != 0) == (x[:, 1:L] != 0))), None)
    if a.get('nodal') and _resolves(G_):
        vor = _rand(G_, a['seed'] + 2, 1, deg=L - 3, zero_mean=True) / 7.0; div = _rand(G_, a['seed'] + 3, 1, deg=L - 3, zero_mean=True) / 7.0
        u, v = sh.vor_div_to_uv_nodal(g, jnp.asarray(vor), jnp.asarray(div))
        cu, cv = NP(G_).getvec(vor, div)
        want = np.stack([np.asarray(g.to_nodal(jnp.asarray(cu))), np.asarray(g.to_nodal(jnp.asarray(cv)))]) / G_.own_cos()
        ctx.oracle_close('vor_div_to_uv_nodal = to_nodal(numpy get_cos_lat_vector)/cos, radius=%s' % a['grid']['r'],
                         np.stack([np.asarray(u), np.asarray(v)]), want, scale=float(np.abs(want).max()) + 1e-300)
        v2, d2 = sh.uv_nodal_to_vor_div_modal(g, u, v)
        ctx.oracle_close('wind round trip (degree <= L-3), radius=%s' % a['grid']['r'], np.stack([np.asarray(v2), np.asarray(d2)]),
                         np.stack([vor, div]), scale=float(max(np.abs(vor).max(), np.abs(div).max())) * L + 1e-300)


def r_transforms(ctx, a):
    """Every operator under jax.jit (whole call and a piece), jax.vmap over a leading axis, jax.eval_shape; as linear maps:
    jvp tangent = operator(tangent), vjp finite and adjoint-consistent (<ct, A t> = <A^T ct, t>); laplacian and
    inverse_laplacian are self-adjoint (diagonal), d_dlon is skew-adjoint."""
    import jax
    jnp, sh, fourier, jnu = J()
    G_ = grid(a['grid']); g = G_.g; R, C, L = G_.R, G_.C, G_.L
    rng = np.random.Generator(np.random.PCG64(a['seed']))
    def rnd(*lead): return rng.integers(-8, 9, size=tuple(lead) + (R, C)).astype(np.float64)
    x, y, tx, ty = rnd(), rnd(), rnd() / 3.0, rnd() / 3.0
    x[:, 0] = 0; x[1, :] = 0            # zeros in the input, also where eigenvalues vanish
    ops = ops_table(G_)
    ref = NP(G_).table()
    as_arr = lambda o: jnp.stack(o) if isinstance(o, (tuple, list)) else o
    for name, (cmd, ar, fn0) in ops.items():
        for c in ((True, False) if cmd in (16, 18, 19, 20) else (True,)):
            fn = (lambda fn0, c: (lambda u, v: as_arr(fn0(u, v, c))))(fn0, c)
            want = ref[name](x, y, c); sc = float(np.abs(want).max()) + 1e-300
            eager = np.asarray(fn(jnp.asarray(x), jnp.asarray(y)))
            tag = '%s clip=%s' % (name, c)
            ctx.oracle_close(tag + ': jax.jit(operator) = documented operator', np.asarray(jax.jit(fn)(jnp.asarray(x), jnp.asarray(y))), want, scale=sc)
            es = jax.eval_shape(fn, jax.ShapeDtypeStruct((R, C), jnp.float64), jax.ShapeDtypeStruct((R, C), jnp.float64))
            ctx.exact(tag + ': jax.eval_shape agrees with the computed result', [list(es.shape), str(es.dtype)], [list(eager.shape), str(eager.dtype)])
            xb, yb = rnd(3), rnd(3)
            vm = np.asarray(jax.vmap(fn)(jnp.asarray(xb), jnp.asarray(yb)))
            wantb = np.stack([ref[name](xb[k], yb[k], c) for k in range(3)])
            ctx.oracle_close(tag + ': jax.vmap over a leading axis = documented operator per slice', vm, wantb, scale=float(np.abs(wantb).max()) + 1e-300)
            # linear map: jvp
            prim, tang = jax.jvp(fn, (jnp.asarray(x), jnp.asarray(y)), (jnp.asarray(tx), jnp.asarray(ty)))
            wt = ref[name](tx, ty, c)
            ctx.oracle_close(tag + ': jvp primal = operator(input)', np.asarray(prim), want, scale=sc)
            ctx.oracle_close(tag + ': jvp tangent = operator(tangent) (linear map)', np.asarray(tang), wt, scale=float(np.abs(wt).max()) + 1e-300)
            # vjp: finite, adjoint-consistent
            ct = rng.integers(-8, 9, size=eager.shape).astype(np.float64)
            _, pull = jax.vjp(fn, jnp.asarray(x), jnp.asarray(y))
            gx, gy = (np.asarray(t) for t in pull(jnp.asarray(ct)))
            ctx.oracle(tag + ': vjp (reverse mode) is finite', bool(np.all(np.isfinite(gx)) and np.all(np.isfinite(gy))),
                       {'nan_or_inf_entries': int((~np.isfinite(gx)).sum() + (~np.isfinite(gy)).sum())})
            lhs = float(np.sum(ct * wt)); rhs = float(np.sum(np.nan_to_num(gx) * tx) + np.sum(np.nan_to_num(gy) * ty))
            ctx.oracle_close(tag + ': <ct, A t> = <A^T ct, t> (vjp is the adjoint of the documented operator)', [lhs], [rhs],
                             scale=float(np.abs(ct).sum() * max(np.abs(wt).max(), 1e-300)))
            if name in ('laplacian', 'inverse_laplacian'):
                ctx.oracle_close(tag + ': self-adjoint (diagonal): vjp(ct) = operator(ct)', gx, ref[name](ct, ct, c),
                                 scale=float(np.abs(ref[name](ct, ct, c)).max()) + 1e-300)
            if name == 'd_dlon':
                ctx.oracle_close(tag + ': skew-adjoint: vjp(ct) = -d_dlon(ct)', gx, -ref[name](ct, ct, c),
                                 scale=float(np.abs(ref[name](ct, ct, c)).max()) + 1e-300)
    # pieces under jit: clip_wavenumbers with n static, the fourier derivative and shift called inside jit
    for n in (1, 2):
        out = np.asarray(jax.jit(lambda u: g.clip_wavenumbers(u, n))(jnp.asarray(y)))
        ctx.oracle_close('jax.jit(clip_wavenumbers n=%d) = documented operator' % n, out, NP(G_).clip(y, True, n), scale=float(np.abs(y).max()))
    out = np.asarray(jax.jit(lambda u: jnu.shift(u, -1, axis=-1) + jnu.shift(u, 1, axis=-2))(jnp.asarray(y)))
    ctx.oracle_close('jax.jit(shift) = zero-padded shift', out, NP._sh(y, -1, -1) + NP._sh(y, 1, -2), scale=float(np.abs(y).max()) * 2)
    # the library's jitted nodal wrappers as linear maps (reverse mode finite, adjoint-consistent)
    if a.get('nodal') and _resolves(G_):
        f = lambda vor, div: jnp.stack(sh.vor_div_to_uv_nodal(g, vor, div))
        vor, div = rnd(), rnd(); tv, td = rnd() / 3.0, rnd() / 3.0
        prim, tang = jax.jvp(f, (jnp.asarray(vor), jnp.asarray(div)), (jnp.asarray(tv), jnp.asarray(td)))
        wt = np.asarray(f(jnp.asarray(tv), jnp.asarray(td)))
        ctx.oracle_close('vor_div_to_uv_nodal: jvp tangent = function(tangent)', np.asarray(tang), wt, scale=float(np.abs(wt).max()) + 1e-300)
        ct = rng.integers(-8, 9, size=wt.shape).astype(np.float64)
        _, pull = jax.vjp(f, jnp.asarray(vor), jnp.asarray(div))
        gv, gd = (np.asarray(t) for t in pull(jnp.asarray(ct)))
        ctx.oracle('vor_div_to_uv_nodal: vjp is finite', bool(np.all(np.isfinite(gv)) and np.all(np.isfinite(gd))), None)
        ctx.oracle_close('vor_div_to_uv_nodal: <ct, A t> = <A^T ct, t>', [float(np.sum(ct * wt))],
                         [float(np.sum(np.nan_to_num(gv) * tv) + np.sum(np.nan_to_num(gd) * td))], scale=float(np.abs(ct).sum() * np.abs(wt).max()) + 1e-300)
        h = lambda u, v: jnp.stack(sh.uv_nodal_to_vor_div_modal(g, u, v))
        un = rng.integers(-8, 9, size=g.nodal_shape).astype(np.float64); vn = rng.integers(-8, 9, size=g.nodal_shape).astype(np.float64)
        tu = rng.integers(-8, 9, size=g.nodal_shape).astype(np.float64) / 3.0
        prim, tang = jax.jvp(h, (jnp.asarray(un), jnp.asarray(vn)), (jnp.asarray(tu), jnp.asarray(un)))
        wt = np.asarray(h(jnp.asarray(tu), jnp.asarray(un)))
        ctx.oracle_close('uv_nodal_to_vor_div_modal: jvp tangent = function(tangent)', np.asarray(tang), wt, scale=float(np.abs(wt).max()) + 1e-300)
        ct = rng.integers(-8, 9, size=wt.shape).astype(np.float64)
        _, pull = jax.vjp(h, jnp.asarray(un), jnp.asarray(vn))
        gu, gv = (np.asarray(t) for t in pull(jnp.asarray(ct)))
        ctx.oracle('uv_nodal_to_vor_div_modal: vjp is finite', bool(np.all(np.isfinite(gu)) and np.all(np.isfinite(gv))), None)
        ctx.oracle_close('uv_nodal_to_vor_div_modal: <ct, A t> = <A^T ct, t>', [float(np.sum(ct * wt))],
                         [float(np.sum(np.nan_to_num(gu) * tu) + np.sum(np.nan_to_num(gv) * un))], scale=float(np.abs(ct).sum() * np.abs(wt).max()) + 1e-300)


def r_big_default(ctx, a):
    """A default-option FastSphericalHarmonics grid in the range where stacked Fourier transforms are the DEFAULT
    (128 < M <= 256).  The exact model is quadratic in the array size here, so every operator is decided by the
    independent numpy reference of this plugin (closed-form weights), not by the Q model."""
    jnp, sh, fourier, jnu = J()
    G_ = grid(a['grid']); g = G_.g; R, C, L, M = G_.R, G_.C, G_.L, G_.M
    s = g.spherical_harmonics
    ctx.exact('default options of FastSphericalHarmonics for 128 < M <= 256: stacked Fourier transforms, base multiple 1, no reversed einsum',
              [bool(s.stacked_fourier_transforms), s.base_shape_multiple, bool(s.reverse_einsum_arg_order), [R, C]], [True, 1, False, [2 * M, L]])
    ctx.oracle('modal_axes / mask follow the documented layout (large default grid)',
               bool(np.array_equal(G_.m, G_.own_m) and np.array_equal(G_.l, G_.own_l) and np.array_equal(G_.mask, G_.own_mask)), None)
    ctx.oracle_close('recurrence weight tables = sqrt of the closed form (large default grid)', np.stack([G_.a, G_.b]),
                     np.stack([G_.own_a, G_.own_b]), scale=1.0, tol_rel=2.0 ** -48)
    for masked in (0, 1):
        x = _rand(G_, a['seed'] + masked, masked); y = _rand(G_, a['seed'] + 7 + masked, masked)
        against_numpy(ctx, G_, x / 7.0, y / 3.0, ' (M=%d default Fast grid)' % M)


def r_wrappers_fine(ctx, a):
    """vor/div -> wind -> vor/div on grids with many nodes and a tiny truncation (oracle on the implementation)."""
    jnp, sh, fourier, jnu = J()
    rng = np.random.Generator(np.random.PCG64(a['seed']))
    for impl in (sh.RealSphericalHarmonics, sh.FastSphericalHarmonics):
        g = sh.Grid(longitude_wavenumbers=a['M'], total_wavenumbers=a['L'], longitude_nodes=a['I'], latitude_nodes=a['J'],
                    latitude_spacing=a['spacing'], spherical_harmonics_impl=impl)
        mm, ll = g.modal_mesh
        ok = np.asarray(g.mask) & (ll >= 1) & (ll <= a['L'] - 3 + 1)     # degree <= L-3 ... here L=4: l = 1
        ok = np.asarray(g.mask) & (ll >= 1) & (ll <= max(a['L'] - 3, 1))
        vor = rng.integers(-8, 9, size=(2,) + tuple(g.modal_shape)).astype(np.float64) / 8 * ok
        div = rng.integers(-8, 9, size=(2,) + tuple(g.modal_shape)).astype(np.float64) / 8 * ok
        cu, cv = sh.get_cos_lat_vector(jnp.asarray(vor), jnp.asarray(div), g, clip=True)
        coslat = np.ones(g.nodal_shape[1]); coslat[:a['J']] = np.sqrt(1 - own_nodes(a['I'], a['J'], a['spacing'])[1] ** 2)
        want_u = np.asarray(g.to_nodal(cu)) / coslat; want_v = np.asarray(g.to_nodal(cv)) / coslat
        u, v = sh.vor_div_to_uv_nodal(g, jnp.asarray(vor), jnp.asarray(div))
        sc = max(float(np.abs(want_u).max()), float(np.abs(want_v).max()), 1e-300)
        ctx.oracle_close('vor_div_to_uv_nodal = to_nodal(get_cos_lat_vector)/cos_lat on a fine grid (%s)' % a['spacing'],
                         np.stack([np.asarray(u), np.asarray(v)]), np.stack([want_u, want_v]), scale=sc, tol_rel=1e-10)
        v2, d2 = sh.uv_nodal_to_vor_div_modal(g, u, v)
        ctx.oracle_close('vor/div -> wind -> vor/div is the identity (degree <= L-3) on a fine grid (%s)' % a['spacing'],
                         np.stack([np.asarray(v2), np.asarray(d2)]), np.stack([vor, div]),
                         scale=max(float(np.abs(vor).max()), float(np.abs(div).max()), 1e-300), tol_rel=1e-9)
        ctx.count('wrappers_fine:min cos_lat %.1e' % float(np.min(np.asarray(g.cos_lat))))


def r_jit_static(ctx, a):
    from props import C09
    return C09.r_jit_static(ctx, a)


RUNNERS = {'wrappers_fine': r_wrappers_fine, 'jit_static': r_jit_static, 'shift': r_shift, 'shift2d': r_shift2d, 'clip_reject': r_clip_reject, 'fourier_deriv': r_fourier_deriv,
           'tables': r_tables, 'onehot': r_onehot, 'random_ops': r_random_ops, 'analytic': r_analytic,
           'sec2_hyp': r_sec2_hyp, 'vecid': r_vecid, 'roundtrip_basis': r_roundtrip_basis, 'spectral_id': r_spectral_id,
           'forms': r_forms, 'purity': r_purity, 'deriv_axes': r_deriv_axes, 'sharded': r_sharded, 'constructors': r_constructors,
           'radii': r_radii, 'transforms': r_transforms, 'big_default': r_big_default}
