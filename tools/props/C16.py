"""C16 - conservative regridding: correspondence of Model/Regrid.v with
dinosaur.horizontal_interpolation / dinosaur.vertical_interpolation and the
property's own clauses (weights >= 0, rows sum to one, constants, range,
integral conservation, NaN semantics) evaluated on the implementation."""
import math
import numpy as np
from fractions import Fraction
from harness import util

THEOREMS = ['C16_partition_overlap', 'C16_weights_nonneg', 'C16_rows_sum_to_one', 'C16_constants_reproduced',
            'C16_range_preserved', 'C16_vertical_rows', 'C16_vertical_integral_conserved',
            'C16_hybrid_integral_conserved', 'C16_latitude_overlap_is_sin_overlap', 'C16_latitude_rows',
            'C16_latitude_integral_conserved', 'C16_latitude_integral_conserved_R',
            'C16_longitude_rows_given_total', 'C16_horizontal_integral_conserved_given_partition',
            'C16_nan_semantics_strict', 'C16_nan_semantics_skipna', 'C16_periodic_overlap_images',
            'C16_periodic_overlap_full_circle_R', 'C16_longitude_partition', 'C16_longitude_points_cyclic',
            'C16_longitude_rows', 'C16_horizontal_integral_conserved', 'C16_cyclic_points_satisfiable',
            'C16_longitude_coarse_conserves', 'C16_hyps_satisfiable',
            'C16_model_is_source', 'C16_gen_regrid_complete']
LEVEL = 'proof'
LEVEL_TEXT = ('machine-checked theorems (Coq) for every number of source/target cells and every sorted boundary list: overlap '
              'partition identity, non-negative weights, unit row sums, constants, range, integral conservation for the vertical '
              '(covered range), hybrid->sigma and latitude (sin-measure) regridders and the NaN semantics of ConservativeRegridder '
              'for both skipna settings over every ordered field; over the reals additionally the periodic longitude partition '
              'identity for the code as written (phase alignment, periodic bounds, three-image overlap), hence unconditional '
              'longitude row properties and conservation of the area-weighted integral of the horizontal regridder with the '
              'real sin; the Gallina model is executed (extraction) against the implementation on generated grid pairs')
LEVEL_NOTE = ('longitude partition/conservation theorems are over R (not every ordered field) and assume what the code needs: '
              'strictly increasing longitudes whose cyclic gaps are all < period/2 (so >= 3 nodes; 2-node grids are degenerate '
              'in the code); these hypotheses are re-checked per case as table obligations H_lon_gaps / H_lon_cyclic. sin enters '
              'the field-generic latitude theorems as monotone tables (table obligations), the R versions use the real sin. '
              'Theorems are about the model Model/Regrid.v, tied to the code twice: the scalar kernels (_align_phase_with, periodic bounds, '
              '_periodic_overlap, _interval_overlap, the _latitude_overlap expression) are regenerated from the AST on every run '
              '(Gen/RegridSrc.v; C16_model_is_source), and by differential correspondence; float rounding, '
              'batch dimensions and einsum precision flags are not modelled.')
TECHNIQUE = 'interactive proof (Coq) + extracted-model differential testing + property oracles'

PERIOD = 2 * np.pi
HPI = np.pi / 2
TOL_ISCLOSE = Fraction(1, 10 ** 8) + Fraction(1, 10 ** 3)

_jax = None
def J():
    global _jax
    if _jax is None:
        util.setup_jax()
        import jax.numpy as jnp
        from dinosaur import horizontal_interpolation as hi, vertical_interpolation as vi
        from dinosaur import spherical_harmonic as sh, sigma_coordinates as sc
        _jax = (jnp, hi, vi, sh, sc)
    return _jax


_grids = {}
def grid(spec):
    jnp, hi, vi, sh, sc = J()
    key = (spec['nlon'], spec['nlat'], spec['spacing'], float(spec['offset']))
    if key not in _grids:
        _grids[key] = sh.Grid(longitude_nodes=spec['nlon'], latitude_nodes=spec['nlat'],
                              latitude_spacing=spec['spacing'], longitude_offset=float(spec['offset']))
    return _grids[key]


def kfloor(xs, period=PERIOD):
    P = Fraction(float(period))
    return [math.floor(Fraction(float(x)) / P) for x in xs]



# ---------------------------------------------------------------------------
# Independent numpy references (never call the implementation): node coordinates
# from the grid definition, cells, overlaps by brute force over periodic images.
def ref_lat_nodes(kind, n):
    if kind == 'gauss':
        import scipy.special
        return np.arcsin(scipy.special.roots_legendre(n)[0])
    if kind == 'equiangular':
        return -np.pi / 2 + (np.arange(n) + 0.5) * np.pi / n
    return np.linspace(-np.pi / 2, np.pi / 2, n)          # equiangular_with_poles


def ref_lon_nodes(n, offset):
    return 2 * np.pi * np.arange(n) / n + offset


def ref_lat_bounds(x):
    x = np.asarray(x, dtype=np.float64)
    return np.concatenate([[-np.pi / 2], 0.5 * (x[:-1] + x[1:]), [np.pi / 2]])


def ref_lon_cells(x, period=PERIOD):
    """cells of cyclically ordered points: from the midpoint to the previous point to the
    midpoint to the next one, computed on the sorted reduced points (not by phase alignment)"""
    p = np.mod(np.asarray(x, dtype=np.float64), period)
    o = np.argsort(p, kind='stable'); ps = p[o]; n = ps.size
    prev_ = np.concatenate([[ps[-1] - period], ps[:-1]]); next_ = np.concatenate([ps[1:], [ps[0] + period]])
    lo = np.empty(n); up = np.empty(n)
    lo[o] = 0.5 * (prev_ + ps); up[o] = 0.5 * (ps + next_)
    return lo, up


def ref_overlap(tlo, tup, slo, sup, period=None):
    tlo = np.asarray(tlo)[:, None]; tup = np.asarray(tup)[:, None]; slo = np.asarray(slo)[None, :]; sup = np.asarray(sup)[None, :]
    ks = [0] if period is None else range(-3, 4)
    return sum(np.maximum(np.minimum(tup, sup + k * (period or 0.0)) - np.maximum(tlo, slo + k * (period or 0.0)), 0.0) for k in ks)


def ref_lat_weights(sx, tx):
    sb = np.sin(ref_lat_bounds(sx)); tb = np.sin(ref_lat_bounds(tx))
    ov = ref_overlap(tb[:-1], tb[1:], sb[:-1], sb[1:])
    return ov / ov.sum(axis=1, keepdims=True), np.diff(tb), np.diff(sb)


def ref_touch(sx, tx, lon, eps=1e-9):
    """1 where a source and a target cell overlap or merely touch (rounding may give such pairs a tiny weight)"""
    if lon:
        slo, sup = ref_lon_cells(sx); tlo, tup = ref_lon_cells(tx)
        return (ref_overlap(tlo - eps, tup + eps, slo, sup, PERIOD) > 0) * 1.0
    sb = ref_lat_bounds(sx); tb = ref_lat_bounds(tx)
    return (ref_overlap(tb[:-1] - eps, tb[1:] + eps, sb[:-1], sb[1:]) > 0) * 1.0


def ref_lon_weights(sx, tx, period=PERIOD):
    slo, sup = ref_lon_cells(sx, period); tlo, tup = ref_lon_cells(tx, period)
    ov = ref_overlap(tlo, tup, slo, sup, period)
    return ov / ov.sum(axis=1, keepdims=True), tup - tlo, sup - slo


# ---------------------------------------------------------------------------
SPACINGS = ['gauss', 'equiangular', 'equiangular_with_poles']


def lat_centres(kind, n, rng=None):
    jnp, hi, vi, sh, sc = J()
    if kind == 'random':
        inc = rng.integers(1, 9, size=n + 1).astype(np.float64)
        c = np.cumsum(inc)[:-1] / inc.sum()
        return (-HPI + np.pi * c).tolist()
    return ref_lat_nodes(kind, n).tolist()


def lon_centres(kind, n, offset, rng=None):
    if kind == 'random':
        jit = rng.integers(-4, 5, size=n).astype(np.float64) / 20.0    # +-20 % of a step
        return ((np.arange(n) + jit) * (PERIOD / n) + offset).tolist()
    return (np.linspace(0, PERIOD, n, endpoint=False) + offset).tolist()


def generate(ctx):
    rng = ctx.rng
    quick = ctx.tier == 'quick'
    smax = 24 if quick else 48
    # _align_phase_with (the repo's own samples + random)
    for x, y, p in [(1, 0, 10), (-1, 0, 10), (5, 0, 10), (6, 0, 10), (1, 9, 10), (5, 9, 10), (-5, 0, 10), (-6, 0, 10), (14, 9, 10)]:
        yield 'align', {'x': float(x), 't': float(y), 'p': float(p)}
    for _ in range(8 if quick else 40):
        yield 'align', {'x': float(rng.integers(-40, 41)) / 4, 't': float(rng.integers(-40, 41)) / 4, 'p': float(rng.integers(1, 13))}
    # witness of C16_longitude_coarse_conserves (former failing input), replayed on the implementation
    yield 'coarse_lon', {'sx': [0.0, 4.0, 8.0], 'tx': [1.0, 5.0, 9.0], 'period': 12.0}
    # _periodic_overlap on scalar intervals, widths up to one period, starts up to 3/2 periods apart
    for _ in range(40 if quick else 300):
        P = float(rng.integers(4, 13)); x0 = float(rng.integers(-8, 25)) / 4; wx = float(rng.integers(0, int(4 * P) + 1)) / 4
        y0 = x0 + float(rng.integers(-int(6 * P) + 1, int(6 * P))) / 4; wy = float(rng.integers(0, int(4 * P) + 1)) / 4
        ctx.count('pov:' + ('wide' if wx + wy > P / 2 else 'narrow'))
        yield 'pov', {'x0': x0, 'x1': x0 + wx, 'y0': y0, 'y1': y0 + wy, 'p': P}
    # latitude
    sizes = [4, 5, 6, 8, 12, 16, 24] if quick else [4, 5, 6, 7, 8, 10, 12, 16, 20, 24, 32, 48]
    nlat = 14 if quick else 80
    for r in range(nlat):
        ks = SPACINGS[int(rng.integers(0, 3))] if r % 5 else 'random'
        kt = SPACINGS[int(rng.integers(0, 3))] if r % 7 else 'random'
        ns = int(sizes[int(rng.integers(0, len(sizes)))]); nt = int(sizes[int(rng.integers(0, len(sizes)))])
        if r == 0: ks, kt, ns, nt = 'equiangular', 'equiangular', 6, 2     # the repo's own test case
        if r == 1: ks, kt, ns, nt = 'gauss', 'gauss', 8, 16               # finer target
        if r == 2: ks, kt, ns, nt = 'equiangular_with_poles', 'gauss', 9, 4
        if r == 3: ks, kt, ns, nt = 'equiangular', 'equiangular', 12, 6    # nested
        ctx.count(f'lat:{ks}->{kt}'); ctx.count('lat:' + ('coarser' if nt < ns else 'finer' if nt > ns else 'same'))
        yield 'lat', {'sx': lat_centres(ks, ns, rng), 'tx': lat_centres(kt, nt, rng), 'fseed': int(rng.integers(0, 2 ** 31))}
    # latitude: sizes 1..3, equal node counts with different spacing, target = source, very fine vs very coarse
    extra_lat = [('gauss', 6, 'equiangular', 1, 0), ('equiangular_with_poles', 1, 'gauss', 4, 0), ('gauss', 2, 'equiangular', 2, 0),
                 ('equiangular', 3, 'equiangular_with_poles', 3, 0), ('gauss', 8, 'equiangular', 8, 0),
                 ('equiangular', 8, 'equiangular_with_poles', 8, 0), ('equiangular_with_poles', 5, 'gauss', 5, 0),
                 ('gauss', 6, 'gauss', 6, 1), ('equiangular_with_poles', 5, 'equiangular_with_poles', 5, 1),
                 ('gauss', 96, 'equiangular', 2, 0), ('equiangular_with_poles', 3, 'gauss', 96, 0)]
    if not quick:
        extra_lat += [('gauss', 192, 'equiangular_with_poles', 2, 0), ('equiangular', 2, 'gauss', 160, 0), ('equiangular', 1, 'equiangular', 1, 1),
                      ('gauss', 33, 'equiangular', 33, 0), ('equiangular', 64, 'equiangular', 64, 1)]
    for ks, ns, kt, nt, ident in extra_lat:
        ctx.count('lat:extra ' + ('identity' if ident else 'same count, other spacing' if ns == nt else 'size<=3' if min(ns, nt) <= 3 and max(ns, nt) < 90 else 'fine vs coarse'))
        yield 'lat', {'sx': lat_centres(ks, ns, rng), 'tx': lat_centres(kt, nt, rng), 'fseed': int(rng.integers(0, 2 ** 31)), 'identity': bool(ident)}
    # longitude: target = source, very fine vs very coarse, offsets >= one grid spacing / negative on both sides
    extra_lon = [(8, 0.3, 8, 0.3, 1), (3, -0.3, 3, -0.3, 1), (128, 0.0, 3, 0.05, 0), (3, 0.3, 128, -0.3, 0),
                 (8, 1.5 * PERIOD / 8, 6, 0.0, 0), (6, 0.0, 8, 1.5 * PERIOD / 8, 0), (12, -2.5 * PERIOD / 12, 5, -1.25 * PERIOD / 5, 0),
                 (5, 7.0, 12, 2 * PERIOD + 0.05, 0)]
    if not quick:
        extra_lon += [(256, 0.05, 3, 0.0, 0), (4, 0.0, 200, 7.0, 0), (48, 3.5 * PERIOD / 48, 48, 3.5 * PERIOD / 48, 1), (7, -PERIOD - 0.3, 9, -0.05, 0)]
    for ns, os_, nt, ot, ident in extra_lon:
        ctx.count('lon:extra ' + ('identity' if ident else 'fine vs coarse' if max(ns, nt) >= 100 else 'offset >= spacing / negative'))
        yield 'lon', {'sx': lon_centres('uniform', ns, os_, rng), 'tx': lon_centres('uniform', nt, ot, rng),
                      'fseed': int(rng.integers(0, 2 ** 31)), 'identity': bool(ident)}
    # longitude
    nlon = 16 if quick else 90
    for r in range(nlon):
        ns = int(sizes[int(rng.integers(0, len(sizes)))]); nt = int(sizes[int(rng.integers(0, len(sizes)))])
        offs = [0.0, 0.05, 0.3, math.pi / ns, -0.3, 7.0, -2 * math.pi, 0.05 - 4 * math.pi]
        os_ = offs[int(rng.integers(0, len(offs)))]; ot = [0.0, 0.05, 0.3, math.pi / nt, -0.3, 7.0][int(rng.integers(0, 6))]
        ks = 'random' if r % 4 == 3 and ns >= 5 else 'uniform'; kt = 'random' if r % 6 == 5 and nt >= 5 else 'uniform'
        if r == 0: ns, nt, os_, ot, ks, kt = 6, 4, 0.0, 0.0, 'uniform', 'uniform'   # the repo's own test case
        if r == 1: ns, nt, os_, ot, ks, kt = 4, 4, 0.0, 0.0, 'uniform', 'uniform'   # ties at period/2
        if r == 2: ns, nt, os_, ot, ks, kt = 8, 16, 0.3, 0.0, 'uniform', 'uniform'
        if r == 3: ns, nt, os_, ot, ks, kt = 12, 5, 0.05, math.pi / 5, 'uniform', 'uniform'
        if r in (4, 5, 6, 7) or (r > 7 and r % 5 == 0):     # wide cells: widths add up to more than period/2
            ns, nt = [(3, 3), (3, 4), (5, 3), (4, 3), (3, 8), (3, 5)][int(rng.integers(0, 6))] if r > 7 else [(3, 3), (3, 4), (5, 3), (3, 3)][r - 4]
            ks = 'random' if r == 7 else 'uniform'; kt = 'uniform'
            if r == 4: os_, ot = 0.0, 0.3
            ctx.count('lon:wide cells (width sum > period/2)')
        ctx.count('lon:' + ('coarser' if nt < ns else 'finer' if nt > ns else 'same')); ctx.count(f'lon:{ks}->{kt}')
        ctx.count('lon:offset=%s' % ('0' if os_ == ot else 'different'))
        yield 'lon', {'sx': lon_centres(ks, ns, os_, rng), 'tx': lon_centres(kt, nt, ot, rng), 'fseed': int(rng.integers(0, 2 ** 31))}
    # vertical weights on synthetic bounds (dyadic; target inside / overhanging / disjoint)
    nv = 14 if quick else 80
    for r in range(nv):
        m = int(rng.integers(1, 13)); n = int(rng.integers(1, 10))
        sb = np.cumsum(rng.integers(1, 9, size=m + 1)).astype(np.float64)
        mode = r % 4
        if mode == 0:   # same range
            tb = np.cumsum(np.concatenate([[0], rng.integers(1, 9, size=n)])).astype(np.float64)
            tb = sb[0] + (sb[-1] - sb[0]) * tb / tb[-1]
        elif mode == 1:  # target overhangs both ends (rows without overlap)
            tb = np.cumsum(rng.integers(1, 9, size=n + 1)).astype(np.float64) - 4.0
        elif mode == 2:  # target strictly inside
            tb = np.cumsum(np.concatenate([[0], rng.integers(1, 9, size=n)])).astype(np.float64)
            tb = sb[0] + 0.25 + (sb[-1] - sb[0] - 0.5) * tb / tb[-1]
        else:            # shares bounds with the source
            tb = np.unique(np.concatenate([sb[rng.integers(0, m + 1, size=n + 1)], [sb[0] - 1.0]]))
            if tb.size < 2: tb = np.array([sb[0] - 1.0, sb[-1]])
        ctx.count(f'vert:mode{mode}')
        yield 'vert', {'sb': (sb / 64).tolist(), 'tb': (tb / 64).tolist(), 'fseed': int(rng.integers(0, 2 ** 31))}
    # hybrid -> sigma
    hyb = ['ECMWF137', 'UFS127', 'synthetic']
    nh = 4 if quick else 12
    for r in range(nh):
        h = hyb[r % 3]
        K = [8, 12, 5, 20][r % 4] if not quick else [8, 8, 5, 8][r % 4]
        sig = util.uneven_boundaries(rng, K).tolist() if r % 2 else np.linspace(0, 1, K + 1).tolist()
        sp = (500.0 + 550.0 * rng.integers(0, 1025, size=(2, 2)) / 1024.0).tolist()
        if r == 0: sp = [[1013.25, 500.0], [1050.0, 777.5]]
        a = None
        if h == 'synthetic':
            m = 9; k = 4                                   # 10 bounds: pure pressure above, hybrid below
            up = np.concatenate([[0.0], np.cumsum(rng.integers(1, 40, size=k)).astype(np.float64)])   # strictly increasing, top = 0
            aa = np.concatenate([up, np.linspace(up[-1], 0.0, m + 1 - k)[1:]])
            bb = np.concatenate([np.zeros(k + 1), np.linspace(0.0, 1.0, m + 1 - k)[1:]])
            a = {'a': aa.tolist(), 'b': bb.tolist()}
        ctx.count('hybrid:' + h)
        yield 'hybrid', {'hyb': h, 'ab': a, 'sigma': sig, 'sp': sp, 'fseed': int(rng.integers(0, 2 ** 31))}
    # hybrid coordinates whose top boundary is at non-zero pressure, with thin top layers, onto sigma levels with
    # thin top layers (some target layers lie entirely above the source top: NaN rows); other array forms
    for r in range(2 if quick else 8):
        top = [1.0, 0.25, 5.0, 0.01][r % 4]
        aa = np.concatenate([top + np.array([0.0, 0.01, 0.03, 0.1, 1.0, 10.0, 60.0]), np.linspace(60.0 + top, 0.0, 6)[1:]])
        bb = np.concatenate([np.zeros(7), np.linspace(0.0, 1.0, 6)[1:]])
        sig = np.concatenate([[0.0, 0.0002, 0.0005, 0.002, 0.01], np.linspace(0.1, 1.0, 5)]).tolist()
        ctx.count('hybrid:top at non-zero pressure, thin top layers')
        yield 'hybrid', {'hyb': 'synthetic', 'ab': {'a': aa.tolist(), 'b': bb.tolist()}, 'sigma': sig,
                         'sp': (500.0 + 550.0 * rng.integers(0, 1025, size=(2, 2)) / 1024.0).tolist(),
                         'fseed': int(rng.integers(0, 2 ** 31)), 'forms': True}
    # batched hybrid -> sigma (leading axis on surface pressure and field)
    for r in range(2 if quick else 6):
        h = ['synthetic', 'UFS127', 'ECMWF137'][r % 3]
        a = None
        T = 10 if (h == 'synthetic' and not quick) else 2          # batch size = number of source layers
        if h == 'synthetic':
            up = np.concatenate([[0.0], np.cumsum(rng.integers(1, 40, size=4)).astype(np.float64)])
            a = {'a': np.concatenate([up, np.linspace(up[-1], 0.0, 6)[1:]]).tolist(),
                 'b': np.concatenate([np.zeros(5), np.linspace(0.0, 1.0, 6)[1:]]).tolist()}
        yield 'hybrid_batch', {'hyb': h, 'ab': a, 'sigma': util.uneven_boundaries(rng, 6).tolist(),
                               'sp': (500.0 + 550.0 * rng.integers(0, 1025, size=(T, 2, 2)) / 1024.0).tolist(),
                               'fseed': int(rng.integers(0, 2 ** 31))}
    # batched ConservativeRegridder: NaN pattern differs from slice to slice
    batch_pats = [['none', 'single', 'row', 'all'], ['single', 'none', 'blob', 'lonline'], ['all', 'none', 'single', 'row'],
                  ['row', 'row', 'none', 'single'], ['band', 'all', 'none', 'band']]
    for r in range(6 if quick else 30):
        small = r % 3 != 2 or r % 6 == 2
        lo = [3, 4, 5, 6, 8] if small else [8, 12, 16, 24]
        nls = int(lo[int(rng.integers(0, len(lo)))]); nlt = int(lo[int(rng.integers(0, len(lo)))])
        src = {'nlon': nls, 'nlat': max(2, nls // 2), 'spacing': SPACINGS[int(rng.integers(0, 3))], 'offset': [0.0, 0.05, 0.3][int(rng.integers(0, 3))]}
        tgt = {'nlon': nlt, 'nlat': max(2, nlt // 2), 'spacing': SPACINGS[int(rng.integers(0, 3))], 'offset': [0.0, 0.05, 0.3][int(rng.integers(0, 3))]}
        lead = [[4], [2, 2], ['nlon'], [1, 2, 1], [1], [2, 3]][r % 6]          # 'nlon': batch size = number of longitudes
        ctx.count('batch:lead=%s' % lead); ctx.count('batch:' + ('model+oracle' if small else 'oracle-only'))
        for skipna in (0, 1):
            yield 'regrid_batch', {'src': src, 'tgt': tgt, 'skipna': skipna, 'lead': lead, 'patterns': batch_pats[r % 5],
                                   'model': bool(small), 'fseed': int(rng.integers(0, 2 ** 31))}
    # full ConservativeRegridder
    n2 = 12 if quick else 60
    pats = ['none', 'single', 'row', 'all', 'blob', 'lonline', 'band']
    fkinds = ['random', 'random', 'integer', 'delta', 'zonal', 'zero']
    def offs(n): return [0.0, 0.05, 0.3, math.pi / n, -0.3, 1.5 * PERIOD / n, 7.0, -PERIOD - 0.1]
    for r in range(n2):
        small = (r % 2 == 0) or not quick and r % 3 == 0
        lo = [3, 4, 5, 6, 8] if small else [3] + [s for s in sizes if s <= smax]
        nls = int(lo[int(rng.integers(0, len(lo)))]); nlt = int(lo[int(rng.integers(0, len(lo)))])
        nas = int(rng.integers(max(2, nls // 2 - 1), nls // 2 + 2)); nat_ = int(rng.integers(max(2, nlt // 2 - 1), nlt // 2 + 2))
        src = {'nlon': nls, 'nlat': nas, 'spacing': SPACINGS[int(rng.integers(0, 3))], 'offset': offs(nls)[int(rng.integers(0, 8))]}
        tgt = {'nlon': nlt, 'nlat': nat_, 'spacing': SPACINGS[int(rng.integers(0, 3))], 'offset': offs(nlt)[int(rng.integers(0, 8))]}
        pat = pats[(r // 2) % len(pats)]
        fk = fkinds[r % len(fkinds)] if pat in ('none', 'single') else 'random'
        ctx.count('2d:pattern=' + pat); ctx.count('2d:' + ('model+oracle' if small else 'oracle-only')); ctx.count('2d:field=' + fk)
        ctx.count('2d:%s->%s' % (src['spacing'], tgt['spacing']))
        ctx.count('2d:source offset ' + ('negative' if src['offset'] < 0 else '>= spacing' if src['offset'] >= PERIOD / nls else 'small'))
        for skipna in (0, 1):
            yield 'regrid2d', {'src': src, 'tgt': tgt, 'skipna': skipna, 'pattern': pat, 'model': bool(small), 'fkind': fk,
                               'forms': bool(r % 3 == 0), 'fseed': int(rng.integers(0, 2 ** 31))}
    # target = source; equal node counts with different latitude spacing; tall / wide; very fine vs very coarse
    special = [({'nlon': 6, 'nlat': 3, 'spacing': 'gauss', 'offset': 0.3}, None, 1, True),
               ({'nlon': 16, 'nlat': 8, 'spacing': 'equiangular_with_poles', 'offset': -0.3}, None, 1, False),
               ({'nlon': 8, 'nlat': 4, 'spacing': 'gauss', 'offset': 0.0}, {'nlon': 8, 'nlat': 4, 'spacing': 'equiangular', 'offset': 0.0}, 0, True),
               ({'nlon': 8, 'nlat': 4, 'spacing': 'equiangular', 'offset': 0.05}, {'nlon': 8, 'nlat': 4, 'spacing': 'equiangular_with_poles', 'offset': 1.5 * PERIOD / 8}, 0, True),
               ({'nlon': 128, 'nlat': 4, 'spacing': 'gauss', 'offset': 0.0}, {'nlon': 4, 'nlat': 64, 'spacing': 'equiangular', 'offset': 0.05}, 0, False),
               ({'nlon': 64, 'nlat': 32, 'spacing': 'gauss', 'offset': 0.0}, {'nlon': 3, 'nlat': 2, 'spacing': 'equiangular', 'offset': 0.3}, 0, False),
               ({'nlon': 3, 'nlat': 1, 'spacing': 'equiangular', 'offset': 0.0}, {'nlon': 48, 'nlat': 24, 'spacing': 'gauss', 'offset': -0.3}, 0, False)]
    if not quick:
        special += [({'nlon': 256, 'nlat': 2, 'spacing': 'equiangular', 'offset': 0.0}, {'nlon': 3, 'nlat': 128, 'spacing': 'gauss', 'offset': 7.0}, 0, False),
                    ({'nlon': 192, 'nlat': 96, 'spacing': 'gauss', 'offset': 0.0}, {'nlon': 4, 'nlat': 2, 'spacing': 'equiangular_with_poles', 'offset': 0.0}, 0, False),
                    ({'nlon': 5, 'nlat': 3, 'spacing': 'gauss', 'offset': 0.0}, {'nlon': 160, 'nlat': 80, 'spacing': 'equiangular', 'offset': 0.05}, 0, False),
                    ({'nlon': 48, 'nlat': 24, 'spacing': 'equiangular', 'offset': 7.0}, None, 1, False)]
    for k, (src, tgt, ident, model) in enumerate(special):
        tgt = dict(src) if tgt is None else tgt
        ctx.count('2d:special ' + ('identity' if ident else 'same count, other spacing' if src['nlat'] == tgt['nlat'] and src['nlon'] == tgt['nlon'] else 'tall/wide/fine vs coarse'))
        for skipna, pat in (((0, 'none'), (1, 'band')) if quick else ((0, 'none'), (1, 'band'), (0, 'single'), (1, 'row'))):
            yield 'regrid2d', {'src': src, 'tgt': tgt, 'skipna': skipna, 'pattern': pat, 'model': bool(model), 'fkind': 'random',
                               'identity': bool(ident), 'forms': k == 0, 'fseed': int(rng.integers(0, 2 ** 31))}
    # NEAR-COINCIDENCE: interfaces equal to within 1e-5 .. 1e-12 relative but not equal (both signs)
    GAPS = [1e-5, 1e-7, 1e-9, 1e-12]
    #  (a) vertical weights on synthetic bounds: every target interface is a source interface times (1 +- gap)
    for r in range(4 if quick else 16):
        m = int(rng.integers(3, 10))
        sb = np.cumsum(rng.integers(1, 9, size=m + 1)).astype(np.float64) / 64
        pick = np.unique(np.concatenate([[0, m], rng.integers(0, m + 1, size=4)]))
        sgn = rng.choice([-1.0, 1.0], size=pick.size); gp = np.array([GAPS[(r + i) % 4] for i in range(pick.size)])
        tb = sb[pick] * (1 + sgn * gp)
        ctx.count('near-coincidence: vertical bounds')
        yield 'vert', {'sb': sb.tolist(), 'tb': tb.tolist(), 'fseed': int(rng.integers(0, 2 ** 31))}
    #  (b) hybrid -> sigma: sigma interfaces are hybrid interfaces at sp0, columns at sp0 * (1 +- gap)
    near_h = [('ECMWF137', [40, 60, 75, 90, 105, 120]), ('UFS127', [30, 55, 70, 85, 100, 115]), ('synthetic', [2, 3, 5, 7])]
    for r, (hname, ks) in enumerate(near_h if quick else near_h * 3):
        sp0 = [1000.0, 850.0, 1013.25][r % 3] + (0.0 if r < 3 else float(rng.integers(-100, 100)))
        sg = rng.choice([-1.0, 1.0], size=4)
        sp = (sp0 * (1 + sg * np.array(GAPS if r % 2 == 0 else GAPS[::-1]))).reshape(2, 2)
        ab = None
        if hname == 'synthetic':
            up = np.concatenate([[0.0], np.cumsum(rng.integers(1, 40, size=4)).astype(np.float64)])
            ab = {'a': np.concatenate([up, np.linspace(up[-1], 0.0, 6)[1:]]).tolist(), 'b': np.concatenate([np.zeros(5), np.linspace(0.0, 1.0, 6)[1:]]).tolist()}
        ctx.count('near-coincidence: hybrid vs sigma interfaces')
        yield 'hybrid', {'hyb': hname, 'ab': ab, 'sigma': [0.0, 1.0], 'sigma_near': {'sp0': sp0, 'ks': ks}, 'sp': sp.tolist(),
                         'fseed': int(rng.integers(0, 2 ** 31))}
    #  (c) nearly identical latitude grids (spacing / node positions perturbed) and longitude grids (tiny offsets)
    for r in range(6 if quick else 24):
        gp = GAPS[r % 4]; sg = [-1.0, 1.0][(r // 4) % 2]
        n = [8, 12, 6, 16, 5, 24][r % 6]
        base = np.asarray(lat_centres(['equiangular', 'gauss', 'equiangular_with_poles'][r % 3], n, rng))
        if r % 2 == 0: tx = base * (1 + sg * gp)                      # spacing perturbed
        else: tx = base + sg * gp * np.where(np.arange(n) % 2 == 0, 1.0, -0.5) * (np.abs(base) < 1.5)   # nodes jittered
        ctx.count('near-coincidence: latitude grids')
        yield 'lat', {'sx': base.tolist(), 'tx': np.clip(tx, -HPI, HPI).tolist(), 'fseed': int(rng.integers(0, 2 ** 31))}
        ns = [8, 64, 5, 16, 3, 32][r % 6]
        ctx.count('near-coincidence: longitude grids')
        yield 'lon', {'sx': lon_centres('uniform', ns, 0.3, rng), 'tx': lon_centres('uniform', ns, 0.3 + sg * gp * (1.0 if r % 2 else PERIOD / ns), rng),
                      'fseed': int(rng.integers(0, 2 ** 31))}
    # small valid fractions under skipna=True: strong coarsening with (almost) everything NaN, and nearly aligned grids
    # where the only valid neighbour of a target cell is a sliver overlap
    tiny = [({'nlon': 128, 'nlat': 64, 'spacing': 'gauss', 'offset': 0.0}, {'nlon': 4, 'nlat': 2, 'spacing': 'equiangular', 'offset': 0.05}, 'inv:single', False),
            ({'nlon': 128, 'nlat': 64, 'spacing': 'equiangular', 'offset': 0.3}, {'nlon': 3, 'nlat': 2, 'spacing': 'gauss', 'offset': 0.0}, 'isolated', False),
            ({'nlon': 64, 'nlat': 4, 'spacing': 'gauss', 'offset': 0.0}, {'nlon': 64, 'nlat': 4, 'spacing': 'gauss', 'offset': 1e-3}, 'inv:lonline', False),
            ({'nlon': 64, 'nlat': 4, 'spacing': 'gauss', 'offset': 4e-5}, {'nlon': 64, 'nlat': 4, 'spacing': 'gauss', 'offset': 0.0}, 'inv:lonline', False),
            ({'nlon': 64, 'nlat': 3, 'spacing': 'equiangular', 'offset': 0.0}, {'nlon': 64, 'nlat': 3, 'spacing': 'equiangular', 'offset': 3e-7}, 'inv:lonline', False),
            ({'nlon': 32, 'nlat': 3, 'spacing': 'equiangular', 'offset': 1e-8}, {'nlon': 32, 'nlat': 3, 'spacing': 'equiangular', 'offset': 0.0}, 'inv:lonline', False),
            ({'nlon': 8, 'nlat': 4, 'spacing': 'gauss', 'offset': 0.0}, {'nlon': 8, 'nlat': 4, 'spacing': 'gauss', 'offset': 4e-5}, 'inv:single', True),
            ({'nlon': 4, 'nlat': 32, 'spacing': 'gauss', 'offset': 0.0}, {'nlon': 4, 'nlat': 32, 'spacing': 'equiangular', 'offset': 0.0}, 'inv:row', False),
            ({'nlon': 4, 'nlat': 64, 'spacing': 'equiangular', 'offset': 0.0}, {'nlon': 4, 'nlat': 64, 'spacing': 'gauss', 'offset': 0.0}, 'inv:row', False)]
    if not quick:
        tiny += [({'nlon': 256, 'nlat': 128, 'spacing': 'gauss', 'offset': 0.0}, {'nlon': 8, 'nlat': 4, 'spacing': 'gauss', 'offset': 0.0}, 'isolated', False),
                 ({'nlon': 256, 'nlat': 128, 'spacing': 'gauss', 'offset': 0.0}, {'nlon': 8, 'nlat': 4, 'spacing': 'equiangular', 'offset': 0.3}, 'inv:single', False),
                 ({'nlon': 192, 'nlat': 96, 'spacing': 'equiangular', 'offset': 0.05}, {'nlon': 5, 'nlat': 3, 'spacing': 'gauss', 'offset': 0.0}, 'isolated', False),
                 ({'nlon': 128, 'nlat': 2, 'spacing': 'gauss', 'offset': 2e-4}, {'nlon': 128, 'nlat': 2, 'spacing': 'gauss', 'offset': 0.0}, 'inv:lonline', False),
                 ({'nlon': 16, 'nlat': 48, 'spacing': 'gauss', 'offset': 1e-5}, {'nlon': 16, 'nlat': 48, 'spacing': 'equiangular', 'offset': 0.0}, 'inv:single', False)]
    for src, tgt, pat, model in tiny:
        ctx.count('2d:tiny valid fraction ' + pat)
        for rep in range(2 if quick else 4):
            for skipna in (1, 0):
                if skipna == 0 and rep: continue
                yield 'regrid2d', {'src': src, 'tgt': tgt, 'skipna': skipna, 'pattern': pat, 'model': bool(model), 'fkind': 'random',
                                   'fseed': int(rng.integers(0, 2 ** 31))}
    # configurations differing in one field, evaluated in both orders in one process
    for r in range(2 if quick else 6):
        nl = [6, 8, 5, 12][r % 4]
        src = {'nlon': nl, 'nlat': nl // 2, 'spacing': SPACINGS[r % 3], 'offset': 0.0}
        tgt = {'nlon': [4, 5, 9][r % 3], 'nlat': 3, 'spacing': SPACINGS[(r + 1) % 3], 'offset': 0.05}
        yield 'static_pairs', {'src': src, 'tgt': tgt, 'offset2': [0.3, -0.3, 1.5 * PERIOD / nl][r % 3], 'spacing2': SPACINGS[(r + 2) % 3],
                               'order': [int(v) for v in rng.permutation(6)], 'fseed': int(rng.integers(0, 2 ** 31))}


# ---------------------------------------------------------------------------
def _field(seed, shape, lo=-16, hi=16):
    r = np.random.Generator(np.random.PCG64(seed))
    return r.integers(lo, hi + 1, size=shape).astype(np.float64) / 8


def _weight_oracles(ctx, what, w, tol=1e-11):
    ctx.oracle(f'{what}: weights are non-negative', bool(np.all(w >= 0)), {'min': float(np.nanmin(w)) if w.size else 0})
    ctx.oracle_close(f'{what}: rows sum to one', w.sum(axis=1), np.ones(w.shape[0]), scale=1.0)


def _apply_oracles(ctx, what, w, x, mt, ms, out=None):
    """w (target, source), field x (source,), cell measures mt, ms."""
    if out is None: out = w @ x
    c = 3.25
    ctx.oracle_close(f'{what}: constants are reproduced', w @ np.full(x.shape, c), np.full(w.shape[0], c), scale=c)
    eps = 1e-11 * max(1.0, float(np.abs(x).max()))
    ctx.oracle(f'{what}: output within [min,max] of the input', bool(np.all(out >= x.min() - eps) and np.all(out <= x.max() + eps)),
               {'min_in': float(x.min()), 'max_in': float(x.max()), 'min_out': float(out.min()), 'max_out': float(out.max())})
    scale = float(np.abs(ms).sum() * max(np.abs(x).max(), 1e-300))
    ctx.oracle_close(f'{what}: weighted integral is conserved', [float(mt @ out)], [float(ms @ x)], scale=scale)


def r_align(ctx, a):
    jnp, hi, vi, sh, sc = J()
    v = float(hi._align_phase_with(a['x'], a['t'], a['p']))
    ctx.corr('_align_phase_with', [v], ctx.model.call(3, [], [[a['x'], a['t'], a['p']]]), scale=max(abs(a['x']), a['p']))
    k = round((v - a['x']) / a['p'])
    ctx.oracle('_align_phase_with returns x shifted by at most one period, nearest to the target among those',
               abs(v - (a['x'] + k * a['p'])) < 1e-12 and k in (-1, 0, 1)
               and all(abs(v - a['t']) <= abs(a['x'] + s * a['p'] - a['t']) + 1e-12 for s in (-1, 0, 1)), {'v': v})


def r_pov(ctx, a):
    jnp, hi, vi, sh, sc = J()
    x0, x1, y0, y1, P = a['x0'], a['x1'], a['y0'], a['y1'], a['p']
    v = float(hi._periodic_overlap(x0, x1, y0, y1, P))
    ctx.corr('_periodic_overlap', [v], ctx.model.call(11, [], [[x0, x1, y0, y1, P]]), scale=P)
    true = sum(max(min(x1, y1 + k * P) - max(x0, y0 + k * P), 0.0) for k in range(-4, 5))
    ctx.oracle_close('_periodic_overlap is the overlap with all periodic images (widths <= period)', [v], [true], scale=P)


def r_lat(ctx, a):
    jnp, hi, vi, sh, sc = J()
    sx = np.asarray(a['sx'], dtype=np.float64); tx = np.asarray(a['tx'], dtype=np.float64)
    m, n = sx.size, tx.size
    sb = np.asarray(hi._latitude_cell_bounds(sx)); tb = np.asarray(hi._latitude_cell_bounds(tx))
    ss = np.asarray(jnp.sin(sb)); st = np.asarray(jnp.sin(tb))
    ctx.corr('_latitude_cell_bounds(source)', sb, ctx.model.call(0, [m], [sx, [HPI]]), scale=2.0)
    ctx.corr('_latitude_cell_bounds(target)', tb, ctx.model.call(0, [n], [tx, [HPI]]), scale=2.0)
    # table obligations = hypotheses of the latitude theorems about the sin tables
    allb = np.concatenate([tb, sb]); alls = np.concatenate([st, ss]); o = np.argsort(allb, kind='stable')
    mono = bool(np.all(np.diff(alls[o]) >= 0)) and all(alls[i] == alls[j] for i, j in zip(o[:-1], o[1:]) if allb[i] == allb[j])
    ctx.table_obligation('H_sin_mono: sin table is monotone on the union of the cell bounds', mono)
    ctx.table_obligation('H_st_incr: sin of the target bounds strictly increasing', bool(np.all(np.diff(st) > 0)))
    ctx.table_obligation('H_ss_incr: sin of the source bounds increasing', bool(np.all(np.diff(ss) >= 0)))
    ctx.table_obligation('H_ends: sin tables share their end points', bool(st[0] == ss[0] and st[-1] == ss[-1]))
    ov = np.asarray(hi._latitude_overlap(sx, tx))
    ctx.corr('_latitude_overlap', ov, ctx.model.call(1, [n, m], [tx, sx, st, ss, [HPI]]), scale=2.0)
    w = np.asarray(hi.conservative_latitude_weights(sx, tx))
    mw = ctx.model.call(2, [n, m], [tx, sx, st, ss, [HPI]])
    ctx.corr('conservative_latitude_weights', w, mw[:n * m] if mw else None, scale=1.0)
    ctx.exact('conservative_latitude_weights shape', list(w.shape), [n, m])
    _weight_oracles(ctx, 'latitude', w)
    x = _field(a['fseed'], (m,))
    rw, mt, ms = ref_lat_weights(sx, tx)                      # independent of the implementation
    ctx.oracle_close('latitude: weights equal the area fractions computed independently', w, rw, scale=1.0)
    _apply_oracles(ctx, 'latitude', w, x, mt, ms)
    ctx.oracle_close('latitude: overlaps of a target cell add up to its sin-measure', ov.sum(axis=1), mt, scale=2.0)
    ctx.oracle_close('latitude: overlaps of a source cell add up to its sin-measure', ov.sum(axis=0), ms, scale=2.0)
    wj = np.asarray(hi.conservative_latitude_weights(jnp.asarray(sx), jnp.asarray(tx)))
    ctx.oracle('latitude: jax-array and numpy-array inputs give identical weights', bool(np.array_equal(w, wj)))
    if a.get('identity'):
        ctx.oracle_close('latitude: target = source gives the identity matrix', w, np.eye(n), scale=1.0)


def _lon_cells(hi, x):
    p = np.asarray(x) % PERIOD
    return p, np.asarray(hi._periodic_lower_bounds(p, PERIOD)), np.asarray(hi._periodic_upper_bounds(p, PERIOD))


def _lon_obligations(ctx, x):
    """hypotheses of C16_longitude_points_cyclic / C16_longitude_partition on the implementation's points"""
    x = np.asarray(x, dtype=np.float64); n = x.size
    gaps = np.concatenate([np.diff(x), [x[0] + PERIOD - x[-1]]])
    ctx.table_obligation('H_lon_gaps: longitudes strictly increasing with all cyclic gaps in (0, period/2)',
                         bool(np.all(gaps > 0) and np.all(gaps < PERIOD / 2)), {'gaps': [float(gaps.min()), float(gaps.max())]})
    p = x % PERIOD
    d = np.roll(p, -1) - p
    g = np.where(d > 0, d, d + PERIOD)
    ctx.table_obligation('H_lon_cyclic: reduced points in [0,period) advance cyclically by steps in (0, period/2), once around',
                         bool(np.all(p >= 0) and np.all(p < PERIOD) and np.all(g > 0) and np.all(g < PERIOD / 2)
                              and abs(g.sum() - PERIOD) < 1e-9), {'sum': float(g.sum())})


def r_lon(ctx, a):
    jnp, hi, vi, sh, sc = J()
    sx = np.asarray(a['sx'], dtype=np.float64); tx = np.asarray(a['tx'], dtype=np.float64)
    m, n = sx.size, tx.size
    _lon_obligations(ctx, sx); _lon_obligations(ctx, tx)
    kt, ks = kfloor(tx), kfloor(sx)
    for nm, x, k in (('source', sx, ks), ('target', tx, kt)):
        p, lo, up = _lon_cells(hi, x)
        mm = ctx.model.call(4, [x.size] + k, [x, [PERIOD]])
        ctx.exact(f'points % period witnesses valid ({nm})', [1], [int(mm[0])] if mm else None)
        ctx.corr(f'points % period / _periodic_lower_bounds / _periodic_upper_bounds ({nm})', np.concatenate([p, lo, up]),
                 mm[1:] if mm else None, scale=PERIOD)
    ov = np.asarray(hi._longitude_overlap(tx, sx))
    ctx.corr('_longitude_overlap', ov, ctx.model.call(5, [n, m] + kt + ks, [tx, sx, [PERIOD]]), scale=PERIOD)
    w = np.asarray(hi.conservative_longitude_weights(sx, tx))
    mw = ctx.model.call(6, [n, m] + kt + ks, [tx, sx, [PERIOD]])
    ctx.corr('conservative_longitude_weights', w, mw[:n * m] if mw else None, scale=1.0)
    ctx.exact('conservative_longitude_weights shape', list(w.shape), [n, m])
    _weight_oracles(ctx, 'longitude', w)
    _, islo, isup = _lon_cells(hi, sx); _, itlo, itup = _lon_cells(hi, tx)
    rw, mt, ms = ref_lon_weights(sx, tx)                      # independent of the implementation
    ctx.oracle_close('longitude: cell widths equal those of the cyclically sorted points', np.concatenate([isup - islo, itup - itlo]),
                     np.concatenate([ms, mt]), scale=PERIOD)
    ctx.oracle_close('longitude: weights equal the overlap fractions computed independently', w, rw, scale=1.0)
    x = _field(a['fseed'], (m,))
    _apply_oracles(ctx, 'longitude', w, x, mt, ms)
    ctx.oracle_close('longitude: cells partition the circle', [float(ms.sum()), float(mt.sum())], [PERIOD, PERIOD], scale=PERIOD)
    ctx.oracle_close('longitude: overlaps of a target cell add up to its width', ov.sum(axis=1), mt, scale=PERIOD)
    ctx.oracle_close('longitude: overlaps of a source cell add up to its width', ov.sum(axis=0), ms, scale=PERIOD)
    wj = np.asarray(hi.conservative_longitude_weights(jnp.asarray(sx), jnp.asarray(tx)))
    ctx.oracle('longitude: jax-array and numpy-array inputs give identical weights', bool(np.array_equal(w, wj)))
    if a.get('identity'):
        ctx.oracle_close('longitude: target = source gives the identity matrix', w, np.eye(n), scale=1.0)


def r_coarse_lon(ctx, a):
    """Three-cell longitude grids (cells period/3 wide; two widths add up to more than
    period/2): the former failing input of _periodic_overlap.  Model = implementation,
    and the partition identity of theorem C16_longitude_coarse_conserves holds."""
    jnp, hi, vi, sh, sc = J()
    P = a['period']; sx = np.asarray(a['sx']); tx = np.asarray(a['tx'])
    ov = np.asarray(hi._longitude_overlap(tx, sx, period=P))
    mo = ctx.model.call(5, [3, 3, 0, 0, 0, 0, 0, 0], [tx, sx, [P]])
    ctx.corr('_longitude_overlap (3 x 3 wide cells)', ov, mo, scale=P)
    slo = np.asarray(hi._periodic_lower_bounds(sx, P)); sup = np.asarray(hi._periodic_upper_bounds(sx, P))
    tlo = np.asarray(hi._periodic_lower_bounds(tx, P)); tup = np.asarray(hi._periodic_upper_bounds(tx, P))
    ctx.oracle_close('longitude: overlaps of a source cell add up to its width', ov.sum(axis=0), sup - slo, scale=P)
    ctx.oracle_close('longitude: overlaps of a target cell add up to its width', ov.sum(axis=1), tup - tlo, scale=P)
    ctx.exact('model: column/row sums of the 3x3 witness', [str(sum(mo[j::3])) for j in range(3)] + [str(sum(mo[3 * i:3 * i + 3])) for i in range(3)], ['4'] * 6)


def _ov1(lo1, hi1, lo2, hi2):
    return np.maximum(np.minimum(hi1, hi2) - np.maximum(lo1, lo2), 0)


def _vert_oracles(ctx, what, w, sb, tb, x, out):
    n, m = w.shape
    cov = _ov1(tb[:-1], tb[1:], sb[0], sb[-1])            # covered thickness of each target layer
    hit = cov > 0
    ctx.oracle(f'{what}: weights are non-negative', bool(np.all(w[hit] >= 0)))
    ctx.oracle(f'{what}: a row is NaN exactly when the target layer misses the source range',
               bool(np.all(np.isnan(w[~hit])) and not np.any(np.isnan(w[hit]))), {'hit': hit.tolist()})
    if hit.any():
        ctx.oracle_close(f'{what}: rows sum to one', w[hit].sum(axis=1), np.ones(int(hit.sum())), scale=1.0)
        eps = 1e-11 * max(1.0, float(np.abs(x).max()))
        ctx.oracle(f'{what}: output within [min,max] of the input',
                   bool(np.all(out[hit] >= x.min() - eps) and np.all(out[hit] <= x.max() + eps)))
        ctx.oracle_close(f'{what}: constants are reproduced', w[hit] @ np.full(m, 2.5), np.full(int(hit.sum()), 2.5), scale=2.5)
        lhs = float(cov[hit] @ out[hit])
        rhs = float(_ov1(sb[:-1], sb[1:], tb[0], tb[-1]) @ x)
        ctx.oracle_close(f'{what}: thickness-weighted integral over the covered range is conserved', [lhs], [rhs],
                         scale=float((sb[-1] - sb[0]) * max(np.abs(x).max(), 1e-300)))


def r_vert(ctx, a):
    jnp, hi, vi, sh, sc = J()
    sb = np.asarray(a['sb'], dtype=np.float64); tb = np.asarray(a['tb'], dtype=np.float64)
    m, n = sb.size - 1, tb.size - 1
    ov = np.asarray(vi._interval_overlap(sb, tb))
    ctx.corr('_interval_overlap', ov, ctx.model.call(7, [n, m], [sb, tb]), scale=float(sb[-1] - sb[0]))
    w = np.asarray(vi.conservative_regrid_weights(sb, tb))
    mw = ctx.model.call(8, [n, m], [sb, tb])
    ctx.exact('conservative_regrid_weights shape', list(w.shape), [n, m])
    if mw is None:
        ctx.corr('conservative_regrid_weights', w, None); return
    tot = mw[n * m:]
    nanrow = np.isnan(w).all(axis=1)
    ctx.exact('conservative_regrid_weights: NaN rows = rows with zero total overlap', nanrow.astype(int).tolist(),
              [int(t == 0) for t in tot])
    ctx.corr('conservative_regrid_weights', np.where(nanrow[:, None], 0.0, w), mw[:n * m], scale=1.0)
    x = _field(a['fseed'], (m,))
    out = np.where(nanrow, np.nan, np.where(nanrow[:, None], 0.0, w) @ x)
    _vert_oracles(ctx, 'vertical', w, sb, tb, x, out)


_hyb = {}
def _hybrid(a):
    jnp, hi, vi, sh, sc = J()
    key = a['hyb'] if a['hyb'] != 'synthetic' else repr(a['ab'])
    if key not in _hyb:
        if a['hyb'] == 'synthetic':
            _hyb[key] = vi.HybridCoordinates(np.asarray(a['ab']['a'], dtype=np.float64), np.asarray(a['ab']['b'], dtype=np.float64))
        else:
            try:
                _hyb[key] = getattr(vi.HybridCoordinates, a['hyb'])()
            except Exception:
                _hyb[key] = None
    return _hyb[key]


def r_hybrid(ctx, a):
    jnp, hi, vi, sh, sc = J()
    h = _hybrid(a)
    if h is None:
        ctx.count('hybrid:unavailable:' + a['hyb']); return
    sigma = a['sigma']
    if a.get('sigma_near'):      # sigma interfaces = hybrid interfaces k at the reference pressure sp0 (near-coincidence at sp0*(1 +- gap))
        ha = np.asarray(h.a_boundaries, dtype=np.float64); hb_ = np.asarray(h.b_boundaries, dtype=np.float64)
        vals_ = [float(ha[k] / a['sigma_near']['sp0'] + hb_[k]) for k in a['sigma_near']['ks']]
        sigma = sorted(set([0.0, 1.0] + [v for v in vals_ if 1e-6 < v < 1 - 1e-6]))
    sig = sc.SigmaCoordinates(np.asarray(sigma, dtype=np.float64))
    sp = np.asarray(a['sp'], dtype=np.float64)
    m, n = h.layers, sig.layers
    x = _field(a['fseed'], (m,) + sp.shape, 200 * 8, 300 * 8)
    out = np.asarray(vi.regrid_hybrid_to_sigma(jnp.asarray(x), h, sig, jnp.asarray(sp)))
    ctx.exact('regrid_hybrid_to_sigma shape', list(out.shape), [n] + list(sp.shape))
    if a.get('forms'):
        same = lambda o: bool(np.array_equal(np.isnan(np.asarray(o)), np.isnan(out)) and
                              np.allclose(np.nan_to_num(np.asarray(o, dtype=np.float64)), np.nan_to_num(out), rtol=0, atol=1e-9))
        ctx.oracle('hybrid->sigma: float32 field gives the float64 result', same(vi.regrid_hybrid_to_sigma(jnp.asarray(x, dtype=jnp.float32), h, sig, jnp.asarray(sp))))
        d = vi.regrid_hybrid_to_sigma({'t': jnp.asarray(x), 'u': jnp.asarray(2 * x), 's': 3.0}, h, sig, jnp.asarray(sp))
        ctx.oracle('hybrid->sigma: pytrees are regridded leaf by leaf, scalars untouched', same(d['t']) and d['s'] == 3.0 and
                   bool(np.allclose(np.nan_to_num(np.asarray(d['u'])), 2 * np.nan_to_num(out), rtol=0, atol=1e-9)))
        ctx.oracle('hybrid->sigma: vertical ConservativeRegridder class = regrid_hybrid_to_sigma', same(vi.ConservativeRegridder(h, sig)(jnp.asarray(x), jnp.asarray(sp))))
        ctx.oracle('hybrid->sigma: repeated calls are bit-identical', bool(np.array_equal(np.asarray(vi.regrid_hybrid_to_sigma(jnp.asarray(x), h, sig, jnp.asarray(sp))), out, equal_nan=True)))
    tb = np.asarray(sig.boundaries, dtype=np.float64)
    for idx in np.ndindex(sp.shape):
        hb = np.asarray(h.get_sigma_boundaries(sp[idx]))
        ctx.table_obligation('H_hybrid_incr: hybrid bounds a/sp+b strictly increasing at this surface pressure',
                             bool(np.all(np.diff(hb) > 0)), {'sp': float(sp[idx])})
        col = x[(slice(None),) + idx]; ocol = out[(slice(None),) + idx]
        mm = ctx.model.call(9, [n, m], [h.a_boundaries, h.b_boundaries, [sp[idx]], tb, col])
        if mm is None:
            ctx.corr('regrid_hybrid_to_sigma', ocol, None); continue
        ctx.corr('HybridCoordinates.get_sigma_boundaries', hb, mm[:m + 1], scale=1.0)
        tot = mm[m + 1 + n:]
        nanrow = np.isnan(ocol)
        ctx.exact('regrid_hybrid_to_sigma: NaN layers = layers with zero total overlap', nanrow.astype(int).tolist(), [int(t == 0) for t in tot])
        ctx.corr('regrid_hybrid_to_sigma', np.where(nanrow, 0.0, ocol), mm[m + 1:m + 1 + n], scale=float(np.abs(col).max()))
        w = np.asarray(vi.conservative_regrid_weights(hb, tb))
        hbr = np.asarray(h.a_boundaries, dtype=np.float64) / float(sp[idx]) + np.asarray(h.b_boundaries, dtype=np.float64)   # a/sp + b, independently
        ctx.oracle_close('hybrid bounds are a/sp + b', hb, hbr, scale=1.0)
        _vert_oracles(ctx, 'hybrid->sigma', w, hbr, tb, col, ocol)
        cov = _ov1(tb[:-1], tb[1:], hbr[0], hbr[-1])
        ctx.oracle('hybrid->sigma: an output layer is NaN exactly when it misses the source range', bool(np.array_equal(np.isnan(ocol), cov == 0)),
                   {'nan': np.isnan(ocol).astype(int).tolist(), 'missed': (cov == 0).astype(int).tolist()})
        ctx.count('hybrid:' + ('some target layers miss the source range (NaN)' if np.any(cov == 0) else 'all target layers hit the source range'))
        ctx.count('hybrid:' + ('fully covered' if np.all(cov == np.diff(tb)) else 'partially covered'))


def r_hybrid_batch(ctx, a):
    """regrid_hybrid_to_sigma with a leading batch axis on both surface pressure and field:
    every batch entry equals the unbatched call."""
    jnp, hi, vi, sh, sc = J()
    h = _hybrid(a)
    if h is None:
        ctx.count('hybrid:unavailable:' + a['hyb']); return
    sig = sc.SigmaCoordinates(np.asarray(a['sigma'], dtype=np.float64))
    sp = np.asarray(a['sp'], dtype=np.float64)           # (T, x, y)
    T = sp.shape[0]; m, n = h.layers, sig.layers
    x = _field(a['fseed'], (T, m) + sp.shape[1:], 200 * 8, 300 * 8)
    try:
        out = np.asarray(vi.regrid_hybrid_to_sigma(jnp.asarray(x), h, sig, jnp.asarray(sp)))
    except Exception as e:
        ctx.count('hybrid_batch: leading axes not accepted (%s)' % type(e).__name__); return
    ctx.exact('regrid_hybrid_to_sigma batched shape', list(out.shape), [T, n] + list(sp.shape[1:]))
    tb = np.asarray(sig.boundaries, dtype=np.float64)
    for t in range(T):
        one = np.asarray(vi.regrid_hybrid_to_sigma(jnp.asarray(x[t]), h, sig, jnp.asarray(sp[t])))
        ctx.oracle('hybrid->sigma: leading axes are regridded independently (NaN placement)',
                   bool(np.array_equal(np.isnan(out[t]), np.isnan(one))))
        ctx.oracle_close('hybrid->sigma: leading axes are regridded independently (values)', np.nan_to_num(out[t]), np.nan_to_num(one),
                         scale=float(np.abs(x).max()))
        for idx in np.ndindex(sp.shape[1:]):
            col = x[(t, slice(None)) + idx]; ocol = out[(t, slice(None)) + idx]
            mm = ctx.model.call(9, [n, m], [h.a_boundaries, h.b_boundaries, [sp[(t,) + idx]], tb, col])
            if mm is None:
                ctx.corr('regrid_hybrid_to_sigma (batched)', ocol, None); continue
            nanrow = np.isnan(ocol)
            ctx.exact('regrid_hybrid_to_sigma (batched): NaN layers', nanrow.astype(int).tolist(), [int(v == 0) for v in mm[m + 1 + n:]])
            ctx.corr('regrid_hybrid_to_sigma (batched)', np.where(nanrow, 0.0, ocol), mm[m + 1:m + 1 + n], scale=float(np.abs(col).max()))


def _nan_pattern(pat, shape, seed):
    if pat.startswith('inv:'):                      # complement: e.g. inv:single = all NaN but one valid cell,
        return ~_nan_pattern(pat[4:], shape, seed)  # inv:lonline / inv:row = only one meridian / latitude circle valid
    r = np.random.Generator(np.random.PCG64(seed + 17))
    if pat == 'isolated':                           # all NaN except a few isolated valid points
        mask = np.ones(shape, dtype=bool)
        k = max(2, shape[0] * shape[1] // 400)
        mask[r.integers(0, shape[0], size=k), r.integers(0, shape[1], size=k)] = False
        return mask
    mask = np.zeros(shape, dtype=bool)
    if pat == 'single': mask[int(r.integers(0, shape[0])), int(r.integers(0, shape[1]))] = True
    elif pat == 'row': mask[:, int(r.integers(0, shape[1]))] = True            # a whole latitude circle
    elif pat == 'lonline': mask[int(r.integers(0, shape[0])), :] = True          # a whole meridian
    elif pat == 'all': mask[:] = True
    elif pat == 'band':                                                         # several adjacent latitude circles
        j0 = int(r.integers(0, shape[1])); mask[:, max(0, j0 - 1):j0 + 2] = True
    elif pat == 'blob':
        i0, j0 = int(r.integers(0, shape[0])), int(r.integers(0, shape[1]))
        for di in range(-(shape[0] // 4), shape[0] // 4 + 1):
            for dj in range(-(shape[1] // 3), shape[1] // 3 + 1):
                if 0 <= j0 + dj < shape[1]: mask[(i0 + di) % shape[0], j0 + dj] = True
    return mask


def _ref_grid(spec):
    """node coordinates from the grid definition and reference weights/measures (no implementation calls)"""
    return ref_lon_nodes(spec['nlon'], float(spec['offset'])), ref_lat_nodes(spec['spacing'], spec['nlat'])


def _make_field(kind, seed, shape):
    nb, nd = shape[-2:]
    if kind == 'delta':                                   # a single non-zero cell
        r = np.random.Generator(np.random.PCG64(seed + 5)); f = np.zeros(shape)
        f[..., int(r.integers(0, nb)), int(r.integers(0, nd))] = 2.0
        return f
    if kind == 'zonal':                                   # depends on latitude only
        return np.broadcast_to(_field(seed, shape[:-2] + (1, nd)), shape).copy()
    if kind == 'zero':
        return np.zeros(shape)
    if kind == 'integer':
        return np.round(_field(seed, shape) * 8)
    return _field(seed, shape)


def r_regrid2d(ctx, a):
    jnp, hi, vi, sh, sc = J()
    src, tgt = grid(a['src']), grid(a['tgt'])
    skipna = bool(a['skipna'])
    rg = hi.ConservativeRegridder(src, tgt, skipna=skipna)
    nb, nd = src.nodal_shape; na, nc = tgt.nodal_shape
    vals = _make_field(a.get('fkind', 'random'), a['fseed'], (nb, nd))
    nanmask = _nan_pattern(a['pattern'], (nb, nd), a['fseed'])
    field = np.where(nanmask, np.nan, vals)
    out = np.asarray(rg(jnp.asarray(field)))
    ctx.exact('ConservativeRegridder output shape', list(out.shape), [na, nc])
    _weight_oracles(ctx, '2d longitude', np.asarray(rg.lon_weights)); _weight_oracles(ctx, '2d latitude', np.asarray(rg.lat_weights))
    _lon_obligations(ctx, np.asarray(src.longitudes)); _lon_obligations(ctx, np.asarray(tgt.longitudes))
    _slice_checks(ctx, rg, a['src'], a['tgt'], skipna, vals, nanmask, out, a['model'])
    if a.get('identity') and not nanmask.any():
        ctx.oracle_close('2d: target = source returns the input field', out, vals, scale=float(np.abs(vals).max()) + 1e-300)
    if a.get('forms'):
        # other array forms / dtypes of the same data give the same result (values are exactly representable in float32)
        same = lambda o: bool(np.array_equal(np.isnan(np.asarray(o)), np.isnan(out)) and
                              np.allclose(np.nan_to_num(np.asarray(o, dtype=np.float64)), np.nan_to_num(out), rtol=0, atol=1e-12 * (1 + np.abs(vals).max())))
        ctx.oracle('2d: float32 field gives the float64 result', same(rg(jnp.asarray(field, dtype=jnp.float32))))
        ctx.oracle('2d: numpy (non-jax) field gives the same result', same(rg(field)))
        ctx.oracle('2d: Fortran-ordered / strided view gives the same result', same(rg(np.asfortranarray(field))) and
                   same(rg(np.repeat(field, 2, axis=0)[::2])))
        if not nanmask.any() and a.get('fkind') == 'integer':
            ctx.oracle('2d: integer-typed field gives the float result', same(rg(jnp.asarray(vals.astype(np.int64)))))
        # purity: repeated and interleaved evaluation is bit-identical
        other = np.asarray(rg(jnp.asarray(vals + 1.0)))
        again = np.asarray(rg(jnp.asarray(field)))
        ctx.oracle('2d: repeated / interleaved calls are bit-identical', bool(np.array_equal(again, out, equal_nan=True)))
        ctx.oracle('2d: cached weights are not mutated by calls', bool(np.array_equal(np.asarray(rg.lon_weights),
                   np.asarray(hi.conservative_longitude_weights(np.asarray(src.longitudes), np.asarray(tgt.longitudes))))))


def r_static_pairs(ctx, a):
    """Regridders that differ in ONE field (source offset, latitude spacing, skipna), used in the same
    process in both orders: each must follow its own configuration (jit static arguments, caches)."""
    jnp, hi, vi, sh, sc = J()
    specs = [a['src'], dict(a['src'], offset=a['offset2']), dict(a['src'], spacing=a['spacing2'])]
    vals = _field(a['fseed'], (a['src']['nlon'], a['src']['nlat']))
    nanmask = _nan_pattern('single', vals.shape, a['fseed'])
    field = np.where(nanmask, np.nan, vals)
    order = a['order']
    outs = {}
    for rep in range(2):
        for idx in (order if rep == 0 else order[::-1]):
            spec = specs[idx % 3]; skipna = bool(idx // 3)
            rg = hi.ConservativeRegridder(grid(spec), grid(a['tgt']), skipna=skipna)
            out = np.asarray(rg(jnp.asarray(field)))
            if idx in outs:
                ctx.oracle('configurations differing in one field: result independent of evaluation order',
                           bool(np.array_equal(outs[idx], out, equal_nan=True)), {'config': idx})
            outs[idx] = out
            _slice_checks(ctx, rg, spec, a['tgt'], skipna, vals, nanmask, out, False)


def r_regrid_batch(ctx, a):
    """Fields with leading (level/time) axes whose NaN pattern differs from slice to slice:
    every [lon, lat] slice must be regridded independently of the others."""
    jnp, hi, vi, sh, sc = J()
    src, tgt = grid(a['src']), grid(a['tgt'])
    skipna = bool(a['skipna'])
    rg = hi.ConservativeRegridder(src, tgt, skipna=skipna)
    nb, nd = src.nodal_shape; na, nc = tgt.nodal_shape
    lead = tuple(nb if v == 'nlon' else int(v) for v in a['lead']); pats = a['patterns']
    nsl = int(np.prod(lead))
    vals = _field(a['fseed'], (nsl, nb, nd))
    masks = np.stack([_nan_pattern(pats[s % len(pats)], (nb, nd), a['fseed'] + 101 * s) for s in range(nsl)])
    field = np.where(masks, np.nan, vals).reshape(lead + (nb, nd))
    out = np.asarray(rg(jnp.asarray(field)))
    ctx.exact('ConservativeRegridder batched output shape', list(out.shape), list(lead) + [na, nc])
    outs = out.reshape((nsl, na, nc))
    for s in range(nsl):
        one = np.asarray(rg(jnp.asarray(np.where(masks[s], np.nan, vals[s]))))
        ctx.exact('leading axes are regridded independently: NaN placement of slice = 2-D call on the slice',
                  np.isnan(outs[s]).astype(int).ravel().tolist(), np.isnan(one).astype(int).ravel().tolist())
        ctx.oracle('leading axes are regridded independently (NaN placement)', bool(np.array_equal(np.isnan(outs[s]), np.isnan(one))),
                   {'slice': s, 'pattern': pats[s % len(pats)]})
        ctx.oracle_close('leading axes are regridded independently (values)', np.nan_to_num(outs[s], nan=0.0, posinf=1e300, neginf=-1e300),
                         np.nan_to_num(one, nan=0.0, posinf=1e300, neginf=-1e300), scale=float(np.abs(vals).max()) * 1e3)
        if s < 6:
            _slice_checks(ctx, rg, a['src'], a['tgt'], skipna, vals[s], masks[s], outs[s], a['model'] and s < 4)


def _slice_checks(ctx, rg, sspec, tspec, skipna, vals, nanmask, out, use_model):
    """oracles (and model comparison) for one [lon, lat] slice and its regridded output; the
    reference weights and cell measures are computed independently from the grid definition"""
    jnp, hi, vi, sh, sc = J()
    src, tgt = grid(sspec), grid(tspec)
    nb, nd = src.nodal_shape; na, nc = tgt.nodal_shape
    field = np.where(nanmask, np.nan, vals)
    slon = np.asarray(src.longitudes); tlon = np.asarray(tgt.longitudes)
    slat = np.asarray(src.latitudes); tlat = np.asarray(tgt.latitudes)
    rslon, rslat = _ref_grid(sspec); rtlon, rtlat = _ref_grid(tspec)
    ctx.oracle_close('grid nodes follow the grid definition', np.concatenate([slon, tlon, slat, tlat]),
                     np.concatenate([rslon, rtlon, rslat, rtlat]), scale=2 * np.pi)
    wlon, lon_t, lon_s = ref_lon_weights(rslon, rtlon)
    wlat, lat_t, lat_s = ref_lat_weights(rslat, rtlat)
    ctx.oracle_close('2d: lon_weights equal the independently computed overlap fractions', np.asarray(rg.lon_weights), wlon, scale=1.0)
    ctx.oracle_close('2d: lat_weights equal the independently computed area fractions', np.asarray(rg.lat_weights), wlat, scale=1.0)
    good = np.where(nanmask, 0.0, 1.0)
    frac = np.einsum('ab,cd,bd->ac', wlon, wlat, good)
    nanw = np.einsum('ab,cd,bd->ac', wlon, wlat, 1.0 - good)
    pos_lon = (wlon > 1e-12) * 1.0; pos_lat = (wlat > 1e-12) * 1.0     # genuinely overlapping cells
    posw = np.einsum('ab,cd,bd->ac', pos_lon, pos_lat, 1.0 - good)
    posg = np.einsum('ab,cd,bd->ac', pos_lon, pos_lat, good)
    isn = np.isnan(out)
    tol = float(TOL_ISCLOSE); slack = 1e-9
    if skipna:
        # a valid source cell that merely touches the target cell may get a rounding-size weight: undecidable there
        touchg = np.einsum('ab,cd,bd->ac', ref_touch(rslon, rtlon, True), ref_touch(rslat, rtlat, False), good)
        sure = (touchg == 0) | (posg > 0)
        ctx.count('2d:skipna cells undecidable (valid cell only touches)', int((~sure).sum()))
        ctx.oracle('skipna=True: NaN exactly where every overlapping source cell is NaN', bool(np.array_equal(isn[sure], (posg == 0)[sure])),
                   {'nan_out': int(isn.sum()), 'expected': int((posg == 0).sum())})
    else:
        ctx.oracle('skipna=False: not NaN where no overlapping source cell is NaN', bool(not np.any(isn & (posw == 0))))
        ctx.oracle('skipna=False: NaN where overlapping NaN cells carry more weight than the isclose slack',
                   bool(np.all(isn[nanw > tol + slack])), {'n': int((nanw > tol + slack).sum())})
        ctx.oracle('skipna=False: NaN only where overlapping NaN cells carry at least the isclose slack',
                   bool(not np.any(isn & (nanw < tol - slack))))
    fin = ~isn
    ctx.oracle('2d: outputs are finite or NaN (never infinite)', bool(not np.any(np.isinf(out))))
    if fin.any() and not nanmask.all():
        vmin = np.nanmin(field); vmax = np.nanmax(field)
        ctx.oracle('2d: finite outputs within [min,max] of the non-NaN inputs',
                   bool(np.all(out[fin] >= vmin - 1e-10) and np.all(out[fin] <= vmax + 1e-10)),
                   {'vmin': float(vmin), 'vmax': float(vmax), 'omin': float(out[fin].min()), 'omax': float(out[fin].max())})
        expect = np.einsum('ab,cd,bd->ac', wlon, wlat, np.where(nanmask, 0.0, vals)) / np.where(frac > 0, frac, 1.0)
        chk = fin & (frac > 1e-3) & ((posg > 0) if skipna else True)
        ctx.oracle_close('2d: finite outputs are the weight-renormalised mean of the non-NaN overlapping cells', out[chk], expect[chk],
                         scale=(float(np.abs(vals).max()) + 1e-300) / max(float(frac[chk].min()) if chk.any() else 1.0, 1e-3))
    if skipna and not nanmask.all():
        # small valid fractions: still finite and still the nan-ignoring mean (no absolute / relative cut-off on the fraction)
        small = (frac > 1e-9) & (frac <= 1e-3) & (posg > 0)
        for lo_, hi_ in ((1e-9, 1e-7), (1e-7, 1e-5), (1e-5, 1e-3)):
            ctx.count('2d:skipna cells with valid fraction in (%g, %g]' % (lo_, hi_), int(((frac > lo_) & (frac <= hi_) & (posg > 0)).sum()))
        ctx.oracle('skipna=True: finite wherever the valid fraction exceeds 1e-9', bool(np.all(np.isfinite(out[(frac > 1e-9) & (posg > 0)]))),
                   {'nan_at_fraction': [float(v) for v in np.sort(frac[(frac > 1e-9) & (posg > 0) & ~np.isfinite(out)])[:5]]})
        if small.any():
            expect = np.einsum('ab,cd,bd->ac', wlon, wlat, np.where(nanmask, 0.0, vals)) / np.where(frac > 0, frac, 1.0)
            ok = small & np.isfinite(out)
            err = np.abs(out[ok] - expect[ok]) * frac[ok]            # error of the un-normalised mean
            ctx.oracle('skipna=True: cells with a small valid fraction are the nan-ignoring weighted mean',
                       bool(np.all(err <= ctx.tol_rel * (float(np.abs(vals).max()) + 1e-300))), {'max_err': float(err.max()) if err.size else 0.0})
    elif nanmask.all():
        ctx.oracle('2d: an all-NaN field gives an all-NaN output', bool(isn.all()))
    if not nanmask.any():
        At = np.outer(lon_t, lat_t); As = np.outer(lon_s, lat_s)
        ctx.oracle_close('2d: area-weighted integral is conserved', [float((At * out).sum())], [float((As * vals).sum())],
                         scale=float(4 * np.pi * max(np.abs(vals).max(), 1e-300)))
        cst = np.asarray(rg(jnp.full((nb, nd), 1.75)))
        ctx.oracle_close('2d: constants are reproduced', cst, np.full((na, nc), 1.75), scale=1.75)
    if use_model:
        sb = np.asarray(hi._latitude_cell_bounds(slat)); tb = np.asarray(hi._latitude_cell_bounds(tlat))
        ss = np.asarray(jnp.sin(sb)); st = np.asarray(jnp.sin(tb))
        mm = ctx.model.call(10, [na, nb, nc, nd, int(skipna)] + kfloor(tlon) + kfloor(slon),
                            [tlon, slon, tlat, slat, st, ss, [HPI, PERIOD, TOL_ISCLOSE], vals.ravel(), (~nanmask).astype(int).ravel()])
        if mm is None:
            ctx.corr('ConservativeRegridder.__call__', out.ravel(), None); return
        k = na * nc
        mmask = np.array([int(v) for v in mm[:k]]); mfrac = np.array([float(v) for v in mm[2 * k:]])
        # entries whose not-null fraction sits on a decision threshold up to rounding are not compared
        # (skipna: a valid cell that merely touches the target cell has weight exactly 0 in the model but may get a
        #  rounding-size weight in floating point, and vice versa)
        touch_valid = np.einsum('ab,cd,bd->ac', ref_touch(rslon, rtlon, True), ref_touch(rslat, rtlat, False), good).ravel()
        amb = (np.abs(np.abs(mfrac - 1) - tol) < slack) if not skipna else ((mfrac < slack) & (touch_valid > 0))
        ctx.count('2d:ambiguous threshold entries', int(amb.sum()))
        ctx.exact('ConservativeRegridder NaN mask', np.where(amb, -1, (~isn).ravel().astype(int)).tolist(), np.where(amb, -1, mmask).tolist())
        both = (~amb) & (mmask == 1) & (~isn.ravel())
        ctx.corr('ConservativeRegridder.__call__ values', np.where(both, out.ravel(), 0.0), [v if b else Fraction(0) for v, b in zip(mm[k:2 * k], both)],
                 scale=(float(np.abs(vals).max()) + 1e-300) / max(float(mfrac[both].min()) if both.any() else 1.0, 1e-3))


RUNNERS = {'coarse_lon': r_coarse_lon, 'pov': r_pov, 'align': r_align, 'lat': r_lat, 'lon': r_lon, 'vert': r_vert, 'hybrid': r_hybrid, 'regrid2d': r_regrid2d, 'static_pairs': r_static_pairs, 'regrid_batch': r_regrid_batch, 'hybrid_batch': r_hybrid_batch}
