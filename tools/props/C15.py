"""C15 - spectral filters: correspondence of Model/Filters.v with
dinosaur.filtering / the step filters of dinosaur.time_integration, and the
property's own clauses evaluated on the implementation.

The model yields the exact rational *exponent* of every filter; the plugin pushes
it through math.exp and compares with the factors the implementation applies to
all-ones spectra (a filter applied to ones(scaling.shape) returns the scaling)."""
import functools, math
import numpy as np
from fractions import Fraction
from harness import util

THEOREMS = ['C15_scaling_in_unit_interval', 'C15_mean_untouched', 'C15_non_increasing', 'C15_semigroup',
            'C15_hd_step_top_mode', 'C15_depends_on_l_only', 'C15_nonspectral_leaves_untouched',
            'C15_clocks_untouched', 'C15_rescale_slicewise', 'C15_array_strength_slicewise',
            'C15_factor_in_unit_interval', 'C15_half_steps_compose', 'C15_robert_asselin',
            'C15_robert_asselin_defined', 'C15_step_filter_adapters',
            'C15_scaling_in_unit_interval_R', 'C15_mean_untouched_R', 'C15_non_increasing_R',
            'C15_semigroup_R', 'C15_exp_hypotheses_R', 'C15_hyps_satisfiable',
            'C15_model_is_source', 'C15_source_defaults_and_adapters']
LEVEL = 'proof'
LEVEL_TEXT = ('machine-checked theorems (Coq) for every ordered field (hence the reals, with exp), every number of '
              'total wavenumbers L, every wavenumber table (padded or not), all attenuations >= 0, orders, cutoffs in [0,1), '
              'time scales, step sizes, radii <> 0: exponents <= 0 (factor in (0,1]), exponent 0 at l = 0, non-increasing in l, '
              'factor depends on l only, exponent(dt) = 2 exponent(dt/2) and two half steps = one full step on leaves, '
              'array strengths (T,1,1,1) act slice-wise, exact characterisation of which leaf shapes are rescaled '
              '(numpy broadcasting on shape lists), Robert-Asselin clauses; the Gallina model is executed (extraction) '
              'against the implementation on generated grids, strengths and mixed pytrees')
LEVEL_NOTE = ('theorems are about the Gallina model Model/Filters.v; exp enters as a function with the four properties '
              'of the exponential (proved for Coq R exp; checked numerically for jnp.exp as table obligations); float '
              'caveat: factors underflow to 0.0 for exponents < -745, the oracle demands > 0 only when the exponent > -700; '
              'model tied to the code twice: the exponent / strength formulas, defaults and adapters are regenerated from the AST of '
              'filtering.py / time_integration.py on every run (Gen/FiltersSrc.v; C15_model_is_source proves Model/Filters.v equal to them), '
              'and by differential correspondence')

_jax = None
def J():
    global _jax
    if _jax is None:
        util.setup_jax()
        import jax, jax.numpy as jnp
        from dinosaur import filtering, spherical_harmonic as sh, time_integration as ti
        _jax = (jax, jnp, filtering, sh, ti)
    return _jax


_grids = {}
_mesh = {}
def _impl(name):
    jax, jnp, filtering, sh, ti = J()
    F = sh.FastSphericalHarmonics
    return {'real': sh.RealSphericalHarmonics, 'fast': F, 'fast4': functools.partial(F, base_shape_multiple=4),
            'fast8': functools.partial(F, base_shape_multiple=8),
            'fast_unstacked': functools.partial(F, stacked_fourier_transforms=False),
            'fast4_stacked': functools.partial(F, base_shape_multiple=4, stacked_fourier_transforms=True),
            'fast_mesh': F}[name]


def new_grid(g):
    """A fresh Grid instance (nothing cached yet)."""
    jax, jnp, filtering, sh, ti = J()
    kw = {}
    if g['impl'] == 'fast_mesh':
        if 'm' not in _mesh:
            _mesh['m'] = jax.sharding.Mesh(np.array(jax.devices()[:8]).reshape(2, 2, 2), ('z', 'x', 'y'))
        kw['spmd_mesh'] = _mesh['m']
    return sh.Grid(longitude_wavenumbers=g['M'], total_wavenumbers=g['L'], longitude_nodes=3 * g['M'] + 1,
                   latitude_nodes=(3 * g['L'] + 1) // 2, radius=g['radius'], spherical_harmonics_impl=_impl(g['impl']), **kw)


def grid_of(g):
    key = (g['M'], g['L'], g['impl'], g['radius'])
    if key not in _grids:
        _grids[key] = new_grid(g)
    return _grids[key]


def _ceil_to(n, m):
    return -(-n // m) * m


def expected_layout(g):
    """(modal_shape, total-wavenumber axis) from the documented layout rules, independently of the implementation:
    Real: (2M-1, L), l = 0..L-1.  Fast: (2M, L) rounded up to multiples of (2*base*x_shards, base*y_shards),
    l = 0..L-1 followed by zeros on the padding; base = 1, 4, 8, or 8 under model parallelism (mesh 2x2x2)."""
    M, L = g['M'], g['L']
    if g['impl'] == 'real':
        return (2 * M - 1, L), list(range(L))
    base, xs, ys = {'fast': (1, 1, 1), 'fast4': (4, 1, 1), 'fast8': (8, 1, 1), 'fast_unstacked': (1, 1, 1),
                    'fast4_stacked': (4, 1, 1), 'fast_mesh': (8, 2, 2)}[g['impl']]
    Lp = _ceil_to(L, base * ys)
    return (_ceil_to(2 * M, 2 * base * xs), Lp), list(range(L)) + [0] * (Lp - L)


def lw_of(ctx, g, grid):
    """The implementation's total-wavenumber axis, checked against the independent layout rule (which is what the
    model and the oracles then use)."""
    shape, lw = expected_layout(g)
    ctx.exact('modal_shape (independent layout rule)', [int(v) for v in grid.modal_shape], list(shape))
    ctx.exact('modal_axes[1] (independent layout rule)', [int(v) for v in np.asarray(grid.modal_axes[1])], lw)
    return lw


def fexp(q):
    """math.exp of an exact rational exponent (0.0 on underflow)."""
    x = float(q)
    return math.exp(x) if x > -745.0 else 0.0


IMPLS = ['real', 'fast', 'fast4', 'fast8', 'fast_unstacked', 'fast4_stacked', 'fast_mesh']
def rand_grid(rng, tier):
    impl = IMPLS[int(rng.integers(0, len(IMPLS)))]
    L = int(rng.integers(2, 10 if tier == 'quick' else 14))
    M = int(rng.integers(1, 7))          # M > L, M = L, L > M + 1 all occur
    return {'M': M, 'L': L, 'impl': impl, 'radius': [1.0, 2.0, 0.5, 6.371][int(rng.integers(0, 4))]}


def pick(rng, xs):
    return xs[int(rng.integers(0, len(xs)))]


def hd_scale(L, order, r, top):
    """Dyadic scale (3 significant bits) such that the exponent at the top wavenumber L-1 is about -top;
    computed with python integers (no overflow)."""
    lm = L - 1
    val = top * r ** (2 * order) / float((lm * (lm + 1)) ** order)
    m, e = math.frexp(val)
    return math.ldexp(round(m * 8) / 8.0, e)


# (order, L): (L(L-1))**order beyond 2**31, 2**63 and 2**64 (integer powers of the wavenumbers must not be used)
HIGH_ORDER = [(4, 16), (5, 12), (6, 40), (6, 44), (7, 30), (8, 17), (8, 24), (10, 10), (10, 14), (12, 8), (12, 12), (9, 20)]


def pick_pc(rng, ords):
    """(order, cutoff): orders above 18 only with dyadic cutoffs, so that the exact rational power in the extracted
    model (numerators of 2*order*53 bits, reduced after every product) stays cheap."""
    p = pick(rng, ords)
    c = pick(rng, CUT if p <= 18 else [0.0, 0.25, 0.5, 0.875])
    if p > 3 and c in (0.99, 0.999): c = 0.9
    return p, c


ATT = [0.0, 0.5, 1.0, 16.0, 2.75, 50.0, 300.0, 1000.0, 1e4, 1e6, 87.5, 1e-3, 15.707963267948966, 16.1]
ORD = [1, 2, 3, 18, 1, 2, 0, 32, 50]
CUT = [0.0, 0.0, 0.25, 0.5, 0.4, 0.9, 0.875, 0.99, 0.999]
SCALE = [0.0, 0.01, 0.1, 1.5, 0.003, 100.0, 1e4, 1e-6, 0.0123, 0.7071067811865476]
HORD = [1, 2, 3, 4]
# dt/tau over many decades, dense around the float32-ish thresholds 87/88, 100, 700/16 and the float64 underflow ~708/745
RATIO = [1e-3, 0.01, 0.1, 0.5, 1.0, 4.0, 16.0, 43.75, 60.0, 86.0, 87.0, 88.0, 96.0, 100.0, 144.0, 200.0, 500.0, 700.0, 750.0, 1000.0, 3000.0]
DT = [1.0, 0.5, 0.1, 0.3]
TAU = [0.010938, 0.25, 2.0, 10.0]


def generate(ctx):
    rng = ctx.rng
    quick = ctx.tier == 'quick'
    # broadcasting / _preserves_shape on shape pairs
    fixed = [([], [5]), ([1], [5]), ([5], [5]), ([3], [5]), ([3, 4], [7]), ([2, 3, 5], [5]), ([2, 3, 5], [2, 1, 1, 5]),
             ([4, 2, 3, 5], [4, 1, 1, 5]), ([1, 2, 3], [2, 1, 3]), ([2, 2, 3], [2, 1, 3]), ([5], [1]), ([], [1]), ([], []),
             ([2, 0], [2, 1]), ([0], [5]), ([3, 5], [1, 5]), ([3, 5], [3, 1]), ([1, 5], [3, 5]), ([2, 1, 1, 5], [5]),
             ([4, 2, 3, 5], [3, 1, 1, 5]), ([7], [7, 7])]
    for s1, s2 in fixed:
        yield 'shapes', {'s1': s1, 's2': s2}
    for _ in range(20 if quick else 200):
        n1 = int(rng.integers(0, 5)); n2 = int(rng.integers(0, 5))
        s2 = [int(pick(rng, [1, 1, 2, 3, 5])) for _ in range(n2)]
        s1 = [int(pick(rng, [1, 2, 3, 5])) for _ in range(n1)]
        if rng.integers(0, 2):   # make the trailing part compatible most of the time
            for i in range(1, min(n1, n2) + 1):
                if rng.integers(0, 4): s1[-i] = s2[-i] if s2[-i] != 1 or rng.integers(0, 2) else s1[-i]
        yield 'shapes', {'s1': s1, 's2': s2}
    # the dedicated case for leaves whose shape cannot be broadcast against the scaling
    yield 'incompatible_leaf', {'grid': {'M': 6, 'L': 7, 'impl': 'real', 'radius': 1.0}, 'shapes': [[3], [3, 4], [2, 3], [7, 2]]}
    yield 'incompatible_leaf', {'grid': {'M': 3, 'L': 9, 'impl': 'fast4', 'radius': 1.0}, 'shapes': [[3], [9], [5, 5], [12, 5]]}
    # deterministic corner cases
    g0 = {'M': 3, 'L': 9, 'impl': 'fast4', 'radius': 2.0}       # L padded 9 -> 12
    g1 = {'M': 4, 'L': 5, 'impl': 'real', 'radius': 1.0}
    g2 = {'M': 2, 'L': 5, 'impl': 'fast', 'radius': 0.5}
    for g in (g0, g1, g2):
        yield 'expfilter', {'grid': g, 'a': 16.0, 'p': 0, 'c': 0.0, 'K': 2}       # order 0, cutoff 0: strict (k > c)
        yield 'expfilter', {'grid': g, 'a': 16.0, 'p': 18, 'c': 0.0, 'K': 1}      # defaults
        yield 'expfilter', {'grid': g, 'a': 2.5, 'p': 1, 'c': 0.5, 'K': 2}        # k == c exactly at l = 2 when max l = 4
        yield 'expfilter', {'grid': g, 'a': 1000.0, 'p': 1, 'c': 0.0, 'K': 1}     # underflow caveat
        yield 'hdfilter', {'grid': g, 'scale': 0.1, 'order': 1, 'K': 2}
        yield 'hdfilter', {'grid': g, 'scale': 0.003, 'order': 2, 'K': 1}
        yield 'expstep', {'grid': g, 'dt': 0.5, 'tau': 0.25, 'p': 2, 'c': 0.25, 'leapfrog': 0, 'dseed': 1}
        yield 'expstep', {'grid': g, 'dt': 0.5, 'tau': 2.0, 'p': 1, 'c': 0.0, 'leapfrog': 1, 'dseed': 2}
        yield 'expstep', {'grid': g, 'dt': 96 * 0.010938, 'tau': 0.010938, 'p': 1, 'c': 0.0, 'leapfrog': 0, 'dseed': 11}   # dt/tau = 96
        yield 'expstep', {'grid': g, 'dt': 36.0, 'tau': 0.25, 'p': 2, 'c': 0.25, 'leapfrog': 1, 'dseed': 12}               # 144
        yield 'expstep', {'grid': g, 'dt': 1.0, 'tau': 0.01, 'p': 18, 'c': 0.0, 'leapfrog': 0, 'dseed': 13}                # 100, default order
        yield 'expstep', {'grid': g, 'dt': 250.0, 'tau': 0.25, 'p': 1, 'c': 0.5, 'leapfrog': 1, 'dseed': 14}               # 1000: top modes underflow
        yield 'expstep', {'grid': g, 'dt': 0.001, 'tau': 1.0, 'p': 3, 'c': 0.0, 'leapfrog': 0, 'dseed': 15}                # 1e-3
        yield 'hdstep', {'grid': g, 'dt': 25.0, 'tau': 0.25, 'order': 1, 'dseed': 16}                                      # 100
        yield 'hdstep', {'grid': g, 'dt': 500.0, 'tau': 0.5, 'order': 2, 'dseed': 17}                                      # 1000
        yield 'hdstep', {'grid': g, 'dt': 0.002, 'tau': 2.0, 'order': 4, 'dseed': 18}                                      # 1e-3
        yield 'expfilter', {'grid': g, 'a': 1e6, 'p': 1, 'c': 0.0, 'K': 1}          # very large attenuation
        yield 'expfilter', {'grid': g, 'a': 16.0, 'p': 50, 'c': 0.0, 'K': 1}        # high order
        yield 'expfilter', {'grid': g, 'a': 16.0, 'p': 1, 'c': 0.999, 'K': 1}       # cutoff close to 1
        yield 'expfilter', {'grid': g, 'a': 300.0, 'p': 18, 'c': 0.875, 'K': 1}
        yield 'hdfilter', {'grid': g, 'scale': 1e4, 'order': 4, 'K': 1}
        yield 'hdstep', {'grid': g, 'dt': 0.5, 'tau': 2.0, 'order': 1, 'dseed': 3}
        yield 'hdstep', {'grid': g, 'dt': 1.0, 'tau': 0.25, 'order': 2, 'dseed': 4}
        yield 'tree', {'grid': g, 'kind': 'exp', 'par': [16.0, 2, 0.25], 'K': 2, 'dseed': 5}
        yield 'tree', {'grid': g, 'kind': 'hdstep', 'par': [0.5, 2.0, 1], 'K': 3, 'dseed': 6}
        yield 'array_strength', {'grid': g, 'kind': 'exp', 'strengths': [1.0, 2.0], 'par': [2, 0.25], 'lead': 4, 'K': 3, 'dseed': 7}
        yield 'array_strength', {'grid': g, 'kind': 'hd', 'strengths': [1.0, 2.0, 0.5], 'par': [1], 'lead': 3, 'K': 3, 'dseed': 8}
        yield 'array_strength', {'grid': g, 'kind': 'hdstep', 'strengths': [1.0, 2.0, 3.0], 'par': [0.1, 2], 'lead': 3, 'K': 3, 'dseed': 9}
        yield 'array_strength', {'grid': g, 'kind': 'expstep', 'strengths': [0.25, 4.0], 'par': [0.5, 1, 0.0], 'lead': 4, 'K': 2, 'dseed': 10}
        yield 'array_strength', {'grid': g, 'kind': 'expstep', 'strengths': [0.25, 0.004, 0.001], 'par': [0.5, 1, 0.0], 'lead': 4, 'K': 1, 'dseed': 19}   # dt/tau = 2, 125, 500
        yield 'array_strength', {'grid': g, 'kind': 'exp', 'strengths': [16.0, 100.0, 1e4], 'par': [2, 0.25], 'lead': 3, 'K': 1, 'dseed': 20}
        yield 'array_strength', {'grid': g, 'kind': 'hdstep', 'strengths': [2.0, 0.005], 'par': [0.5, 1], 'lead': 4, 'K': 2, 'dseed': 21}                  # dt/tau = 0.25, 100
    # explicit purity / repeated construction on one Grid instance; pairs of grids differing in ONE option, both orders
    base = {'M': 3, 'L': 5, 'impl': 'fast4', 'radius': 2.0}
    pairs = [(base, dict(base, radius=1.0)), (base, dict(base, impl='fast8')), (base, dict(base, impl='real')),
             (dict(base, impl='fast'), dict(base, impl='fast_unstacked')), (base, dict(base, L=6)), (base, dict(base, M=4)),
             (dict(base, impl='fast_mesh'), dict(base, impl='fast8')), (dict(base, impl='fast4_stacked'), base)]
    for i, (ga, gb) in enumerate(pairs if not quick else pairs[:5] + pairs[6:7]):
        yield 'purity', {'gridA': ga, 'gridB': gb, 'first': 'A', 'jit': int(i == 0), 'dseed': 30 + i}
        if not quick or i < 2:
            yield 'purity', {'gridA': gb, 'gridB': ga, 'first': 'B', 'jit': 0, 'dseed': 40 + i}
    # layouts: padded with base 8, mesh 2x2x2 (base 8, 2 y-shards), tall and wide truncations, M > L
    layouts = [{'M': 3, 'L': 9, 'impl': 'fast8', 'radius': 1.0}, {'M': 2, 'L': 5, 'impl': 'fast_mesh', 'radius': 2.0},
               {'M': 2, 'L': 70, 'impl': 'real', 'radius': 1.0}, {'M': 33, 'L': 3, 'impl': 'fast4', 'radius': 0.5},
               {'M': 6, 'L': 3, 'impl': 'fast', 'radius': 1.0}, {'M': 1, 'L': 2, 'impl': 'fast8', 'radius': 1.0}]
    for j, g in enumerate(layouts if not quick else layouts[:4]):
        yield 'defaults', {'grid': g, 'dt': [0.25, 0.010938 * 16, 1.5, 0.001][j % 4]}
        yield 'hdstep', {'grid': g, 'dt': 0.5, 'tau': 0.25, 'order': 1 + j % 2, 'dseed': 50 + j}
        yield 'tree', {'grid': g, 'kind': ['exp', 'hdstep', 'expstep', 'hd'][j % 4], 'par': [[16.0, 18, 0.0], [0.5, 2.0, 1], [0.5, 0.25, 2, 0.25], [0.01, 2]][j % 4],
                       'K': 2, 'dseed': 60 + j}
        yield 'array_order', {'grid': g, 'a': 16.0, 'c': [0.0, 0.25][j % 2], 'orders': [1, 2, 18] if j % 2 else [3, 1]}
    yield 'array_strength', {'grid': g1, 'kind': 'hd', 'strengths': [0.01, 0.02, 0.005], 'par': [1], 'lead': 4, 'K': 3, 'dseed': 70}    # T == K
    yield 'array_strength', {'grid': g0, 'kind': 'expstep', 'strengths': [0.25, 0.004], 'par': [0.5, 2, 0.25], 'lead': 4, 'K': 2, 'dseed': 71}  # T == K
    for j, (ss, shapes) in enumerate([([2, 1, 3], [[], [1, 2, 3], [2, 2, 3], [3], [2, 1, 3], [5, 2, 4, 3], [2, 2, 1], [4]]),
                                      ([3], [[], [1], [3], [2, 3], [3, 2], [1, 3], [4, 1, 3]]),
                                      ([1], [[], [1], [3], [2, 3]]), ([], [[], [2], [1, 1]]), ([2, 3], [[3], [2, 3], [1, 3], [4, 2, 3], [2, 1]])]):
        yield 'make_filter', {'sshape': ss, 'shapes': shapes, 'jnp': j % 2, 'dseed': 80 + j}
    for j, (o_, L_) in enumerate(HIGH_ORDER):
        g = {'M': 2, 'L': L_, 'impl': ['real', 'fast4', 'fast8', 'fast'][j % 4], 'radius': [1.0, 2.0, 0.5][j % 3]}
        top = [3.0, 0.5, 20.0, 1.0][j % 4]
        yield 'hdfilter', {'grid': g, 'scale': hd_scale(L_, o_, g['radius'], top), 'order': o_, 'K': 1}
        yield 'hdstep', {'grid': g, 'dt': top * 0.25, 'tau': 0.25, 'order': o_, 'dseed': 90 + j}
        if not quick or j % 3 == 0:
            yield 'tree', {'grid': g, 'kind': 'hd', 'par': [hd_scale(L_, o_, g['radius'], 2.0), o_], 'K': 1, 'dseed': 110 + j}
            yield 'array_strength', {'grid': g, 'kind': 'hd', 'strengths': [hd_scale(L_, o_, g['radius'], t_) for t_ in (0.5, 4.0)],
                                     'par': [o_], 'lead': 3, 'K': 1, 'dseed': 130 + j}
    if not quick:
        for _ in range(20):
            o_ = int(rng.integers(5, 13)); L_ = int(rng.integers(8, 45)); r_ = pick(rng, [1.0, 2.0, 0.5])
            g = {'M': int(rng.integers(1, 4)), 'L': L_, 'impl': pick(rng, IMPLS[:4]), 'radius': r_}
            yield 'hdfilter', {'grid': g, 'scale': hd_scale(L_, o_, r_, pick(rng, [0.25, 1.0, 5.0, 40.0])), 'order': o_, 'K': 1}
            yield 'hdstep', {'grid': g, 'dt': pick(rng, [0.125, 1.0, 8.0]), 'tau': pick(rng, [0.25, 1.0]), 'order': o_, 'dseed': int(rng.integers(0, 2 ** 31))}
    # A: cutoff within 1e-9 .. 2^-40 (relative) of a wavenumber ratio k = l / max l, but not equal (strict k > c)
    for j, c_ in enumerate([0.5 * (1 + 2.0 ** -40), 0.5 * (1 - 2.0 ** -40), 0.5 * (1 + 1e-9), 0.75 * (1 - 1e-9), 0.25 * (1 + 1e-12)]):
        yield 'expfilter', {'grid': g1, 'a': 16.0, 'p': 0, 'c': c_, 'K': 1}
        yield 'expfilter', {'grid': g1, 'a': 1e6, 'p': 1, 'c': c_, 'K': 1}
    # B: dyadic scalings 2^-30 .. 2^30 of radius, dt and tau together, dt/tau, attenuation
    for j, e_ in enumerate([-30, -12, 12, 30] if quick else [-30, -20, -12, -5, 5, 12, 20, 30]):
        s2 = 2.0 ** e_
        g = {'M': 2, 'L': [5, 9, 6, 12][j % 4], 'impl': ['real', 'fast4', 'fast8', 'fast'][j % 4], 'radius': s2}
        yield 'hdfilter', {'grid': g, 'scale': hd_scale(g['L'], 1 + j % 3, s2, 3.0), 'order': 1 + j % 3, 'K': 1}
        yield 'hdstep', {'grid': g, 'dt': 3.0 * s2, 'tau': s2, 'order': 1 + j % 3, 'dseed': 150 + j}
        yield 'expstep', {'grid': g, 'dt': 5.0 * s2, 'tau': s2, 'p': 2, 'c': 0.25, 'leapfrog': j % 2, 'dseed': 160 + j}
        yield 'expstep', {'grid': g, 'dt': s2, 'tau': 1.0, 'p': 1, 'c': 0.0, 'leapfrog': (j + 1) % 2, 'dseed': 170 + j}
        yield 'hdstep', {'grid': g, 'dt': 1.0, 'tau': s2, 'order': 1, 'dseed': 180 + j}
        yield 'expfilter', {'grid': g, 'a': s2, 'p': 3, 'c': 0.5, 'K': 1}
    # C: sizes beyond 128 / 256 / 512 (1024 in thorough) along one axis with skinny layouts; 128 < M <= 256 is the
    # default range of the stacked Fourier path of FastSphericalHarmonics
    bigs = [{'M': 1, 'L': 600, 'impl': 'real', 'radius': 1.0}, {'M': 130, 'L': 131, 'impl': 'fast', 'radius': 2.0}]
    if not quick:
        bigs += [{'M': 2, 'L': 600, 'impl': 'fast4', 'radius': 1.0}, {'M': 200, 'L': 140, 'impl': 'fast8', 'radius': 1.0},
                 {'M': 300, 'L': 301, 'impl': 'fast', 'radius': 1.0}, {'M': 2, 'L': 1030, 'impl': 'real', 'radius': 0.5},
                 {'M': 256, 'L': 20, 'impl': 'fast_unstacked', 'radius': 1.0}]
    for j, g in enumerate(bigs):
        yield 'expfilter', {'grid': g, 'a': 16.0, 'p': 18, 'c': 0.0, 'K': 1}
        yield 'hdfilter', {'grid': g, 'scale': hd_scale(g['L'], 2, g['radius'], 5.0), 'order': 2, 'K': 1}
        yield 'hdstep', {'grid': g, 'dt': 0.5, 'tau': 0.25, 'order': 1 + j % 2, 'dseed': 190 + j}
        yield 'expstep', {'grid': g, 'dt': 4.0, 'tau': 0.25, 'p': 18, 'c': 0.0, 'leapfrog': j % 2, 'dseed': 200 + j}
        if g['M'] <= 2 and g['L'] <= 200:
            # the tree model addresses leaves through unary row-major indices (`ravel`): quadratic in the index range and
            # deeper than the native stack beyond a few hundred columns; long axes are covered by the four runners above
            yield 'tree', {'grid': g, 'kind': 'exp', 'par': [16.0, 18, 0.0], 'K': 1, 'dseed': 210 + j}
    # D: transformation contexts and filter chains
    tg = [g1, g0] if quick else [g1, g0, g2, {'M': 2, 'L': 5, 'impl': 'fast_mesh', 'radius': 2.0}, {'M': 3, 'L': 7, 'impl': 'fast8', 'radius': 6.371}]
    for j, g in enumerate(tg):
        yield 'transforms', {'grid': g, 'dseed': 220 + j}
        yield 'chain', {'grid': g, 'r': [0.05, 0.25][j % 2], 'dt': [0.5, 24.0][j % 2], 'tau': 0.25, 'p': 1 + j % 3, 'c': [0.0, 0.25][j % 2], 'dseed': 230 + j}
    n = 6 if quick else 60
    for _ in range(n):
        g = rand_grid(rng, ctx.tier)
        ctx.count('impl=' + g['impl']); ctx.count('L=%d' % g['L'])
        p_, c_ = pick_pc(rng, ORD)
        yield 'expfilter', {'grid': g, 'a': pick(rng, ATT), 'p': p_, 'c': c_, 'K': int(rng.integers(1, 3))}
        yield 'hdfilter', {'grid': g, 'scale': pick(rng, SCALE), 'order': pick(rng, HORD), 'K': int(rng.integers(1, 3))}
        for _r in range(3):
            tau = pick(rng, TAU)
            p_, c_ = pick_pc(rng, [1, 2, 3, 18, 1, 32])
            yield 'expstep', {'grid': g, 'dt': pick(rng, RATIO) * tau, 'tau': tau, 'p': p_, 'c': c_,
                              'leapfrog': int(rng.integers(0, 2)), 'dseed': int(rng.integers(0, 2 ** 31))}
            tau = pick(rng, TAU)
            yield 'hdstep', {'grid': g, 'dt': pick(rng, RATIO) * tau, 'tau': tau, 'order': pick(rng, HORD),
                             'dseed': int(rng.integers(0, 2 ** 31))}
        kind = pick(rng, ['exp', 'hd', 'expstep', 'hdstep'])
        par = {'exp': [pick(rng, ATT[:6]), pick(rng, ORD[:6]), pick(rng, CUT)], 'hd': [pick(rng, SCALE), pick(rng, HORD)],
               'expstep': [pick(rng, RATIO[:16]) * 0.25, 0.25, pick(rng, ORD[:6]), pick(rng, CUT)],
               'hdstep': [pick(rng, RATIO[:16]) * 2.0, 2.0, pick(rng, HORD)]}[kind]
        yield 'tree', {'grid': g, 'kind': kind, 'par': par, 'K': int(rng.integers(1, 4)), 'dseed': int(rng.integers(0, 2 ** 31))}
        kind = pick(rng, ['exp', 'hd', 'expstep', 'hdstep'])
        T = int(rng.integers(1, 4))
        st = [float(pick(rng, [0.25, 0.5, 1.0, 2.0, 3.0, 16.0])) for _ in range(T)]
        par = {'exp': [pick(rng, ORD[:6]), pick(rng, CUT)], 'hd': [pick(rng, HORD)],
               'expstep': [pick(rng, DT), pick(rng, ORD[:6]), pick(rng, CUT)], 'hdstep': [pick(rng, DT), pick(rng, HORD)]}[kind]
        if kind == 'hd': st = [s / 16 for s in st]
        if kind in ('expstep', 'hdstep') and rng.integers(0, 2): st = [s / pick(rng, [64.0, 512.0, 4096.0]) for s in st]
        yield 'array_strength', {'grid': g, 'kind': kind, 'strengths': st, 'par': par, 'lead': int(pick(rng, [3, 4])),
                                 'K': int(rng.integers(1, 4)), 'dseed': int(rng.integers(0, 2 ** 31))}
    for i in range(6 if quick else 40):
        yield 'robert_asselin', {'r': pick(rng, [0.0, 0.01, 0.05, 0.25, 0.5, 1.0]), 'linear': int(i % 2),
                                 'shapes': [[], [1], [int(rng.integers(1, 4)), int(rng.integers(1, 6))], [2, 3, 4], [int(rng.integers(1, 7))]],
                                 'dseed': int(rng.integers(0, 2 ** 31))}
    # integer-dtype leaves (step counters, index arrays) in a time-linear sequence
    for r in [0.01, 0.02, 0.03, 0.05, 0.1, 0.5]:
        yield 'ra_int', {'r': r, 'steps': 60 if quick else 200, 'stride': 1}
    if not quick:
        for _ in range(10):
            yield 'ra_int', {'r': float(rng.integers(1, 500)) / 1000.0, 'steps': 100, 'stride': int(rng.integers(1, 6))}


# ---------------------------------------------------------------------------
def _shape_ints(s):
    return [len(s)] + [int(d) for d in s]


def r_shapes(ctx, a):
    jax, jnp, filtering, sh, ti = J()
    s1, s2 = a['s1'], a['s2']
    try:
        b = [1] + [int(d) for d in np.broadcast_shapes(tuple(s1), tuple(s2))]
    except ValueError:
        b = [0]
    m = ctx.model.call(0, _shape_ints(s1) + _shape_ints(s2), [])
    ctx.exact('np.broadcast_shapes', b, [int(v) for v in m])
    try:
        ps = int(bool(filtering._preserves_shape(np.zeros(s1), np.zeros(s2))))
    except ValueError:
        ps = -1   # _preserves_shape must be total
    m = ctx.model.call(1, _shape_ints(s1) + _shape_ints(s2), [])
    ctx.exact('_preserves_shape', [ps], [int(v) for v in m])
    ctx.count('preserves:%d' % ps); ctx.count('broadcastable:%d' % b[0])
    # the clause stated directly on shapes: preserved iff the trailing dims are matched (equal or 1 in the scaling)
    want = len(s2) <= len(s1) and all(d2 == d1 or d2 == 1 for d1, d2 in zip(s1[len(s1) - len(s2):], s2))
    ctx.oracle('a leaf is rescaled iff the scaling matches its trailing dimensions', ps == int(want), {'s1': s1, 's2': s2})


def _exp_table_obligations(ctx, exps):
    """The four hypotheses on fexp, checked for jnp.exp on this exponent table."""
    jax, jnp, filtering, sh, ti = J()
    e = np.array([float(q) for q in exps], dtype=np.float64)
    v = np.asarray(jnp.exp(jnp.asarray(e)))
    ctx.table_obligation('H_exp_0', float(jnp.exp(jnp.asarray(0.0))) == 1.0)
    h = np.asarray(jnp.exp(jnp.asarray(e / 2)))
    ctx.table_obligation('H_exp_add', bool(np.all(np.abs(h * h - v) <= 1e-12 * (1 + np.abs(e)) * v + 1e-300)),
                         {'e': e.tolist()})
    ctx.table_obligation('H_exp_pos', bool(np.all(v[e > -700] > 0)) and bool(np.all(v >= 0)))
    o = np.argsort(e)
    ctx.table_obligation('H_exp_mono', bool(np.all(np.diff(v[o]) >= 0)))


def _factor_oracles(ctx, name, fac, lw, exps):
    """fac: array (..., L) of the factors applied to an all-ones leaf."""
    lw = np.asarray(lw); e = np.array([float(q) for q in exps])
    flat = fac.reshape(-1, fac.shape[-1])
    ctx.oracle(name + ': factors are finite', bool(np.all(np.isfinite(flat))), {'factors': flat[0].tolist()})
    ctx.oracle(name + ': factor <= 1', bool(np.all(flat <= 1.0)), {'factors': flat[0].tolist()})
    pos = flat > 0
    ctx.oracle(name + ': factor > 0 (where the exponent > -700)', bool(np.all(pos[:, e > -700])) and bool(np.all(flat >= 0)),
               {'factors': flat[0].tolist()})
    ctx.oracle(name + ': factor = 1 at total wavenumber 0 (global mean, padded columns)', bool(np.all(flat[:, lw == 0] == 1.0)),
               {'factors': flat[0].tolist(), 'lw': lw.tolist()})
    o = np.argsort(lw, kind='stable')
    srt = flat[:, o]
    ctx.oracle(name + ': factor non-increasing in total wavenumber', bool(np.all(srt[:, 1:] <= srt[:, :-1] * (1 + 1e-12))),
               {'factors': flat[0].tolist(), 'lw': lw.tolist()})
    same_l = all(np.all(flat[:, lw == l] == flat[0, np.argmax(lw == l)]) for l in set(lw.tolist()))
    ctx.oracle(name + ': factor depends on total wavenumber only (not on m, level, column)', bool(same_l),
               {'factors': flat.tolist()[:4]})


def _log_corr(ctx, name, fac, exps):
    """Exponent-level correspondence: log(factor) vs the exact exponent wherever the factor is a normal
    float (exponent > -700); where the exact factor underflows both sides must be (denormally) tiny."""
    fac = np.asarray(fac, dtype=np.float64); L = len(exps)
    flat = fac.reshape(-1, L); e = np.array([float(q) for q in exps])
    rep = e > -700.0
    ok_small = bool(np.all(flat[:, ~rep] <= 1e-300)) and bool(np.all(flat[:, ~rep] >= 0))
    ctx.exact(name + ': factor is 0/denormally small where the exact exponent < -700', [ok_small], [True])
    sub = flat[:, rep]
    if sub.size == 0: return
    if not bool(np.all(sub > 0)):
        ctx.exact(name + ': factor > 0 where the exponent > -700 (log correspondence)', [False], [True]); return
    lg = np.log(sub); er = e[rep][None, :]
    tol = 2.0 ** -36 * np.abs(er) + 4e-16
    bad = ~(np.abs(lg - er) <= tol)
    if bad.any():
        i = np.unravel_index(int(np.argmax(np.abs(lg - er) - tol)), lg.shape)
        ctx.exact(name + ': log(factor) = exact exponent', {'log_factor': float(lg[i]), 'column': int(np.flatnonzero(rep)[i[1]])},
                  {'log_factor': float(er[0, i[1]]), 'column': int(np.flatnonzero(rep)[i[1]])})
    else:
        ctx.exact(name + ': log(factor) = exact exponent', [True], [True])


def _semigroup_factors(ctx, clause, fac_full, fac_half, exps):
    """F(dt) vs F(dt/2) o F(dt/2) on the factors themselves: in the log domain where the full-step factor
    is a normal float, and 'both tiny' where it underflows (documented float caveat)."""
    L = len(exps); e = np.array([float(q) for q in exps])
    ff = np.asarray(fac_full, dtype=np.float64).reshape(-1, L); fh = np.asarray(fac_half, dtype=np.float64).reshape(-1, L)
    rep = e > -700.0
    ok = bool(np.all(fh[:, ~rep] ** 2 <= 1e-300)) and bool(np.all(ff[:, ~rep] <= 1e-300))
    det = None
    if ok and rep.any():
        a_, b_ = ff[:, rep], fh[:, rep]
        if not (np.all(a_ > 0) and np.all(b_ > 0)):
            ok = False; det = {'full': a_[0].tolist(), 'half': b_[0].tolist()}
        else:
            d = np.abs(np.log(a_) - 2 * np.log(b_)); tol = 2.0 ** -36 * np.abs(e[rep])[None, :] + 1e-15
            if not np.all(d <= tol):
                ok = False; i = np.unravel_index(int(np.argmax(d - tol)), d.shape)
                det = {'column': int(np.flatnonzero(rep)[i[1]]), 'log F(dt)': float(np.log(a_[i])), '2 log F(dt/2)': float(2 * np.log(b_[i]))}
    ctx.oracle(clause, ok, det)


def _apply(ctx, clause, fn, *xs):
    """Call a filter; an exception is a failure of `clause` (not a harness error)."""
    try:
        return fn(*xs), True
    except Exception as e:   # noqa
        ctx.oracle(clause, False, {'exception': repr(e)[:300]})
        return None, False


def r_expfilter(ctx, a):
    jax, jnp, filtering, sh, ti = J()
    grid = grid_of(a['grid']); lw = lw_of(ctx, a['grid'], grid); L = len(lw)
    ctx.exact('modal_shape[1] == len(total wavenumbers)', [int(grid.modal_shape[1])], [L])
    exps = ctx.model.call(2, [L, a['p']] + lw, [[a['a'], a['c']]])
    f = filtering.exponential_filter(grid, a['a'], a['p'], a['c'])
    ones = np.ones((a['K'],) + tuple(grid.modal_shape))
    fac = np.asarray(f(ones))
    ctx.exact('shape kept', list(fac.shape), list(ones.shape))
    tab = [Fraction(fexp(q)) for q in exps]
    ctx.corr('exponential_filter factors', fac, tab * (fac.size // L), scale=1.0)
    _log_corr(ctx, 'exponential_filter', fac, exps)
    _exp_table_obligations(ctx, exps)
    _factor_oracles(ctx, 'exponential_filter', fac, lw, exps)
    ctx.count('order=%d' % a['p'])


def r_hdfilter(ctx, a):
    jax, jnp, filtering, sh, ti = J()
    grid = grid_of(a['grid']); lw = lw_of(ctx, a['grid'], grid); L = len(lw); r = float(a['grid']['radius'])
    eig = ctx.model.call(12, [L, 0] + lw, [[r]])
    ev = np.asarray(grid.laplacian_eigenvalues, dtype=np.float64)
    ctx.corr('laplacian_eigenvalues', ev, eig[:L], scale=float(np.abs(ev).max()) + 1e-300)
    ctx.corr('abs(eigenvalues).max()', [float(np.abs(ev).max())], eig[L:], scale=float(np.abs(ev).max()) + 1e-300)
    exps = ctx.model.call(3, [L, a['order']] + lw, [[a['scale'], r]])
    f = filtering.horizontal_diffusion_filter(grid, a['scale'], a['order'])
    ones = np.ones((a['K'],) + tuple(grid.modal_shape))
    fac = np.asarray(f(ones))
    ctx.exact('shape kept', list(fac.shape), list(ones.shape))
    ctx.corr('horizontal_diffusion_filter factors', fac, [Fraction(fexp(q)) for q in exps] * (fac.size // L), scale=1.0)
    _log_corr(ctx, 'horizontal_diffusion_filter', fac, exps)
    _exp_table_obligations(ctx, exps)
    _factor_oracles(ctx, 'horizontal_diffusion_filter', fac, lw, exps)


def _data(rng, shape):
    return util.small_rationals(rng, tuple(shape), -16, 16, 8) + 0.125


def r_expstep(ctx, a):
    jax, jnp, filtering, sh, ti = J()
    grid = grid_of(a['grid']); lw = lw_of(ctx, a['grid'], grid); L = len(lw)
    rng = np.random.default_rng(a['dseed'])
    exps = ctx.model.call(4, [L, a['p']] + lw, [[a['dt'], a['tau'], a['c']]])
    tab = [Fraction(fexp(q)) for q in exps]
    mk = ti.exponential_leapfrog_step_filter if a['leapfrog'] else ti.exponential_step_filter
    full = mk(grid, a['dt'], a['tau'], a['p'], a['c']); half = mk(grid, a['dt'] / 2, a['tau'], a['p'], a['c'])
    ms = tuple(grid.modal_shape)
    ones = {'x': np.ones((2,) + ms), 't': 3.5}
    x = {'x': _data(rng, (2,) + ms), 't': 3.5}
    other = {'x': _data(rng, (2,) + ms), 't': -1.0}
    if a['leapfrog']:
        out = full((other, other), (x, ones))
        ctx.oracle('leapfrog step filter returns (current, filtered future) with current untouched',
                   isinstance(out, tuple) and len(out) == 2 and np.array_equal(np.asarray(out[0]['x']), x['x']) and out[0]['t'] == 3.5)
        fac = np.asarray(out[1]['x'])
        run = lambda flt, v: flt((other, other), (x, v))[1]
    else:
        fac = np.asarray(full(other, ones)['x'])
        out2 = full(ones, ones)
        ctx.oracle('Runge-Kutta step filter depends on u_next only', np.array_equal(np.asarray(out2['x']), fac))
        run = lambda flt, v: flt(other, v)
    ctx.corr('exponential step filter factors (attenuation dt/tau)', fac, tab * (fac.size // L), scale=1.0)
    _log_corr(ctx, 'exponential step filter (attenuation dt/tau)', fac, exps)
    fac_half = np.asarray(run(half, ones)['x'])
    _semigroup_factors(ctx, 'two applications with half the step = one with the full step (exponential, on the factors)', fac, fac_half, exps)
    _factor_oracles(ctx, 'exponential_step_filter', fac, lw, exps)
    y_full = run(full, x); y_half = run(half, run(half, x))
    ctx.oracle_close('two applications with half the step = one with the full step (exponential)',
                     np.asarray(y_half['x']), np.asarray(y_full['x']), scale=float(np.abs(x['x']).max()), tol_rel=1e-9)
    ctx.oracle('clock leaf untouched by step filter', y_full['t'] == 3.5 and y_half['t'] == 3.5)


def r_hdstep(ctx, a):
    jax, jnp, filtering, sh, ti = J()
    grid = grid_of(a['grid']); lw = lw_of(ctx, a['grid'], grid); L = len(lw); r = float(a['grid']['radius'])
    rng = np.random.default_rng(a['dseed'])
    exps = ctx.model.call(5, [L, a['order']] + lw, [[a['dt'], a['tau'], r]])
    tab = [Fraction(fexp(q)) for q in exps]
    full = ti.horizontal_diffusion_step_filter(grid, a['dt'], a['tau'], a['order'])
    half = ti.horizontal_diffusion_step_filter(grid, a['dt'] / 2, a['tau'], a['order'])
    ms = tuple(grid.modal_shape)
    ones = {'x': np.ones((2,) + ms), 't': np.float64(3.5)}
    x = {'x': _data(rng, (2,) + ms), 't': np.float64(3.5)}
    other = {'x': _data(rng, (2,) + ms), 't': np.float64(0.0)}
    fac = np.asarray(full(other, ones)['x'])
    ctx.corr('horizontal diffusion step filter factors', fac, tab * (fac.size // L), scale=1.0)
    _log_corr(ctx, 'horizontal diffusion step filter', fac, exps)
    fac_half = np.asarray(half(other, ones)['x'])
    _semigroup_factors(ctx, 'two applications with half the step = one with the full step (diffusion, on the factors)', fac, fac_half, exps)
    _factor_oracles(ctx, 'horizontal_diffusion_step_filter', fac, lw, exps)
    top = int(np.argmax(np.asarray(lw)))
    ratio = a['dt'] / a['tau']; ft = fac[..., top]
    if ratio < 700:
        ctx.oracle('top total wavenumber decays like exp(-dt/tau)', bool(np.all(ft > 0)) and
                   bool(np.all(np.abs(np.log(np.where(ft > 0, ft, 1.0)) + ratio) <= 2.0 ** -36 * ratio + 1e-15)),
                   {'factor': float(ft.ravel()[0]), 'dt/tau': ratio})
    else:
        ctx.oracle('top total wavenumber decays like exp(-dt/tau)', bool(np.all(ft <= 1e-300)), {'factor': float(ft.ravel()[0]), 'dt/tau': ratio})
    y_full = full(other, x); y_half = half(other, half(other, x))
    ctx.oracle_close('two applications with half the step = one with the full step (diffusion)',
                     np.asarray(y_half['x']), np.asarray(y_full['x']), scale=float(np.abs(x['x']).max()), tol_rel=1e-9)
    ctx.oracle('clock leaf untouched by step filter', float(y_full['t']) == 3.5 and np.shape(y_full['t']) == ())


def _scalar_filter(a_kind, grid, par, r):
    """(filter on pytrees, model command, ints-tail, params) for scalar strengths."""
    jax, jnp, filtering, sh, ti = J()
    if a_kind == 'exp':
        att, p, c = par
        return filtering.exponential_filter(grid, att, int(p), c), 2, int(p), [att, c]
    if a_kind == 'hd':
        s, o = par
        return filtering.horizontal_diffusion_filter(grid, s, int(o)), 3, int(o), [s, r]
    if a_kind == 'expstep':
        dt, tau, p, c = par
        f = ti.exponential_step_filter(grid, dt, tau, int(p), c)
        return (lambda t: f(None, t)), 4, int(p), [dt, tau, c]
    dt, tau, o = par
    f = ti.horizontal_diffusion_step_filter(grid, dt, tau, int(o))
    return (lambda t: f(None, t)), 5, int(o), [dt, tau, r]


def _leaf_check(ctx, name, sc_shape, sc_flat, leaf, out):
    """Model rescale vs implementation on one leaf; returns the model's verdict (rescaled?)."""
    lshape = list(np.shape(leaf))
    ctx.exact(name + ': leaf shape kept', list(np.shape(out)), lshape)
    lf = np.asarray(leaf, dtype=np.float64).ravel()
    m = ctx.model.call(10, _shape_ints(sc_shape) + _shape_ints(lshape), [sc_flat, lf.tolist()])
    if np.shape(out) == tuple(lshape):
        ctx.corr(name + ': rescale(leaf)', np.asarray(out, dtype=np.float64).ravel(), m, scale=float(np.abs(lf).max()) + 1e-300 if lf.size else 1.0)
    return m


def r_tree(ctx, a):
    jax, jnp, filtering, sh, ti = J()
    grid = grid_of(a['grid']); lw = lw_of(ctx, a['grid'], grid); L = len(lw); Mm = int(grid.modal_shape[0]); K = a['K']
    rng = np.random.default_rng(a['dseed'])
    f, cmd, p, pars = _scalar_filter(a['kind'], grid, a['par'], float(a['grid']['radius']))
    exps = ctx.model.call(cmd, [L, p] + lw, [pars])
    sc = [fexp(q) for q in exps]
    shapes = [[], [1], [L], [3], [Mm, L], [K, Mm, L], [2, K, Mm, L], [5, L], [L, 3], [K, Mm, 1], [2 * Mm, L + 1], [1, 1], [L, L]]
    tree = {'sim_time': 7.25, 'np_scalar': np.float64(-2.5), 'state': {}, 'aux': []}
    leaves_in = []
    for i, s in enumerate(shapes):
        v = _data(rng, s) if s else np.asarray(1.625)
        if i % 3 == 2: v = jnp.asarray(v)
        if i % 2: tree['state']['leaf%d' % i] = v
        else: tree['aux'].append(v)
    tree['aux'] = tuple(tree['aux'])
    clause = 'leaves without the spectral shape are returned unchanged'
    out, ok = _apply(ctx, clause, f, tree)
    if not ok: return
    li = jax.tree_util.tree_leaves(tree); lo = jax.tree_util.tree_leaves(out)
    ctx.exact('tree structure kept', str(jax.tree_util.tree_structure(out)), str(jax.tree_util.tree_structure(tree)))
    for x, y in zip(li, lo):
        s = list(np.shape(x))
        _leaf_check(ctx, a['kind'], [L], sc, x, y)
        spectral = len(s) >= 1 and s[-1] == L
        ctx.count('leaf spectral:%d' % spectral)
        if not spectral:
            same = np.shape(y) == np.shape(x) and np.array_equal(np.asarray(x), np.asarray(y))
            ctx.oracle(clause, bool(same), {'shape': s, 'L': L})
        else:
            want = np.asarray(x, dtype=np.float64) * np.asarray(sc)
            ctx.oracle_close('spectral leaves (.., L) are multiplied by the factor of their total wavenumber', np.asarray(y), want,
                             scale=float(np.abs(np.asarray(x)).max()) + 1e-300)
    _int_leaves(ctx, a['kind'], f, L, Mm, K, sc, clause)
    _form_leaves(ctx, a['kind'], f, L, Mm, K, sc, lw, rng, clause)


def _int_leaves(ctx, name, f, L, Mm, K, sc, clause):
    """Integer / boolean leaves: untouched ones come back as they are (same dtype); spectral ones are rescaled
    exactly as their float64 copy (dtype promotion to float64, as on the unchanged tree)."""
    jax, jnp, filtering, sh, ti = J()
    tree = {'step': jnp.asarray(3, dtype=jnp.int32), 'count1': np.array([4], dtype=np.int64), 'flag': np.bool_(True),
            'flags3': np.array([True, False, True]), 'pyint': 7, 'pybool': True, 'idx': jnp.arange(5, dtype=jnp.int64) - 2,
            'iL': np.arange(L, dtype=np.int32) - 2, 'jML': jnp.asarray(np.arange(Mm * L).reshape(Mm, L) % 7 - 3, dtype=jnp.int32),
            'bKML': (np.arange(K * Mm * L).reshape(K, Mm, L) % 3 == 0), 'u8L': np.arange(L, dtype=np.uint8)}
    out, ok = _apply(ctx, clause, f, tree)
    if not ok: return
    fl = {k: np.asarray(v, dtype=np.float64) for k, v in tree.items()}
    outf = f(fl)
    for k, x in tree.items():
        y = out[k]; s = list(np.shape(x))
        spectral = len(s) >= 1 and s[-1] == L
        _leaf_check(ctx, name + ' int/bool leaf ' + k, [L], sc, x, y)
        if spectral:
            ctx.oracle('integer/boolean spectral leaves are rescaled exactly like their float copy',
                       np.shape(y) == np.shape(x) and np.asarray(y).dtype == np.float64 and np.array_equal(np.asarray(y), np.asarray(outf[k])),
                       {'leaf': k, 'dtype': str(np.asarray(y).dtype)})
        else:
            same = (type(y) is type(x)) and np.shape(y) == np.shape(x) and np.asarray(y).dtype == np.asarray(x).dtype and \
                np.array_equal(np.asarray(x), np.asarray(y))
            ctx.oracle(clause, bool(same), {'leaf': k, 'in': repr(x)[:80], 'out': repr(y)[:80]})
        ctx.count('int leaf spectral:%d' % spectral)


def _np_rescale(x, sc, L):
    """Independent reference: numpy broadcasting of the (L,) scaling on leaves (.., L); everything else unchanged."""
    x = np.asarray(x)
    if x.ndim >= 1 and x.shape[-1] == L:
        return x.astype(np.float64) * np.asarray(sc, dtype=np.float64)
    return x


def _form_leaves(ctx, name, f, L, Mm, K, sc, lw, rng, clause):
    """float32 leaves, read-only and strided views, rank 5, structured spectra (zeros, one-hot at the top wavenumber)."""
    jax, jnp, filtering, sh, ti = J()
    top = int(np.argmax(np.asarray(lw)))
    onehot = np.zeros((K, Mm, L)); onehot[0, 0, top] = 1.0; onehot[K - 1, Mm - 1, top] = -2.0
    ro = _data(rng, [Mm, L]); ro.setflags(write=False)
    big = _data(rng, [2 * K, Mm, 2 * L])
    tree = {'f32': _data(rng, [K, Mm, L]).astype(np.float32), 'f32j': jnp.asarray(_data(rng, [Mm, L]), dtype=jnp.float32),
            'f32clock': np.float32(2.5), 'readonly': ro, 'strided': big[::2, :, ::2], 'transposed': _data(rng, [L, Mm]).T,
            'rank5': _data(rng, [2, 2, K, Mm, L]), 'zeros': np.zeros((Mm, L)), 'onehot_top': onehot,
            'nonspectral_view': big[:, :, 1:2 * L:2][..., :max(L - 1, 1)] if L > 2 else np.asarray(4.5)}
    before = {k: np.array(v, copy=True) for k, v in tree.items()}
    out, ok = _apply(ctx, clause, f, tree)
    if not ok: return
    for k, x in tree.items():
        y = out[k]
        ctx.oracle('filters do not modify their input leaves', np.array_equal(np.asarray(x), before[k]), {'leaf': k})
        _leaf_check(ctx, name + ' leaf ' + k, [L], sc, x, y)
        want = _np_rescale(before[k], sc, L)
        if want.ndim >= 1 and want.shape[-1] == L:
            ctx.oracle_close('spectral leaves (.., L) are multiplied by the factor of their total wavenumber', np.asarray(y, dtype=np.float64),
                             want, scale=float(np.abs(want).max()) + 1e-300)
        else:
            ctx.oracle(clause, np.shape(y) == np.shape(x) and np.asarray(y).dtype == np.asarray(x).dtype and
                       np.array_equal(np.asarray(y), before[k]), {'leaf': k})
    # deep nesting, many leaves: same leaves inside dict/list/tuple/None containers 4 levels deep
    keys = list(tree)
    nested = {'lvl1': {'lvl2': [dict((k, tree[k]) for k in keys[:4]), ({'lvl4': [tree[k] for k in keys[4:]]}, None)], 'clock': 3.0}, 'extra': ()}
    outn, ok = _apply(ctx, clause, f, nested)
    if ok:
        ctx.exact('nested tree structure kept', str(jax.tree_util.tree_structure(outn)), str(jax.tree_util.tree_structure(nested)))
        flat_ref = [out[k] for k in keys[:4]] + [3.0] + [out[k] for k in keys[4:]]
        got = jax.tree_util.tree_leaves(outn); want = jax.tree_util.tree_leaves({'lvl1': {'lvl2': [dict((k, out[k]) for k in keys[:4]), ({'lvl4': [out[k] for k in keys[4:]]}, None)], 'clock': 3.0}, 'extra': ()})
        ctx.oracle('leaves of a deeply nested pytree are filtered exactly like the same leaves in a flat one',
                   len(got) == len(want) and all(np.shape(g_) == np.shape(w_) and np.array_equal(np.asarray(g_), np.asarray(w_)) for g_, w_ in zip(got, want)),
                   {'leaves': len(got)})
    z = np.asarray(out['zeros'])
    ctx.oracle('an identically zero spectrum stays identically zero', bool(np.all(z == 0.0)))
    oh = np.asarray(out['onehot_top']); mask = onehot != 0
    ctx.oracle('a single coefficient at the highest retained wavenumber stays a single coefficient',
               bool(np.all(oh[~mask] == 0.0)) and bool(np.all(np.abs(oh[mask]) <= np.abs(onehot[mask]))), {'values': oh[mask].tolist()})


def r_incompatible(ctx, a):
    jax, jnp, filtering, sh, ti = J()
    grid = grid_of(a['grid']); lw = lw_of(ctx, a['grid'], grid); L = len(lw)
    clause = 'leaves without the spectral shape are returned unchanged'
    fs = [filtering.exponential_filter(grid, 16.0, 2, 0.0), filtering.horizontal_diffusion_filter(grid, 0.1, 1),
          (lambda t, f=ti.exponential_step_filter(grid, 0.5, 0.25): f(None, t)),
          (lambda t, f=ti.horizontal_diffusion_step_filter(grid, 0.5, 2.0): f(None, t)),
          (lambda t, f=ti.exponential_leapfrog_step_filter(grid, 0.5, 0.25): f(None, (t, t))[1])]
    for s in a['shapes']:
        x = {'x': np.arange(1.0, 1.0 + int(np.prod(s))).reshape(s), 'm': np.ones(grid.modal_shape)}
        m = ctx.model.call(1, _shape_ints(s) + _shape_ints([L]), [])
        for f in fs:
            out, ok = _apply(ctx, clause, f, x)
            if not ok: continue
            spectral = s[-1] == L
            if spectral:
                ctx.exact('model: leaf (.., L) is rescaled', [int(m[0])], [1])
            else:
                ctx.exact('model: incompatible leaf is not rescaled', [int(m[0])], [0])
                ctx.oracle(clause, np.shape(out['x']) == tuple(s) and np.array_equal(np.asarray(out['x']), x['x']), {'shape': s, 'L': L})


def r_array_strength(ctx, a):
    jax, jnp, filtering, sh, ti = J()
    grid = grid_of(a['grid']); lw = lw_of(ctx, a['grid'], grid); L = len(lw); Mm = int(grid.modal_shape[0]); K = a['K']; r = float(a['grid']['radius'])
    rng = np.random.default_rng(a['dseed'])
    st = [float(s) for s in a['strengths']]; T = len(st); lead = a['lead']; kind = a['kind']; par = a['par']
    ashape = [T] + [1] * (lead - 1)
    arr = np.asarray(st).reshape(ashape)
    if kind == 'exp':
        mk = lambda s: filtering.exponential_filter(grid, s, int(par[0]), par[1]); cmd, p, tail = 6, int(par[0]), [par[1]]
        spar = lambda s: [s, int(par[0]), par[1]]
    elif kind == 'hd':
        mk = lambda s: filtering.horizontal_diffusion_filter(grid, s, int(par[0])); cmd, p, tail = 7, int(par[0]), [r]
        spar = lambda s: [s, int(par[0])]
    elif kind == 'expstep':   # strengths are the taus
        mk = lambda s: (lambda t, f=ti.exponential_step_filter(grid, par[0], s, int(par[1]), par[2]): f(None, t))
        cmd, p, tail = 8, int(par[1]), [par[0], par[2]]
        spar = lambda s: [par[0], s, int(par[1]), par[2]]
    else:
        mk = lambda s: (lambda t, f=ti.horizontal_diffusion_step_filter(grid, par[0], s, int(par[1])): f(None, t))
        cmd, p, tail = 9, int(par[1]), [par[0], r]
        spar = lambda s: [par[0], s, int(par[1])]
    m = ctx.model.call(cmd, [L, p] + lw + _shape_ints(ashape), [st, tail])
    sshape = ashape[:-1] + [L]
    ctx.exact('scaling shape = broadcast(strength shape, (L,))', [int(v) for v in m[:lead]] if m else None, sshape)
    sc = [fexp(q) for q in m[lead:]]
    f = mk(arr)
    lshape = [T] + ([K] if lead == 4 else []) + [Mm, L]
    x = _data(rng, lshape)
    surf = list(lshape); surf[1 if lead == 4 else 0] = 1      # size-1 level axis ("surface" field)
    tree = {'x': x, 'ones': np.ones(sshape), 'lower': _data(rng, lshape[1:]), 't': 0.5,
            'batched': _data(rng, [2] + lshape), 'surface': _data(rng, surf), 'ints': (np.arange(int(np.prod(lshape))).reshape(lshape) % 5 - 2)}
    out, ok = _apply(ctx, 'array-valued strengths are accepted', f, tree)
    if not ok: return
    ctx.corr('scaling for array-valued strength (filter applied to ones(scaling.shape))', np.asarray(out['ones']), [Fraction(v) for v in sc], scale=1.0)
    for i in range(T):
        _log_corr(ctx, kind + ' array-valued strength, slice %d' % i, np.asarray(out['ones']).reshape(T, L)[i], m[lead + i * L: lead + (i + 1) * L])
    scn = np.asarray(sc, dtype=np.float64).reshape(sshape)
    for k in ('x', 'ones', 'lower', 't', 'batched', 'surface', 'ints'):
        _leaf_check(ctx, kind + ' array strength', sshape, sc, tree[k], out[k])
        xs = np.shape(tree[k])
        try:
            keep = tuple(np.broadcast_shapes(xs, tuple(sshape))) == tuple(xs)
        except ValueError:
            keep = False
        ref = np.asarray(tree[k], dtype=np.float64) * scn if keep else np.asarray(tree[k])
        ctx.oracle_close('array-valued strengths: leaf equals numpy broadcasting of the scaling (or is unchanged)',
                         np.asarray(out[k], dtype=np.float64), np.asarray(ref, dtype=np.float64),
                         scale=float(np.abs(np.asarray(tree[k], dtype=np.float64)).max()) + 1e-300)
        ctx.count('array leaf %s rescaled:%d' % (k, keep))
    for i in range(T):
        fi = mk(st[i])
        oi = fi({'x': x[i]})['x']
        ctx.oracle_close('array-valued strength acts on slice i like the scalar strength i', np.asarray(out['x'])[i], np.asarray(oi),
                         scale=float(np.abs(x).max()), tol_rel=1e-12)
        # scalar-strength exponent table of the model for strength i equals slice i of the array table
        cmd_s = {'exp': 2, 'hd': 3, 'expstep': 4, 'hdstep': 5}[kind]
        sp = spar(st[i])
        pars = {'exp': lambda: [sp[0], sp[2]], 'hd': lambda: [sp[0], r], 'expstep': lambda: [sp[0], sp[1], sp[3]],
                'hdstep': lambda: [sp[0], sp[1], r]}[kind]()
        ei = ctx.model.call(cmd_s, [L, p] + lw, [pars])
        ctx.exact('model: slice i of the array exponent table = scalar table', [str(v) for v in m[lead + i * L: lead + (i + 1) * L]], [str(v) for v in ei])
    # the leaf lacking the leading strength axis has lower rank than the scaling: never rescaled
    ctx.oracle('leaves without the spectral shape are returned unchanged',
               np.array_equal(np.asarray(out['lower']), tree['lower']) and out['t'] == 0.5,
               {'leaf': lshape[1:], 'scaling': sshape})
    ctx.count('array kind=' + kind); ctx.count('T=%d' % T)


def r_robert_asselin(ctx, a):
    jax, jnp, filtering, sh, ti = J()
    rng = np.random.default_rng(a['dseed'])
    r = a['r']
    cur = {}; prev = {}; fut = {}
    for i, s in enumerate(a['shapes']):
        c = _data(rng, s) if s else np.float64(1.625)
        d = _data(rng, s) if s else np.float64(0.375)
        if a['linear']:
            p, f = c - d, c + d
        else:
            p = _data(rng, s) if s else np.float64(-0.5)
            f = _data(rng, s) if s else np.float64(2.75)
        cur['l%d' % i], prev['l%d' % i], fut['l%d' % i] = c, p, f
    flt = ti.robert_asselin_leapfrog_filter(r)
    unused = jax.tree_util.tree_map(lambda v: v * 0 + 99.0, cur)
    out = flt((prev, cur), (unused, fut))
    ctx.oracle('Robert-Asselin returns a pair (filtered current, future)', isinstance(out, tuple) and len(out) == 2)
    fc, ff = out
    ctx.oracle('Robert-Asselin leaves the newest time level unchanged',
               all(np.array_equal(np.asarray(ff[k]), np.asarray(fut[k])) and np.shape(ff[k]) == np.shape(fut[k]) for k in fut))
    for k in cur:
        s = list(np.shape(cur[k]))
        flatten = lambda v: np.asarray(v, dtype=np.float64).ravel().tolist()
        m = ctx.model.call(11, _shape_ints(s), [flatten(prev[k]), flatten(cur[k]), flatten(fut[k]), [r]])
        scale = float(max(np.abs(prev[k]).max(), np.abs(cur[k]).max(), np.abs(fut[k]).max())) * 3 + 1e-300
        ctx.exact('Robert-Asselin keeps leaf shapes', list(np.shape(fc[k])), s)
        ctx.corr('robert_asselin filtered current', np.asarray(fc[k]), m, scale=scale)
        if a['linear']:
            ctx.oracle_close('Robert-Asselin leaves a sequence that is linear in time unchanged', np.asarray(fc[k]), np.asarray(cur[k]),
                             scale=scale, tol_rel=1e-13)
    ctx.count('ra linear:%d' % a['linear'])


def _factories(grid, r):
    """Every filter factory of the property with fixed non-default parameters: name -> (constructor, model cmd, ints tail p, params)."""
    jax, jnp, filtering, sh, ti = J()
    rk = lambda mk: (lambda: (lambda t, f=mk(): f(None, t)))
    lf = lambda mk: (lambda: (lambda t, f=mk(): f(None, (t, t))[1]))
    return {
        'exponential_filter': (lambda: filtering.exponential_filter(grid, 16.0, 2, 0.25), 2, 2, [16.0, 0.25]),
        'horizontal_diffusion_filter': (lambda: filtering.horizontal_diffusion_filter(grid, 0.01, 1), 3, 1, [0.01, r]),
        'horizontal_diffusion_filter order 3': (lambda: filtering.horizontal_diffusion_filter(grid, 0.001, 3), 3, 3, [0.001, r]),
        'exponential_step_filter': (rk(lambda: ti.exponential_step_filter(grid, 0.5, 0.25, 2, 0.25)), 4, 2, [0.5, 0.25, 0.25]),
        'exponential_leapfrog_step_filter': (lf(lambda: ti.exponential_leapfrog_step_filter(grid, 0.75, 0.25, 1, 0.0)), 4, 1, [0.75, 0.25, 0.0]),
        'horizontal_diffusion_step_filter': (rk(lambda: ti.horizontal_diffusion_step_filter(grid, 0.5, 2.0, 1)), 5, 1, [0.5, 2.0, r]),
        'horizontal_diffusion_step_filter order 2': (rk(lambda: ti.horizontal_diffusion_step_filter(grid, 3.0, 2.0, 2)), 5, 2, [3.0, 2.0, r]),
    }


def r_purity(ctx, a):
    """Repeated / interleaved construction of every filter factory on the SAME Grid instance, on a second grid that
    differs in one option, and on fresh instances: bit-identical factors, cached grid tables untouched."""
    jax, jnp, filtering, sh, ti = J()
    gA, gB = a['gridA'], a['gridB']
    def tables(grid):
        return [np.array(grid.laplacian_eigenvalues, copy=True), np.array(grid.modal_axes[0], copy=True), np.array(grid.modal_axes[1], copy=True)]
    def facs(grid, spec):
        ms = tuple(expected_layout(spec)[0]); out = {}
        t0 = tables(grid)
        for k, v in _factories(grid, float(spec['radius'])).items():
            out[k] = np.asarray(v[0]()({'x': np.ones((2,) + ms)})['x'])
            ctx.oracle('filter construction does not modify the cached tables of the Grid',
                       all(np.array_equal(x, y) for x, y in zip(t0, tables(grid))), {'after': k})
        return out
    A = new_grid(gA); B = new_grid(gB)
    if a['first'] == 'B': facs(B, gB)
    tA = tables(A)
    runs = [facs(A, gA), facs(A, gA)]
    FB = [facs(B, gB)]
    runs.append(facs(A, gA)); FB.append(facs(B, gB)); runs.append(facs(A, gA))
    runs.append(facs(new_grid(gA), gA)); FB.append(facs(new_grid(gB), gB))
    for k in runs[0]:
        ctx.oracle('constructing a filter repeatedly on the same Grid gives bit-identical factors (' + k + ')',
                   all(np.array_equal(runs[0][k], r_[k]) for r_ in runs[1:]) and all(np.array_equal(FB[0][k], r_[k]) for r_ in FB[1:]),
                   {'first': runs[0][k][0, 0].tolist(), 'later': [r_[k][0, 0].tolist() for r_ in runs[1:]]})
    tA2 = tables(A)
    ctx.oracle('filter construction does not modify the cached tables of the Grid', all(np.array_equal(x, y) for x, y in zip(tA, tA2)))
    for spec, grid, F in ((gA, A, runs[-2]), (gB, B, FB[1])):
        lw = lw_of(ctx, spec, grid); L = len(lw); rr = float(spec['radius'])
        eig_ref = -np.asarray(lw, dtype=np.float64) * (np.asarray(lw, dtype=np.float64) + 1) / rr ** 2
        ctx.oracle_close('laplacian_eigenvalues = -l(l+1)/r^2 after all constructions', np.asarray(grid.laplacian_eigenvalues, dtype=np.float64), eig_ref)
        for k, (mk, cmd, p, pars) in _factories(grid, rr).items():
            exps = ctx.model.call(cmd, [L, p] + lw, [pars])
            ctx.corr(k + ' factors after repeated construction', F[k], [Fraction(fexp(q)) for q in exps] * (F[k].size // L), scale=1.0)
            _log_corr(ctx, k + ' after repeated construction', F[k], exps)
            _factor_oracles(ctx, k + ' (repeated construction)', F[k], lw, exps)
    # one filter object applied repeatedly, interleaved, and under jit
    ms = tuple(expected_layout(gA)[0]); rng = np.random.default_rng(a['dseed'])
    x = {'x': _data(rng, (2,) + ms), 't': 1.5}; x0 = np.array(x['x'], copy=True)
    for k, v in _factories(A, float(gA['radius'])).items():
        f = v[0](); y1 = f(x); f({'x': np.ones((1,) + ms), 't': 0.0}); y2 = f(x)
        ctx.oracle('applying one filter repeatedly gives bit-identical results and leaves its input alone (' + k + ')',
                   np.array_equal(np.asarray(y1['x']), np.asarray(y2['x'])) and np.array_equal(x['x'], x0) and y2['t'] == 1.5)
        if a.get('jit'):
            yj = jax.jit(f)(x)
            ctx.oracle_close('jit(filter) = filter (' + k + ')', np.asarray(yj['x']), np.asarray(y1['x']), scale=float(np.abs(x0).max()), tol_rel=1e-14)
            ctx.oracle('jit(filter) leaves the clock unchanged', float(yj['t']) == 1.5 and np.shape(yj['t']) == ())
    ctx.count('purity pair %s/%s' % (gA['impl'], gB['impl']))


def r_defaults(ctx, a):
    """Documented default arguments: attenuation 16, order 18, cutoff 0; tau = 0.010938; diffusion order 1."""
    jax, jnp, filtering, sh, ti = J()
    g = a['grid']; grid = grid_of(g); lw = lw_of(ctx, g, grid); L = len(lw); r = float(g['radius']); ms = tuple(expected_layout(g)[0])
    ones = {'x': np.ones((1,) + ms)}
    dt = a['dt']
    cases = {
        'exponential_filter()': (lambda: filtering.exponential_filter(grid)(ones)['x'], 2, 18, [16.0, 0.0]),
        'exponential_filter(attenuation)': (lambda: filtering.exponential_filter(grid, 3.0)(ones)['x'], 2, 18, [3.0, 0.0]),
        'exponential_filter(order=)': (lambda: filtering.exponential_filter(grid, order=3)(ones)['x'], 2, 3, [16.0, 0.0]),
        'exponential_filter(cutoff=)': (lambda: filtering.exponential_filter(grid, cutoff=0.5)(ones)['x'], 2, 18, [16.0, 0.5]),
        'horizontal_diffusion_filter(scale)': (lambda: filtering.horizontal_diffusion_filter(grid, 0.02)(ones)['x'], 3, 1, [0.02, r]),
        'exponential_step_filter(dt)': (lambda: ti.exponential_step_filter(grid, dt)(None, ones)['x'], 4, 18, [dt, 0.010938, 0.0]),
        'exponential_step_filter(dt, tau)': (lambda: ti.exponential_step_filter(grid, dt, 0.5)(None, ones)['x'], 4, 18, [dt, 0.5, 0.0]),
        'exponential_step_filter(cutoff=)': (lambda: ti.exponential_step_filter(grid, dt, cutoff=0.25)(None, ones)['x'], 4, 18, [dt, 0.010938, 0.25]),
        'exponential_leapfrog_step_filter(dt)': (lambda: ti.exponential_leapfrog_step_filter(grid, dt)(None, (ones, ones))[1]['x'], 4, 18, [dt, 0.010938, 0.0]),
        'exponential_leapfrog_step_filter(order=)': (lambda: ti.exponential_leapfrog_step_filter(grid, dt, order=2)(None, (ones, ones))[1]['x'], 4, 2, [dt, 0.010938, 0.0]),
        'horizontal_diffusion_step_filter(dt, tau)': (lambda: ti.horizontal_diffusion_step_filter(grid, dt, 0.5)(None, ones)['x'], 5, 1, [dt, 0.5, r]),
    }
    for k, (run, cmd, p, pars) in cases.items():
        fac = np.asarray(run())
        exps = ctx.model.call(cmd, [L, p] + lw, [pars])
        ctx.corr(k + ' with default arguments', fac, [Fraction(fexp(q)) for q in exps] * (fac.size // L), scale=1.0)
        _log_corr(ctx, k + ' with default arguments', fac, exps)
        _factor_oracles(ctx, k, fac, lw, exps)


def r_make_filter(ctx, a):
    """filtering._make_filter_fn with an arbitrary scaling array on leaves of arbitrary shapes."""
    jax, jnp, filtering, sh, ti = J()
    rng = np.random.default_rng(a['dseed'])
    ss = a['sshape']; scal = (rng.integers(1, 17, size=tuple(ss)) / 16.0).astype(np.float64)
    f = filtering._make_filter_fn(jnp.asarray(scal) if a['jnp'] else scal, 'name' if a['jnp'] else None)
    tree = {'l%d' % i: (_data(rng, s) if s else np.asarray(0.75)) for i, s in enumerate(a['shapes'])}
    tree['py'] = 2.0
    clause = 'leaves without the spectral shape are returned unchanged'
    out, ok = _apply(ctx, clause, f, tree)
    if not ok: return
    for k, x in tree.items():
        xs = tuple(np.shape(x))
        try:
            keep = tuple(np.broadcast_shapes(xs, tuple(ss))) == xs
        except ValueError:
            keep = False
        _leaf_check(ctx, '_make_filter_fn', ss, scal.ravel().tolist(), x, out[k])
        ref = np.asarray(x, dtype=np.float64) * scal if keep else np.asarray(x, dtype=np.float64)
        if keep:
            ctx.oracle_close('a leaf is multiplied by the broadcast scaling iff broadcasting preserves its shape', np.asarray(out[k], dtype=np.float64), ref,
                             scale=float(np.abs(ref).max()) + 1e-300)
        else:
            ctx.oracle(clause, np.shape(out[k]) == xs and np.array_equal(np.asarray(out[k]), np.asarray(x)), {'leaf': list(xs), 'scaling': ss})
        ctx.count('make_filter keep:%d' % keep)


def r_array_order(ctx, a):
    """`order` given as an array (documented int | Array): slice i behaves like the scalar order i."""
    jax, jnp, filtering, sh, ti = J()
    g = a['grid']; grid = grid_of(g); lw = lw_of(ctx, g, grid); L = len(lw); ms = tuple(expected_layout(g)[0])
    ps = a['orders']; T = len(ps)
    parr = np.asarray(ps).reshape((T, 1, 1, 1))
    f = filtering.exponential_filter(grid, a['a'], parr, a['c'])
    ones = np.ones((T, 2) + ms)
    out, ok = _apply(ctx, 'array-valued order is accepted', f, {'x': ones, 't': 0.5})
    if not ok: return
    fac = np.asarray(out['x'])
    for i, p in enumerate(ps):
        exps = ctx.model.call(2, [L, int(p)] + lw, [[a['a'], a['c']]])
        ctx.corr('array-valued order, slice %d' % i, fac[i], [Fraction(fexp(q)) for q in exps] * (fac[i].size // L), scale=1.0)
        _log_corr(ctx, 'array-valued order, slice %d' % i, fac[i], exps)
        _factor_oracles(ctx, 'exponential_filter(order array) slice %d' % i, fac[i], lw, exps)
        fi = np.asarray(filtering.exponential_filter(grid, a['a'], int(p), a['c'])(ones[i]))
        ctx.oracle_close('array-valued order acts on slice i like the scalar order i', fac[i], fi, scale=1.0, tol_rel=1e-13)
    ctx.oracle('clock leaf untouched', out['t'] == 0.5)


def _tree_close(ctx, clause, got, want, tol_rel=1e-13):
    jax, jnp, filtering, sh, ti = J()
    g_ = jax.tree_util.tree_leaves(got); w_ = jax.tree_util.tree_leaves(want)
    if len(g_) != len(w_):
        return ctx.oracle(clause, False, {'leaves': [len(g_), len(w_)]})
    ok = True
    for x, y in zip(g_, w_):
        y = np.asarray(y, dtype=np.float64)
        ok = ctx.oracle_close(clause, np.asarray(x, dtype=np.float64), y, scale=float(np.abs(y).max()) + 1e-300 if y.size else 1.0, tol_rel=tol_rel) and ok
    return ok


def r_transforms(ctx, a):
    """Every filter under jit (construction inside and outside), eval_shape, vmap over a leading axis, jvp and vjp:
    the filters are linear and diagonal, so jvp = filter(tangent), vjp = filter(cotangent) (self-adjoint), all finite.
    References are numpy broadcasts of the model's factor table."""
    jax, jnp, filtering, sh, ti = J()
    g = a['grid']; grid = grid_of(g); lw = lw_of(ctx, g, grid); L = len(lw); ms = tuple(expected_layout(g)[0]); r = float(g['radius'])
    rng = np.random.default_rng(a['dseed']); K = 2; B = 3; odd = 3 if L != 3 else 4
    def mk_tree(lead=()):
        return {'x': _data(rng, lead + (K,) + ms), 'aux': (_data(rng, lead + (L,)), _data(rng, lead + (odd,))), 't': _data(rng, lead)}
    x, v, w = mk_tree(), mk_tree(), mk_tree()
    xb = mk_tree((B,))
    J_ = lambda t: jax.tree_util.tree_map(jnp.asarray, t)
    for k, (mk, cmd, p, pars) in _factories(grid, r).items():
        exps = ctx.model.call(cmd, [L, p] + lw, [pars]); sc = [fexp(q) for q in exps]
        ref = lambda t: jax.tree_util.tree_map(lambda leaf: _np_rescale(leaf, sc, L), t)
        f = mk()
        _tree_close(ctx, 'filter = numpy broadcast of the factor table (' + k + ')', f(x), ref(x))
        _tree_close(ctx, 'jit(filter) = filter (' + k + ')', jax.jit(f)(x), ref(x))
        _tree_close(ctx, 'filter constructed inside jit = filter (' + k + ')', jax.jit(lambda t: mk()(t))(J_(x)), ref(x))
        es = jax.eval_shape(f, J_(x))
        ctx.oracle('eval_shape(filter) keeps shapes and dtypes (' + k + ')',
                   [(tuple(l_.shape), str(l_.dtype)) for l_ in jax.tree_util.tree_leaves(es)] ==
                   [(np.shape(l_), 'float64') for l_ in jax.tree_util.tree_leaves(x)])
        yb = jax.vmap(f)(J_(xb))
        wantb = {'x': xb['x'] * np.asarray(sc), 'aux': (xb['aux'][0] * np.asarray(sc), xb['aux'][1]), 't': xb['t']}
        _tree_close(ctx, 'vmap(filter) over a leading axis = filter on every slice (' + k + ')', yb, wantb)
        prim, tang = jax.jvp(f, (J_(x),), (J_(v),))
        _tree_close(ctx, 'jvp of a filter: primal = filter(x) (' + k + ')', prim, ref(x))
        _tree_close(ctx, 'jvp of a filter = filter applied to the tangent (' + k + ')', tang, ref(v))
        out, pull = jax.vjp(f, J_(x))
        (ct,) = pull(J_(w))
        fin = all(bool(np.all(np.isfinite(np.asarray(l_)))) for l_ in jax.tree_util.tree_leaves(ct))
        ctx.oracle('vjp of a filter is finite (' + k + ')', fin)
        _tree_close(ctx, 'vjp of a filter = filter applied to the cotangent (diagonal, self-adjoint) (' + k + ')', ct, ref(w))
    # Robert-Asselin under jit / vmap / jvp
    rr = 0.05; ra = ti.robert_asselin_leapfrog_filter(rr)
    mix = lambda p_, c_, f_: jax.tree_util.tree_map(lambda a_, b_, c__: (1 - 2 * rr) * np.asarray(b_) + rr * (np.asarray(a_) + np.asarray(c__)), p_, c_, f_)
    got = jax.jit(ra)((J_(x), J_(v)), (J_(x), J_(w)))
    _tree_close(ctx, 'jit(Robert-Asselin) = formula', got, (mix(x, v, w), w))
    xb2, xb3 = mk_tree((B,)), mk_tree((B,))
    got = jax.vmap(ra)((J_(xb), J_(xb2)), (J_(xb), J_(xb3)))
    _tree_close(ctx, 'vmap(Robert-Asselin) = formula on every slice', got, (mix(xb, xb2, xb3), xb3))
    ctx.count('transforms impl=' + g['impl'])


def r_chain(ctx, a):
    """Step filters in a chain (time_integration.step_with_filters) in both orders, with u unrelated to u_next."""
    jax, jnp, filtering, sh, ti = J()
    g = a['grid']; grid = grid_of(g); lw = lw_of(ctx, g, grid); L = len(lw); ms = tuple(expected_layout(g)[0])
    rng = np.random.default_rng(a['dseed']); rr = a['r']
    exps = ctx.model.call(4, [L, a['p']] + lw, [[a['dt'], a['tau'], a['c']]]); sc = np.asarray([fexp(q) for q in exps])
    T = lambda: {'x': _data(rng, (2,) + ms), 'spec1d': _data(rng, (L,)), 't': float(rng.integers(1, 9)) / 4}
    prev, cur, curx, fut = T(), T(), T(), T()
    F = lambda t: {'x': t['x'] * sc, 'spec1d': t['spec1d'] * sc, 't': t['t']}
    mix = lambda p_, c_, f_: {k: (1 - 2 * rr) * c_[k] + rr * (p_[k] + f_[k]) for k in c_}
    ra = ti.robert_asselin_leapfrog_filter(rr)
    ex = ti.exponential_leapfrog_step_filter(grid, a['dt'], a['tau'], a['p'], a['c'])
    step_fn = lambda u: (curx, fut)
    out = ti.step_with_filters(step_fn, [ra, ex])((prev, cur))
    _tree_close(ctx, 'Robert-Asselin then exponential leapfrog filter: (RA(current), F(future))', out, (mix(prev, cur, fut), F(fut)))
    out = ti.step_with_filters(step_fn, [ex, ra])((prev, cur))
    _tree_close(ctx, 'exponential leapfrog filter then Robert-Asselin: (RA with F(future), F(future))', out, (mix(prev, cur, F(fut)), F(fut)))
    out = ti.step_with_filters(step_fn, [ex, ex])((prev, cur))
    _tree_close(ctx, 'leapfrog step filter twice: current slot of u_next untouched, future filtered twice', out, (curx, F(F(fut))))
    # u unrelated to u_next (other structure, other shapes, None)
    for u in (None, {'unrelated': np.ones(3)}, ('a string', 7), (fut, prev)):
        o1 = ex(u, (curx, fut))
        _tree_close(ctx, 'leapfrog step filter ignores u and filters only the newest level of u_next', o1, (curx, F(fut)))
        o2 = ti.exponential_step_filter(grid, a['dt'], a['tau'], a['p'], a['c'])(u, fut)
        _tree_close(ctx, 'Runge-Kutta step filter ignores u and filters u_next', o2, F(fut))
    ctx.count('chain')


def r_ra_int(ctx, a):
    jax, jnp, filtering, sh, ti = J()
    r = a['r']; st = a['stride']
    flt = ti.robert_asselin_leapfrog_filter(r)
    def state(n):
        return {'step': jnp.asarray(st * n, dtype=jnp.int32), 'count1': np.array([st * n], dtype=np.int64), 'pyint': st * n,
                'members': jnp.arange(4, dtype=jnp.int64) * 3 + st * n, 'np_idx': np.arange(3, dtype=np.int32) - st * n,
                'clock': 0.25 * n}
    worst = 0.0; where = None; newest_ok = True
    for n in range(1, a['steps']):
        prev, cur, fut = state(n - 1), state(n), state(n + 1)
        fc, ff = flt((prev, cur), (cur, fut))
        for k in cur:
            c = np.asarray(cur[k], dtype=np.float64); y = np.asarray(fc[k], dtype=np.float64)
            scale = float(np.abs(np.asarray(fut[k], dtype=np.float64)).max()) + 1.0
            e = float(np.abs(y - c).max()) / scale if np.shape(y) == np.shape(c) else float('inf')
            if e > worst: worst, where = e, {'step': n, 'leaf': k, 'filtered': y.tolist(), 'current': c.tolist()}
            nk = ff[k]
            newest_ok = newest_ok and np.shape(nk) == np.shape(fut[k]) and np.asarray(nk).dtype == np.asarray(fut[k]).dtype and \
                np.array_equal(np.asarray(nk), np.asarray(fut[k]))
            if n % 10 == 3:
                fl = lambda v: np.asarray(v, dtype=np.float64).ravel().tolist()
                m = ctx.model.call(11, _shape_ints(list(np.shape(cur[k]))), [fl(prev[k]), fl(cur[k]), fl(fut[k]), [r]])
                ctx.corr('robert_asselin on integer-dtype leaf ' + k, y, m, scale=3 * scale)
    ctx.oracle('Robert-Asselin leaves a sequence that is linear in time unchanged', worst <= 1e-12, where)
    ctx.oracle('Robert-Asselin leaves the newest time level unchanged', bool(newest_ok))
    ctx.count('ra_int r=%g' % r)


RUNNERS = {'shapes': r_shapes, 'expfilter': r_expfilter, 'hdfilter': r_hdfilter, 'expstep': r_expstep, 'hdstep': r_hdstep,
           'tree': r_tree, 'incompatible_leaf': r_incompatible, 'array_strength': r_array_strength,
           'robert_asselin': r_robert_asselin, 'ra_int': r_ra_int,
           'purity': r_purity, 'transforms': r_transforms, 'chain': r_chain, 'defaults': r_defaults, 'make_filter': r_make_filter, 'array_order': r_array_order}
