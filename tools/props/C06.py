"""C06 - IMEX integrators: correspondence of Model/Integrators.v (+ the regenerated
Gen/Tableaux.v) with dinosaur.time_integration, and the property's own clauses
(order by step halving, reduction, A-stability, length validation) evaluated on
the implementation."""
import itertools, os
import numpy as np
from fractions import Fraction
from harness import util, core

THEOREMS = [
    'C06_gen_complete',
    'C06_order_euler', 'C06_order_cn_rk2', 'C06_order_cn_rk3', 'C06_order_cn_rk4', 'C06_order_sil3',
    'C06_order_decider_sound', 'C06_rk4_near_carpenter_kennedy',
    'C06_linear_taylor_series', 'C06_leapfrog_second_order_series',
    'C06_imex_is_ark', 'C06_lowstorage_is_ark', 'C06_direct_schemes_are_ark',
    'C06_imex_reduces_to_explicit', 'C06_imex_reduces_to_implicit',
    'C06_reduces_to_explicit', 'C06_reduces_to_implicit',
    'C06_A_stable_backward_euler', 'C06_A_stable_cn_lowstorage', 'C06_A_stable_cn_rk2',
    'C06_A_stable_sil3', 'C06_A_stable_leapfrog', 'C06_A_stable_leapfrog_default',
    'C06_lengths_validated', 'C06_tableau_validated',
    'C06_hyps_satisfiable',
]
LEVEL = 'proof'
LEVEL_TEXT = ('machine-checked theorems (Coq) on the coefficients regenerated from time_integration.py each run: '
              'additive-RK order conditions (exact, or |residual| <= 1e-13 for the 13-digit decimals) up to the design '
              'order and failure of the next order; bivariate Taylor coefficients of the linear one-step multiplier '
              '(formal power series); every step function is an additive RK step in Butcher form, for every field, '
              'module, nonlinear F and G: imex_runge_kutta interpreter (zero skipping, lazy stages) for every tableau, '
              'low-storage 2N+CN scheme = ark_step(lowstorage_to_butcher) for every coefficient list, Euler pair and CN-RK2 '
              'on their tableaux; reduction to the explicit RK / DIRK / CN-chain / backward-Euler scheme (all six schemes); '
              '|r(0,z)| <= 1 for all dt >= 0, Re z <= 0 over the reals: backward Euler, CN-RK2, every Crank-Nicolson chain '
              'with non-decreasing alphas incl. the generated RK3/RK4 sets, SIL3 (stability function derived from the '
              'generated a_im/b_im, polynomial certificate), leapfrog alpha >= 1/2; '
              'length validation accepts exactly the consistent shapes; model executed against the implementation')
LEVEL_NOTE = ('theorems are about Model/Integrators.v with the coefficients of Gen/Tableaux.v (translated from the source '
              'each run); "order conditions => order for every smooth F" (Butcher / Kennedy-Carpenter) is cited, not '
              'formalised (nonlinear order is additionally measured on the implementation by step halving); the evaluation '
              'homomorphism from formal power series to scalars behind linear_taylor is cited; G_inv enters the '
              'Butcher-form theorems through the hypothesis that y = G_inv(x, eta) solves y = x + eta G(y)')
TECHNIQUE = ('Coq theorems over an executable Gallina model with source-regenerated tableaux + differential '
             'correspondence (extracted OCaml vs implementation) + oracles on the implementation')

_ti = None
def TI():
    global _ti
    if _ti is None:
        util.setup_jax()
        from dinosaur import time_integration as ti
        _ti = ti
    return _ti


SCHEMES = {0: 'backward_forward_euler', 1: 'semi_implicit_leapfrog', 2: 'crank_nicolson_rk2',
           3: 'crank_nicolson_rk3', 4: 'crank_nicolson_rk4', 5: 'imex_rk_sil3'}


# ---------------------------------------------------------------------------
# generation
# ---------------------------------------------------------------------------
def rand_problem(rng, d, nonlinear=True, stable=True):
    """Small exact data: A (explicit, arbitrary), B (implicit) with negative
    semi-definite symmetric part so that I - eta B is well conditioned for eta >= 0."""
    A = rng.integers(-6, 7, size=(d, d)).astype(np.float64) / 4
    S = rng.integers(-3, 4, size=(d, d)).astype(np.float64)
    K = rng.integers(-4, 5, size=(d, d)).astype(np.float64)
    B = (-(S @ S.T) + (K - K.T)) / 4
    if not stable:
        B = rng.integers(-6, 7, size=(d, d)).astype(np.float64) / 8
    p = (rng.integers(-4, 5, size=d).astype(np.float64) / 4) if nonlinear else np.zeros(d)
    u = rng.integers(-8, 9, size=d).astype(np.float64) / 8
    if not np.any(u): u[0] = 1.0
    return A.tolist(), B.tolist(), p.tolist(), u.tolist()


def rand_tableau(rng, s):
    def coef(zero_p=0.35):
        return 0.0 if rng.random() < zero_p else float(rng.integers(-8, 9)) / 8
    a_ex = [[coef() for _ in range(i + 1)] for i in range(s - 1)]
    a_im = [[coef() for _ in range(i + 1)] + [float(rng.integers(0, 5)) / 8] for i in range(s - 1)]
    b_ex = [coef() for _ in range(s)]
    b_im = [coef() for _ in range(s)]
    return a_ex, a_im, b_ex, b_im


def generate(ctx):
    rng = ctx.rng
    quick = ctx.tier == 'quick'
    yield 'translator', {}
    # dyadic step sizes with short mantissas keep the exact rational model fast
    dts = [2.0 ** -10, 2.0 ** -7, 0.125, 0.5, 1.0, 2.0, 8.0, 128.0, 1024.0]
    reps = 2 if quick else 4
    for scheme in range(6):
        for d in (1, 2, 3):
            for r in range(reps):
                for dt in dts:
                    if scheme == 4 and d == 3 and (r > (0 if quick else 1) or (quick and dt not in (2.0 ** -7, 1.0, 128.0))):
                        continue      # exact-rational cost of the 13-digit 5-stage scheme in 3-D
                    # (the 5-stage scheme with 13-digit decimals squares the size of the exact
                    #  rationals at every stage: nonlinear F only in one dimension there)
                    nonlinear = dt <= 2.0 and not (r == 0 and d == 1) and (scheme != 4 or d == 1 or (not quick and d == 2 and r == 1))
                    A, B, p, u = rand_problem(rng, d, nonlinear)
                    a = {'scheme': scheme, 'd': d, 'A': A, 'B': B, 'p': p, 'u': u, 'dt': dt}
                    if scheme == 1:
                        a['u'] = u + (rng.integers(-8, 9, size=d).astype(np.float64) / 8).tolist()
                        a['alpha'] = [None, 0.5, 0.75, 1.0, 0.625][int(rng.integers(0, 5))]
                    ctx.count('scheme:%s' % SCHEMES[scheme]); ctx.count('d=%d' % d)
                    yield 'step', a
    # generic low-storage lists and generic tableaux (zero skipping, lazy stages)
    for _ in range(12 if quick else 80):
        n = int(rng.integers(1, 5)); d = int(rng.integers(1, 4))
        al = np.concatenate([[0.0], np.cumsum(rng.integers(0, 4, size=n))]).astype(np.float64) / 8
        be = (rng.integers(-8, 9, size=n).astype(np.float64) / 8); be[0] = 0.0
        ga = rng.integers(-8, 9, size=n).astype(np.float64) / 8
        A, B, p, u = rand_problem(rng, d)
        yield 'ls_generic', {'d': d, 'A': A, 'B': B, 'p': p, 'u': u, 'dt': float(rng.choice([2.0 ** -7, 0.25, 1.0, 32.0])),
                             'alphas': al.tolist(), 'betas': be.tolist(), 'gammas': ga.tolist()}
    for _ in range(16 if quick else 120):
        s = int(rng.integers(2, 6)); d = int(rng.integers(1, 4))
        a_ex, a_im, b_ex, b_im = rand_tableau(rng, s)
        A, B, p, u = rand_problem(rng, d)
        yield 'imex_generic', {'d': d, 'A': A, 'B': B, 'p': p, 'u': u, 'dt': float(rng.choice([2.0 ** -7, 0.25, 1.0, 32.0])),
                               'a_ex': a_ex, 'a_im': a_im, 'b_ex': b_ex, 'b_im': b_im}
    # malformed stream: every small length triple; tableau shapes
    top = 5 if quick else 7
    for la, lb, lg in itertools.product(range(top), repeat=3):
        yield 'ls_lengths', {'la': la, 'lb': lb, 'lg': lg}
    shapes = []
    for s in range(1, 5):
        good = ([i + 1 for i in range(s - 1)], [i + 2 for i in range(s - 1)], s, s)
        shapes.append(good)
        for which in range(2):
            for i in range(s - 1):
                for delta in (-1, 1):
                    rows = [list(good[0]), list(good[1])]
                    rows[which][i] += delta
                    shapes.append((rows[0], rows[1], s, s))
        for dn in ((1, 0, 0, 0), (0, 1, 0, 0), (0, 0, 1, 0), (0, 0, 0, 1), (-1, 0, 0, 0), (0, 0, -1, 0), (0, 0, 0, -1), (1, 1, 0, 0), (0, 0, 1, 1)):
            re_ = [i + 1 for i in range(max(s - 1 + dn[0], 0))]; ri = [i + 2 for i in range(max(s - 1 + dn[1], 0))]
            shapes.append((re_, ri, max(s + dn[2], 0), max(s + dn[3], 0)))
    for _ in range(10 if quick else 100):
        ne = int(rng.integers(0, 4)); ni = int(rng.integers(0, 4))
        shapes.append(([int(rng.integers(0, 5)) for _ in range(ne)], [int(rng.integers(0, 6)) for _ in range(ni)],
                       int(rng.integers(0, 5)), int(rng.integers(0, 5))))
    for re_, ri, nbe, nbi in shapes:
        yield 'tableau_shape', {'rows_ex': list(re_), 'rows_im': list(ri), 'n_b_ex': int(nbe), 'n_b_im': int(nbi)}
    # oracles on the implementation
    for scheme in range(6):
        yield 'stability', {'scheme': scheme, 'alpha': None}
    for al in (0.5, 0.625, 0.75, 1.0):
        yield 'stability', {'scheme': 1, 'alpha': al}
    for r in range(2 if quick else 10):
        for scheme in range(6):
            for mode in ('general', 'G=0', 'G=0,linearF'):
                if scheme in (0, 1, 2) and mode != 'general': continue
                if scheme in (3, 4) and mode == 'G=0,linearF': continue
                c = rng.integers(-8, 9, size=12).astype(np.float64) / 8
                yield 'order', {'scheme': scheme, 'mode': mode, 'c': c.tolist()}
    for r in range(2 if quick else 8):
        for scheme in (0, 2, 3, 4, 5):
            d = int(rng.integers(1, 4))
            A, B, p, u = rand_problem(rng, d)
            yield 'reduction', {'scheme': scheme, 'd': d, 'A': A, 'B': B, 'p': p, 'u': u,
                                'dt': float(rng.choice([2.0 ** -7, 0.25, 1.0]))}
    for r in range(2 if quick else 8):
        for scheme in (3, 4):
            d = int(rng.integers(1, 4))
            A, B, p, u = rand_problem(rng, d, nonlinear=(scheme == 3))
            yield 'ls_vs_ark', {'scheme': scheme, 'd': d, 'A': A, 'B': B, 'p': p, 'u': u,
                                'dt': float(rng.choice([2.0 ** -7, 0.25, 1.0]))}


# ---------------------------------------------------------------------------
# implementation side
# ---------------------------------------------------------------------------
class Bench:
    """ImplicitExplicitODE over numpy float64 with exact small data; records the
    magnitudes met, for the comparison scale."""
    def __init__(self, A, B, p, dt, g_zero=False, f_zero=False):
        self.A = np.asarray(A, dtype=np.float64); self.B = np.asarray(B, dtype=np.float64)
        self.p = np.asarray(p, dtype=np.float64); self.d = len(p); self.dt = abs(dt)
        self.m = 0.0; self.g_zero = g_zero; self.f_zero = f_zero
        self.nF = self.nG = self.nI = 0

    def see(self, x):
        self.m = max(self.m, float(np.max(np.abs(np.asarray(x)))))

    def explicit_terms(self, u):
        u = np.asarray(u, dtype=np.float64); self.see(u); self.nF += 1
        if self.f_zero: return np.zeros_like(u)
        return self.A @ u + self.p * u * np.roll(u, -1)

    def implicit_terms(self, u):
        u = np.asarray(u, dtype=np.float64); self.see(u); self.nG += 1
        if self.g_zero: return np.zeros_like(u)
        return self.B @ u

    def implicit_inverse(self, x, eta):
        x = np.asarray(x, dtype=np.float64); self.see(x); self.nI += 1
        if self.g_zero: return x
        out = np.linalg.solve(np.eye(self.d) - float(eta) * self.B, x); self.see(out)
        return out

    def eq(self):
        return TI().ImplicitExplicitODE.from_functions(self.explicit_terms, self.implicit_terms, self.implicit_inverse)

    def scale(self):
        nA = float(np.abs(self.A).sum(axis=1).max()); nB = float(np.abs(self.B).sum(axis=1).max())
        pm = float(np.abs(self.p).max()) if self.d else 0.0
        m = max(self.m, 1e-300)
        return m * (1 + self.dt * (nA + nB + pm * m)) * (1 + self.dt * nB) * 4


def impl_step(scheme, bench, dt, u, alpha=None, extra=None):
    ti = TI(); eq = bench.eq()
    if scheme == 0: return np.asarray(ti.backward_forward_euler(eq, dt)(np.asarray(u)))
    if scheme == 1:
        d = bench.d
        f = ti.semi_implicit_leapfrog(eq, dt) if alpha is None else ti.semi_implicit_leapfrog(eq, dt, alpha)
        cur, fut = f((np.asarray(u[:d]), np.asarray(u[d:])))
        return np.concatenate([np.asarray(cur), np.asarray(fut)])
    if scheme == 2: return np.asarray(ti.crank_nicolson_rk2(eq, dt)(np.asarray(u)))
    if scheme == 3: return np.asarray(ti.crank_nicolson_rk3(eq, dt)(np.asarray(u)))
    if scheme == 4: return np.asarray(ti.crank_nicolson_rk4(eq, dt)(np.asarray(u)))
    if scheme == 5: return np.asarray(ti.imex_rk_sil3(eq, dt)(np.asarray(u)))
    if scheme == 6:
        return np.asarray(ti.low_storage_runge_kutta_crank_nicolson(extra['alphas'], extra['betas'], extra['gammas'], eq, dt)(np.asarray(u)))
    if scheme == 7:
        tab = ti.ImExButcherTableau(a_ex=extra['a_ex'], a_im=extra['a_im'], b_ex=extra['b_ex'], b_im=extra['b_im'])
        return np.asarray(ti.imex_runge_kutta(tab, eq, dt)(np.asarray(u)))
    raise ValueError(scheme)


def flatten(m): return [x for r in m for x in r]
def _fl(a): return [float(x) for x in a]


def model_step(ctx, scheme, a, extra_ints=(), extra_arrs=()):
    d = a['d']
    alpha = a.get('alpha')
    if alpha is None:
        alpha = ctx.model.call(4, [1], [])[0]
    return ctx.model.call(0, [scheme, d] + list(extra_ints),
                          [a['u'], flatten(a['A']), flatten(a['B']), a['p'], [a['dt'], alpha]] + list(extra_arrs))


# ---------------------------------------------------------------------------
# runners
# ---------------------------------------------------------------------------
def r_translator(ctx, a):
    from translate import gen_tableaux
    text, rep, data = gen_tableaux.analyse(core.REPO)
    ctx.table_obligation('translator: every construct of the integrator factories understood', not rep['gaps'], rep['gaps'])
    sc = rep.get('selfcheck', {})
    ctx.table_obligation('translator self-check: coefficients reaching F/G/G_inv in the source factories = emitted ones',
                         bool(sc.get('ok')), sc)
    cur = open(os.path.join(core.COQ, 'Gen', 'Tableaux.v')).read()
    ctx.table_obligation('Gen/Tableaux.v is the translation of the current source', cur == text,
                         None if cur == text else 'stale Gen/Tableaux.v')
    flags = ctx.model.call(4, [0], [])
    ctx.exact('extracted model built from a complete translation', [int(flags[0])], [1])
    # the extracted model really carries the translated coefficients
    for k, nm in ((3, 'rk3'), (4, 'rk4')):
        m = ctx.model.call(4, [k], [])
        want = [x for l in data[nm] for x in l]
        ctx.exact('extracted %s coefficients' % nm, [str(x) for x in m], [str(x) for x in want])
    m = ctx.model.call(4, [5], [])
    s3 = data['sil3']
    want = flatten(s3[0]) + flatten(s3[1]) + list(s3[2]) + list(s3[3])
    ctx.exact('extracted sil3 tableau', [str(x) for x in m], [str(Fraction(x)) for x in want])


def r_step(ctx, a):
    b = Bench(a['A'], a['B'], a['p'], a['dt'])
    out = impl_step(a['scheme'], b, a['dt'], a['u'], a.get('alpha'))
    m = model_step(ctx, a['scheme'], a)
    ctx.corr('one step of %s' % SCHEMES[a['scheme']], out, m, scale=b.scale())


def r_ls_generic(ctx, a):
    b = Bench(a['A'], a['B'], a['p'], a['dt'])
    out = impl_step(6, b, a['dt'], a['u'], extra=a)
    m = model_step(ctx, 6, a, extra_arrs=[a['alphas'], a['betas'], a['gammas']])
    ctx.corr('low_storage_runge_kutta_crank_nicolson (random lists)', out, m, scale=b.scale())
    ctx.exact('stages run = len(betas)', [b.nF, b.nI], [len(a['betas'])] * 2)


def r_imex_generic(ctx, a):
    b = Bench(a['A'], a['B'], a['p'], a['dt'])
    out = impl_step(7, b, a['dt'], a['u'], extra=a)
    s = len(a['b_ex'])
    m = model_step(ctx, 7, a, extra_ints=[s], extra_arrs=[flatten(a['a_ex']), flatten(a['a_im']), a['b_ex'], a['b_im']])
    ctx.corr('imex_runge_kutta (random tableau with zeros)', out, m, scale=b.scale() * s)


def r_ls_lengths(ctx, a):
    ti = TI()
    la, lb, lg = a['la'], a['lb'], a['lg']
    eq = Bench([[0.0]], [[0.0]], [0.0], 1.0).eq()
    try:
        ti.low_storage_runge_kutta_crank_nicolson([0.0] * la, [0.0] * lb, [0.0] * lg, eq, 0.1); acc = 1
    except ValueError:
        acc = 0
    m = ctx.model.call(1, [la, lb, lg], [])
    ctx.exact('low-storage factory accepts lengths', [acc], [1 - int(m[0])])
    ctx.count('ls_lengths accepted:%d' % acc)
    want = int(la == lb + 1 and lb == lg)
    ctx.oracle('coefficient lists of inconsistent length are rejected (low-storage RK)', acc == want,
               {'accepted': acc, 'consistent': want, 'lengths': [la, lb, lg]})


def r_tableau_shape(ctx, a):
    ti = TI()
    re_, ri, nbe, nbi = a['rows_ex'], a['rows_im'], a['n_b_ex'], a['n_b_im']
    try:
        ti.ImExButcherTableau(a_ex=[[0.5] * n for n in re_], a_im=[[0.5] * n for n in ri], b_ex=[0.5] * nbe, b_im=[0.5] * nbi); acc = 1
    except ValueError:
        acc = 0
    m = ctx.model.call(2, [nbe, nbi, len(re_)] + list(re_) + list(ri), [])
    ctx.exact('ImExButcherTableau accepts shape', [acc], [1 - int(m[0])])
    ctx.count('tableau accepted:%d' % acc)
    s = nbe
    want = int(nbi == s and len(re_) + 1 == s and len(ri) + 1 == s and
               all(n == i + 1 for i, n in enumerate(re_)) and all(n == i + 2 for i, n in enumerate(ri)))
    ctx.oracle('Butcher tableaux of inconsistent shape are rejected', acc == want,
               {'accepted': acc, 'consistent': want, 'shape': a})


class CBench:
    """scalar test equations u' = z u (implicit only) for a whole grid of z at once"""
    def __init__(self, z): self.z = z
    def eq(self):
        z = self.z
        return TI().ImplicitExplicitODE.from_functions(
            lambda u: 0 * np.asarray(u), lambda u: z * np.asarray(u), lambda x, eta: np.asarray(x) / (1 - eta * z))


def zgrid():
    r = np.concatenate([[0.0], np.logspace(-3, 6, 73)])
    th = np.linspace(np.pi / 2, 3 * np.pi / 2, 49)
    z = (r[:, None] * np.exp(1j * th[None, :])).ravel()
    z = np.where(z.real > 0, 1j * z.imag, z)          # guard against cos(pi/2) = 6e-17 > 0
    return z


def r_stability(ctx, a):
    ti = TI(); z = zgrid(); cb = CBench(z); eq = cb.eq(); one = np.ones_like(z)
    sc = a['scheme']
    if sc == 1:
        f = ti.semi_implicit_leapfrog(eq, 1.0) if a['alpha'] is None else ti.semi_implicit_leapfrog(eq, 1.0, a['alpha'])
        amp = np.abs(np.asarray(f((one, 0 * one))[1]))     # = |rho|^2 of both characteristic roots
    else:
        f = [ti.backward_forward_euler, None, ti.crank_nicolson_rk2, ti.crank_nicolson_rk3, ti.crank_nicolson_rk4, ti.imex_rk_sil3][sc](eq, 1.0)
        amp = np.abs(np.asarray(f(one)))
    i = int(np.argmax(np.where(np.isnan(amp), np.inf, amp)))
    ctx.oracle('purely implicit linear dynamics in the closed left half-plane is never amplified (%s)' % SCHEMES[sc],
               bool(amp[i] <= 1 + 1e-12), {'z': [float(z[i].real), float(z[i].imag)], 'amplification': float(amp[i])})


def _order_problem(c, mode):
    c = np.asarray(c)
    A = np.array([[0.2 * c[0], 1.0 + 0.3 * c[1]], [-1.0 + 0.3 * c[2], 0.2 * c[3]]])
    B = np.array([[-0.6 - 0.3 * abs(c[4]), 0.5 * c[5]], [-0.5 * c[5] + 0.2 * c[6], -0.4 - 0.3 * abs(c[7])]])
    p = np.array([0.6 + 0.3 * c[8], -0.5 + 0.3 * c[9]])
    u = np.array([0.9 + 0.2 * c[10], -0.6 + 0.2 * c[11]])
    if mode != 'general': B = np.zeros((2, 2))
    if mode == 'G=0,linearF': p = np.zeros(2)
    return A, B, p, u


def _exact_flow(A, B, p, u, t):
    from scipy.integrate import solve_ivp
    f = lambda _t, y: A @ y + p * y * np.roll(y, -1) + B @ y
    sol = solve_ivp(f, (0.0, t), u, method='DOP853', rtol=1e-13, atol=1e-15)
    return sol.y[:, -1]


DESIGN_LOCAL_ORDER = {  # local error exponent = design order + 1
    (0, 'general'): 2, (1, 'general'): 3, (2, 'general'): 3,
    (3, 'general'): 3, (3, 'G=0'): 4, (4, 'general'): 3, (4, 'G=0'): 5,
    (5, 'general'): 3, (5, 'G=0'): 3, (5, 'G=0,linearF'): 4}


def r_order(ctx, a):
    sc, mode = a['scheme'], a['mode']
    A, B, p, u = _order_problem(a['c'], mode)
    want = DESIGN_LOCAL_ORDER[(sc, mode)]
    h0 = {2: 2.0 ** -8, 3: 2.0 ** -6, 4: 2.0 ** -4, 5: 2.0 ** -3}[want]
    hs = [h0, h0 / 2, h0 / 4]
    errs = []
    from scipy.integrate import solve_ivp
    rhs = lambda _t, y: A @ y + p * y * np.roll(y, -1) + B @ y
    for h in hs:
        b = Bench(A, B, p, h)
        if sc == 1:   # exact snapshots at t-h (integrating backwards) and t
            prev = solve_ivp(rhs, (0.0, -h), u, method='DOP853', rtol=1e-13, atol=1e-15).y[:, -1]
            out = impl_step(1, b, h, np.concatenate([prev, u]))[2:]
        else:
            out = impl_step(sc, b, h, u)
        errs.append(float(np.max(np.abs(out - _exact_flow(A, B, p, u, h)))))
    # Fitted exponent of the local error over two halvings.  Float64 oracle with
    # generous margins: a tiny leading error constant (near-cancellation, error
    # <= 0.005 h^want) or errors at round-off level count as "order reached".
    fit = float(np.log2(max(errs[0], 1e-300) / max(errs[2], 1e-300)) / 2)
    obs = [float(np.log2(max(errs[i], 1e-300) / max(errs[i + 1], 1e-300))) for i in range(2)]
    small = errs[2] <= 0.005 * hs[2] ** want or errs[2] < 2e-12
    ok = bool(fit >= want - 0.4 or small)
    if small and fit < want - 0.4: ctx.count('order: inconclusive (tiny error constant)')
    ctx.count('order:%s:%s' % (SCHEMES[sc], mode))
    ctx.oracle('one step reproduces the exact flow to the design order (%s, %s: local error O(h^%d))' % (SCHEMES[sc], mode, want),
               ok, {'h': hs, 'local_errors': errs, 'observed_exponents': obs, 'fitted': fit, 'required': want})


def _coefs(ctx, k):
    return [float(x) for x in ctx.model.call(4, [k], [])]


def r_reduction(ctx, a):
    sc, d, dt = a['scheme'], a['d'], a['dt']
    A = np.asarray(a['A']); B = np.asarray(a['B']); p = np.asarray(a['p']); u = np.asarray(a['u'])
    Fx = lambda y: A @ y + p * y * np.roll(y, -1)
    I = np.eye(d)
    # (a) G = 0, G_inv = id: the underlying explicit scheme
    b = Bench(A, 0 * B, p, dt, g_zero=True)
    out = impl_step(sc, b, dt, u)
    if sc == 0: ref = u + dt * Fx(u)
    elif sc == 2:
        k1 = Fx(u); ref = u + dt * 0.5 * (k1 + Fx(u + dt * k1))
    elif sc in (3, 4):
        c = _coefs(ctx, sc); n = (len(c) - 1) // 3
        be, ga = c[n + 1:2 * n + 1], c[2 * n + 1:]
        y = u.copy(); h = np.zeros(d)
        for k in range(n):
            h = Fx(y) + be[k] * h; y = y + ga[k] * dt * h
        ref = y
    else:
        c = _coefs(ctx, 5); s = 4
        a_ex = [c[0:1], c[1:3], c[3:6]]; b_ex = c[15:19]
        f = [Fx(u)]
        for i in range(1, s):
            f.append(Fx(u + dt * sum(a_ex[i - 1][j] * f[j] for j in range(i))))
        ref = u + dt * sum(b_ex[j] * f[j] for j in range(s))
    ctx.oracle_close('with vanishing implicit part the step is the underlying explicit method (%s)' % SCHEMES[sc],
                     out, ref, scale=b.scale())
    z = {'d': d, 'A': a['A'], 'B': (0 * B).tolist(), 'p': a['p'], 'u': a['u'], 'dt': dt}
    if sc in (3, 4):
        ctx.corr('G=0: implementation vs model ls_explicit_loop (%s)' % SCHEMES[sc], out, model_step(ctx, 13, z, extra_ints=[sc]), scale=b.scale())
    if sc == 5:
        ctx.corr('G=0: implementation vs model erk_step (imex_rk_sil3)', out, model_step(ctx, 11, z), scale=b.scale())
    # (b) F = 0: backward Euler / Crank-Nicolson chain / DIRK
    b = Bench(A, B, 0 * p, dt, f_zero=True)
    out = impl_step(sc, b, dt, u)
    if sc == 0: ref = np.linalg.solve(I - dt * B, u)
    elif sc == 2: ref = np.linalg.solve(I - 0.5 * dt * B, (I + 0.5 * dt * B) @ u)
    elif sc in (3, 4):
        c = _coefs(ctx, sc); n = (len(c) - 1) // 3; al = c[:n + 1]
        y = u.copy()
        for k in range(n):
            mu = 0.5 * dt * (al[k + 1] - al[k]); y = np.linalg.solve(I - mu * B, (I + mu * B) @ y)
        ref = y
    else:
        c = _coefs(ctx, 5); s = 4
        a_im = [c[6:8], c[8:11], c[11:15]]; b_im = c[19:23]
        g = [B @ u]
        for i in range(1, s):
            Y = np.linalg.solve(I - dt * a_im[i - 1][i] * B, u + dt * sum(a_im[i - 1][j] * g[j] for j in range(i)))
            g.append(B @ Y)
        ref = u + dt * sum(b_im[j] * g[j] for j in range(s))
    ctx.oracle_close('with vanishing explicit part the step is the underlying implicit method (%s)' % SCHEMES[sc],
                     out, ref, scale=b.scale())
    z = {'d': d, 'A': (0 * A).tolist(), 'B': a['B'], 'p': (0 * p).tolist(), 'u': a['u'], 'dt': dt}
    if sc in (3, 4):
        ctx.corr('F=0: implementation vs model cn_chain (%s)' % SCHEMES[sc], out, model_step(ctx, 14, z, extra_ints=[sc]), scale=b.scale())
    if sc == 5:
        ctx.corr('F=0: implementation vs model dirk_step (imex_rk_sil3)', out, model_step(ctx, 12, z), scale=b.scale())


def r_ls_vs_ark(ctx, a):
    """Butcher form computed by the model's lowstorage_to_butcher, run through the
    implementation's generic imex_runge_kutta, must reproduce the implementation's
    low-storage step (the coupling order conditions are proved for that Butcher form)."""
    sc, d, dt = a['scheme'], a['d'], a['dt']
    fl = ctx.model.call(3, [sc], [])
    n = {3: 3, 4: 5}[sc]; s = n + 1
    fl = [float(x) for x in fl]
    pos = 0; a_ex = []; a_im = []
    for i in range(1, s): a_ex.append(fl[pos:pos + i]); pos += i
    for i in range(1, s): a_im.append(fl[pos:pos + i + 1]); pos += i + 1
    b_ex = fl[pos:pos + s]; pos += s; b_im = fl[pos:pos + s]; pos += s
    ctx.exact('butcher form size', [pos], [len(fl)])
    b1 = Bench(a['A'], a['B'], a['p'], dt); o1 = impl_step(sc, b1, dt, a['u'])
    b2 = Bench(a['A'], a['B'], a['p'], dt)
    o2 = impl_step(7, b2, dt, a['u'], extra={'a_ex': a_ex, 'a_im': a_im, 'b_ex': b_ex, 'b_im': b_im})
    ctx.oracle_close('low-storage step = additive RK step of its Butcher form (%s)' % SCHEMES[sc], o1, o2,
                     scale=max(b1.scale(), b2.scale()))
    m = model_step(ctx, 8, a, extra_ints=[sc])
    ctx.corr('model ark_step on lowstorage_to_butcher vs implementation low-storage step', o1, m, scale=b1.scale())


RUNNERS = {'translator': r_translator, 'step': r_step, 'ls_generic': r_ls_generic, 'imex_generic': r_imex_generic,
           'ls_lengths': r_ls_lengths, 'tableau_shape': r_tableau_shape, 'stability': r_stability,
           'order': r_order, 'reduction': r_reduction, 'ls_vs_ark': r_ls_vs_ark}
