"""C06 - IMEX integrators: correspondence of Model/Integrators.v (+ the regenerated
Gen/Tableaux.v) with dinosaur.time_integration, and the property's own clauses
(order by step halving, reduction, A-stability, length validation) evaluated on
the implementation."""
import itertools, os
import numpy as np
from fractions import Fraction
from harness import util, core

THEOREMS = [
    'C06_gen_complete',
    'C06_order_euler', 'C06_order_cn_rk2', 'C06_order_cn_rk3', 'C06_order_cn_rk4', 'C06_order_sil3',
    'C06_order_decider_sound', 'C06_rk4_near_carpenter_kennedy',
    'C06_linear_taylor_series', 'C06_leapfrog_second_order_series',
    'C06_series_exact_flow_is_taylor', 'C06_series_ginv_is_inverse',
    'C06_nonlinear_order_euler', 'C06_nonlinear_order_cn_rk2', 'C06_nonlinear_order_cn_rk3',
    'C06_nonlinear_order_cn_rk4', 'C06_nonlinear_order_sil3', 'C06_nonlinear_order_leapfrog',
    'C06_nonlinear_hyps_satisfiable', 'C06_nonlinear_order_reals',
    'C06_imex_is_ark', 'C06_lowstorage_is_ark', 'C06_direct_schemes_are_ark',
    'C06_imex_reduces_to_explicit', 'C06_imex_reduces_to_implicit',
    'C06_reduces_to_explicit', 'C06_reduces_to_implicit',
    'C06_A_stable_backward_euler', 'C06_A_stable_cn_lowstorage', 'C06_A_stable_cn_rk2',
    'C06_A_stable_sil3', 'C06_A_stable_leapfrog', 'C06_A_stable_leapfrog_default',
    'C06_lengths_validated', 'C06_tableau_validated',
    'C06_hyps_satisfiable',
]
LEVEL = 'proof'
LEVEL_TEXT = ('machine-checked theorems (Coq) on the coefficients regenerated from time_integration.py each run: '
              'additive-RK order conditions (exact, or |residual| <= 1e-13 for the 13-digit decimals) up to the design '
              'order and failure of the next order; bivariate Taylor coefficients of the linear one-step multiplier '
              '(formal power series); ORDER FOR NONLINEAR F: the step functions run at the carrier "power series in h" '
              'reproduce the Taylor series of the exact flow of u\' = F(u) + g u with symbolic u0, g, F^(j)(u0)/j! over every '
              'field of characteristic 0 up to the design order and not beyond (Euler 1; CN-RK2 2; RK3/RK4/SIL3 2 for every g '
              'and 3 / 4 (defect coefficients <= 1e-13) / 3-for-linear-F when g = 0; leapfrog 2), the comparison series solves '
              'the ODE, the geometric series inverts 1 - eta g; every step function is an additive RK step in Butcher form, for every field, '
              'module, nonlinear F and G: imex_runge_kutta interpreter (zero skipping, lazy stages) for every tableau, '
              'low-storage 2N+CN scheme = ark_step(lowstorage_to_butcher) for every coefficient list, Euler pair and CN-RK2 '
              'on their tableaux; reduction to the explicit RK / DIRK / CN-chain / backward-Euler scheme (all six schemes); '
              '|r(0,z)| <= 1 for all dt >= 0, Re z <= 0 over the reals: backward Euler, CN-RK2, every Crank-Nicolson chain '
              'with non-decreasing alphas incl. the generated RK3/RK4 sets, SIL3 (stability function derived from the '
              'generated a_im/b_im, polynomial certificate), leapfrog alpha >= 1/2; '
              'length validation accepts exactly the consistent shapes; model executed against the implementation')
LEVEL_NOTE = ('theorems are about Model/Integrators.v with the coefficients of Gen/Tableaux.v (translated from the source '
              'each run); the nonlinear-order theorems are for the SCALAR autonomous problem with symbolic Taylor '
              'coefficients, which separates every order condition of the orders claimed (distinct monomials for the '
              'additive conditions of order <= 2 and, with G = 0, for the trees of order <= 3; at order 4 two trees share a '
              'monomial and the four order-4 conditions are decided separately in C06_order_cn_rk4); that the same conditions '
              'suffice for SYSTEMS (vector-valued elementary differentials; order >= 5 never needed) is cited (Butcher / '
              'Kennedy-Carpenter), not formalised; series truncated after h^4; RK4 statements up to defect polynomials with '
              'coefficients <= 1e-13 (13-digit decimal table); nonlinear order is additionally measured on the '
              'implementation against the model series; the evaluation '
              'homomorphism from formal power series to scalars behind linear_taylor is cited; G_inv enters the '
              'Butcher-form theorems through the hypothesis that y = G_inv(x, eta) solves y = x + eta G(y)')
TECHNIQUE = ('Coq theorems over an executable Gallina model with source-regenerated tableaux + differential '
             'correspondence (extracted OCaml vs implementation) + oracles on the implementation')

_ti = None
def TI():
    global _ti
    if _ti is None:
        util.setup_jax()
        from dinosaur import time_integration as ti
        _ti = ti
    return _ti


_h = 0.5
#: tableaux from the literature, written down here independently of time_integration.py
LITERATURE = [
    ('euler', ([[1.0]], [[0.0, 1.0]], [1.0, 0.0], [0.0, 1.0])),
    ('cn_rk2', ([[1.0], [_h, _h]], [[_h, _h], [_h, 0.0, _h]], [_h, _h, 0.0], [_h, 0.0, _h])),
    # Whitaker & Kar (2013), SIL3
    ('sil3', ([[1 / 3], [1 / 6, 1 / 2], [1 / 2, -1 / 2, 1.0]],
              [[1 / 6, 1 / 6], [1 / 3, 0.0, 1 / 3], [3 / 8, 0.0, 3 / 8, 1 / 4]],
              [1 / 2, -1 / 2, 1.0, 0.0], [3 / 8, 0.0, 3 / 8, 1 / 4])),
    # Ascher, Ruuth & Spiteri (1997), ARS(2,2,2) with gamma = 1 - 1/sqrt(2), delta = 1 - 1/(2 gamma)
    ('ars222', (lambda g_, d_: ([[g_], [d_, 1 - d_]], [[0.0, g_], [0.0, 1 - g_, g_]], [d_, 1 - d_, 0.0], [0.0, 1 - g_, g_]))(
        1 - 0.5 ** 0.5, 1 - 1 / (2 * (1 - 0.5 ** 0.5)))),
]
#: Williamson (1980) RK3 and Carpenter & Kennedy (1994) RK4(3)5[2N] as (c, A, B) = (alphas, betas, gammas)
LIT_LOWSTORAGE = {
    3: ([0.0, 1 / 3, 3 / 4, 1.0], [0.0, -5 / 9, -153 / 128], [1 / 3, 15 / 16, 8 / 15]),
    4: ([0.0, 1432997174477 / 9575080441755, 2526269341429 / 6820363962896, 2006345519317 / 3224310063776,
         2802321613138 / 2924317926251, 1.0],
        [0.0, -567301805773 / 1357537059087, -2404267990393 / 2016746695238, -3550918686646 / 2091501179385,
         -1275806237668 / 842570457699],
        [1432997174477 / 9575080441755, 5161836677717 / 13612068292357, 1720146321549 / 2090206949498,
         3134564353537 / 4481467310338, 2277821191437 / 14882151754819]),
}

SCHEMES = {0: 'backward_forward_euler', 1: 'semi_implicit_leapfrog', 2: 'crank_nicolson_rk2',
           3: 'crank_nicolson_rk3', 4: 'crank_nicolson_rk4', 5: 'imex_rk_sil3'}


# ---------------------------------------------------------------------------
# generation
# ---------------------------------------------------------------------------
def rand_problem(rng, d, nonlinear=True, stable=True):
    """Small exact data: A (explicit, arbitrary), B (implicit) with negative
    semi-definite symmetric part so that I - eta B is well conditioned for eta >= 0."""
    A = rng.integers(-6, 7, size=(d, d)).astype(np.float64) / 4
    S = rng.integers(-3, 4, size=(d, d)).astype(np.float64)
    K = rng.integers(-4, 5, size=(d, d)).astype(np.float64)
    B = (-(S @ S.T) + (K - K.T)) / 4
    if not stable:
        B = rng.integers(-6, 7, size=(d, d)).astype(np.float64) / 8
    p = (rng.integers(-4, 5, size=d).astype(np.float64) / 4) if nonlinear else np.zeros(d)
    u = rng.integers(-8, 9, size=d).astype(np.float64) / 8
    if not np.any(u): u[0] = 1.0
    return A.tolist(), B.tolist(), p.tolist(), u.tolist()


def rand_tableau(rng, s):
    def coef(zero_p=0.35):
        return 0.0 if rng.random() < zero_p else float(rng.integers(-8, 9)) / 8
    a_ex = [[coef() for _ in range(i + 1)] for i in range(s - 1)]
    a_im = [[coef() for _ in range(i + 1)] + [float(rng.integers(0, 5)) / 8] for i in range(s - 1)]
    b_ex = [coef() for _ in range(s)]
    b_im = [coef() for _ in range(s)]
    return a_ex, a_im, b_ex, b_im


def generate(ctx):
    rng = ctx.rng
    quick = ctx.tier == 'quick'
    yield 'translator', {}
    # dyadic step sizes with short mantissas keep the exact rational model fast
    dts = [2.0 ** -10, 2.0 ** -7, 0.125, 0.5, 1.0, 2.0, 8.0, 128.0, 1024.0]
    reps = 2 if quick else 4
    for scheme in range(6):
        for d in (1, 2, 3):
            for r in range(reps):
                for dt in dts:
                    if scheme == 4 and d == 3 and (r > (0 if quick else 1) or (quick and dt not in (2.0 ** -7, 1.0, 128.0))):
                        continue      # exact-rational cost of the 13-digit 5-stage scheme in 3-D
                    # (the 5-stage scheme with 13-digit decimals squares the size of the exact
                    #  rationals at every stage: nonlinear F only in one dimension there)
                    nonlinear = dt <= 2.0 and not (r == 0 and d == 1) and (scheme != 4 or d == 1 or (not quick and d == 2 and r == 1))
                    A, B, p, u = rand_problem(rng, d, nonlinear)
                    a = {'scheme': scheme, 'd': d, 'A': A, 'B': B, 'p': p, 'u': u, 'dt': dt}
                    if scheme == 1:
                        a['u'] = u + (rng.integers(-8, 9, size=d).astype(np.float64) / 8).tolist()
                        a['alpha'] = [None, 0.5, 0.75, 1.0, 0.625][int(rng.integers(0, 5))]
                    ctx.count('scheme:%s' % SCHEMES[scheme]); ctx.count('d=%d' % d)
                    yield 'step', a
    # generic low-storage lists and generic tableaux (zero skipping, lazy stages)
    for _ in range(12 if quick else 80):
        n = int(rng.integers(1, 5)); d = int(rng.integers(1, 4))
        al = np.concatenate([[0.0], np.cumsum(rng.integers(0, 4, size=n))]).astype(np.float64) / 8
        be = (rng.integers(-8, 9, size=n).astype(np.float64) / 8); be[0] = 0.0
        ga = rng.integers(-8, 9, size=n).astype(np.float64) / 8
        A, B, p, u = rand_problem(rng, d)
        yield 'ls_generic', {'d': d, 'A': A, 'B': B, 'p': p, 'u': u, 'dt': float(rng.choice([2.0 ** -7, 0.25, 1.0, 32.0])),
                             'alphas': al.tolist(), 'betas': be.tolist(), 'gammas': ga.tolist()}
    for _ in range(16 if quick else 120):
        s = int(rng.integers(2, 6)); d = int(rng.integers(1, 4))
        a_ex, a_im, b_ex, b_im = rand_tableau(rng, s)
        A, B, p, u = rand_problem(rng, d)
        yield 'imex_generic', {'d': d, 'A': A, 'B': B, 'p': p, 'u': u, 'dt': float(rng.choice([2.0 ** -7, 0.25, 1.0, 32.0])),
                               'a_ex': a_ex, 'a_im': a_im, 'b_ex': b_ex, 'b_im': b_im}
    # malformed stream: every small length triple; tableau shapes
    top = 5 if quick else 7
    for la, lb, lg in itertools.product(range(top), repeat=3):
        yield 'ls_lengths', {'la': la, 'lb': lb, 'lg': lg}
    shapes = []
    for s in range(1, 5):
        good = ([i + 1 for i in range(s - 1)], [i + 2 for i in range(s - 1)], s, s)
        shapes.append(good)
        for which in range(2):
            for i in range(s - 1):
                for delta in (-1, 1):
                    rows = [list(good[0]), list(good[1])]
                    rows[which][i] += delta
                    shapes.append((rows[0], rows[1], s, s))
        for dn in ((1, 0, 0, 0), (0, 1, 0, 0), (0, 0, 1, 0), (0, 0, 0, 1), (-1, 0, 0, 0), (0, 0, -1, 0), (0, 0, 0, -1), (1, 1, 0, 0), (0, 0, 1, 1)):
            re_ = [i + 1 for i in range(max(s - 1 + dn[0], 0))]; ri = [i + 2 for i in range(max(s - 1 + dn[1], 0))]
            shapes.append((re_, ri, max(s + dn[2], 0), max(s + dn[3], 0)))
    for _ in range(10 if quick else 100):
        ne = int(rng.integers(0, 4)); ni = int(rng.integers(0, 4))
        shapes.append(([int(rng.integers(0, 5)) for _ in range(ne)], [int(rng.integers(0, 6)) for _ in range(ni)],
                       int(rng.integers(0, 5)), int(rng.integers(0, 5))))
    for re_, ri, nbe, nbi in shapes:
        yield 'tableau_shape', {'rows_ex': list(re_), 'rows_im': list(ri), 'n_b_ex': int(nbe), 'n_b_im': int(nbi)}
    # oracles on the implementation
    for scheme in range(6):
        yield 'stability', {'scheme': scheme, 'alpha': None}
    for al in (0.5, 0.625, 0.75, 1.0):
        yield 'stability', {'scheme': 1, 'alpha': al}
    for r in range(2 if quick else 10):
        for scheme in range(6):
            for mode in ('general', 'G=0', 'G=0,linearF'):
                if scheme in (0, 1, 2) and mode != 'general': continue
                if scheme in (3, 4) and mode == 'G=0,linearF': continue
                c = rng.integers(-8, 9, size=12).astype(np.float64) / 8
                yield 'order', {'scheme': scheme, 'mode': mode, 'c': c.tolist()}
    for r in range(2 if quick else 8):
        for scheme in (0, 2, 3, 4, 5):
            d = int(rng.integers(1, 4))
            A, B, p, u = rand_problem(rng, d)
            yield 'reduction', {'scheme': scheme, 'd': d, 'A': A, 'B': B, 'p': p, 'u': u,
                                'dt': float(rng.choice([2.0 ** -7, 0.25, 1.0]))}
    for r in range(2 if quick else 8):
        for scheme in (3, 4):
            d = int(rng.integers(1, 4))
            A, B, p, u = rand_problem(rng, d, nonlinear=(scheme == 3))
            yield 'ls_vs_ark', {'scheme': scheme, 'd': d, 'A': A, 'B': B, 'p': p, 'u': u,
                                'dt': float(rng.choice([2.0 ** -7, 0.25, 1.0]))}
    yield from generate_review(ctx)
    # nonlinear order via the power-series model (scalar u' = F(u) + g u, F a quartic with dyadic Taylor coefficients)
    for r in range(1 if quick else 6):
        for scheme in range(6):
            for mode in ('general', 'G=0', 'G=0,linearF'):
                if scheme in (0, 1, 2) and mode != 'general': continue
                if scheme in (3, 4) and mode == 'G=0,linearF': continue
                c = (rng.integers(-8, 9, size=5).astype(np.float64) / 8)
                if abs(c[0]) < 0.25: c[0] = 0.5
                if abs(c[2]) < 0.25: c[2] = -0.75
                yield 'nonlinear_order', {'scheme': scheme, 'mode': mode, 'c': c.tolist(),
                                          'u0': float(rng.integers(-8, 9)) / 8, 'g': -float(rng.integers(1, 9)) / 8}


def skew_problem(rng, d, nonlinear=True):
    """B = skew + optional small symmetric part is such that I - eta B is invertible
    and well conditioned for BOTH signs of eta (negative steps, non-monotone alphas)."""
    A, B, p, u = rand_problem(rng, d, nonlinear)
    K = rng.integers(-4, 5, size=(d, d)).astype(np.float64)
    B = (K - K.T) / 4
    return A, B.tolist(), p, u


FORMS = ['int_state', 'scalar_state', 'zero_d_state', 'readonly_strided', 'batch', 'pytree', 'np_dt', 'int_dt',
         'zero_d_dt', 'jnp_dt', 'zero_dt', 'time_reversed', 'subclass', 'compose', 'rest_state', 'F_equals_G']


def generate_review(ctx):
    """Cases added by the robustness self-review (options, forms, ranks, purity,
    boundary values, structured data)."""
    rng = ctx.rng; quick = ctx.tier == 'quick'
    # negative step sizes (all schemes), dt = 0
    for scheme in range(6):
        for dt in ([-2.0 ** -7, -1.0] if quick else [-2.0 ** -10, -2.0 ** -7, -0.5, -1.0, -8.0]):
            d = int(rng.integers(1, 3)) if scheme == 4 else int(rng.integers(1, 4))
            A, B, p, u = skew_problem(rng, d, nonlinear=(scheme != 4 or d == 1))
            a = {'scheme': scheme, 'd': d, 'A': A, 'B': B, 'p': p, 'u': u, 'dt': dt}
            if scheme == 1:
                a['u'] = u + (rng.integers(-8, 9, size=d).astype(np.float64) / 8).tolist()
                a['alpha'] = [None, 0.75, 0.25, 1.5][int(rng.integers(0, 4))]
            ctx.count('negative dt')
            yield 'step', a
    # leapfrog with alpha outside [1/2, 1] as well (correspondence only)
    for al in (0.0, 0.25, 0.375, 1.25):
        A, B, p, u = rand_problem(rng, 2)
        yield 'step', {'scheme': 1, 'd': 2, 'A': A, 'B': B, 'p': p, 'dt': 0.25, 'alpha': al,
                       'u': u + (rng.integers(-8, 9, size=2).astype(np.float64) / 8).tolist()}
    # low-storage lists with non-monotone alphas (negative substeps), also negative dt
    for _ in range(8 if quick else 40):
        n = int(rng.integers(1, 5)); d = int(rng.integers(1, 4))
        al = rng.integers(-6, 9, size=n + 1).astype(np.float64) / 8
        be = rng.integers(-8, 9, size=n).astype(np.float64) / 8      # beta[0] != 0 too: multiplies h = 0
        ga = rng.integers(-8, 9, size=n).astype(np.float64) / 8
        A, B, p, u = skew_problem(rng, d)
        ctx.count('ls_generic: non-monotone alphas')
        yield 'ls_generic', {'d': d, 'A': A, 'B': B, 'p': p, 'u': u, 'dt': float(rng.choice([-0.5, 2.0 ** -7, 0.25, 1.0])),
                             'alphas': al.tolist(), 'betas': be.tolist(), 'gammas': ga.tolist(),
                             'form': ['list', 'tuple', 'ndarray'][int(rng.integers(0, 3))]}
    # structured tableaux: one stage; stiffly accurate in the implicit half only; last explicit
    # stage used but last implicit stage unused and vice versa; -0.0 coefficients; tuple / array rows
    for k in range(10 if quick else 40):
        kind = ['one_stage', 'stiff_im_only', 'last_f_only', 'last_g_only', 'neg_zero', 'literature'][k % 6]
        s_ = 1 if kind == 'one_stage' else int(rng.integers(2, 5))
        a_ex, a_im, b_ex, b_im = rand_tableau(rng, s_)
        if kind == 'stiff_im_only':
            b_im = list(a_im[-1]); b_ex = [float(rng.integers(1, 9)) / 8 for _ in range(s_)]
        if kind == 'last_f_only': b_ex[-1] = 0.5; b_im[-1] = 0.0
        if kind == 'last_g_only': b_ex[-1] = 0.0; b_im[-1] = 0.5
        if kind == 'neg_zero':
            a_ex = [[-0.0 if x == 0.0 else x for x in r_] for r_ in a_ex]; b_im = [-0.0 if x == 0.0 else x for x in b_im]
        if kind == 'literature':
            a_ex, a_im, b_ex, b_im = LITERATURE[k // 6 % len(LITERATURE)][1]
        d = int(rng.integers(1, 4))
        A, B, p, u = rand_problem(rng, d)
        ctx.count('imex_generic:' + kind)
        yield 'imex_generic', {'d': d, 'A': A, 'B': B, 'p': p, 'u': u, 'dt': float(rng.choice([2.0 ** -7, 0.25, 1.0, -0.25] if kind != 'literature' else [0.25])),
                               'a_ex': a_ex, 'a_im': a_im, 'b_ex': b_ex, 'b_im': b_im, 'kind': kind,
                               'form': ['list', 'tuple', 'ndarray'][k % 3]}
    for name, tab in LITERATURE:       # every published tableau, every run
        A, B, p, u = rand_problem(rng, 2)
        ctx.count('imex_generic:literature')
        yield 'imex_generic', {'d': 2, 'A': A, 'B': B, 'p': p, 'u': u, 'dt': 0.25, 'a_ex': tab[0], 'a_im': tab[1],
                               'b_ex': tab[2], 'b_im': tab[3], 'kind': 'literature:' + name, 'form': 'list'}
    # forms of state / step size / equation object
    for form in FORMS:
        for scheme in (range(6) if not quick else [int(rng.integers(0, 6)), int(rng.integers(0, 6)), 1 if form in ('pytree', 'batch') else int(rng.integers(0, 6))]):
            d = 1 if form in ('scalar_state', 'zero_d_state') else 2
            A, B, p, u = skew_problem(rng, d, nonlinear=(scheme != 4))
            if form == 'int_state': u = [float(v) for v in rng.integers(-3, 4, size=d)]
            if form == 'rest_state': u = [0.0] * d
            if form == 'F_equals_G': A = B; p = [0.0] * d
            dt = float(rng.choice([1.0, 2.0, 8.0])) if form == 'int_dt' else (0.0 if form == 'zero_dt' else float(rng.choice([2.0 ** -7, 0.25, 1.0])))
            nb = 3 if form == 'batch' else 1
            us = [(rng.integers(-8, 9, size=d * (2 if scheme == 1 else 1)).astype(np.float64) / 8).tolist() for _ in range(nb)]
            if form in ('int_state', 'rest_state'):
                us = [(u + u) if scheme == 1 else u]
            ctx.count('form:' + form)
            yield 'forms', {'form': form, 'scheme': scheme, 'd': d, 'A': A, 'B': B, 'p': p, 'us': us, 'dt': dt,
                            'alpha': [None, 0.75][int(rng.integers(0, 2))] if scheme == 1 else None}
    # purity / state across calls; jit
    for scheme in range(6):
        A, B, p, u = skew_problem(rng, 2, nonlinear=True)
        v = (rng.integers(-8, 9, size=2).astype(np.float64) / 8).tolist()
        yield 'purity', {'scheme': scheme, 'A': A, 'B': B, 'p': p, 'u': u, 'v': v, 'dt': 0.25, 'dt2': 0.5}
    for _ in range(2 if quick else 8):      # registers that could carry state: beta[0] != 0, generic tableau
        A, B, p, u = skew_problem(rng, 2, nonlinear=True)
        v = (rng.integers(-8, 9, size=2).astype(np.float64) / 8).tolist()
        n = int(rng.integers(1, 4))
        ex = {'alphas': (np.arange(n + 1) / n).tolist(), 'betas': (rng.integers(1, 9, size=n) / 8).tolist(),
              'gammas': (rng.integers(1, 9, size=n) / 8).tolist()}
        yield 'purity', {'scheme': 6, 'A': A, 'B': B, 'p': p, 'u': u, 'v': v, 'dt': 0.25, 'dt2': 0.5, 'extra': ex}
        a_ex, a_im, b_ex, b_im = rand_tableau(rng, int(rng.integers(2, 5)))
        yield 'purity', {'scheme': 7, 'A': A, 'B': B, 'p': p, 'u': u, 'v': v, 'dt': 0.25, 'dt2': 0.5,
                         'extra': {'a_ex': a_ex, 'a_im': a_im, 'b_ex': b_ex, 'b_im': b_im}}
    for scheme in (range(6) if not quick else (1, 3, 5)):
        A, B, p, u = skew_problem(rng, 2, nonlinear=True)
        yield 'jit', {'scheme': scheme, 'A': A, 'B': B, 'p': p, 'u': u, 'dt': 0.25}
    # directly coded schemes = imex_runge_kutta on their Butcher forms (implementation vs implementation)
    for r in range(2 if quick else 6):
        for name in ('euler', 'cn_rk2', 'sil3'):
            d = int(rng.integers(1, 4))
            A, B, p, u = rand_problem(rng, d)
            yield 'direct_vs_tableau', {'name': name, 'd': d, 'A': A, 'B': B, 'p': p, 'u': u,
                                        'dt': float(rng.choice([2.0 ** -7, 0.25, 1.0]))}
    # leapfrog with alpha != 1/2 is only first-order consistent (local error O(h^2)) - and not better
    for r in range(1 if quick else 4):
        c = rng.integers(-8, 9, size=12).astype(np.float64) / 8
        yield 'order', {'scheme': 1, 'mode': 'general', 'c': c.tolist(), 'alpha': 0.75}


# ---------------------------------------------------------------------------
# implementation side
# ---------------------------------------------------------------------------
class Bench:
    """ImplicitExplicitODE over numpy float64 with exact small data; records the
    magnitudes met, for the comparison scale."""
    def __init__(self, A, B, p, dt, g_zero=False, f_zero=False):
        self.A = np.asarray(A, dtype=np.float64); self.B = np.asarray(B, dtype=np.float64)
        self.p = np.asarray(p, dtype=np.float64); self.d = len(p); self.dt = abs(dt)
        self.m = 0.0; self.g_zero = g_zero; self.f_zero = f_zero
        self.nF = self.nG = self.nI = 0

    def see(self, x):
        self.m = max(self.m, float(np.max(np.abs(np.asarray(x)))))

    def explicit_terms(self, u):
        u = np.asarray(u, dtype=np.float64); self.see(u); self.nF += 1
        if self.f_zero: return np.zeros_like(u)
        return self.A @ u + self.p * u * np.roll(u, -1)

    def implicit_terms(self, u):
        u = np.asarray(u, dtype=np.float64); self.see(u); self.nG += 1
        if self.g_zero: return np.zeros_like(u)
        return self.B @ u

    def implicit_inverse(self, x, eta):
        x = np.asarray(x, dtype=np.float64); self.see(x); self.nI += 1
        if self.g_zero: return x
        out = np.linalg.solve(np.eye(self.d) - float(eta) * self.B, x); self.see(out)
        return out

    def eq(self):
        return TI().ImplicitExplicitODE.from_functions(self.explicit_terms, self.implicit_terms, self.implicit_inverse)

    def scale(self):
        nA = float(np.abs(self.A).sum(axis=1).max()); nB = float(np.abs(self.B).sum(axis=1).max())
        pm = float(np.abs(self.p).max()) if self.d else 0.0
        m = max(self.m, 1e-300)
        return m * (1 + self.dt * (nA + nB + pm * m)) * (1 + self.dt * nB) * 4


def impl_step(scheme, bench, dt, u, alpha=None, extra=None):
    ti = TI(); eq = bench.eq()
    if scheme == 0: return np.asarray(ti.backward_forward_euler(eq, dt)(np.asarray(u)))
    if scheme == 1:
        d = bench.d
        f = ti.semi_implicit_leapfrog(eq, dt) if alpha is None else ti.semi_implicit_leapfrog(eq, dt, alpha)
        cur, fut = f((np.asarray(u[:d]), np.asarray(u[d:])))
        return np.concatenate([np.asarray(cur), np.asarray(fut)])
    if scheme == 2: return np.asarray(ti.crank_nicolson_rk2(eq, dt)(np.asarray(u)))
    if scheme == 3: return np.asarray(ti.crank_nicolson_rk3(eq, dt)(np.asarray(u)))
    if scheme == 4: return np.asarray(ti.crank_nicolson_rk4(eq, dt)(np.asarray(u)))
    if scheme == 5: return np.asarray(ti.imex_rk_sil3(eq, dt)(np.asarray(u)))
    if scheme == 6:
        cv = _container(extra.get('form', 'list'))
        if extra.get('form') == 'tuple':   # positional arguments as well
            return np.asarray(ti.low_storage_runge_kutta_crank_nicolson(cv(extra['alphas']), cv(extra['betas']), cv(extra['gammas']), eq, dt)(np.asarray(u)))
        return np.asarray(ti.low_storage_runge_kutta_crank_nicolson(alphas=cv(extra['alphas']), betas=cv(extra['betas']),
                                                                    gammas=cv(extra['gammas']), equation=eq, time_step=dt)(np.asarray(u)))
    if scheme == 7:
        cv = _container(extra.get('form', 'list'))
        rows = lambda m: (tuple if extra.get('form') == 'tuple' else list)(cv(r) for r in m)
        if extra.get('form') == 'tuple':
            tab = ti.ImExButcherTableau(rows(extra['a_ex']), rows(extra['a_im']), cv(extra['b_ex']), cv(extra['b_im']))
        else:
            tab = ti.ImExButcherTableau(a_ex=rows(extra['a_ex']), a_im=rows(extra['a_im']), b_ex=cv(extra['b_ex']), b_im=cv(extra['b_im']))
        return np.asarray(ti.imex_runge_kutta(tab, eq, dt)(np.asarray(u)))
    raise ValueError(scheme)


def _container(form):
    return {'list': list, 'tuple': tuple, 'ndarray': lambda l: np.asarray(l, dtype=np.float64)}[form]


def flatten(m): return [x for r in m for x in r]
def _fl(a): return [float(x) for x in a]


def model_step(ctx, scheme, a, extra_ints=(), extra_arrs=()):
    d = a['d']
    alpha = a.get('alpha')
    if alpha is None:
        alpha = ctx.model.call(4, [1], [])[0]
    return ctx.model.call(0, [scheme, d] + list(extra_ints),
                          [a['u'], flatten(a['A']), flatten(a['B']), a['p'], [a['dt'], alpha]] + list(extra_arrs))


# ---------------------------------------------------------------------------
# runners
# ---------------------------------------------------------------------------
def r_translator(ctx, a):
    from translate import gen_tableaux
    text, rep, data = gen_tableaux.analyse(core.REPO)
    ctx.table_obligation('translator: every construct of the integrator factories understood', not rep['gaps'], rep['gaps'])
    sc = rep.get('selfcheck', {})
    ctx.table_obligation('translator self-check: coefficients reaching F/G/G_inv in the source factories = emitted ones',
                         bool(sc.get('ok')), sc)
    cur = open(os.path.join(core.COQ, 'Gen', 'Tableaux.v')).read()
    ctx.table_obligation('Gen/Tableaux.v is the translation of the current source', cur == text,
                         None if cur == text else 'stale Gen/Tableaux.v')
    flags = ctx.model.call(4, [0], [])
    ctx.exact('extracted model built from a complete translation', [int(flags[0])], [1])
    # the extracted model really carries the translated coefficients
    for k, nm in ((3, 'rk3'), (4, 'rk4')):
        m = ctx.model.call(4, [k], [])
        want = [x for l in data[nm] for x in l]
        ctx.exact('extracted %s coefficients' % nm, [str(x) for x in m], [str(x) for x in want])
    m = ctx.model.call(4, [5], [])
    s3 = data['sil3']
    want = flatten(s3[0]) + flatten(s3[1]) + list(s3[2]) + list(s3[3])
    ctx.exact('extracted sil3 tableau', [str(x) for x in m], [str(Fraction(x)) for x in want])


def r_step(ctx, a):
    b = Bench(a['A'], a['B'], a['p'], a['dt'])
    out = impl_step(a['scheme'], b, a['dt'], a['u'], a.get('alpha'))
    m = model_step(ctx, a['scheme'], a)
    ctx.corr('one step of %s' % SCHEMES[a['scheme']], out, m, scale=b.scale())


def r_ls_generic(ctx, a):
    b = Bench(a['A'], a['B'], a['p'], a['dt'])
    out = impl_step(6, b, a['dt'], a['u'], extra=a)
    m = model_step(ctx, 6, a, extra_arrs=[a['alphas'], a['betas'], a['gammas']])
    ctx.corr('low_storage_runge_kutta_crank_nicolson (random lists)', out, m, scale=b.scale())
    ctx.exact('stages run = len(betas)', [b.nF, b.nI], [len(a['betas'])] * 2)


def r_imex_generic(ctx, a):
    b = Bench(a['A'], a['B'], a['p'], a['dt'])
    out = impl_step(7, b, a['dt'], a['u'], extra=a)
    s = len(a['b_ex'])
    m = model_step(ctx, 7, a, extra_ints=[s], extra_arrs=[flatten(a['a_ex']), flatten(a['a_im']), a['b_ex'], a['b_im']])
    ctx.corr('imex_runge_kutta (random tableau with zeros)', out, m, scale=b.scale() * s)


def r_ls_lengths(ctx, a):
    ti = TI()
    la, lb, lg = a['la'], a['lb'], a['lg']
    eq = Bench([[0.0]], [[0.0]], [0.0], 1.0).eq()
    try:
        ti.low_storage_runge_kutta_crank_nicolson([0.0] * la, [0.0] * lb, [0.0] * lg, eq, 0.1); acc = 1
    except ValueError:
        acc = 0
    m = ctx.model.call(1, [la, lb, lg], [])
    ctx.exact('low-storage factory accepts lengths', [acc], [1 - int(m[0])])
    ctx.count('ls_lengths accepted:%d' % acc)
    want = int(la == lb + 1 and lb == lg)
    ctx.oracle('coefficient lists of inconsistent length are rejected (low-storage RK)', acc == want,
               {'accepted': acc, 'consistent': want, 'lengths': [la, lb, lg]})


def r_tableau_shape(ctx, a):
    ti = TI()
    re_, ri, nbe, nbi = a['rows_ex'], a['rows_im'], a['n_b_ex'], a['n_b_im']
    try:
        ti.ImExButcherTableau(a_ex=[[0.5] * n for n in re_], a_im=[[0.5] * n for n in ri], b_ex=[0.5] * nbe, b_im=[0.5] * nbi); acc = 1
    except ValueError:
        acc = 0
    m = ctx.model.call(2, [nbe, nbi, len(re_)] + list(re_) + list(ri), [])
    ctx.exact('ImExButcherTableau accepts shape', [acc], [1 - int(m[0])])
    ctx.count('tableau accepted:%d' % acc)
    s = nbe
    want = int(nbi == s and len(re_) + 1 == s and len(ri) + 1 == s and
               all(n == i + 1 for i, n in enumerate(re_)) and all(n == i + 2 for i, n in enumerate(ri)))
    ctx.oracle('Butcher tableaux of inconsistent shape are rejected', acc == want,
               {'accepted': acc, 'consistent': want, 'shape': a})


class CBench:
    """scalar test equations u' = z u (implicit only) for a whole grid of z at once"""
    def __init__(self, z): self.z = z
    def eq(self):
        z = self.z
        return TI().ImplicitExplicitODE.from_functions(
            lambda u: 0 * np.asarray(u), lambda u: z * np.asarray(u), lambda x, eta: np.asarray(x) / (1 - eta * z))


def zgrid():
    r = np.concatenate([[0.0], np.logspace(-3, 6, 73)])
    th = np.linspace(np.pi / 2, 3 * np.pi / 2, 49)
    z = (r[:, None] * np.exp(1j * th[None, :])).ravel()
    z = np.where(z.real > 0, 1j * z.imag, z)          # guard against cos(pi/2) = 6e-17 > 0
    return z


def r_stability(ctx, a):
    ti = TI(); z = zgrid(); cb = CBench(z); eq = cb.eq(); one = np.ones_like(z)
    sc = a['scheme']
    if sc == 1:
        f = ti.semi_implicit_leapfrog(eq, 1.0) if a['alpha'] is None else ti.semi_implicit_leapfrog(eq, 1.0, a['alpha'])
        amp = np.abs(np.asarray(f((one, 0 * one))[1]))     # = |rho|^2 of both characteristic roots
    else:
        f = [ti.backward_forward_euler, None, ti.crank_nicolson_rk2, ti.crank_nicolson_rk3, ti.crank_nicolson_rk4, ti.imex_rk_sil3][sc](eq, 1.0)
        amp = np.abs(np.asarray(f(one)))
    i = int(np.argmax(np.where(np.isnan(amp), np.inf, amp)))
    ctx.oracle('purely implicit linear dynamics in the closed left half-plane is never amplified (%s)' % SCHEMES[sc],
               bool(amp[i] <= 1 + 1e-12), {'z': [float(z[i].real), float(z[i].imag)], 'amplification': float(amp[i])})


def _order_problem(c, mode):
    c = np.asarray(c)
    A = np.array([[0.2 * c[0], 1.0 + 0.3 * c[1]], [-1.0 + 0.3 * c[2], 0.2 * c[3]]])
    B = np.array([[-0.6 - 0.3 * abs(c[4]), 0.5 * c[5]], [-0.5 * c[5] + 0.2 * c[6], -0.4 - 0.3 * abs(c[7])]])
    p = np.array([0.6 + 0.3 * c[8], -0.5 + 0.3 * c[9]])
    u = np.array([0.9 + 0.2 * c[10], -0.6 + 0.2 * c[11]])
    if mode != 'general': B = np.zeros((2, 2))
    if mode == 'G=0,linearF': p = np.zeros(2)
    return A, B, p, u


def _exact_flow(A, B, p, u, t):
    from scipy.integrate import solve_ivp
    f = lambda _t, y: A @ y + p * y * np.roll(y, -1) + B @ y
    sol = solve_ivp(f, (0.0, t), u, method='DOP853', rtol=1e-13, atol=1e-15)
    return sol.y[:, -1]


DESIGN_LOCAL_ORDER = {  # local error exponent = design order + 1
    (0, 'general'): 2, (1, 'general'): 3, (2, 'general'): 3,
    (3, 'general'): 3, (3, 'G=0'): 4, (4, 'general'): 3, (4, 'G=0'): 5,
    (5, 'general'): 3, (5, 'G=0'): 3, (5, 'G=0,linearF'): 4}


def r_order(ctx, a):
    sc, mode = a['scheme'], a['mode']
    A, B, p, u = _order_problem(a['c'], mode)
    want = DESIGN_LOCAL_ORDER[(sc, mode)]
    if a.get('alpha') is not None and a['alpha'] != 0.5: want = 2     # off-centred: first-order consistent only
    h0 = {2: 2.0 ** -8, 3: 2.0 ** -6, 4: 2.0 ** -4, 5: 2.0 ** -3}[want]
    hs = [h0, h0 / 2, h0 / 4]
    errs = []
    from scipy.integrate import solve_ivp
    rhs = lambda _t, y: A @ y + p * y * np.roll(y, -1) + B @ y
    for h in hs:
        b = Bench(A, B, p, h)
        if sc == 1:   # exact snapshots at t-h (integrating backwards) and t
            prev = solve_ivp(rhs, (0.0, -h), u, method='DOP853', rtol=1e-13, atol=1e-15).y[:, -1]
            out = impl_step(1, b, h, np.concatenate([prev, u]), alpha=a.get('alpha'))[2:]
        else:
            out = impl_step(sc, b, h, u)
        errs.append(float(np.max(np.abs(out - _exact_flow(A, B, p, u, h)))))
    # Fitted exponent of the local error over two halvings.  Float64 oracle with
    # generous margins: a tiny leading error constant (near-cancellation, error
    # <= 0.005 h^want) or errors at round-off level count as "order reached".
    fit = float(np.log2(max(errs[0], 1e-300) / max(errs[2], 1e-300)) / 2)
    obs = [float(np.log2(max(errs[i], 1e-300) / max(errs[i + 1], 1e-300))) for i in range(2)]
    small = errs[2] <= 0.005 * hs[2] ** want or errs[2] < 2e-12
    ok = bool(fit >= want - 0.4 or small)
    if small and fit < want - 0.4: ctx.count('order: inconclusive (tiny error constant)')
    ctx.count('order:%s:%s' % (SCHEMES[sc], mode))
    ctx.oracle('one step reproduces the exact flow to the design order (%s, %s: local error O(h^%d))' % (SCHEMES[sc], mode, want),
               ok, {'h': hs, 'local_errors': errs, 'observed_exponents': obs, 'fitted': fit, 'required': want})


def _coefs(ctx, k):
    return [float(x) for x in ctx.model.call(4, [k], [])]


def r_reduction(ctx, a):
    sc, d, dt = a['scheme'], a['d'], a['dt']
    A = np.asarray(a['A']); B = np.asarray(a['B']); p = np.asarray(a['p']); u = np.asarray(a['u'])
    Fx = lambda y: A @ y + p * y * np.roll(y, -1)
    I = np.eye(d)
    # (a) G = 0, G_inv = id: the underlying explicit scheme
    b = Bench(A, 0 * B, p, dt, g_zero=True)
    out = impl_step(sc, b, dt, u)
    if sc == 0: ref = u + dt * Fx(u)
    elif sc == 2:
        k1 = Fx(u); ref = u + dt * 0.5 * (k1 + Fx(u + dt * k1))
    elif sc in (3, 4):
        al, be, ga = LIT_LOWSTORAGE[sc]; n = len(be)
        y = u.copy(); h = np.zeros(d)
        for k in range(n):
            h = Fx(y) + be[k] * h; y = y + ga[k] * dt * h
        ref = y
    else:
        a_ex, a_im, b_ex, b_im = LITERATURE[2][1]; s = 4
        f = [Fx(u)]
        for i in range(1, s):
            f.append(Fx(u + dt * sum(a_ex[i - 1][j] * f[j] for j in range(i))))
        ref = u + dt * sum(b_ex[j] * f[j] for j in range(s))
    ctx.oracle_close('with vanishing implicit part the step is the underlying explicit method (%s)' % SCHEMES[sc],
                     out, ref, scale=b.scale())
    z = {'d': d, 'A': a['A'], 'B': (0 * B).tolist(), 'p': a['p'], 'u': a['u'], 'dt': dt}
    if sc in (3, 4):
        ctx.corr('G=0: implementation vs model ls_explicit_loop (%s)' % SCHEMES[sc], out, model_step(ctx, 13, z, extra_ints=[sc]), scale=b.scale())
    if sc == 5:
        ctx.corr('G=0: implementation vs model erk_step (imex_rk_sil3)', out, model_step(ctx, 11, z), scale=b.scale())
    # (b) F = 0: backward Euler / Crank-Nicolson chain / DIRK
    b = Bench(A, B, 0 * p, dt, f_zero=True)
    out = impl_step(sc, b, dt, u)
    if sc == 0: ref = np.linalg.solve(I - dt * B, u)
    elif sc == 2: ref = np.linalg.solve(I - 0.5 * dt * B, (I + 0.5 * dt * B) @ u)
    elif sc in (3, 4):
        al, be, ga = LIT_LOWSTORAGE[sc]; n = len(be)
        y = u.copy()
        for k in range(n):
            mu = 0.5 * dt * (al[k + 1] - al[k]); y = np.linalg.solve(I - mu * B, (I + mu * B) @ y)
        ref = y
    else:
        a_ex, a_im, b_ex, b_im = LITERATURE[2][1]; s = 4
        g = [B @ u]
        for i in range(1, s):
            Y = np.linalg.solve(I - dt * a_im[i - 1][i] * B, u + dt * sum(a_im[i - 1][j] * g[j] for j in range(i)))
            g.append(B @ Y)
        ref = u + dt * sum(b_im[j] * g[j] for j in range(s))
    ctx.oracle_close('with vanishing explicit part the step is the underlying implicit method (%s)' % SCHEMES[sc],
                     out, ref, scale=b.scale())
    z = {'d': d, 'A': (0 * A).tolist(), 'B': a['B'], 'p': (0 * p).tolist(), 'u': a['u'], 'dt': dt}
    if sc in (3, 4):
        ctx.corr('F=0: implementation vs model cn_chain (%s)' % SCHEMES[sc], out, model_step(ctx, 14, z, extra_ints=[sc]), scale=b.scale())
    if sc == 5:
        ctx.corr('F=0: implementation vs model dirk_step (imex_rk_sil3)', out, model_step(ctx, 12, z), scale=b.scale())


def r_ls_vs_ark(ctx, a):
    """Butcher form computed by the model's lowstorage_to_butcher, run through the
    implementation's generic imex_runge_kutta, must reproduce the implementation's
    low-storage step (the coupling order conditions are proved for that Butcher form)."""
    sc, d, dt = a['scheme'], a['d'], a['dt']
    fl = ctx.model.call(3, [sc], [])
    n = {3: 3, 4: 5}[sc]; s = n + 1
    fl = [float(x) for x in fl]
    pos = 0; a_ex = []; a_im = []
    for i in range(1, s): a_ex.append(fl[pos:pos + i]); pos += i
    for i in range(1, s): a_im.append(fl[pos:pos + i + 1]); pos += i + 1
    b_ex = fl[pos:pos + s]; pos += s; b_im = fl[pos:pos + s]; pos += s
    ctx.exact('butcher form size', [pos], [len(fl)])
    b1 = Bench(a['A'], a['B'], a['p'], dt); o1 = impl_step(sc, b1, dt, a['u'])
    b2 = Bench(a['A'], a['B'], a['p'], dt)
    o2 = impl_step(7, b2, dt, a['u'], extra={'a_ex': a_ex, 'a_im': a_im, 'b_ex': b_ex, 'b_im': b_im})
    ctx.oracle_close('low-storage step = additive RK step of its Butcher form (%s)' % SCHEMES[sc], o1, o2,
                     scale=max(b1.scale(), b2.scale()))
    m = model_step(ctx, 8, a, extra_ints=[sc])
    ctx.corr('model ark_step on lowstorage_to_butcher vs implementation low-storage step', o1, m, scale=b1.scale())


def _funcs(A, B, p):
    """F, G, G_inv acting on (..., d) arrays (row-wise), float64, exact small data."""
    A = np.asarray(A, dtype=np.float64); B = np.asarray(B, dtype=np.float64); p = np.asarray(p, dtype=np.float64); d = len(p)
    Fx = lambda u: np.asarray(u, dtype=np.float64) @ A.T + p * np.asarray(u, dtype=np.float64) * np.roll(np.asarray(u, dtype=np.float64), -1, axis=-1)
    G = lambda u: np.asarray(u, dtype=np.float64) @ B.T
    Gi = lambda x, eta: np.linalg.solve(np.eye(d) - float(eta) * B, np.asarray(x, dtype=np.float64).T).T
    return Fx, G, Gi


def _factory(sc, eq, dt, alpha=None, extra=None):
    ti = TI()
    if sc == 6:
        return ti.low_storage_runge_kutta_crank_nicolson(extra['alphas'], extra['betas'], extra['gammas'], eq, dt)
    if sc == 7:
        return ti.imex_runge_kutta(ti.ImExButcherTableau(extra['a_ex'], extra['a_im'], extra['b_ex'], extra['b_im']), eq, dt)
    if sc == 1:
        return ti.semi_implicit_leapfrog(eq, dt) if alpha is None else ti.semi_implicit_leapfrog(eq, dt, alpha=alpha)
    return [ti.backward_forward_euler, None, ti.crank_nicolson_rk2, ti.crank_nicolson_rk3, ti.crank_nicolson_rk4, ti.imex_rk_sil3][sc](eq, dt)


def _form_scale(A, B, p, dt, u):
    b = Bench(A, B, p, dt); b.see(u); b.m = max(b.m, 1.0)
    return b.scale() * 8


def r_forms(ctx, a):
    """The same step in another FORM of state / step size / equation object."""
    ti = TI(); form = a['form']; sc = a['scheme']; d = a['d']; dt = a['dt']
    Fx, G, Gi = _funcs(a['A'], a['B'], a['p'])
    wrapF, wrapG, wrapGi = Fx, G, Gi
    to_state = lambda v: np.asarray(v, dtype=np.float64); from_state = lambda s_: np.asarray(s_, dtype=np.float64).ravel()
    dt_impl = dt; dt_model = dt
    if form == 'int_state':
        to_state = lambda v: np.asarray(v).astype(np.int64)
    elif form == 'scalar_state':
        to_state = lambda v: float(v[0]); from_state = lambda s_: np.asarray([float(s_)])
        wrapF = lambda x: float(Fx(np.asarray([x]))[0]); wrapG = lambda x: float(G(np.asarray([x]))[0])
        wrapGi = lambda x, eta: float(Gi(np.asarray([x]), eta)[0])
    elif form == 'zero_d_state':
        to_state = lambda v: np.asarray(v[0], dtype=np.float64)
        wrapF = lambda x: Fx(np.asarray(x).reshape(1)).reshape(()); wrapG = lambda x: G(np.asarray(x).reshape(1)).reshape(())
        wrapGi = lambda x, eta: Gi(np.asarray(x).reshape(1), eta).reshape(())
    elif form == 'readonly_strided':
        def to_state(v):
            big = np.full(2 * len(v), 7.0); big[::2] = v; view = big[::2]; view.flags.writeable = False; return view
    elif form == 'pytree':
        k = 1
        to_state = lambda v: {'x': np.asarray(v[:k], dtype=np.float64), 'y': (np.asarray(v[k:], dtype=np.float64),)}
        from_state = lambda s_: np.concatenate([np.asarray(s_['x']).ravel(), np.asarray(s_['y'][0]).ravel()])
        wrapF = lambda s_: to_state(Fx(from_state(s_))); wrapG = lambda s_: to_state(G(from_state(s_)))
        wrapGi = lambda s_, eta: to_state(Gi(from_state(s_), eta))
    elif form == 'np_dt': dt_impl = np.float64(dt)
    elif form == 'int_dt': dt_impl = int(dt)
    elif form == 'zero_d_dt': dt_impl = np.asarray(dt, dtype=np.float64)
    elif form == 'jnp_dt':
        import jax.numpy as jnp
        dt_impl = jnp.asarray(dt, dtype=jnp.float64)
    eq = ti.ImplicitExplicitODE.from_functions(wrapF, wrapG, wrapGi)
    if form == 'subclass':
        class Eq(ti.ImplicitExplicitODE):
            def explicit_terms(self, x): return Fx(x)
            def implicit_terms(self, x): return G(x)
            def implicit_inverse(self, x, step_size): return Gi(x, step_size)
        eq = Eq()
    elif form == 'compose':
        A = np.asarray(a['A'], dtype=np.float64); pp = np.asarray(a['p'], dtype=np.float64)
        lin = ti.ImplicitExplicitODE.from_functions(lambda x: np.asarray(x) @ A.T, G, Gi)
        nl = ti.ExplicitODE.from_functions(lambda x: pp * np.asarray(x) * np.roll(np.asarray(x), -1, axis=-1))
        eq = ti.compose_equations([nl, lin] if sc % 2 else [lin, nl])
    elif form == 'time_reversed':
        eq = ti.TimeReversedImExODE(eq); dt_model = -dt        # reversed equation = forward equation with -dt
    step = _factory(sc, eq, dt_impl, a.get('alpha'))
    us = a['us']
    if form == 'batch':          # leading batch axis with different content per row
        U = np.asarray(us, dtype=np.float64)
        if sc == 1:
            cur, fut = step((U[:, :d], U[:, d:])); out = np.concatenate([np.asarray(cur), np.asarray(fut)], axis=1)
        else:
            out = np.asarray(step(U))
        outs = [out[i] for i in range(len(us))]
    else:
        outs = []
        for v in us:
            if sc == 1:
                cur, fut = step((to_state(v[:d]), to_state(v[d:]))); outs.append(np.concatenate([from_state(cur), from_state(fut)]))
            else:
                outs.append(from_state(step(to_state(v))))
    for v, out in zip(us, outs):
        m = model_step(ctx, sc, {'d': d, 'A': a['A'], 'B': a['B'], 'p': a['p'], 'u': v, 'dt': dt_model, 'alpha': a.get('alpha')})
        ctx.corr('one step of %s, form %s' % (SCHEMES[sc], form), out, m, scale=_form_scale(a['A'], a['B'], a['p'], dt, v))
    if form == 'rest_state':
        ctx.oracle('a state at rest stays at rest (%s)' % SCHEMES[sc], bool(np.all(outs[0] == 0.0)), {'out': outs[0]})
    if form == 'zero_dt':
        want = np.asarray(us[0]) if sc != 1 else np.concatenate([us[0][d:], us[0][:d]])
        ctx.oracle_close('zero step size leaves the state unchanged (%s)' % SCHEMES[sc], outs[0], want, scale=1.0)


def r_purity(ctx, a):
    """Step functions are pure: repeated / interleaved calls and a second step
    function built from the same equation do not influence each other."""
    sc = a['scheme']; b = Bench(a['A'], a['B'], a['p'], a['dt']); eq = b.eq()
    mk = lambda v: (np.asarray(v), np.asarray(a['v'])) if sc == 1 else np.asarray(v)
    flat = lambda o: np.concatenate([np.asarray(x).ravel() for x in o]) if sc == 1 else np.asarray(o)
    ex = a.get('extra')
    _f = lambda dt_: _factory(sc, eq, dt_, extra=ex)
    s1 = _f(a['dt']); s2 = _f(a['dt2'])
    o1 = flat(s1(mk(a['u']))); s1(mk(a['v'])); p2 = flat(s2(mk(a['u']))); o3 = flat(s1(mk(a['u'])))
    s2b = _f(a['dt2']); s1b = _f(a['dt'])       # built in the other order
    q2 = flat(s2b(mk(a['u']))); q1 = flat(s1b(mk(a['u'])))
    nm = SCHEMES.get(sc, {6: 'low_storage (generic lists, beta[0] != 0)', 7: 'imex_runge_kutta (generic tableau)'}.get(sc))
    ctx.exact('repeated call is bit-identical (%s)' % nm, o1.tolist(), o3.tolist())
    ctx.exact('order of construction irrelevant (%s)' % nm, [o1.tolist(), p2.tolist()], [q1.tolist(), q2.tolist()])
    u = a['u'] + a['v'] if sc == 1 else a['u']
    arg = {'d': 2, 'A': a['A'], 'B': a['B'], 'p': a['p'], 'u': u, 'dt': a['dt']}
    if sc == 6: m = model_step(ctx, 6, arg, extra_arrs=[ex['alphas'], ex['betas'], ex['gammas']])
    elif sc == 7: m = model_step(ctx, 7, arg, extra_ints=[len(ex['b_ex'])], extra_arrs=[flatten(ex['a_ex']), flatten(ex['a_im']), ex['b_ex'], ex['b_im']])
    else: m = model_step(ctx, sc, arg)
    ctx.corr('third call vs model (%s)' % nm, o3, m, scale=b.scale())


_jit_cache = {}
def r_jit(ctx, a):
    """Usual mode of use: jnp equation, step function under jax.jit."""
    import jax, jax.numpy as jnp
    ti = TI(); sc = a['scheme']
    A = jnp.asarray(a['A']); B = jnp.asarray(a['B']); p = jnp.asarray(a['p'])
    eq = ti.ImplicitExplicitODE.from_functions(
        lambda u: A @ u + p * u * jnp.roll(u, -1), lambda u: B @ u,
        lambda x, eta: jnp.linalg.solve(jnp.eye(2) - eta * B, x))
    step = jax.jit(_factory(sc, eq, a['dt']))
    u = (jnp.asarray(a['u']), jnp.asarray(a['u'][::-1])) if sc == 1 else jnp.asarray(a['u'])
    o = step(u)
    out = np.concatenate([np.asarray(o[0]), np.asarray(o[1])]) if sc == 1 else np.asarray(o)
    uu = a['u'] + a['u'][::-1] if sc == 1 else a['u']
    b = Bench(a['A'], a['B'], a['p'], a['dt']); b.see(uu); b.m = max(b.m, 1.0)
    m = model_step(ctx, sc, {'d': 2, 'A': a['A'], 'B': a['B'], 'p': a['p'], 'u': uu, 'dt': a['dt']})
    ctx.corr('jitted step of %s' % SCHEMES[sc], out, m, scale=b.scale() * 8)
    ctx.exact('jitted step keeps float64', [str(out.dtype)], ['float64'])


def r_direct_vs_tableau(ctx, a):
    """The directly coded schemes equal imex_runge_kutta on their Butcher forms taken
    from the literature (implementation against implementation; theorem
    C06_direct_schemes_are_ark / the SIL3 reference of Whitaker & Kar)."""
    ti = TI(); name = a['name']; dt = a['dt']
    tab = dict(LITERATURE)[name]
    b1 = Bench(a['A'], a['B'], a['p'], dt); b2 = Bench(a['A'], a['B'], a['p'], dt)
    f = {'euler': ti.backward_forward_euler, 'cn_rk2': ti.crank_nicolson_rk2, 'sil3': ti.imex_rk_sil3}[name]
    o1 = np.asarray(f(b1.eq(), dt)(np.asarray(a['u'])))
    o2 = impl_step(7, b2, dt, a['u'], extra={'a_ex': tab[0], 'a_im': tab[1], 'b_ex': tab[2], 'b_im': tab[3]})
    ctx.oracle_close('%s = imex_runge_kutta on its published Butcher tableau' % name, o1, o2, scale=max(b1.scale(), b2.scale()))


SERIES_ORDER = {(0, 'general'): 1, (1, 'general'): 2, (2, 'general'): 2, (3, 'general'): 2, (3, 'G=0'): 3,
                (4, 'general'): 2, (4, 'G=0'): 4, (5, 'general'): 2, (5, 'G=0'): 2, (5, 'G=0,linearF'): 3}


def r_nonlinear_order(ctx, a):
    """Ties the power-series model of the nonlinear-order theorems to the code: scalar
    u' = F(u) + g u, F(u) = sum_j c_j (u - u0)^j (so that c_j = F^(j)(u0)/j! exactly; F is a
    quartic, hence the series model is exact to every order and is run to h^9 - RK4: h^5 - here).
    S = series of one step (model, exact rationals), E = series of the exact flow.
    (a) theorem instance on the model: S_j = E_j for j <= design order p;
    (b) implementation(h) = S(h) up to the tail of the series (geometric bound from the computed
        coefficients), at steps h = 2^-k from about 1/8 down to 2^-12;
    (c) the property itself on the implementation: |implementation(h) - E(h)| <= C h^(p+1) with the
        constant C predicted by the model, for all those h."""
    ti = TI(); sc, mode = a['scheme'], a['mode']
    p = SERIES_ORDER[(sc, mode)]
    NS = 6 if sc == 4 else 10      # exact rationals with the 13-digit RK4 decimals are expensive
    c = [Fraction(x) for x in a['c']]; u0 = Fraction(a['u0']); g = Fraction(a['g'])
    if mode != 'general': g = Fraction(0)
    if mode == 'G=0,linearF': c = c[:2] + [Fraction(0)] * 3
    alpha = ctx.model.call(4, [1], [])[0]
    pad = lambda l: (list(l) + [Fraction(0)] * NS)[:NS]
    S = pad(ctx.model.call(5, [sc, NS], [[u0, g, alpha], c]))
    E = pad(ctx.model.call(5, [6, NS], [[u0, g, alpha], c]))
    if sc != 4:
        S5 = pad(ctx.model.call(5, [sc, 0], [[u0, g, alpha], c]))[:5]
        ctx.exact('series model: truncation after h^4 (theorems) = first coefficients of the longer series',
                  [str(x) for x in S5], [str(x) for x in S[:5]])
    tol = Fraction(1, 10 ** 12) if sc == 4 else Fraction(0)
    ctx.exact('series model: step = exact flow up to h^%d (%s, %s)' % (p, SCHEMES[sc], mode),
              [int(abs(S[j] - E[j]) <= tol) for j in range(p + 1)], [1] * (p + 1))
    ctx.count('nonlinear_order:%s:%s' % (SCHEMES[sc], mode))
    cf = [float(x) for x in c]; u0f = float(u0); gf = float(g)
    def Fx(u):
        d = np.asarray(u, dtype=np.float64) - u0f
        return cf[0] + d * (cf[1] + d * (cf[2] + d * (cf[3] + d * cf[4])))
    eq = ti.ImplicitExplicitODE.from_functions(Fx, lambda u: gf * np.asarray(u, dtype=np.float64),
                                               lambda x, eta: np.asarray(x, dtype=np.float64) / (1.0 - eta * gf))
    ev = lambda ser, h: sum(ser[j] * h ** j for j in range(NS))
    def impl(h):
        hf = float(h)
        if sc == 1:
            prev = float(ev(E, -h))
            return float(np.asarray(ti.semi_implicit_leapfrog(eq, hf)((np.asarray([prev]), np.asarray([u0f])))[1])[0])
        f = [ti.backward_forward_euler, None, ti.crank_nicolson_rk2, ti.crank_nicolson_rk3, ti.crank_nicolson_rk4, ti.imex_rk_sil3][sc]
        return float(np.asarray(f(eq, hf)(np.asarray([u0f])))[0])
    # growth rate of the coefficients -> geometric bound of the neglected tails  sum_{j >= NS} (rho h)^j
    rho = 1.5 * max([1.0] + [abs(float(x)) ** (1.0 / j) for ser in (S, E) for j, x in enumerate(ser) if j >= 3])
    k0 = 3
    while rho * 2.0 ** -k0 > 0.25: k0 += 1
    ks = list(range(k0, k0 + 5)) + [10, 12]
    hs = [Fraction(1, 2 ** k) for k in ks]
    out = [impl(h) for h in hs]
    floor = 4e-13
    tail = [4 * (rho * float(h)) ** NS for h in hs]
    R = [abs(out[i] - float(ev(S, h))) for i, h in enumerate(hs)]
    i = int(np.argmax([R[i] - tail[i] for i in range(len(hs))]))
    ctx.oracle('implementation step = its power-series model up to the tail of the series (%s, %s)' % (SCHEMES[sc], mode),
               bool(R[i] <= tail[i] + floor),
               {'h': '2^-%d' % ks[i], 'difference': R[i], 'tail_bound': tail[i], 'rho': rho, 'args': a})
    for k in (10, 12):
        h = Fraction(1, 2 ** k)
        ctx.corr('one step of %s at h = 2^-%d vs power-series model' % (SCHEMES[sc], k), [out[ks.index(k)]], [ev(S, h)], scale=4.0)
    # (c) local error bound C h^(p+1), C from the model
    h0 = float(hs[0])
    C = 1.5 * sum(abs(float(S[j] - E[j])) * h0 ** (j - p - 1) for j in range(p + 1, NS)) + 8 * rho ** NS * h0 ** (NS - p - 1)
    D = [abs(out[i] - float(ev(E, h))) for i, h in enumerate(hs)]
    i = int(np.argmax([D[i] - C * float(hs[i]) ** (p + 1) for i in range(len(hs))]))
    ctx.oracle('one step reproduces the Taylor expansion of the exact flow up to h^%d: local error <= C h^%d (%s, %s)'
               % (p, p + 1, SCHEMES[sc], mode), bool(D[i] <= C * float(hs[i]) ** (p + 1) + floor),
               {'h': '2^-%d' % ks[i], 'local_error': D[i], 'C': C, 'bound': C * float(hs[i]) ** (p + 1), 'args': a})


RUNNERS = {'nonlinear_order': r_nonlinear_order, 'forms': r_forms, 'purity': r_purity, 'jit': r_jit, 'direct_vs_tableau': r_direct_vs_tableau,
           'translator': r_translator, 'step': r_step, 'ls_generic': r_ls_generic, 'imex_generic': r_imex_generic,
           'ls_lengths': r_ls_lengths, 'tableau_shape': r_tableau_shape, 'stability': r_stability,
           'order': r_order, 'reduction': r_reduction, 'ls_vs_ark': r_ls_vs_ark}
