"""C19 - persistence and restructuring round trips: correspondence of
Model/Trees.v with dinosaur.pytree_utils / coordinate_systems (spectral
down/up-sampling) and the property's clauses evaluated on the implementation
(nested dictionaries, pytree packing, spectral resampling, attrs/xarray)."""
import json
import numpy as np
from fractions import Fraction
from harness import util

THEOREMS = ['C19_unflatten_flatten', 'C19_unflatten_flatten_paths', 'C19_dict_eq_is_pathwise',
            'C19_unpack_pack', 'C19_unstack_stack', 'C19_concat_split', 'C19_empty_pytree',
            'C19_down_up_identity', 'C19_upsample_coef', 'C19_hyps_satisfiable']
LEVEL = 'proof'
LEVEL_TEXT = ('machine-checked theorems (Coq) for every nested dictionary (any depth/width, any key names without the '
              'separator incl. the empty string, any number of empty sub-dictionaries): flatten_dict accepts and '
              'unflatten_dict returns a dictionary == to the input; unpack/pack, unstack/stack, concat/split identities '
              'for all leaf sizes; spectral down(up(x)) = x and coefficient placement for all shapes; the Gallina model '
              'is executed (extraction) against the implementation on generated dictionaries / pytrees / grids; '
              'attrs and xarray round trips are checked on the implementation only (oracles)')
LEVEL_NOTE = ('theorems are about the Gallina model Model/Trees.v; the separator is a single character (multi-character '
              'separators are outside the property and not modelled); leaves of dictionaries are integers; arrays are '
              'lists of slabs along the packing axis; attrs/xarray clauses are implementation-vs-implementation oracles, '
              'not proved; "same function on the finer grid" is covered by exact coefficient placement + table '
              'obligations on the basis tables at shared nodes')

_jax = None
def J():
    global _jax
    if _jax is None:
        util.setup_jax()
        import jax, jax.numpy as jnp
        from dinosaur import pytree_utils as pu
        _jax = (jax, jnp, pu)
    return _jax


# ---------------------------------------------------------------------------
# encoding of strings / nested dictionaries as integer streams (decoded in Extract/ExC19.v)
# ---------------------------------------------------------------------------
def enc_key(k):
    return [len(k)] + [ord(c) for c in k]

def enc_tree(t):
    if isinstance(t, dict):
        out = [1, len(t)]
        for k, v in t.items():
            out += enc_key(k) + enc_tree(v)
        return out
    return [0, int(t)]

def enc_flat(flat):
    out = [len(flat)]
    for k, v in flat.items():
        out += enc_key(k) + [int(v)]
    return out

def enc_keys(keys):
    out = [len(keys)]
    for k in keys:
        out += enc_key(k)
    return out

def ints_of(m):
    return None if m is None else [int(v) for v in m]


# ---------------------------------------------------------------------------
# generators
# ---------------------------------------------------------------------------
ALPH = ['a', 'b', 'ab', 'ba', 'abc', 'c', '', 'aa', 'b c', 'A']

def rand_key(rng, sep, allow_sep=False):
    r = rng.random()
    if allow_sep and r < 0.5:
        k = ALPH[int(rng.integers(0, len(ALPH)))]
        pos = int(rng.integers(0, len(k) + 1))
        return k[:pos] + sep + k[pos:]
    if r < 0.8:
        return ALPH[int(rng.integers(0, len(ALPH)))]
    n = int(rng.integers(1, 4))
    return ''.join('abc'[int(rng.integers(0, 3))] for _ in range(n))

def rand_dict(rng, depth, sep, bad=0.0, width=4):
    """nested dict: small key alphabet (shared prefixes), 0-3 empty branches per level"""
    d = {}
    n = int(rng.integers(0 if depth < 4 else 1, width + 1))
    for _ in range(n):
        k = rand_key(rng, sep, allow_sep=(rng.random() < bad))
        r = rng.random()
        if depth > 1 and r < 0.45:
            d[k] = rand_dict(rng, depth - 1, sep, bad, width)
        else:
            d[k] = int(rng.integers(-9, 100))
    for _ in range(int(rng.integers(0, 4))):
        d[rand_key(rng, sep, allow_sep=(rng.random() < bad))] = {}
    return d

def gen_dicts(ctx):
    rng = ctx.rng
    quick = ctx.tier == 'quick'
    # corpus: historical defects and edge cases
    corpus = [
        {'ab': {}, 'ac': {}}, {'': {'a': 1}}, {'': {'a': 1}, 'a': 2}, {'': {}}, {'': 1}, {},
        {'a': {'': {'b': 1}}}, {'': {'': {'': {}}}}, {'': {'': {'': 5}}, '&': 1} , {'a': {'b': {}}, 'a b': {}},
        {'ab': {}, 'ac': {}, '': {'a': 1, '': {}}, 'a': {'b': {'c': 2, 'd': {}}, 'bc': 3}, 'b': 4},
        {'x': {'y': {'z': {'w': 1}}}, 'x y': 2}, {'a': {'a': {'a': {}}}, 'aa': {'a': {}}, 'aaa': {}},
        {'a': 1, 'b': {'a': 1}, 'c': {'b': {'a': 1}}},
    ]
    for d in corpus:
        for sep in ['&', '/']:
            yield 'dict', {'d': d, 'sep': sep, 'prefix': ''}
    yield 'dict', {'d': {'a': {'b': 1}, 'c': {}}, 'sep': '&', 'prefix': 'p'}
    yield 'dict', {'d': {'': {'b': 1}, 'c': {}}, 'sep': '&', 'prefix': 'p&q'}
    n = 60 if quick else 600
    for i in range(n):
        sep = ['&', '/', '.', ' '][int(rng.integers(0, 4))] if i % 3 == 0 else '&'
        depth = int(rng.integers(1, 5))
        d = rand_dict(rng, depth, sep)
        prefix = '' if i % 7 else ['p', '', 'p' + sep + 'q'][int(rng.integers(0, 3))]
        yield 'dict', {'d': d, 'sep': sep, 'prefix': prefix}
    # malformed stream: keys containing the separator at random depths
    for i in range(15 if quick else 120):
        sep = '&' if i % 2 else '.'
        yield 'dict', {'d': rand_dict(rng, int(rng.integers(1, 4)), sep, bad=0.25), 'sep': sep, 'prefix': ''}
    # unflatten on arbitrary (not necessarily prefix-consistent) flat dictionaries
    for i in range(40 if quick else 400):
        sep = '&' if i % 4 else '/'
        parts = ['a', 'b', '', 'ab']
        def rk():
            return sep.join(parts[int(rng.integers(0, len(parts)))] for _ in range(int(rng.integers(1, 4))))
        flat = {rk(): int(rng.integers(0, 50)) for _ in range(int(rng.integers(0, 5)))}
        empt = [rk() for _ in range(int(rng.integers(0, 4)))]
        yield 'unflatten', {'flat': flat, 'empty': empt, 'sep': sep}
    # replace_with_matching_or_default
    for i in range(30 if quick else 300):
        x = rand_dict(rng, int(rng.integers(1, 4)), '&')
        # replace: a sub-selection of x's structure with new values, sometimes an extra key
        def sub(t):
            out = {}
            for k, v in t.items():
                if rng.random() < 0.6:
                    if isinstance(v, dict) and v:
                        s = sub(v)
                        out[k] = s
                    elif isinstance(v, dict):
                        if rng.random() < 0.5: out[k] = {}
                    else:
                        out[k] = int(rng.integers(100, 200))
            return out
        rep = sub(x)
        if i % 5 == 0:
            rep['zz'] = 7
        if i % 11 == 0:
            rep['a&b'] = 7
        yield 'replace', {'x': x, 'rep': rep, 'default': -1000 if i % 2 else 0, 'check': bool(i % 3)}


# ---------------------------------------------------------------------------
# runners: nested dictionaries
# ---------------------------------------------------------------------------
def keys_have_sep(d, sep):
    return any(sep in k or (isinstance(v, dict) and keys_have_sep(v, sep)) for k, v in d.items())

def same_structure(a, b):
    """same nested key sets, dict-ness; leaves unconstrained"""
    if isinstance(a, dict) != isinstance(b, dict): return False
    if not isinstance(a, dict): return True
    return set(a) == set(b) and all(same_structure(a[k], b[k]) for k in a)

def r_dict(ctx, a):
    jax, jnp, pu = J()
    d, sep, prefix = a['d'], a['sep'], a['prefix']
    bad = keys_have_sep(d, sep)
    ctx.count('dict:' + ('malformed' if bad else 'wellformed'))
    ctx.count('dict:depth=%d' % _depth(d))
    try:
        flat, empt = pu.flatten_dict(d, prefix=prefix, sep=sep)
        impl = [1] + enc_flat(flat) + enc_keys(empt)
    except ValueError:
        flat = None; impl = [0]
    m = ctx.model.call(0, [ord(sep)] + enc_key(prefix) + enc_tree(d))
    ctx.exact('flatten_dict', impl, ints_of(m))
    if not prefix:
        wf = ctx.model.call(2, [ord(sep)] + enc_tree(d))
        ctx.exact('wf_dict = no separator in keys', [int(not bad)], [int(wf[0])] if wf else None)
        if wf and wf[0] == 1:
            ctx.exact('model round trip', [1, 1, 1, 1], ints_of(wf[1:]))
    # the property's clause on the implementation
    if not bad:
        ctx.oracle('flatten_dict accepts every nested dictionary whose keys do not contain sep', flat is not None,
                   {'d': d})
    else:
        ctx.oracle('keys containing sep are rejected', flat is None, {'d': d})
    if flat is not None:
        try:
            r = pu.unflatten_dict(flat, empt, sep=sep)
            impl_r = [1] + enc_tree(r)
        except TypeError:
            r = None; impl_r = [0]
        m = ctx.model.call(1, [ord(sep)] + enc_flat(flat) + enc_keys(empt))
        ctx.exact('unflatten_dict (incl. insertion order)', impl_r, ints_of(m))
        want = d
        if prefix:
            want = {}
            cur = want
            ps = prefix.split(sep)
            for p in ps[:-1]:
                cur[p] = {}; cur = cur[p]
            cur[ps[-1]] = d
            if not d: want = None   # empty dict under a prefix flattens to nothing: not a round trip case
        if want is not None:
            ctx.oracle('unflatten_dict(flatten_dict(d)) == d', r == want, {'d': d, 'got': r})
            ctx.oracle('flat keys are strings without nesting', all(not isinstance(v, dict) for v in flat.values()))


def _depth(d):
    return 1 + max([_depth(v) for v in d.values() if isinstance(v, dict)] + [0]) if isinstance(d, dict) else 0


def r_unflatten(ctx, a):
    jax, jnp, pu = J()
    flat, empt, sep = a['flat'], tuple(a['empty']), a['sep']
    try:
        r = pu.unflatten_dict(flat, empt, sep=sep); impl = [1] + enc_tree(r)
    except TypeError:
        r = None; impl = [0]
    m = ctx.model.call(1, [ord(sep)] + enc_flat(flat) + enc_keys(empt))
    ctx.exact('unflatten_dict on arbitrary flat dict', impl, ints_of(m))
    ctx.count('unflatten:' + ('ok' if r is not None else 'TypeError'))
    if r is None: return
    # flatten o unflatten on prefix-consistent flat dictionaries
    paths = [tuple(k.split(sep)) for k in list(flat) + list(empt)]
    consistent = len(set(paths)) == len(paths) and not any(
        p != q and q[:len(p)] == p for p in paths for q in paths)
    ctx.count('unflatten:prefix-consistent=%d' % consistent)
    try:
        f2, e2 = pu.flatten_dict(r, sep=sep); impl2 = [1] + enc_flat(f2) + enc_keys(e2)
    except ValueError:
        f2 = None; impl2 = [0]
    ctx.exact('flatten_dict of unflatten result', impl2, ints_of(ctx.model.call(0, [ord(sep)] + enc_key('') + enc_tree(r))))
    if consistent:
        ctx.oracle('flatten_dict(unflatten_dict(flat, empty)) == (flat, empty) for prefix-consistent keys',
                   f2 is not None and f2 == flat and sorted(e2) == sorted(set(empt)) and len(e2) == len(set(empt)),
                   {'flat': flat, 'empty': empt, 'got': [f2, e2]})


def r_replace(ctx, a):
    jax, jnp, pu = J()
    x, rep, default, check = a['x'], a['rep'], a['default'], a['check']
    try:
        r = pu.replace_with_matching_or_default(x, rep, default=default, check_used_all_replace_keys=check)
        impl = [1] + enc_tree(r)
    except (ValueError, TypeError):
        r = None; impl = [0]
    m = ctx.model.call(3, [default, int(check)] + enc_tree(x) + enc_tree(rep))
    ctx.exact('replace_with_matching_or_default', impl, ints_of(m))
    ctx.count('replace:' + ('ok' if r is not None else 'raises'))
    if r is not None:
        ctx.oracle('replace_with_matching_or_default keeps the structure of x', same_structure(r, x), {'x': x, 'got': r})
        def leaves_ok(rx, xx, rr):
            for k, v in xx.items():
                if isinstance(v, dict):
                    sub = rr.get(k, {}) if isinstance(rr, dict) else {}
                    if not leaves_ok(rx[k], v, sub if isinstance(sub, dict) else {}): return False
                else:
                    want = rr[k] if isinstance(rr, dict) and k in rr and not isinstance(rr[k], dict) else default
                    if rx[k] != want: return False
            return True
        ctx.oracle('replace_with_matching_or_default takes leaves from replace, else default', leaves_ok(r, x, rep),
                   {'x': x, 'rep': rep, 'got': r})



# ---------------------------------------------------------------------------
# pytrees of arrays
# ---------------------------------------------------------------------------
def leaf_data(i, shape):
    n = int(np.prod(shape)) if len(shape) else 1
    return (((np.arange(n) * 7 + i * 13) % 64) / 4.0 - 5.0).reshape(shape)

def build(struct, leaves):
    if isinstance(struct, dict):
        if 'L' in struct and len(struct) == 1 and isinstance(struct['L'], int):
            return leaves[struct['L']]
        return {k: build(v, leaves) for k, v in struct.items()}
    return [build(v, leaves) for v in struct]

def rand_struct(rng, n):
    """random nesting of n leaves into dicts/lists; leaf i is {'L': i}"""
    items = [{'L': i} for i in range(n)]
    rng.shuffle(items)
    def nest(xs, depth):
        if len(xs) <= 1 and depth > 0 and rng.random() < 0.7:
            return xs[0] if xs else {}
        if depth >= 3 or len(xs) <= 1:
            kind = rng.random() < 0.5
            return {('k%d' % j): x for j, x in enumerate(xs)} if kind else list(xs)
        cut = int(rng.integers(0, len(xs) + 1))
        parts = [nest(xs[:cut], depth + 1), nest(xs[cut:], depth + 1)]
        if rng.random() < 0.5:
            return {'t': parts[0], 'a': parts[1]}
        return parts
    st = nest(items, 0)
    if isinstance(st, dict) and 'L' in st and len(st) == 1:
        st = {'only': st}
    return st

def rows(x, axis):
    x = np.asarray(x)
    m = np.moveaxis(x, axis, 0)
    return m.reshape(m.shape[0], int(np.prod(m.shape[1:])))

def spec_of(leaves, axis):
    out = []
    for x in leaves:
        r = rows(x, axis); out += [r.shape[1], r.shape[0]]
    return out

def enc_leaves(leaves, axis):
    out = [len(leaves)] + [rows(x, axis).shape[0] for x in leaves]
    for x in leaves: out += rows(x, axis).ravel().tolist()
    return [float(v) for v in out]

def flo(m):
    return None if m is None else [float(v) for v in m]

def same_tree(jax, a, b):
    la, ta = jax.tree_util.tree_flatten(a); lb, tb = jax.tree_util.tree_flatten(b)
    return ta == tb and len(la) == len(lb) and all(
        np.asarray(x).shape == np.asarray(y).shape and np.array_equal(np.asarray(x), np.asarray(y)) for x, y in zip(la, lb))

def gen_arrays(ctx):
    rng = ctx.rng
    quick = ctx.tier == 'quick'
    n = 25 if quick else 250
    for i in range(n):
        nl = int(rng.integers(0, 6)) if i % 6 else 0
        ndim = int(rng.integers(1, 5))
        axis = int(rng.integers(-ndim, ndim))
        other = [int(rng.integers(1, 4)) for _ in range(ndim)]
        shapes = []
        for _ in range(nl):
            sh = list(other); sh[axis] = int(rng.integers(0, 5)); shapes.append(sh)
        yield 'pack', {'struct': rand_struct(rng, nl), 'shapes': shapes, 'axis': axis}
    for i in range(n):
        nl = int(rng.integers(0, 5)) if i % 6 else 0
        ndim = int(rng.integers(0, 4))
        shape = [int(rng.integers(1, 4)) for _ in range(ndim)]
        axis = int(rng.integers(-(ndim + 1), ndim + 1))
        yield 'stack', {'struct': rand_struct(rng, nl), 'shape': shape, 'n': nl, 'axis': axis}
    for i in range(n):
        nl = int(rng.integers(1, 5))
        same = bool(i % 2)
        ndim0 = int(rng.integers(1, 4))
        shapes = []
        for _ in range(nl):
            ndim = ndim0 if same else int(rng.integers(1, 4))
            shapes.append([int(rng.integers(0 if rng.random() < 0.1 else 1, 6)) for _ in range(ndim)])
        mind = min(len(sh) for sh in shapes)
        axis = int(rng.integers(0, mind))   # negative axes are always rejected by slice_along_axis
        yield 'split', {'struct': rand_struct(rng, nl), 'shapes': shapes, 'axis': axis, 'same': same,
                        'idx': int(rng.integers(-8, 9))}
    for i in range(n):
        nl = int(rng.integers(0, 4)) if i % 7 else 0
        ndim = int(rng.integers(1, 4))
        axis = int(rng.integers(-ndim, ndim))
        nax = int(rng.integers(0 if i % 5 == 0 else 1, 5))
        shapes = []
        for j in range(nl):
            sh = [int(rng.integers(1, 4)) for _ in range(ndim)]
            sh[axis] = nax + (1 if (i % 9 == 0 and j == nl - 1) else 0)   # sometimes unequal: must raise
            shapes.append(sh)
        yield 'split_axis', {'struct': rand_struct(rng, nl), 'shapes': shapes, 'axis': axis, 'keep': bool(i % 2)}
    for i in range(n):
        nt = int(rng.integers(0 if i % 8 == 0 else 1, 4))
        nl = int(rng.integers(1, 4))
        ndim = int(rng.integers(1, 4))
        axis = int(rng.integers(-ndim, ndim))
        others = [[int(rng.integers(1, 4)) for _ in range(ndim)] for _ in range(nl)]
        trees = []
        for t in range(nt):
            k = nl - 1 if (i % 10 == 0 and t == nt - 1 and nl > 1) else nl   # sometimes a structure mismatch
            shs = []
            for j in range(k):
                sh = list(others[j]); sh[axis] = int(rng.integers(0, 4)); shs.append(sh)
            trees.append(shs)
        yield 'concat', {'trees': trees, 'axis': axis}


def _mk(a, shapes_key='shapes'):
    leaves = [leaf_data(i, tuple(sh)) for i, sh in enumerate(a[shapes_key])]
    return leaves, build(a['struct'], leaves)


def r_pack(ctx, a):
    jax, jnp, pu = J()
    _, tree = _mk(a); axis = a['axis']
    leaves = [np.asarray(x) for x in jax.tree_util.tree_leaves(tree)]
    ctx.count('pack:leaves=%d' % len(leaves))
    packed = pu.pack_pytree(tree, axis)
    m = ctx.model.call(10, spec_of(leaves, axis), [rows(x, axis).ravel() for x in leaves])
    ctx.exact('pack_pytree', [0.0] if packed is None else [1.0] + rows(packed, axis).ravel().tolist(), flo(m))
    if not leaves:
        ctx.oracle('empty pytree packs to None', packed is None)
        return
    shapes = pu.shape_structure(tree)
    un = pu.unpack_to_pytree(packed, shapes, axis)
    sizes = [x.shape[axis] for x in leaves]
    pr = rows(packed, axis)
    m = ctx.model.call(11, [pr.shape[1], pr.shape[0]] + sizes, [pr.ravel()])
    ctx.exact('unpack_to_pytree', [1.0] + enc_leaves(jax.tree_util.tree_leaves(un), axis), flo(m))
    ctx.oracle('unpack_to_pytree(pack_pytree(t)) == t', same_tree(jax, un, tree), {'shapes': a['shapes'], 'axis': axis})
    ctx.oracle('packed size along the axis is the sum of the leaf sizes', np.asarray(packed).shape[axis] == sum(sizes))


def r_stack(ctx, a):
    jax, jnp, pu = J()
    leaves0 = [leaf_data(i, tuple(a['shape'])) for i in range(a['n'])]
    tree = build(a['struct'], leaves0); axis = a['axis']
    leaves = [np.asarray(x) for x in jax.tree_util.tree_leaves(tree)]
    st = pu.stack_pytree(tree, axis)
    m = ctx.model.call(12, [], [x.ravel() for x in leaves])
    ctx.exact('stack_pytree', [0.0] if st is None else [1.0] + rows(st, axis).ravel().tolist(), flo(m))
    if not leaves:
        ctx.oracle('empty pytree stacks to None', st is None)
        return
    shapes = pu.shape_structure(tree)
    un = pu.unstack_to_pytree(st, shapes, axis)
    sr = rows(st, axis)
    m = ctx.model.call(13, [sr.shape[1], sr.shape[0], len(leaves)], [sr.ravel()])
    ul = jax.tree_util.tree_leaves(un)
    ctx.exact('unstack_to_pytree', [1.0, float(len(ul))] + [float(v) for x in ul for v in np.asarray(x).ravel()], flo(m))
    ctx.oracle('unstack_to_pytree(stack_pytree(t)) == t', same_tree(jax, un, tree), {'shape': a['shape'], 'axis': axis})


def r_split(ctx, a):
    jax, jnp, pu = J()
    _, tree = _mk(a); axis = a['axis']; idx = a['idx']
    leaves = [np.asarray(x) for x in jax.tree_util.tree_leaves(tree)]
    first, second = pu.split_along_axis(tree, idx, axis, expect_same_dims=a['same'])
    f = jax.tree_util.tree_leaves(first); s2 = jax.tree_util.tree_leaves(second)
    axes = [axis if axis >= 0 else axis + x.ndim for x in leaves]
    # model: leafwise, each leaf seen along its own axis
    imp = []; spec = []; arrs = []
    for x, ax in zip(leaves, axes):
        r = rows(x, ax); spec += [r.shape[1], r.shape[0]]; arrs.append(r.ravel())
    def enc(ls):
        out = [len(ls)] + [rows(x, ax).shape[0] for x, ax in zip(ls, axes)]
        for x, ax in zip(ls, axes): out += rows(x, ax).ravel().tolist()
        return [float(v) for v in out]
    m = ctx.model.call(14, [idx] + spec, arrs)
    ctx.exact('split_along_axis', enc(f) + enc(s2), flo(m))
    back = pu.concat_along_axis([first, second], axis)
    fs = []; specs = []
    for x, y, ax in zip(f, s2, axes):
        pass
    allspec = []; allarr = []
    for ls in (f, s2):
        for x, ax in zip(ls, axes):
            r = rows(x, ax); allspec += [r.shape[1], r.shape[0]]; allarr.append(r.ravel())
    m = ctx.model.call(15, [2, len(f), len(s2)] + allspec, allarr)
    ctx.exact('concat_along_axis', [1.0] + enc(jax.tree_util.tree_leaves(back)), flo(m))
    ctx.oracle('concat_along_axis(split_along_axis(t, i)) == t', same_tree(jax, back, tree),
               {'shapes': a['shapes'], 'axis': axis, 'idx': idx})


def r_split_axis(ctx, a):
    jax, jnp, pu = J()
    _, tree = _mk(a); axis = a['axis']; keep = a['keep']
    leaves = [np.asarray(x) for x in jax.tree_util.tree_leaves(tree)]
    try:
        out = pu.split_axis(tree, axis, keep_dims=keep)
    except (ValueError, ZeroDivisionError, TypeError):
        out = None
    m = ctx.model.call(16, [int(keep)] + spec_of(leaves, axis), [rows(x, axis).ravel() for x in leaves])
    if out is None:
        imp = [0.0]
    else:
        imp = [1.0, float(len(out))]
        for t in out:
            tl = jax.tree_util.tree_leaves(t)
            if keep:
                imp += enc_leaves(tl, axis)
            else:
                imp += [float(len(tl))] + [float(v) for x in tl for v in np.asarray(x).ravel()]
    ctx.exact('split_axis', imp, flo(m))
    ctx.count('split_axis:' + ('ok' if out is not None else 'raises'))
    sizes = {x.shape[axis] for x in leaves}
    ctx.oracle('split_axis raises iff the axis sizes are not all equal (or the tree/axis is empty)',
               (out is None) == (len(sizes) != 1 or 0 in sizes), {'shapes': a['shapes']})
    if out is not None:
        ctx.oracle('split_axis returns one pytree per index', len(out) == leaves[0].shape[axis])
        if keep:
            back = pu.concat_along_axis(list(out), axis)
            ctx.oracle('concat_along_axis(split_axis(t, keep_dims=True)) == t', same_tree(jax, back, tree), {'shapes': a['shapes'], 'axis': axis})
        else:
            ok = all(same_tree(jax, t, jax.tree_util.tree_map(lambda x: np.take(np.asarray(x), i, axis=axis), tree))
                     for i, t in enumerate(out))
            ctx.oracle('split_axis(t)[i] is the i-th slice of every leaf', ok, {'shapes': a['shapes'], 'axis': axis})


def r_concat(ctx, a):
    jax, jnp, pu = J()
    axis = a['axis']
    trees = []; c = 0
    for shs in a['trees']:
        t = {}
        for j, sh in enumerate(shs):
            t['k%d' % j] = leaf_data(c, tuple(sh)); c += 1
        trees.append(t)
    try:
        out = pu.concat_along_axis(trees, axis)
    except (ValueError, TypeError):
        out = None
    spec = []; arrs = []
    for t in trees:
        for x in jax.tree_util.tree_leaves(t):
            r = rows(x, axis); spec += [r.shape[1], r.shape[0]]; arrs.append(r.ravel())
    m = ctx.model.call(15, [len(trees)] + [len(t) for t in trees] + spec, arrs)
    ctx.exact('concat_along_axis (n trees)', [0.0] if out is None else [1.0] + enc_leaves(jax.tree_util.tree_leaves(out), axis), flo(m))
    ctx.count('concat:' + ('ok' if out is not None else 'raises'))
    if out is not None and trees:
        # splitting the result at the recorded sizes gives the parts back
        n0 = [x.shape[axis] for x in jax.tree_util.tree_leaves(trees[0])]
        if len(set(n0)) == 1:
            nd = np.asarray(jax.tree_util.tree_leaves(out)[0]).ndim
            f, s2 = pu.split_along_axis(out, n0[0], axis if axis >= 0 else axis + nd, expect_same_dims=True)
            ctx.oracle('split_along_axis(concat_along_axis(ts), n0)[0] == ts[0]', same_tree(jax, f, trees[0]), {'trees': a['trees']})


# ---------------------------------------------------------------------------
# spectral down-/up-sampling
# ---------------------------------------------------------------------------
_sp = None
def SP():
    global _sp
    if _sp is None:
        J()
        import functools
        from dinosaur import spherical_harmonic as sh, coordinate_systems as cs, sigma_coordinates as sc
        impls = {'real': sh.RealSphericalHarmonics, 'fast': sh.FastSphericalHarmonics,
                 'fast4': functools.partial(sh.FastSphericalHarmonics, base_shape_multiple=4)}
        _sp = (sh, cs, sc, impls)
    return _sp

def gen_spectral(ctx):
    rng = ctx.rng
    quick = ctx.tier == 'quick'
    pairs = [(3, 4, 5, 6), (4, 5, 4, 5), (2, 3, 6, 7), (5, 6, 3, 4), (3, 4, 5, 4), (3, 5, 4, 8), (4, 6, 3, 7), (1, 2, 2, 3)]
    if not quick:
        pairs += [(int(a), int(a + rng.integers(0, 3)), int(b), int(b + rng.integers(0, 3)))
                  for a, b in rng.integers(1, 9, size=(24, 2))]
    for j, (mc, lc, mf, lf) in enumerate(pairs):
        for impl in (['real', 'fast'] if quick and j % 2 else ['real', 'fast', 'fast4']):
            yield 'spectral', {'Mc': mc, 'Lc': lc, 'Mf': mf, 'Lf': lf, 'impl': impl, 'K': int(rng.integers(1, 4)),
                               'seed': int(rng.integers(0, 1000))}


def _grid(M, L, impl, nodes=None):
    sh, cs, sc, impls = SP()
    nl, nt = nodes if nodes else (3 * M + 1, (3 * M + 2) // 2)
    return sh.Grid(longitude_wavenumbers=M, total_wavenumbers=L, longitude_nodes=nl, latitude_nodes=nt,
                   spherical_harmonics_impl=impls[impl])


def _enc2(x):
    x = np.asarray(x)
    return [1.0, float(x.shape[0]), float(x.shape[1])] + [float(v) for v in x.ravel()]


def r_spectral(ctx, a):
    jax, jnp, pu = J()
    sh, cs, sc, impls = SP()
    mc, lc, mf, lf, impl, K = a['Mc'], a['Lc'], a['Mf'], a['Lf'], a['impl'], a['K']
    vert = sc.SigmaCoordinates.equidistant(K)
    gc, gf = _grid(mc, lc, impl), _grid(mf, lf, impl)
    csc, csf = cs.CoordinateSystem(gc, vert), cs.CoordinateSystem(gf, vert)
    sc_, sf_ = gc.modal_shape, gf.modal_shape
    rng = np.random.Generator(np.random.PCG64(a['seed']))
    def data(shape): return rng.integers(-20, 21, size=shape).astype(np.float64) / 4
    ctx.count('spectral:impl=' + impl)
    hdr = lambda which, src, dst, ssh, dsh: [which, src.longitude_wavenumbers, src.total_wavenumbers, ssh[0], ssh[1],
                                             dst.longitude_wavenumbers, dst.total_wavenumbers, dsh[0], dsh[1]]
    def run(getter, which, src_cs, dst_cs, state, name):
        src, dst = src_cs.horizontal, dst_cs.horizontal
        try:
            out = getter(src_cs, dst_cs)(state)
        except ValueError:
            out = None
        ctx.count('%s:%s' % (name, 'ok' if out is not None else 'raises'))
        for path in (('x',), ('tr', 'q')):
            xin = state[path[0]] if len(path) == 1 else state[path[0]][path[1]]
            xo = None if out is None else (out[path[0]] if len(path) == 1 else out[path[0]][path[1]])
            xin2 = np.asarray(xin).reshape((-1,) + np.asarray(xin).shape[-2:])
            for k in range(xin2.shape[0]):
                m = ctx.model.call(20, hdr(which, src, dst, src.modal_shape, dst.modal_shape), [xin2[k].ravel()])
                if xo is None:
                    ctx.exact(name, [0.0], flo(m))
                else:
                    xo2 = np.asarray(xo).reshape((-1,) + np.asarray(xo).shape[-2:])
                    ctx.exact(name, _enc2(xo2[k]), flo(m))
        if out is not None:
            ctx.oracle('resampling leaves scalars and the tree structure alone',
                       float(out['s']) == float(state['s']) and set(out) == set(state) and set(out['tr']) == set(state['tr']))
        return out
    state_c = {'x': data((K,) + sc_), 'tr': {'q': data(sc_)}, 's': np.float64(2.5)}
    state_f = {'x': data((K,) + sf_), 'tr': {'q': data(sf_)}, 's': np.float64(-1.5)}
    up = run(cs.get_spectral_upsample_fn, 1, csc, csf, state_c, 'upsample')
    run(cs.get_spectral_downsample_fn, 0, csf, csc, state_f, 'downsample')
    run(cs.get_spectral_interpolate_fn, 2, csc, csf, state_c, 'interpolate(coarse->fine)')
    run(cs.get_spectral_interpolate_fn, 2, csf, csc, state_f, 'interpolate(fine->coarse)')
    if up is None:
        ctx.oracle('upsampling is rejected only when the target is smaller',
                   sf_[0] < sc_[0] or sf_[1] < sc_[1], {'coarse': sc_, 'fine': sf_})
        return
    # clause: down(up(x)) == x  (bit-identical)
    try:
        back = cs.get_spectral_downsample_fn(csf, csc)(up)
        ctx.oracle('spectral up-sampling followed by down-sampling is the identity', same_tree(jax, back, state_c),
                   {'coarse': sc_, 'fine': sf_})
    except ValueError:
        ctx.oracle('spectral up-sampling followed by down-sampling is the identity',
                   not (gf.total_wavenumbers >= gc.total_wavenumbers and gf.longitude_wavenumbers >= gc.longitude_wavenumbers),
                   'downsample raised after an accepted upsample')
    # clause: coefficient placement
    ux = np.asarray(up['x'])
    ok = np.array_equal(ux[..., :sc_[0], :sc_[1]], state_c['x'])
    rest = ux.copy(); rest[..., :sc_[0], :sc_[1]] = 0
    ctx.oracle('up-sampling keeps every coefficient at its index and pads exact zeros', ok and not rest.any() and ux.shape[-2:] == tuple(sf_))
    # table obligation: the same index means the same (m, l) on both grids (inside the coarse mask)
    mcs, lcs = gc.modal_axes; mfs, lfs = gf.modal_axes
    mask = np.asarray(gc.mask)
    if sf_[0] >= sc_[0] and sf_[1] >= sc_[1]:
        rowsel = mask.any(axis=1); colsel = mask.any(axis=0)
        ok = (np.array_equal(np.asarray(mfs)[:sc_[0]][rowsel], np.asarray(mcs)[rowsel]) and
              np.array_equal(np.asarray(lfs)[:sc_[1]][colsel], np.asarray(lcs)[colsel]) and
              bool(np.asarray(gf.mask)[:sc_[0], :sc_[1]][mask].all()))
        ctx.table_obligation('H_modal_axes_prefix (index -> (m,l) map of the finer grid extends the coarser one on its mask)', ok,
                             {'coarse_m': np.asarray(mcs).tolist(), 'fine_m': np.asarray(mfs).tolist()})
    # same function on a finer spectral grid with the same nodes: basis tables agree, synthesis agrees
    if impl != 'fast4' and mf >= mc and lf >= lc:
        nodes = (max(gc.longitude_nodes, 2 * mf + 1), gc.latitude_nodes)
        gc2, gf2 = _grid(mc, lc, impl, nodes), _grid(mf, lf, impl, nodes)
        bc, bf = gc2.spherical_harmonics.basis, gf2.spherical_harmonics.basis
        pc, pf = np.asarray(bc.p), np.asarray(bf.p); fc, ff = np.asarray(bc.f), np.asarray(bf.f)
        ok = (np.array_equal(pf[:pc.shape[0], :, :pc.shape[2]], pc) and np.array_equal(ff[:, :fc.shape[1]], fc))
        ctx.table_obligation('H_table_prefix (basis tables of the finer spectral grid restricted to the coarse (m,l) are the coarse tables)',
                             ok, {'p': [pc.shape, pf.shape], 'f': [fc.shape, ff.shape]})
        cs2c, cs2f = cs.CoordinateSystem(gc2, vert), cs.CoordinateSystem(gf2, vert)
        x = state_c['x'] * np.asarray(gc2.mask)
        upx = cs.get_spectral_upsample_fn(cs2c, cs2f)({'x': x})['x']
        nc = np.asarray(gc2.to_nodal(jnp.asarray(x))); nf = np.asarray(gf2.to_nodal(upx))
        scale = float(np.abs(x).sum() * np.abs(pc).max() * np.abs(fc).max()) + 1e-300
        ctx.oracle_close('up-sampled coefficients synthesise the same function (same nodes)', nf, nc, scale=scale)

def generate(ctx):
    yield from gen_dicts(ctx)
    yield from gen_arrays(ctx)
    yield from gen_spectral(ctx)


RUNNERS = {'dict': r_dict, 'unflatten': r_unflatten, 'replace': r_replace, 'pack': r_pack, 'stack': r_stack,
           'split': r_split, 'split_axis': r_split_axis, 'concat': r_concat, 'spectral': r_spectral}
