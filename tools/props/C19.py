"""C19 - persistence and restructuring round trips: correspondence of
Model/Trees.v with dinosaur.pytree_utils / coordinate_systems (spectral
down/up-sampling) and the property's clauses evaluated on the implementation
(nested dictionaries, pytree packing, spectral resampling, attrs/xarray)."""
import json
import struct
import types
import numpy as np
from fractions import Fraction
from harness import util

THEOREMS = ['C19_unflatten_flatten', 'C19_unflatten_flatten_paths', 'C19_dict_eq_is_pathwise',
            'C19_flatten_unflatten', 'C19_replace_structure', 'C19_unpack_pack', 'C19_unstack_stack', 'C19_concat_split',
            'C19_split_axis_concat', 'C19_empty_pytree', 'C19_down_up_identity', 'C19_upsample_coef',
            'C19_dims_table_documented', 'C19_dims_inference_injective', 'C19_dims_one_layer_refuted',
            'C19_dims_nodal_eq_modal_refuted', 'C19_attrs_roundtrip', 'C19_attrs_hyps_satisfiable',
            'C19_hyps_satisfiable', 'C19_regressions', 'C19_replace_example']
LEVEL = 'proof'
LEVEL_TEXT = ('machine-checked theorems (Coq) for every nested dictionary (any depth/width, any key names without the '
              'separator incl. the empty string, any number of empty sub-dictionaries): flatten_dict accepts and '
              'unflatten_dict returns a dictionary == to the input, and conversely for prefix-consistent flat dictionaries; '
              'replace_with_matching_or_default keeps the structure; unpack/pack, unstack/stack, concat/split, '
              'concat/split_axis identities for all leaf sizes; spectral down(up(x)) = x and coefficient placement for all '
              'shapes; the shape -> dimension-names table of data_to_xarray is the documented, collision-free one for every '
              'admissible coordinate system (layers != 1, nodal shape != modal shape) and provably collides outside; '
              'coordinate_system_from_attrs(asdict(cs)) restores every discretisation field and drops exactly the '
              'implementation class and the mesh; all Gallina models are executed (extraction) against the implementation '
              'on generated dictionaries / pytrees / grids / coordinate systems / attribute dictionaries; bit-identical '
              'dataset read-back and netcdf paths are checked on the implementation only (oracles)')
LEVEL_NOTE = ('theorems are about the Gallina models Model/Trees.v and Model/Attrs.v; the separator is a single character '
              '(multi-character separators are outside the property and not modelled); leaves of dictionaries are integers; '
              'arrays are lists of slabs along the packing axis; the dims theorem is for no user-supplied additional '
              'coordinates (those, realization included, are covered by exact table correspondence); in from_attrs only the '
              "registry class 'Grid' is modelled as horizontal grid and attribute values are typed (int/str/float/list); "
              'constructor validation of the verticals is the C13 acceptance predicate / strict monotonicity; dataset '
              'read-back (xarray_to_*) and netcdf round trips are implementation-vs-implementation oracles, not proved; '
              '"same function on the finer grid" is covered by exact coefficient placement + table obligations on the '
              'basis tables at shared nodes')

_jax = None
def J():
    global _jax
    if _jax is None:
        util.setup_jax()
        import jax, jax.numpy as jnp
        from dinosaur import pytree_utils as pu
        _jax = (jax, jnp, pu)
    return _jax


# ---------------------------------------------------------------------------
# encoding of strings / nested dictionaries as integer streams (decoded in Extract/ExC19.v)
# ---------------------------------------------------------------------------
def enc_key(k):
    return [len(k)] + [ord(c) for c in k]

def enc_tree(t):
    if isinstance(t, dict):
        out = [1, len(t)]
        for k, v in t.items():
            out += enc_key(k) + enc_tree(v)
        return out
    return [0, int(t)]

def enc_flat(flat):
    out = [len(flat)]
    for k, v in flat.items():
        out += enc_key(k) + [int(v)]
    return out

def enc_keys(keys):
    out = [len(keys)]
    for k in keys:
        out += enc_key(k)
    return out

def ints_of(m):
    return None if m is None else [int(v) for v in m]


# ---------------------------------------------------------------------------
# generators
# ---------------------------------------------------------------------------
ALPH = ['a', 'b', 'ab', 'ba', 'abc', 'c', '', 'aa', 'b c', 'A']

def rand_key(rng, sep, allow_sep=False):
    r = rng.random()
    if allow_sep and r < 0.5:
        k = ALPH[int(rng.integers(0, len(ALPH)))]
        pos = int(rng.integers(0, len(k) + 1))
        return k[:pos] + sep + k[pos:]
    if r < 0.8:
        return ALPH[int(rng.integers(0, len(ALPH)))]
    n = int(rng.integers(1, 4))
    return ''.join('abc'[int(rng.integers(0, 3))] for _ in range(n))

def rand_dict(rng, depth, sep, bad=0.0, width=4):
    """nested dict: small key alphabet (shared prefixes), 0-3 empty branches per level"""
    d = {}
    n = int(rng.integers(0 if depth < 4 else 1, width + 1))
    for _ in range(n):
        k = rand_key(rng, sep, allow_sep=(rng.random() < bad))
        r = rng.random()
        if depth > 1 and r < 0.45:
            d[k] = rand_dict(rng, depth - 1, sep, bad, width)
        else:
            d[k] = int(rng.integers(-9, 100))
    for _ in range(int(rng.integers(0, 4))):
        d[rand_key(rng, sep, allow_sep=(rng.random() < bad))] = {}
    return d

def gen_dicts(ctx):
    rng = ctx.rng
    quick = ctx.tier == 'quick'
    # corpus: historical defects and edge cases
    corpus = [
        {'ab': {}, 'ac': {}}, {'': {'a': 1}}, {'': {'a': 1}, 'a': 2}, {'': {}}, {'': 1}, {},
        {'a': {'': {'b': 1}}}, {'': {'': {'': {}}}}, {'': {'': {'': 5}}, '&': 1} , {'a': {'b': {}}, 'a b': {}},
        {'ab': {}, 'ac': {}, '': {'a': 1, '': {}}, 'a': {'b': {'c': 2, 'd': {}}, 'bc': 3}, 'b': 4},
        {'x': {'y': {'z': {'w': 1}}}, 'x y': 2}, {'a': {'a': {'a': {}}}, 'aa': {'a': {}}, 'aaa': {}},
        {'a': 1, 'b': {'a': 1}, 'c': {'b': {'a': 1}}},
    ]
    for d in corpus:
        for sep in ['&', '/']:
            yield 'dict', {'d': d, 'sep': sep, 'prefix': ''}
    yield 'dict', {'d': {'a': {'b': 1}, 'c': {}}, 'sep': '&', 'prefix': 'p'}
    yield 'dict', {'d': {'': {'b': 1}, 'c': {}}, 'sep': '&', 'prefix': 'p&q'}
    n = 60 if quick else 600
    for i in range(n):
        sep = ['/', '.', ' ', '|', 'a'][int(rng.integers(0, 5))] if i % 2 == 0 else '&'
        depth = int(rng.integers(1, 5)) if i % 4 else int(rng.integers(2, 5))
        ctx.count('dict:sep=' + ('default' if sep == '&' else 'other'))
        d = rand_dict(rng, depth, sep)
        prefix = '' if i % 7 else ['p', '', 'p' + sep + 'q'][int(rng.integers(0, 3))]
        yield 'dict', {'d': d, 'sep': sep, 'prefix': prefix}
    # malformed stream: keys containing the separator at random depths
    for i in range(15 if quick else 120):
        sep = '&' if i % 2 else '.'
        yield 'dict', {'d': rand_dict(rng, int(rng.integers(1, 4)), sep, bad=0.25), 'sep': sep, 'prefix': ''}
    # unflatten on arbitrary (not necessarily prefix-consistent) flat dictionaries
    for i in range(40 if quick else 400):
        sep = '&' if i % 4 else '/'
        parts = ['a', 'b', '', 'ab']
        def rk():
            return sep.join(parts[int(rng.integers(0, len(parts)))] for _ in range(int(rng.integers(1, 4))))
        flat = {rk(): int(rng.integers(0, 50)) for _ in range(int(rng.integers(0, 5)))}
        empt = [rk() for _ in range(int(rng.integers(0, 4)))]
        yield 'unflatten', {'flat': flat, 'empty': empt, 'sep': sep}
    # replace_with_matching_or_default
    for i in range(30 if quick else 300):
        x = rand_dict(rng, int(rng.integers(1, 4)), '&')
        # replace: a sub-selection of x's structure with new values, sometimes an extra key
        def sub(t):
            out = {}
            for k, v in t.items():
                if rng.random() < 0.6:
                    if isinstance(v, dict) and v:
                        s = sub(v)
                        out[k] = s
                    elif isinstance(v, dict):
                        if rng.random() < 0.5: out[k] = {}
                    else:
                        out[k] = int(rng.integers(100, 200))
            return out
        rep = sub(x)
        if i % 5 == 0:
            rep['zz'] = 7
        if i % 11 == 0:
            rep['a&b'] = 7
        yield 'replace', {'x': x, 'rep': rep, 'default': -1000 if i % 2 else 0, 'check': bool(i % 3)}


# ---------------------------------------------------------------------------
# runners: nested dictionaries
# ---------------------------------------------------------------------------
def keys_have_sep(d, sep):
    return any(sep in k or (isinstance(v, dict) and keys_have_sep(v, sep)) for k, v in d.items())

def same_structure(a, b):
    """same nested key sets, dict-ness; leaves unconstrained"""
    if isinstance(a, dict) != isinstance(b, dict): return False
    if not isinstance(a, dict): return True
    return set(a) == set(b) and all(same_structure(a[k], b[k]) for k in a)

def r_dict(ctx, a):
    import copy
    jax, jnp, pu = J()
    d, sep, prefix = a['d'], a['sep'], a['prefix']
    d0 = d; d = copy.deepcopy(d0)            # the implementation only ever sees the copy `d`
    bad = keys_have_sep(d, sep)
    ctx.count('dict:' + ('malformed' if bad else 'wellformed'))
    ctx.count('dict:depth=%d' % _depth(d))
    try:
        flat, empt = pu.flatten_dict(d, prefix=prefix, sep=sep)
        impl = [1] + enc_flat(flat) + enc_keys(empt)
    except ValueError:
        flat = None; impl = [0]
    m = ctx.model.call(0, [ord(sep)] + enc_key(prefix) + enc_tree(d))
    ctx.exact('flatten_dict', impl, ints_of(m))
    if not prefix:
        wf = ctx.model.call(2, [ord(sep)] + enc_tree(d))
        ctx.exact('wf_dict = no separator in keys', [int(not bad)], [int(wf[0])] if wf else None)
        if wf and wf[0] == 1:
            ctx.exact('model round trip', [1, 1, 1, 1], ints_of(wf[1:]))
    # the property's clause on the implementation
    if not bad:
        ctx.oracle('flatten_dict accepts every nested dictionary whose keys do not contain sep', flat is not None,
                   {'d': d})
    else:
        ctx.oracle('keys containing sep are rejected', flat is None, {'d': d})
    if flat is not None:
        try:
            r = pu.unflatten_dict(flat, empt, sep=sep)
            impl_r = [1] + enc_tree(r)
        except TypeError:
            r = None; impl_r = [0]
        m = ctx.model.call(1, [ord(sep)] + enc_flat(flat) + enc_keys(empt))
        ctx.exact('unflatten_dict (incl. insertion order)', impl_r, ints_of(m))
        want = d
        if prefix:
            want = {}
            cur = want
            ps = prefix.split(sep)
            for p in ps[:-1]:
                cur[p] = {}; cur = cur[p]
            cur[ps[-1]] = d
            if not d: want = None   # empty dict under a prefix flattens to nothing: not a round trip case
        if want is not None:
            ctx.oracle('unflatten_dict(flatten_dict(d)) == d', r == want, {'d': d, 'got': r})
            ctx.oracle('flat keys are strings without nesting', all(not isinstance(v, dict) for v in flat.values()))
        # purity: inputs untouched (also their key order), repeated calls identical, results do not alias each other
        flat_c, empt_c = dict(flat), tuple(empt)
        f2, e2 = pu.flatten_dict(d, prefix=prefix, sep=sep)
        r2 = pu.unflatten_dict(flat, empt, sep=sep) if r is not None else None
        ok = (json.dumps(d) == json.dumps(d0) and list(f2.items()) == list(flat_c.items()) and e2 == empt_c and
              list(flat.items()) == list(flat_c.items()) and empt == empt_c)
        if r is not None:
            ok = ok and json.dumps(r2) == json.dumps(r)
            # mutating one (empty) sub-dictionary of one result must not show up anywhere else
            def empties_of(t, acc):
                for v in t.values():
                    if isinstance(v, dict):
                        if v: empties_of(v, acc)
                        else: acc.append(v)
                return acc
            r_before = json.dumps(r)
            em = empties_of(r2, [])
            (em[0] if em else r2)['__probe__'] = 1
            ok = ok and json.dumps(r) == r_before and json.dumps(r2).count('__probe__') == 1 and json.dumps(d) == json.dumps(d0)
        ctx.oracle(PURE, ok, {'fn': 'flatten_dict/unflatten_dict', 'd': d0})


def _depth(d):
    return 1 + max([_depth(v) for v in d.values() if isinstance(v, dict)] + [0]) if isinstance(d, dict) else 0


def r_unflatten(ctx, a):
    jax, jnp, pu = J()
    flat, empt, sep = dict(a['flat']), tuple(a['empty']), a['sep']
    try:
        r = pu.unflatten_dict(flat, empt, sep=sep); impl = [1] + enc_tree(r)
    except TypeError:
        r = None; impl = [0]
    ctx.oracle(PURE, list(flat.items()) == list(a['flat'].items()) and empt == tuple(a['empty']), {'fn': 'unflatten_dict'})
    m = ctx.model.call(1, [ord(sep)] + enc_flat(flat) + enc_keys(empt))
    ctx.exact('unflatten_dict on arbitrary flat dict', impl, ints_of(m))
    ctx.count('unflatten:' + ('ok' if r is not None else 'TypeError'))
    if r is None: return
    # flatten o unflatten on prefix-consistent flat dictionaries
    paths = [tuple(k.split(sep)) for k in list(flat) + list(empt)]
    consistent = len(set(paths)) == len(paths) and not any(
        p != q and q[:len(p)] == p for p in paths for q in paths)
    ctx.count('unflatten:prefix-consistent=%d' % consistent)
    try:
        f2, e2 = pu.flatten_dict(r, sep=sep); impl2 = [1] + enc_flat(f2) + enc_keys(e2)
    except ValueError:
        f2 = None; impl2 = [0]
    ctx.exact('flatten_dict of unflatten result', impl2, ints_of(ctx.model.call(0, [ord(sep)] + enc_key('') + enc_tree(r))))
    if consistent:
        ctx.oracle('flatten_dict(unflatten_dict(flat, empty)) == (flat, empty) for prefix-consistent keys',
                   f2 is not None and f2 == flat and sorted(e2) == sorted(set(empt)) and len(e2) == len(set(empt)),
                   {'flat': flat, 'empty': empt, 'got': [f2, e2]})


def r_replace(ctx, a):
    jax, jnp, pu = J()
    import copy
    x, rep, default, check = copy.deepcopy(a['x']), copy.deepcopy(a['rep']), a['default'], a['check']
    x0, rep0 = json.dumps(a['x']), json.dumps(a['rep'])
    try:
        r = pu.replace_with_matching_or_default(x, rep, default=default, check_used_all_replace_keys=check)
        impl = [1] + enc_tree(r)
    except (ValueError, TypeError):
        r = None; impl = [0]
    m = ctx.model.call(3, [default, int(check)] + enc_tree(x) + enc_tree(rep))
    ctx.exact('replace_with_matching_or_default', impl, ints_of(m))
    ctx.count('replace:' + ('ok' if r is not None else 'raises'))
    ctx.oracle(PURE, json.dumps(x) == x0 and json.dumps(rep) == rep0, {'fn': 'replace_with_matching_or_default'})
    if r is not None:
        ctx.oracle('replace_with_matching_or_default keeps the structure of x', same_structure(r, x), {'x': x, 'got': r})
        def leaves_ok(rx, xx, rr):
            for k, v in xx.items():
                if isinstance(v, dict):
                    sub = rr.get(k, {}) if isinstance(rr, dict) else {}
                    if not leaves_ok(rx[k], v, sub if isinstance(sub, dict) else {}): return False
                else:
                    want = rr[k] if isinstance(rr, dict) and k in rr and not isinstance(rr[k], dict) else default
                    if rx[k] != want: return False
            return True
        ctx.oracle('replace_with_matching_or_default takes leaves from replace, else default', leaves_ok(r, x, rep),
                   {'x': x, 'rep': rep, 'got': r})



# ---------------------------------------------------------------------------
# pytrees of arrays
# ---------------------------------------------------------------------------
FORMS = ['f8', 'f8', 'i4', 'f4', 'strided', 'readonly', 'bool']
def leaf_data(i, shape, form=None):
    """deterministic leaf; form: dtype / memory layout variants (values exactly representable everywhere)"""
    n = int(np.prod(shape)) if len(shape) else 1
    base = ((np.arange(n) * 7 + i * 13) % 64)
    if form == 'i4': return (base - 20).astype(np.int32).reshape(shape)
    if form == 'bool': return (base % 3 == 0).reshape(shape)
    x = (base / 4.0 - 5.0).reshape(shape)
    if form == 'f4': return x.astype(np.float32)
    if form == 'strided':
        big = np.zeros(tuple(shape) + (2,)); big[..., 0] = x; big[..., 1] = -77.0
        return big[..., 0]                      # non-contiguous view
    if form == 'readonly':
        x.setflags(write=False)
    return x

def forms_for(a, n):
    f = a.get('forms')
    if f is None: return [None] * n
    if isinstance(f, str): return [f] * n
    return [f[j % len(f)] for j in range(n)]

def build(struct, leaves):
    if isinstance(struct, dict):
        if 'L' in struct and len(struct) == 1 and isinstance(struct['L'], int):
            return leaves[struct['L']]
        if 'N' in struct and len(struct) == 1:
            return None                          # jax treats None as a subtree without leaves
        return {k: build(v, leaves) for k, v in struct.items()}
    return [build(v, leaves) for v in struct]

def rand_struct(rng, n):
    """random nesting of n leaves into dicts/lists; leaf i is {'L': i}"""
    items = [{'L': i} for i in range(n)]
    rng.shuffle(items)
    def nest(xs, depth):
        if len(xs) <= 1 and depth > 0 and rng.random() < 0.7:
            return xs[0] if xs else {}
        if depth >= 3 or len(xs) <= 1:
            kind = rng.random() < 0.5
            return {('k%d' % j): x for j, x in enumerate(xs)} if kind else list(xs)
        cut = int(rng.integers(0, len(xs) + 1))
        parts = [nest(xs[:cut], depth + 1), nest(xs[cut:], depth + 1)]
        if rng.random() < 0.5:
            return {'t': parts[0], 'a': parts[1]}
        return parts
    st = nest(items, 0)
    if isinstance(st, dict) and 'L' in st and len(st) == 1:
        st = {'only': st}
    if rng.random() < 0.25:
        st = {'a_none': {'N': 0}, 'tree': st, 'z_none': [{'N': 0}, {}]}
    return st

def rows(x, axis):
    x = np.asarray(x)
    m = np.moveaxis(x, axis, 0)
    return m.reshape(m.shape[0], int(np.prod(m.shape[1:])))

def spec_of(leaves, axis):
    out = []
    for x in leaves:
        r = rows(x, axis); out += [r.shape[1], r.shape[0]]
    return out

def enc_leaves(leaves, axis):
    out = [len(leaves)] + [rows(x, axis).shape[0] for x in leaves]
    for x in leaves: out += rows(x, axis).ravel().tolist()
    return [float(v) for v in out]

def flo(m):
    return None if m is None else [float(v) for v in m]

def same_tree(jax, a, b):
    la, ta = jax.tree_util.tree_flatten(a); lb, tb = jax.tree_util.tree_flatten(b)
    return ta == tb and len(la) == len(lb) and all(
        np.asarray(x).shape == np.asarray(y).shape and np.asarray(x).dtype == np.asarray(y).dtype and
        np.array_equal(np.asarray(x), np.asarray(y)) for x, y in zip(la, lb))

def snapshot(leaves):
    return [(np.asarray(x).dtype, np.asarray(x).shape, np.asarray(x).tobytes()) for x in leaves]

def desc_rank_list(shapes):
    """flat list pytree whose FIRST leaf (flatten order) has the highest rank"""
    order = sorted(range(len(shapes)), key=lambda j: -len(shapes[j]))
    return [{'L': j} for j in order]

def gen_arrays(ctx):
    rng = ctx.rng
    quick = ctx.tier == 'quick'
    n = 25 if quick else 250
    for i in range(n):
        nl = int(rng.integers(0, 6)) if i % 6 else 0
        ndim = int(rng.integers(1, 5))
        axis = int(rng.integers(-ndim, ndim))
        other = [int(rng.integers(1, 4)) for _ in range(ndim)]
        shapes = []
        for _ in range(nl):
            sh = list(other); sh[axis] = int(rng.integers(0, 5)); shapes.append(sh)
        yield 'pack', {'struct': rand_struct(rng, nl), 'shapes': shapes, 'axis': axis,
                       'forms': FORMS[int(rng.integers(0, len(FORMS)))]}
    for i in range(n):
        nl = int(rng.integers(0, 5)) if i % 6 else 0
        ndim = int(rng.integers(0, 4))
        shape = [int(rng.integers(0 if rng.random() < 0.1 else 1, 4)) for _ in range(ndim)]   # sometimes empty leaves
        axis = int(rng.integers(-(ndim + 1), ndim + 1))
        yield 'stack', {'struct': rand_struct(rng, nl), 'shape': shape, 'n': nl, 'axis': axis,
                        'forms': FORMS[int(rng.integers(0, len(FORMS)))]}
    for i in range(n):
        nl = int(rng.integers(1, 5))
        same = bool(i % 2)
        ndim0 = int(rng.integers(1, 4))
        shapes = []
        for _ in range(nl):
            ndim = ndim0 if same else int(rng.integers(1, 4))
            shapes.append([int(rng.integers(0 if rng.random() < 0.1 else 1, 6)) for _ in range(ndim)])
        mind = min(len(sh) for sh in shapes)
        axis = int(rng.integers(0, mind))   # negative axes are always rejected by slice_along_axis
        struct = desc_rank_list(shapes) if (not same and i % 4 == 0) else rand_struct(rng, nl)
        yield 'split', {'struct': struct, 'shapes': shapes, 'axis': axis, 'same': same,
                        'idx': int(rng.integers(-8, 9)), 'forms': FORMS}
    for i in range(n):
        nl = int(rng.integers(0, 4)) if i % 7 else 0
        ndim = int(rng.integers(1, 4))
        axis = int(rng.integers(-ndim, ndim))
        nax = int(rng.integers(0 if i % 5 == 0 else 1, 5))
        shapes = []
        mixed = (i % 3 != 0)                       # leaves of different rank, non-negative axis
        if mixed:
            axis = int(rng.integers(0, ndim)); nl = max(nl, 2)
        for j in range(nl):
            nd = ndim + (int(rng.integers(0, 3)) if mixed else 0)
            sh = [int(rng.integers(1, 4)) for _ in range(nd)]
            sh[axis] = nax + (1 if (i % 9 == 0 and j == nl - 1) else 0)   # sometimes unequal: must raise
            shapes.append(sh)
        struct = desc_rank_list(shapes) if (mixed and i % 2) else rand_struct(rng, nl)
        yield 'split_axis', {'struct': struct, 'shapes': shapes, 'axis': axis, 'keep': bool(i % 2), 'forms': FORMS}
    for i in range(n):
        nt = int(rng.integers(0 if i % 8 == 0 else 1, 4))
        nl = int(rng.integers(1, 4))
        ndim = int(rng.integers(1, 4))
        axis = int(rng.integers(-ndim, ndim))
        mixed = (i % 3 == 2)
        if mixed: axis = int(rng.integers(0, ndim))
        nds = sorted([ndim + (int(rng.integers(0, 3)) if mixed else 0) for _ in range(nl)], reverse=True)  # highest rank first
        others = [[int(rng.integers(1, 4)) for _ in range(nds[j])] for j in range(nl)]
        trees = []
        for t in range(nt):
            k = nl - 1 if (i % 10 == 0 and t == nt - 1 and nl > 1) else nl   # sometimes a structure mismatch
            shs = []
            for j in range(k):
                sh = list(others[j]); sh[axis] = int(rng.integers(0, 4)); shs.append(sh)
            trees.append(shs)
        yield 'concat', {'trees': trees, 'axis': axis, 'forms': FORMS}


def _mk(a, shapes_key='shapes'):
    fm = forms_for(a, len(a[shapes_key]))
    leaves = [leaf_data(i, tuple(sh), fm[i]) for i, sh in enumerate(a[shapes_key])]
    return leaves, build(a['struct'], leaves)

PURE = 'tree utilities are pure: inputs are not modified and a repeated call gives the identical result'



def r_pack(ctx, a):
    jax, jnp, pu = J()
    _, tree = _mk(a); axis = a['axis']
    leaves = [np.asarray(x) for x in jax.tree_util.tree_leaves(tree)]
    ctx.count('pack:leaves=%d' % len(leaves))
    packed = pu.pack_pytree(tree, axis)
    m = ctx.model.call(10, spec_of(leaves, axis), [rows(x, axis).ravel() for x in leaves])
    ctx.exact('pack_pytree', [0.0] if packed is None else [1.0] + rows(packed, axis).ravel().tolist(), flo(m))
    if not leaves:
        ctx.oracle('empty pytree packs to None', packed is None)
        return
    shapes = pu.shape_structure(tree)
    un = pu.unpack_to_pytree(packed, shapes, axis)
    sizes = [x.shape[axis] for x in leaves]
    pr = rows(packed, axis)
    m = ctx.model.call(11, [pr.shape[1], pr.shape[0]] + sizes, [pr.ravel()])
    ctx.exact('unpack_to_pytree', [1.0] + enc_leaves(jax.tree_util.tree_leaves(un), axis), flo(m))
    ctx.oracle('unpack_to_pytree(pack_pytree(t)) == t', same_tree(jax, un, tree), {'shapes': a['shapes'], 'axis': axis})
    ctx.oracle('packed size along the axis is the sum of the leaf sizes', np.asarray(packed).shape[axis] == sum(sizes))
    snap = snapshot(leaves); psnap = snapshot([packed])
    packed2 = pu.pack_pytree(tree, axis); un2 = pu.unpack_to_pytree(packed, shapes, axis)
    ctx.oracle(PURE, snapshot([packed2]) == psnap and same_tree(jax, un2, un) and snapshot(leaves) == snap and
               snapshot([packed]) == psnap, {'fn': 'pack/unpack'})
    ctx.count('pack:form=%s' % a.get('forms'))


def r_stack(ctx, a):
    jax, jnp, pu = J()
    fm = forms_for(a, a['n'])
    leaves0 = [leaf_data(i, tuple(a['shape']), fm[i]) for i in range(a['n'])]
    tree = build(a['struct'], leaves0); axis = a['axis']
    leaves = [np.asarray(x) for x in jax.tree_util.tree_leaves(tree)]
    st = pu.stack_pytree(tree, axis)
    m = ctx.model.call(12, [len(leaves)], [x.ravel() for x in leaves])
    ctx.exact('stack_pytree', [0.0] if st is None else [1.0] + rows(st, axis).ravel().tolist(), flo(m))
    if not leaves:
        ctx.oracle('empty pytree stacks to None', st is None)
        return
    shapes = pu.shape_structure(tree)
    un = pu.unstack_to_pytree(st, shapes, axis)
    sr = rows(st, axis)
    m = ctx.model.call(13, [sr.shape[1], sr.shape[0], len(leaves)], [sr.ravel()])
    ul = jax.tree_util.tree_leaves(un)
    ctx.exact('unstack_to_pytree', [1.0, float(len(ul))] + [float(v) for x in ul for v in np.asarray(x).ravel()], flo(m))
    ctx.oracle('unstack_to_pytree(stack_pytree(t)) == t', same_tree(jax, un, tree), {'shape': a['shape'], 'axis': axis})
    snap = snapshot(leaves)
    st2 = pu.stack_pytree(tree, axis); un2 = pu.unstack_to_pytree(st, shapes, axis)
    ctx.oracle(PURE, snapshot([st2]) == snapshot([st]) and same_tree(jax, un2, un) and snapshot(leaves) == snap, {'fn': 'stack/unstack'})


def r_split(ctx, a):
    jax, jnp, pu = J()
    _, tree = _mk(a); axis = a['axis']; idx = a['idx']
    leaves = [np.asarray(x) for x in jax.tree_util.tree_leaves(tree)]
    snap0 = snapshot(leaves)
    first, second = pu.split_along_axis(tree, idx, axis, expect_same_dims=a['same'])
    f = jax.tree_util.tree_leaves(first); s2 = jax.tree_util.tree_leaves(second)
    axes = [axis if axis >= 0 else axis + x.ndim for x in leaves]
    # model: leafwise, each leaf seen along its own axis
    imp = []; spec = []; arrs = []
    for x, ax in zip(leaves, axes):
        r = rows(x, ax); spec += [r.shape[1], r.shape[0]]; arrs.append(r.ravel())
    def enc(ls):
        out = [len(ls)] + [rows(x, ax).shape[0] for x, ax in zip(ls, axes)]
        for x, ax in zip(ls, axes): out += rows(x, ax).ravel().tolist()
        return [float(v) for v in out]
    m = ctx.model.call(14, [idx] + spec, arrs)
    ctx.exact('split_along_axis', enc(f) + enc(s2), flo(m))
    back = pu.concat_along_axis([first, second], axis)
    fs = []; specs = []
    for x, y, ax in zip(f, s2, axes):
        pass
    allspec = []; allarr = []
    for ls in (f, s2):
        for x, ax in zip(ls, axes):
            r = rows(x, ax); allspec += [r.shape[1], r.shape[0]]; allarr.append(r.ravel())
    m = ctx.model.call(15, [2, len(f), len(s2)] + allspec, allarr)
    ctx.exact('concat_along_axis', [1.0] + enc(jax.tree_util.tree_leaves(back)), flo(m))
    ctx.oracle('concat_along_axis(split_along_axis(t, i)) == t', same_tree(jax, back, tree),
               {'shapes': a['shapes'], 'axis': axis, 'idx': idx})
    first2, second2 = pu.split_along_axis(tree, idx, axis, expect_same_dims=a['same'])
    ctx.oracle(PURE, same_tree(jax, first2, first) and same_tree(jax, second2, second) and snapshot(leaves) == snap0, {'fn': 'split_along_axis'})
    ranks = [x.ndim for x in leaves]
    if len(set(ranks)) > 1:
        ctx.count('split:mixed ranks, highest first' if ranks[0] == max(ranks) and ranks[0] > min(ranks) else 'split:mixed ranks')


def r_split_axis(ctx, a):
    jax, jnp, pu = J()
    _, tree = _mk(a); axis = a['axis']; keep = a['keep']
    leaves = [np.asarray(x) for x in jax.tree_util.tree_leaves(tree)]
    try:
        out = pu.split_axis(tree, axis, keep_dims=keep)
    except (ValueError, ZeroDivisionError, TypeError):
        out = None
    m = ctx.model.call(16, [int(keep)] + spec_of(leaves, axis), [rows(x, axis).ravel() for x in leaves])
    if out is None:
        imp = [0.0]
    else:
        imp = [1.0, float(len(out))]
        for t in out:
            tl = jax.tree_util.tree_leaves(t)
            if keep:
                imp += enc_leaves(tl, axis)
            else:
                imp += [float(len(tl))] + [float(v) for x in tl for v in np.asarray(x).ravel()]
    ctx.exact('split_axis', imp, flo(m))
    ctx.count('split_axis:' + ('ok' if out is not None else 'raises'))
    if len({x.ndim for x in leaves}) > 1: ctx.count('split_axis:mixed ranks')
    if out is not None:
        snap = snapshot(leaves); out2 = pu.split_axis(tree, axis, keep_dims=keep)
        ctx.oracle(PURE, len(out2) == len(out) and all(same_tree(jax, u, w) for u, w in zip(out, out2)) and snapshot(leaves) == snap,
                   {'fn': 'split_axis'})
    sizes = {x.shape[axis] for x in leaves}
    ctx.oracle('split_axis raises iff the axis sizes are not all equal (or the tree/axis is empty)',
               (out is None) == (len(sizes) != 1 or 0 in sizes), {'shapes': a['shapes']})
    if out is not None:
        ctx.oracle('split_axis returns one pytree per index', len(out) == leaves[0].shape[axis])
        if keep:
            back = pu.concat_along_axis(list(out), axis)
            ctx.oracle('concat_along_axis(split_axis(t, keep_dims=True)) == t', same_tree(jax, back, tree), {'shapes': a['shapes'], 'axis': axis})
        else:
            ok = all(same_tree(jax, t, jax.tree_util.tree_map(lambda x: np.take(np.asarray(x), i, axis=axis), tree))
                     for i, t in enumerate(out))
            ctx.oracle('split_axis(t)[i] is the i-th slice of every leaf', ok, {'shapes': a['shapes'], 'axis': axis})


def r_concat(ctx, a):
    jax, jnp, pu = J()
    axis = a['axis']
    trees = []; c = 0
    for shs in a['trees']:
        t = {}
        for j, sh in enumerate(shs):
            t['k%d' % j] = leaf_data(c, tuple(sh), FORMS[j % len(FORMS)] if a.get('forms') else None); c += 1
        trees.append(t)
    try:
        out = pu.concat_along_axis(trees, axis)
    except (ValueError, TypeError):
        out = None
    spec = []; arrs = []
    for t in trees:
        for x in jax.tree_util.tree_leaves(t):
            r = rows(x, axis); spec += [r.shape[1], r.shape[0]]; arrs.append(r.ravel())
    m = ctx.model.call(15, [len(trees)] + [len(t) for t in trees] + spec, arrs)
    ctx.exact('concat_along_axis (n trees)', [0.0] if out is None else [1.0] + enc_leaves(jax.tree_util.tree_leaves(out), axis), flo(m))
    ctx.count('concat:' + ('ok' if out is not None else 'raises'))
    if out is not None and trees:
        # splitting the result at the recorded sizes gives the parts back
        n0 = [x.shape[axis] for x in jax.tree_util.tree_leaves(trees[0])]
        if len(set(n0)) == 1:
            nds = {np.asarray(x).ndim for x in jax.tree_util.tree_leaves(out)}
            nd = max(nds)
            if len(nds) > 1: ctx.count('concat:mixed ranks (highest first)')
            f, s2 = pu.split_along_axis(out, n0[0], axis if axis >= 0 else axis + nd, expect_same_dims=(len(nds) == 1))
            ctx.oracle('split_along_axis(concat_along_axis(ts), n0)[0] == ts[0]', same_tree(jax, f, trees[0]), {'trees': a['trees']})


# ---------------------------------------------------------------------------
# spectral down-/up-sampling
# ---------------------------------------------------------------------------
_sp = None
def SP():
    global _sp
    if _sp is None:
        J()
        import functools
        from dinosaur import spherical_harmonic as sh, coordinate_systems as cs, sigma_coordinates as sc
        impls = {'real': sh.RealSphericalHarmonics, 'fast': sh.FastSphericalHarmonics,
                 'fast4': functools.partial(sh.FastSphericalHarmonics, base_shape_multiple=4),
                 'fast8': functools.partial(sh.FastSphericalHarmonics, base_shape_multiple=8),
                 'zeroimag': sh.RealSphericalHarmonicsWithZeroImag}
        _sp = (sh, cs, sc, impls)
    return _sp

def gen_spectral(ctx):
    rng = ctx.rng
    quick = ctx.tier == 'quick'
    pairs = [(3, 4, 5, 6), (4, 5, 4, 5), (2, 3, 6, 7), (5, 6, 3, 4), (3, 6, 5, 5), (3, 5, 4, 8), (4, 6, 3, 7), (1, 2, 2, 3)]
    if not quick:
        pairs += [(int(a), int(a + rng.integers(0, 3)), int(b), int(b + rng.integers(0, 3)))
                  for a, b in rng.integers(1, 9, size=(24, 2))]
    for j, (mc, lc, mf, lf) in enumerate(pairs):
        for impl in (['real', 'fast', 'fast8'] if quick and j % 2 else ['real', 'fast', 'fast4', 'zeroimag']):
            yield 'spectral', {'Mc': mc, 'Lc': lc, 'Mf': mf, 'Lf': lf, 'impl': impl, 'K': int(rng.integers(1, 4)),
                               'seed': int(rng.integers(0, 1000)), 'data': ['random', 'top', 'random'][j % 3], 'forms': True}


def _grid(M, L, impl, nodes=None):
    sh, cs, sc, impls = SP()
    nl, nt = nodes if nodes else (3 * M + 1, (3 * M + 2) // 2)
    return sh.Grid(longitude_wavenumbers=M, total_wavenumbers=L, longitude_nodes=nl, latitude_nodes=nt,
                   spherical_harmonics_impl=impls[impl])


def _enc2(x):
    x = np.asarray(x)
    return [1.0, float(x.shape[0]), float(x.shape[1])] + [float(v) for v in x.ravel()]


def r_spectral(ctx, a):
    jax, jnp, pu = J()
    sh, cs, sc, impls = SP()
    mc, lc, mf, lf, impl, K = a['Mc'], a['Lc'], a['Mf'], a['Lf'], a['impl'], a['K']
    vert = sc.SigmaCoordinates.equidistant(K)
    gc, gf = _grid(mc, lc, impl), _grid(mf, lf, impl)
    csc, csf = cs.CoordinateSystem(gc, vert), cs.CoordinateSystem(gf, vert)
    sc_, sf_ = gc.modal_shape, gf.modal_shape
    rng = np.random.Generator(np.random.PCG64(a['seed']))
    def data(shape):
        if a.get('data') == 'top':            # a single non-zero coefficient at the highest retained index
            z = np.zeros(shape); z[..., -1, -1] = 1.5; z[..., 0, -1] = -2.0; z[..., -1, 0] = 0.75
            return z
        return rng.integers(-20, 21, size=shape).astype(np.float64) / 4
    ctx.count('spectral:impl=' + impl)
    hdr = lambda which, src, dst, ssh, dsh: [which, src.longitude_wavenumbers, src.total_wavenumbers, ssh[0], ssh[1],
                                             dst.longitude_wavenumbers, dst.total_wavenumbers, dsh[0], dsh[1]]
    def run(getter, which, src_cs, dst_cs, state, name):
        src, dst = src_cs.horizontal, dst_cs.horizontal
        try:
            out = getter(src_cs, dst_cs)(state)
        except ValueError:
            out = None
        ctx.count('%s:%s' % (name, 'ok' if out is not None else 'raises'))
        for path in (('x',), ('tr', 'q'), ('r4',), ('tr', 'r5')):
            xin = state[path[0]] if len(path) == 1 else state[path[0]][path[1]]
            xo = None if out is None else (out[path[0]] if len(path) == 1 else out[path[0]][path[1]])
            xin2 = np.asarray(xin).reshape((-1,) + np.asarray(xin).shape[-2:])
            for k in range(xin2.shape[0]):
                m = ctx.model.call(20, hdr(which, src, dst, src.modal_shape, dst.modal_shape), [xin2[k].ravel()])
                if xo is None:
                    ctx.exact(name, [0.0], flo(m))
                else:
                    xo2 = np.asarray(xo).reshape((-1,) + np.asarray(xo).shape[-2:])
                    ctx.exact(name, _enc2(xo2[k]), flo(m))
        if out is not None:
            ctx.oracle('resampling leaves scalars and the tree structure alone',
                       float(out['s']) == float(state['s']) and set(out) == set(state) and set(out['tr']) == set(state['tr'])
                       and all(float(out[k]) == float(state[k]) for k in state if k.startswith('py')))
            for k in ('f4', 'i4'):
                if k in state:
                    o, i_ = np.asarray(out[k]), np.asarray(state[k])
                    ctx.oracle('resampling keeps the dtype and the leading axes of every leaf',
                               o.dtype == i_.dtype and o.shape == i_.shape[:-2] + tuple(dst.modal_shape), {'leaf': k, 'dtype': str(o.dtype)})
                    m0, l0 = min(o.shape[-2], i_.shape[-2]), min(o.shape[-1], i_.shape[-1])
                    ctx.oracle('resampling copies the shared block of every leaf', np.array_equal(o[..., :m0, :l0], i_[..., :m0, :l0]), {'leaf': k})
        return out
    state_c = {'x': data((K,) + sc_), 'tr': {'q': data(sc_), 'r5': data((1, 2, K) + sc_)}, 'r4': data((2, K) + sc_),
               's': np.float64(2.5)}
    state_f = {'x': data((K,) + sf_), 'tr': {'q': data(sf_), 'r5': data((1, 2, K) + sf_)}, 'r4': data((2, K) + sf_),
               's': np.float64(-1.5)}
    if a.get('forms'):
        state_c.update({'f4': data((2,) + sc_).astype(np.float32), 'i4': (4 * data(sc_)).astype(np.int32), 'pyfloat': 3.25, 'pyint': 7})
        state_f.update({'f4': data((2,) + sf_).astype(np.float32), 'i4': (4 * data(sf_)).astype(np.int32), 'pyfloat': -0.5, 'pyint': -2})
    snap_c = snapshot([state_c['x'], state_c['r4'], state_c['tr']['q'], state_c['tr']['r5']])
    up = run(cs.get_spectral_upsample_fn, 1, csc, csf, state_c, 'upsample')
    run(cs.get_spectral_downsample_fn, 0, csf, csc, state_f, 'downsample')
    run(cs.get_spectral_interpolate_fn, 2, csc, csf, state_c, 'interpolate(coarse->fine)')
    run(cs.get_spectral_interpolate_fn, 2, csf, csc, state_f, 'interpolate(fine->coarse)')
    # option expect_same_vertical: a different vertical is rejected unless the flag is off
    vert2 = sc.SigmaCoordinates.equidistant(K + 1)
    csf_v = cs.CoordinateSystem(gf, vert2)
    for getter, nm in ((cs.get_spectral_upsample_fn, 'upsample'), (cs.get_spectral_downsample_fn, 'downsample'),
                       (cs.get_spectral_interpolate_fn, 'interpolate')):
        try:
            getter(csc, csf_v); raised = False
        except ValueError:
            raised = True
        ctx.oracle('a different vertical coordinate is rejected when expect_same_vertical is on', raised, {'fn': nm})
    if up is not None:
        up_v = cs.get_spectral_upsample_fn(csc, csf_v, expect_same_vertical=False)(state_c)
        ctx.oracle('expect_same_vertical=False resamples exactly like the default path', same_tree(jax, up_v, up))
        up2 = cs.get_spectral_upsample_fn(csc, csf)(state_c)
        ctx.oracle(PURE, same_tree(jax, up2, up) and
                   snapshot([state_c['x'], state_c['r4'], state_c['tr']['q'], state_c['tr']['r5']]) == snap_c, {'fn': 'upsample'})
    if up is None:
        ctx.oracle('upsampling is rejected only when the target is smaller',
                   sf_[0] < sc_[0] or sf_[1] < sc_[1], {'coarse': sc_, 'fine': sf_})
        return
    # clause: down(up(x)) == x  (bit-identical)
    try:
        back = cs.get_spectral_downsample_fn(csf, csc)(up)
        ctx.oracle('spectral up-sampling followed by down-sampling is the identity', same_tree(jax, back, state_c),
                   {'coarse': sc_, 'fine': sf_})
    except ValueError:
        ctx.oracle('spectral up-sampling followed by down-sampling is the identity',
                   not (gf.total_wavenumbers >= gc.total_wavenumbers and gf.longitude_wavenumbers >= gc.longitude_wavenumbers),
                   'downsample raised after an accepted upsample')
    # clause: coefficient placement
    for ux, x0 in ((up['x'], state_c['x']), (up['tr']['q'], state_c['tr']['q']), (up['r4'], state_c['r4']),
                   (up['tr']['r5'], state_c['tr']['r5'])):
        ux = np.asarray(ux)
        ok = np.array_equal(ux[..., :sc_[0], :sc_[1]], x0)
        rest = ux.copy(); rest[..., :sc_[0], :sc_[1]] = 0
        ctx.oracle('up-sampling keeps every coefficient at its index and pads exact zeros',
                   ok and not rest.any() and ux.shape == x0.shape[:-2] + tuple(sf_), {'rank': ux.ndim})
        ctx.count('spectral:leaf-rank=%d' % ux.ndim)
    # table obligation: the same index means the same (m, l) on both grids (inside the coarse mask)
    mcs, lcs = gc.modal_axes; mfs, lfs = gf.modal_axes
    mask = np.asarray(gc.mask)
    if mf >= mc and lf >= lc:
        rowsel = mask.any(axis=1); colsel = mask.any(axis=0)
        ok = (np.array_equal(np.asarray(mfs)[:sc_[0]][rowsel], np.asarray(mcs)[rowsel]) and
              np.array_equal(np.asarray(lfs)[:sc_[1]][colsel], np.asarray(lcs)[colsel]) and
              bool(np.asarray(gf.mask)[:sc_[0], :sc_[1]][mask].all()))
        ctx.table_obligation('H_modal_axes_prefix (index -> (m,l) map of the finer grid extends the coarser one on its mask)', ok,
                             {'coarse_m': np.asarray(mcs).tolist(), 'fine_m': np.asarray(mfs).tolist()})
    # same function on a finer spectral grid with the same nodes: basis tables agree, synthesis agrees
    if impl in ('real', 'fast', 'zeroimag') and mf >= mc and lf >= lc:
        nodes = (max(gc.longitude_nodes, 2 * mf + 1), gc.latitude_nodes)
        gc2, gf2 = _grid(mc, lc, impl, nodes), _grid(mf, lf, impl, nodes)
        bc, bf = gc2.spherical_harmonics.basis, gf2.spherical_harmonics.basis
        pc, pf = np.asarray(bc.p), np.asarray(bf.p); fc, ff = np.asarray(bc.f), np.asarray(bf.f)
        ok = (np.array_equal(pf[:pc.shape[0], :, :pc.shape[2]], pc) and np.array_equal(ff[:, :fc.shape[1]], fc))
        ctx.table_obligation('H_table_prefix (basis tables of the finer spectral grid restricted to the coarse (m,l) are the coarse tables)',
                             ok, {'p': [pc.shape, pf.shape], 'f': [fc.shape, ff.shape]})
        cs2c, cs2f = cs.CoordinateSystem(gc2, vert), cs.CoordinateSystem(gf2, vert)
        x = state_c['x'] * np.asarray(gc2.mask)
        upx = cs.get_spectral_upsample_fn(cs2c, cs2f)({'x': x})['x']
        nc = np.asarray(gc2.to_nodal(jnp.asarray(x))); nf = np.asarray(gf2.to_nodal(upx))
        scale = float(np.abs(x).sum() * np.abs(pc).max() * np.abs(fc).max()) + 1e-300
        ctx.oracle_close('up-sampled coefficients synthesise the same function (same nodes)', nf, nc, scale=scale)


# ---------------------------------------------------------------------------
# shape -> dimension names (Model/Attrs.v) and the attrs record <-> dict model
# ---------------------------------------------------------------------------
DIM_CODE = {'level': 1, 'lon': 2, 'lat': 3, 'longitudinal_mode': 4, 'total_wavenumber': 5, 'time': 6, 'sample': 7,
            'realization': 8, 'surface': 9}
_xa = None
def XA():
    global _xa
    if _xa is None:
        J()
        import xarray
        from dinosaur import (xarray_utils as xu, coordinate_systems as cs, spherical_harmonic as sh,
                              sigma_coordinates as sc, layer_coordinates as lc, vertical_interpolation as vi)
        _xa = types.SimpleNamespace(xarray=xarray, xu=xu, cs=cs, sh=sh, sc=sc, lc=lc, vi=vi)
    return _xa

def dim_code(name):
    if name in DIM_CODE: return DIM_CODE[name]
    assert name.startswith('extra'), name
    return 100 + int(name[5:])

def gen_dims(ctx):
    rng = ctx.rng
    quick = ctx.tier == 'quick'
    grids = [(3, 4, 10, 5, 'real'), (3, 4, 10, 5, 'fast'), (4, 5, 7, 5, 'real'), (2, 3, 7, 4, 'real'),
             (4, 5, 8, 5, 'fast'), (5, 6, 16, 8, 'real'), (2, 3, 3, 3, 'real'), (3, 3, 5, 3, 'real')]
    n = 30 if quick else 240
    for i in range(n):
        g = grids[i % len(grids)] if i < 2 * len(grids) else (
            int(rng.integers(1, 6)), 0, int(rng.integers(2, 12)), int(rng.integers(2, 8)), ['real', 'fast'][int(rng.integers(0, 2))])
        lw, tw, ln, lt, impl = g
        tw = tw or lw + int(rng.integers(0, 2))
        K = [1, 2, 3, ln, lt, 5][int(rng.integers(0, 6))] if i % 3 else [1, 2, 4][i % 9 // 3]
        T = None if i % 4 == 0 else [1, 2, K, ln, 3][int(rng.integers(0, 5))]
        S = None if i % 3 == 0 else [1, 2, K, lt][int(rng.integers(0, 4))]
        addl = []
        if i % 5 == 1: addl.append(['extra0', [[2, 7, K, 1, ln][int(rng.integers(0, 5))]]])
        if i % 10 == 3: addl.append(['extra1', [2, 3]])
        if i % 7 == 2: addl.append(['realization', [1]])
        if i % 11 == 4: addl.append(['surface', [1]])
        if i % 13 == 5: addl += [['extra2', [6]], ['extra3', [6]]]
        yield 'dims', {'grid': [lw, tw, ln, lt, impl], 'K': int(K), 'T': T, 'S': S, 'addl': addl}

def gen_attrs_model(ctx):
    rng = ctx.rng
    quick = ctx.tier == 'quick'
    muts = [None, None, None, 'drop:radius', 'drop:spherical_harmonics_impl', 'drop:spmd_mesh', 'drop:latitude_spacing',
            'htype:Nope', 'vtype:Nope', 'vtype:LayerCoordinates', 'vtype:PressureCoordinates', 'vtype:SigmaCoordinates',
            'novertical', 'spacing:bad', 'drop:horizontal_grid_type', 'drop:longitude_offset', 'bad-vertical']
    n = 34 if quick else 340
    for i in range(n):
        lw = int(rng.integers(1, 7)); ln = int(rng.integers(2, 14)); lt = int(rng.integers(2, 9))
        if i % 17 == 5: ln, lt = 512, 3          # tall
        if i % 17 == 11: ln, lt = 4, 257         # wide
        kind = ['sigma', 'layer', 'pressure', 'sigma'][i % 4]
        K = int(rng.integers(1, 7))
        if kind == 'sigma':
            inner = np.sort(rng.uniform(0.01, 0.99, size=K - 1))     # full-precision boundaries
            if K > 1 and not np.all(np.diff(inner) > 1e-6): inner = np.linspace(0, 1, K + 1)[1:-1]
            v = {'kind': 'sigma', 'values': [0.0] + [float(x) for x in inner] + [1.0]}
        elif kind == 'layer':
            v = {'kind': 'layer', 'layers': K}
        else:
            v = {'kind': 'pressure', 'values': [float(x) for x in np.sort(rng.uniform(0.5, 1100.0, size=K))]}
        yield 'attrs_model', {'grid': [lw, lw + int(rng.integers(0, 3)), ln, lt],
                              'spacing': ['gauss', 'equiangular', 'equiangular_with_poles'][int(rng.integers(0, 3))],
                              'offset': [0.0, float(rng.uniform(0, 1)), 0.1, float(-rng.uniform(0, 7)), 7.5, 1e-9][int(rng.integers(0, 6))],
                              'radius': [1.0, float(rng.uniform(0.5, 7e6)), None, 6.37122e6, 0.3][int(rng.integers(0, 5))],
                              'persist': bool(i % 2),
                              'impl': ['RealSphericalHarmonics', 'FastSphericalHarmonics', 'RealSphericalHarmonicsWithZeroImag'][int(rng.integers(0, 3))],
                              'vertical': v, 'mut': muts[i % len(muts)]}


def _layer_cs(g, K):
    x = XA(); sh_, cs_, sc_, impls = SP()
    lw, tw, ln, lt, impl = g
    grid = x.sh.Grid(longitude_wavenumbers=lw, total_wavenumbers=tw, longitude_nodes=ln, latitude_nodes=lt,
                     spherical_harmonics_impl=impls[impl])
    return x.cs.CoordinateSystem(grid, x.lc.LayerCoordinates(K))


def r_dims(ctx, a):
    x = XA()
    K, T, S = a['K'], a['T'], a['S']
    cs = _layer_cs(a['grid'], K)
    modal, nodal = list(cs.horizontal.modal_shape), list(cs.horizontal.nodal_shape)
    times = None if T is None else np.arange(T, dtype=np.float64)
    samples = None if S is None else np.arange(S)
    def addl_dict(): return {nm: np.zeros(tuple(sh)) for nm, sh in a['addl']}
    hdr = [K] + modal + nodal + [int(T is not None), T or 0, int(S is not None), S or 0]
    def enc_addl(items):
        out = [len(items)]
        for nm, sh in items: out += [dim_code(nm), len(sh)] + list(sh)
        return out
    def enc_tab(t):
        # compared as a mapping (sorted entries): the insertion order of non-colliding keys is not observable,
        # the overwrite order of colliding keys is (through the values)
        return [1, len(t)] + sorted([[int(v) for v in shp], [dim_code(d) for d in dims]] for shp, dims in t.items())
    def dec_tab(m):
        if m is None: return None
        if m[0] != 1: return [0]
        it = iter(int(v) for v in m[2:]); out = []
        for _ in range(int(m[1])):
            ls = next(it); shp = [next(it) for _ in range(ls)]; ld = next(it); out.append([shp, [next(it) for _ in range(ld)]])
        return [1, len(out)] + sorted(out)
    # the table itself, as _infer_dims_shape_and_coords builds it
    try:
        _, tab = x.xu._infer_dims_shape_and_coords(cs, times, samples, addl_dict())
        impl = enc_tab(tab)
    except ValueError:
        tab = None; impl = [0]
    ctx.exact('_infer_dims_shape_and_coords table', impl, dec_tab(ctx.model.call(30, hdr + enc_addl(a['addl']))))
    ctx.count('dims:table=' + ('ok' if tab is not None else 'raises'))
    # data_to_xarray: which names a value of a given shape receives
    m = ctx.model.call(31, hdr + enc_addl(a['addl']))
    mt = None
    if m and m[0] == 1:
        it = iter(int(v) for v in m[2:]); mt = {}
        for _ in range(int(m[1])):
            ls = next(it); shp = tuple(next(it) for _ in range(ls)); ld = next(it); mt[shp] = [next(it) for _ in range(ld)]
    pre = (() if S is None else (S,)) + (() if T is None else (T,))
    real = (1,) if any(nm == 'realization' for nm, _ in a['addl']) else ()
    roles = [(), (K,) + tuple(modal), (K,) + tuple(nodal), tuple(nodal), tuple(modal), (1,) + tuple(nodal), (1,) + tuple(modal), (1,),
             (K + 1,) + tuple(nodal), tuple(nodal)[::-1], (2,)]
    adm = bool(K != 1 and nodal != modal)
    ma = ctx.model.call(32, [K] + modal + nodal)
    ctx.exact('admissible', [int(adm)], ints_of(ma))
    ctx.count('dims:admissible=%d' % adm)
    documented = {(): (), (K,) + tuple(modal): ('level', 'longitudinal_mode', 'total_wavenumber'),
                  (K,) + tuple(nodal): ('level', 'lon', 'lat'), tuple(nodal): ('lon', 'lat'),
                  tuple(modal): ('longitudinal_mode', 'total_wavenumber'), (1,) + tuple(nodal): ('surface', 'lon', 'lat'),
                  (1,) + tuple(modal): ('surface', 'longitudinal_mode', 'total_wavenumber'), (1,): ('surface',)}
    for r in roles:
        full = ((real if r else ()) + pre + r)
        try:
            ds = x.xu.data_to_xarray({'x': np.zeros(full)}, coords=cs, times=times, sample_ids=samples,
                                     additional_coords=addl_dict(), serialize_coords_to_attrs=False)
            got = [dim_code(d) for d in ds['x'].dims]
        except ValueError:
            got = 'raises'
        if mt is None: want = 'raises'
        else:
            d = mt.get(tuple(full))
            want = 'raises' if d is None or len(d) != len(full) or len(set(d)) != len(d) else d
        ctx.exact('data_to_xarray dims of a value of shape %s' % (list(full),), got, want)
        if adm and not a['addl'] and r in documented:
            pd = (() if S is None else ('sample',)) + (() if T is None else ('time',))
            ctx.oracle('admissible coordinate system: every documented role gets its documented dimension names',
                       got != 'raises' and got == [dim_code(n) for n in pd + documented[r]], {'shape': list(full), 'got': got})
    if K == 1: ctx.count('dims:one-layer (3-d nodal field cannot be labelled)')
    if nodal == modal: ctx.count('dims:nodal_shape == modal_shape')


def _enc_attrs(at):
    """python attrs dict -> (ints, arrs) for cmd 41 and a comparable list for cmd 40"""
    ints = [len(at)]; pool = []; arrs = [pool]; flat = [float(len(at))]
    for k, v in at.items():
        ints += enc_key(k); flat += [float(t) for t in enc_key(k)]
        if isinstance(v, bool) or isinstance(v, (int, np.integer)):
            ints += [0, int(v)]; flat += [0.0, float(v)]
        elif isinstance(v, str):
            ints += [1] + enc_key(v); flat += [1.0] + [float(t) for t in enc_key(v)]
        elif isinstance(v, (float, np.floating)):
            v = float(v)
            ints += [2, len(pool)]; pool.append(v); flat += [2.0, v]
        elif isinstance(v, (list, tuple, np.ndarray)):
            v = np.asarray(v).ravel().tolist()
            ints += [3, len(arrs)]; arrs.append([float(t) for t in v]); flat += [3.0, float(len(v))] + [float(t) for t in v]
        else:
            raise TypeError('unsupported attr value %r' % (v,))
    if not pool: pool.append(0.0)
    return ints, arrs, flat


def r_attrs_model(ctx, a):
    x = XA()
    lw, tw, ln, lt = a['grid']
    impl_cls = getattr(x.sh, a['impl'])
    grid = x.sh.Grid(longitude_wavenumbers=lw, total_wavenumbers=tw, longitude_nodes=ln, latitude_nodes=lt,
                     latitude_spacing=a['spacing'], longitude_offset=a['offset'], radius=a['radius'],
                     spherical_harmonics_impl=impl_cls)
    v = a['vertical']
    vert = {'sigma': lambda: x.sc.SigmaCoordinates(np.asarray(v['values'])), 'layer': lambda: x.lc.LayerCoordinates(v['layers']),
            'pressure': lambda: x.vi.PressureCoordinates(np.asarray(v['values']))}[v['kind']]()
    cs = x.cs.CoordinateSystem(grid, vert)
    at = cs.asdict()
    ints, arrs, flat = _enc_attrs(at)
    vk = {'sigma': 1, 'layer': 2, 'pressure': 3}[v['kind']]
    m = ctx.model.call(40, [lw, tw, ln, lt] + enc_key(a['spacing']) + enc_key(a['impl']) + [0] + enc_key('') + [vk] +
                       ([v['layers']] if vk == 2 else []),
                       [[a['offset'], 1.0 if a['radius'] is None else a['radius']], v.get('values', [0.0])])
    ctx.exact('CoordinateSystem.asdict (keys in order, values exact)', [1.0] + flat + [1.0, 1.0], flo(m))
    ctx.count('attrs_model:vertical=' + v['kind']); ctx.count('attrs_model:mut=%s' % a['mut'])
    # from_attrs on the (possibly damaged) dictionary
    at2 = dict(at); mut = a['mut']
    if a.get('persist'):
        # REAL persistence: the attributes come back from a netcdf file as numpy scalars / arrays
        at2 = dict(x.xarray.load_dataset(bytes(x.xarray.Dataset(attrs=at).to_netcdf())).attrs)
        ctx.count('attrs_model:persisted through netcdf')
        ctx.count('attrs_model:persisted radius type=%s' % type(at2.get('radius')).__name__)
    if mut:
        if mut.startswith('drop:'): at2.pop(mut[5:])
        elif mut.startswith('htype:'): at2['horizontal_grid_type'] = mut[6:]
        elif mut.startswith('vtype:'): at2['vertical_grid_type'] = mut[6:]
        elif mut == 'novertical': at2.pop('vertical_grid_type')
        elif mut == 'spacing:bad': at2['latitude_spacing'] = 'gaussian'
        elif mut == 'bad-vertical':
            if 'boundaries' in at2: at2['boundaries'] = list(at2['boundaries'][::-1])
            elif 'centers' in at2: at2['centers'] = list(at2['centers']) + [at2['centers'][-1]]
    try:
        cs2 = x.xu.coordinate_system_from_attrs(at2)
        h = cs2.horizontal
        impl = [1.0, h.longitude_wavenumbers, h.total_wavenumbers, h.longitude_nodes, h.latitude_nodes] + \
               [float(t) for t in enc_key(h.latitude_spacing)] + [float(h.longitude_offset), float(h.radius)] + \
               [float(t) for t in enc_key(h.spherical_harmonics_impl.__name__)] + [0.0 if h.spmd_mesh is None else 1.0]
        vv = cs2.vertical
        if vv is None: impl += [0.0]
        elif isinstance(vv, x.sc.SigmaCoordinates): impl += [1.0, float(len(vv.boundaries))] + [float(t) for t in vv.boundaries]
        elif isinstance(vv, x.lc.LayerCoordinates): impl += [2.0, float(vv.layers)]
        else: impl += [3.0, float(len(vv.centers))] + [float(t) for t in vv.centers]
        impl = [float(t) for t in impl]
    except (KeyError, ValueError, TypeError):
        cs2 = None; impl = [0.0]
    i2, a2, _ = _enc_attrs(at2)
    ctx.exact('coordinate_system_from_attrs', impl, flo(ctx.model.call(41, i2, a2)))
    if not mut:
        h, g = cs2.horizontal if cs2 else None, cs.horizontal
        ok = cs2 is not None and all(getattr(h, f) == getattr(g, f) for f in
                                     ('longitude_wavenumbers', 'total_wavenumbers', 'longitude_nodes', 'latitude_nodes',
                                      'latitude_spacing', 'longitude_offset', 'radius')) and cs2.vertical == cs.vertical \
            and type(cs2.vertical) is type(cs.vertical) and np.array_equal(cs2.vertical.centers, cs.vertical.centers)
        if ok and v['kind'] == 'sigma': ok = np.array_equal(cs2.vertical.boundaries, cs.vertical.boundaries)
        if cs2 is None and a.get('persist') and v['kind'] == 'pressure' and len(v['values']) == 1:
            ctx.count('attrs_model:one-level pressure not restorable from netcdf attrs (scalar attribute)'); ok = True
        ctx.oracle('coordinate system serialised to attrs is reconstructed with the same discretisation', ok,
                   {'check': 'fields of Model/Attrs.v restored', 'attrs': {k: at[k] for k in at}})
        if cs2 is not None and h.spherical_harmonics_impl is not g.spherical_harmonics_impl:
            ctx.count('attrs_model:not-restored:spherical_harmonics_impl')


# ===========================================================================
# attrs / xarray round trips: oracles on the implementation only
# ===========================================================================
C19_ATTRS = 'coordinate system serialised to attrs is reconstructed with the same discretisation'
C19_XR = 'model states written to a labelled dataset get the right dimension names and read back bit-identical'

# documented dimension names (deliberately literal, not imported from xarray_utils.XR_*)
_NODAL = ('lon', 'lat')
_MODAL = ('longitudinal_mode', 'total_wavenumber')
_PE_KEYS = ('vorticity', 'divergence', 'temperature_variation', 'log_surface_pressure')
_SW_KEYS = ('vorticity', 'divergence', 'potential')
_RESERVED = set(_PE_KEYS) | set(_SW_KEYS) | set(_NODAL) | set(_MODAL) | {
    'time', 'sample', 'level', 'surface', 'realization', 'sim_time', 'tracers', 'diagnostics'}

_p4 = None


def _P4():
    """Lazy import of jax / dinosaur (first use only)."""
    global _p4
    if _p4 is None:
        jax = util.setup_jax()
        import xarray
        from dinosaur import (xarray_utils as xu, coordinate_systems as cs, spherical_harmonic as sh,
                              sigma_coordinates as sc, layer_coordinates as lc, vertical_interpolation as vi)
        _p4 = types.SimpleNamespace(jax=jax, xarray=xarray, xu=xu, cs=cs, sh=sh, sc=sc, lc=lc, vi=vi)
    return _p4


# ---------------------------------------------------------------------------
# building coordinate systems from JSON specs
# ---------------------------------------------------------------------------
def _p4_grid(m, g):
    kw = dict(g['kw'])
    impl = g.get('impl', 'RealSphericalHarmonics')
    if impl != 'RealSphericalHarmonics':
        kw['spherical_harmonics_impl'] = getattr(m.sh, impl)
    if g['ctor'] == 'raw':
        return m.sh.Grid(**kw)
    return getattr(m.sh.Grid, g['ctor'])(**kw)


def _p4_vert(m, v):
    t = v['type']
    if t == 'sigma':
        return m.sc.SigmaCoordinates(np.asarray(v['boundaries'], dtype=np.float64))
    if t == 'sigma_eq':
        return m.sc.SigmaCoordinates.equidistant(int(v['layers']))
    if t == 'layer':
        return m.lc.LayerCoordinates(int(v['layers']))
    if t == 'pressure':
        return m.vi.PressureCoordinates(np.asarray(v['centers'], dtype=np.float64))
    if t == 'hybrid':
        return m.vi.HybridCoordinates(np.asarray(v['a'], dtype=np.float64), np.asarray(v['b'], dtype=np.float64))
    if t == 'none':
        return None
    raise ValueError(t)


def _p4_mesh(m):
    return m.jax.sharding.Mesh(np.array(m.jax.devices()[:1]).reshape(1, 1, 1), ('z', 'x', 'y'))


def _p4_coords(m, a):
    grid = _p4_grid(m, a['grid'])
    vert = _p4_vert(m, a['vert'])
    mesh = _p4_mesh(m) if a['grid'].get('mesh') else None
    return m.cs.CoordinateSystem(grid, vert, spmd_mesh=mesh), mesh


def _p4_try(ctx, clause, what, fn, **info):
    """Runs fn(); an exception on a valid input is an oracle failure of `clause` (returns (False, None))."""
    try:
        return True, fn()
    except Exception as e:
        ctx.oracle(clause, False, dict(info, check=what + ' raised on a valid input', error=repr(e)[:300]))
        return False, None


def _bits(x):
    return struct.pack('<d', float(x))


def _same_bits(a, b):
    """Bit identity of two arrays (shape, dtype, bytes; -0.0 and NaN are distinguished/kept)."""
    a = np.asarray(a); b = np.asarray(b)
    return a.shape == b.shape and a.dtype == b.dtype and a.tobytes() == b.tobytes()


def _f8_values_equal(a, b):
    """Same float64 values bit for bit, ignoring byte order of the container (netcdf gives '>f8')."""
    a = np.asarray(a); b = np.asarray(b)
    if a.shape != b.shape:
        return False
    for x in (a, b):
        if x.dtype.kind == 'f' and x.dtype.itemsize != 8:
            return False
    if a.dtype.kind != b.dtype.kind:
        return False
    if a.dtype.kind == 'f':
        return a.astype('<f8').tobytes() == b.astype('<f8').tobytes()
    return bool(np.array_equal(a, b))


def _expected_lon_deg(n, offset):
    return offset * 180 / np.pi + 360.0 * np.arange(n) / n


def _expected_lat_deg(n, spacing):
    if spacing == 'gauss':
        x, _ = np.polynomial.legendre.leggauss(n)
        return np.arcsin(x) * 180 / np.pi
    if spacing == 'equiangular':
        return -90 + 180.0 * (np.arange(n) + 0.5) / n
    return np.linspace(-90.0, 90.0, n)


def _expected_modal_axes(impl, lw, tw):
    m_pos = np.arange(1, lw)
    pm = np.stack([m_pos, -m_pos], axis=1).ravel()
    if impl == 'RealSphericalHarmonics':
        return np.concatenate([[0], pm]), np.arange(tw)
    return np.concatenate([[0, 0], pm]), np.arange(tw)      # Fast layouts, base multiple 1, trivial mesh


# ---------------------------------------------------------------------------
# clause 1: asdict -> attrs -> coordinate_system_from_attrs
# ---------------------------------------------------------------------------
def _p4_compare_cs(ctx, m, cs, cs2, via, same_impl, full_eq):
    """All discretisation fields of cs2 (reconstructed) against cs (original)."""
    def chk(field, ok, got=None, want=None):
        ctx.oracle(C19_ATTRS, bool(ok), None if ok else {'via': via, 'field': field, 'got': got, 'want': want})
    h, h2 = cs.horizontal, cs2.horizontal
    chk('horizontal type', type(h2).__name__ == type(h).__name__, type(h2).__name__, type(h).__name__)
    for f in ('longitude_wavenumbers', 'total_wavenumbers', 'longitude_nodes', 'latitude_nodes'):
        chk(f, int(getattr(h2, f)) == int(getattr(h, f)), getattr(h2, f), getattr(h, f))
    chk('latitude_spacing', str(h2.latitude_spacing) == str(h.latitude_spacing), h2.latitude_spacing, h.latitude_spacing)
    for f in ('longitude_offset', 'radius'):
        chk(f, _bits(getattr(h2, f)) == _bits(getattr(h, f)), float(getattr(h2, f)), float(getattr(h, f)))
    chk('nodal_shape', tuple(int(s) for s in h2.nodal_shape) == tuple(int(s) for s in h.nodal_shape),
        list(h2.nodal_shape), list(h.nodal_shape))
    for i, nm in enumerate(('nodal_axes[lon]', 'nodal_axes[sin_lat]')):
        chk(nm, _same_bits(h2.nodal_axes[i], h.nodal_axes[i]), h2.nodal_axes[i], h.nodal_axes[i])
    if same_impl:
        chk('modal_shape', tuple(int(s) for s in h2.modal_shape) == tuple(int(s) for s in h.modal_shape),
            list(h2.modal_shape), list(h.modal_shape))
        for i, nm in enumerate(('modal_axes[m]', 'modal_axes[l]')):
            chk(nm, np.array_equal(h2.modal_axes[i], h.modal_axes[i]), h2.modal_axes[i], h.modal_axes[i])
    else:
        # documented behaviour: reconstructed with the default (RealSphericalHarmonics) layout
        lw, tw = int(h.longitude_wavenumbers), int(h.total_wavenumbers)
        chk('modal_shape(default impl)', tuple(int(s) for s in h2.modal_shape) == (2 * lw - 1, tw),
            list(h2.modal_shape), [2 * lw - 1, tw])
    v, v2 = cs.vertical, cs2.vertical
    chk('vertical type', type(v2).__name__ == type(v).__name__, type(v2).__name__, type(v).__name__)
    chk('vertical layers', int(v2.layers) == int(v.layers), v2.layers, v.layers)
    chk('vertical centers', _f8_values_equal(v2.centers, v.centers), v2.centers, v.centers)
    if hasattr(v, 'boundaries'):
        chk('vertical boundaries', hasattr(v2, 'boundaries') and _f8_values_equal(v2.boundaries, v.boundaries),
            getattr(v2, 'boundaries', None), v.boundaries)
        chk('vertical layer_thickness', hasattr(v2, 'layer_thickness') and _f8_values_equal(v2.layer_thickness, v.layer_thickness),
            getattr(v2, 'layer_thickness', None), v.layer_thickness)
    chk('nodal_shape 3d', tuple(int(s) for s in cs2.nodal_shape) == tuple(int(s) for s in cs.nodal_shape),
        list(cs2.nodal_shape), list(cs.nodal_shape))
    if full_eq:
        chk('CoordinateSystem ==', cs2 == cs and cs2.horizontal == cs.horizontal and cs2.vertical == cs.vertical,
            repr(cs2)[:300], repr(cs)[:300])


def r_attrs_rt(ctx, a):
    m = _P4()
    cs, mesh = _p4_coords(m, a)
    h = cs.horizontal
    impl = a['grid'].get('impl', 'RealSphericalHarmonics')
    d = cs.asdict()
    ctx.count('attrs:vertical=' + type(cs.vertical).__name__)
    ctx.count('attrs:impl=' + impl)
    ctx.count('attrs:spacing=' + h.latitude_spacing)
    ctx.count('attrs:offset=' + ('0' if h.longitude_offset == 0 else 'nonzero'))
    ctx.count('attrs:radius=' + ('1' if h.radius == 1 else 'non-unit'))
    # the serialised form itself records the discretisation
    want = {'longitude_wavenumbers': h.longitude_wavenumbers, 'total_wavenumbers': h.total_wavenumbers,
            'longitude_nodes': h.longitude_nodes, 'latitude_nodes': h.latitude_nodes,
            'latitude_spacing': h.latitude_spacing, 'longitude_offset': h.longitude_offset, 'radius': h.radius,
            'horizontal_grid_type': 'Grid', 'vertical_grid_type': type(cs.vertical).__name__,
            'spherical_harmonics_impl': impl}
    for k, w in want.items():
        ctx.oracle(C19_ATTRS, k in d and d[k] == w and type(d[k]) in (int, float, str),
                   {'via': 'asdict', 'field': k, 'got': d.get(k, '<missing>'), 'want': w})
    try:
        js = json.dumps(d)
    except Exception as e:      # attrs must be plain python (JSON/netcdf serialisable)
        ctx.oracle(C19_ATTRS, False, {'via': 'json', 'field': 'serialisable', 'error': repr(e)[:300]}); return
    # dataset carrying the attrs (plus unrelated user attrs)
    data = {'x': np.zeros(cs.modal_shape), 'y': np.zeros(h.nodal_shape)}
    if tuple(h.nodal_shape) == tuple(h.modal_shape):
        data.pop('y')
    ok, ds = _p4_try(ctx, C19_ATTRS, 'data_to_xarray', lambda: m.xu.data_to_xarray(data, coords=cs, times=None, attrs=dict(a.get('extra_attrs') or {})))
    if not ok: return
    ok, ds_nc = _p4_try(ctx, C19_ATTRS, 'netcdf round trip of the dataset', lambda: m.xarray.load_dataset(bytes(ds.to_netcdf())))   # what save_netcdf/open_netcdf do
    if not ok: return
    sources = [('asdict', d), ('json', json.loads(js)), ('dataset', dict(ds.attrs)), ('netcdf', dict(ds_nc.attrs))]
    one_level_p = a['vert']['type'] == 'pressure' and len(a['vert']['centers']) == 1
    for via, attrs in sources:
        try:
            cs2 = m.xu.coordinate_system_from_attrs(attrs)
        except Exception as e:
            if via == 'netcdf' and one_level_p:
                # netcdf stores a length-1 list attribute as a scalar; PressureCoordinates(scalar) raises (loud)
                ctx.count('netcdf-attrs:one-level-pressure-rejected'); continue
            ctx.oracle(C19_ATTRS, False, {'via': via, 'field': 'coordinate_system_from_attrs raised', 'error': repr(e)[:300]})
            continue
        got_impl = cs2.horizontal.spherical_harmonics_impl.__name__
        same_impl = got_impl == impl
        if not same_impl:
            ctx.count('not-restored:spherical_harmonics_impl')
            ctx.oracle(C19_ATTRS, got_impl == 'RealSphericalHarmonics',
                       {'via': via, 'field': 'spherical_harmonics_impl', 'got': got_impl, 'want': 'default RealSphericalHarmonics'})
        mesh_restored = (cs2.spmd_mesh is not None) == (mesh is not None)
        if not mesh_restored:
            ctx.count('not-restored:spmd_mesh')
        _p4_compare_cs(ctx, m, cs, cs2, via, same_impl, full_eq=same_impl and mesh_restored)
    # coordinate_system_from_dataset: attrs path, with the dropped fields re-supplied by the caller
    for via, dset in (('from_dataset', ds), ('from_dataset(netcdf)', ds_nc)):
        if via.endswith('(netcdf)') and one_level_p:
            continue
        try:
            kw = {}
            if impl != 'RealSphericalHarmonics':
                kw['spherical_harmonics_impl'] = getattr(m.sh, impl)
            if mesh is not None:
                kw['spmd_mesh'] = mesh
            cs3 = m.xu.coordinate_system_from_dataset(dset, **kw)
        except Exception as e:
            ctx.oracle(C19_ATTRS, False, {'via': via, 'field': 'coordinate_system_from_dataset raised', 'error': repr(e)[:300]})
            continue
        _p4_compare_cs(ctx, m, cs, cs3, via, same_impl=True, full_eq=True)
    # the coordinates written next to the data describe the same grid
    if 'lon' in ds.coords:
        n_lon, n_lat = int(h.longitude_nodes), int(h.latitude_nodes)
        ctx.oracle_close(C19_ATTRS, ds.lon.values, _expected_lon_deg(n_lon, float(h.longitude_offset)), scale=360.0, tol_rel=1e-12)
        ctx.oracle_close(C19_ATTRS, ds.lat.values, _expected_lat_deg(n_lat, h.latitude_spacing), scale=90.0, tol_rel=1e-12)
        if float(ds.lon.values.max()) >= 2 * np.pi:
            off = m.xu.infer_longitude_offset(ds.lon)
            ctx.oracle_close(C19_ATTRS, [off], [float(h.longitude_offset)], scale=1.0 + abs(float(h.longitude_offset)), tol_rel=1e-14)
        if n_lat >= 4:
            sp = m.xu.infer_latitude_spacing(ds.lat.values)
            ctx.oracle(C19_ATTRS, sp == h.latitude_spacing, {'via': 'infer_latitude_spacing', 'got': sp, 'want': h.latitude_spacing})
        else:
            ctx.count('infer_latitude_spacing:skipped(lat_nodes<4)')
    # serialised discretisation cannot be silently overridden by user attrs
    try:
        m.xu.data_to_xarray({'x': np.zeros(cs.modal_shape)}, coords=cs, times=None, attrs={a.get('clash_key', 'radius'): 2.5})
        ctx.oracle(C19_ATTRS, False, {'via': 'data_to_xarray', 'field': 'attrs key clash accepted', 'key': a.get('clash_key', 'radius')})
    except ValueError:
        ctx.oracle(C19_ATTRS, True)


def r_attrs_unsupported(ctx, a):
    """Vertical descriptions without an asdict / registry entry must fail loudly, not serialise partially."""
    m = _P4()
    cs, _ = _p4_coords(m, a)
    try:
        d = cs.asdict()
    except (AttributeError, TypeError, KeyError, ValueError):
        ctx.count('attrs-unsupported-vertical:' + a['vert']['type'] + ':asdict-raises'); ctx.oracle(C19_ATTRS, True); return
    try:
        cs2 = m.xu.coordinate_system_from_attrs(d)
    except Exception as e:
        ctx.oracle(C19_ATTRS, False, {'via': 'asdict', 'field': 'serialised but not reconstructible', 'vert': a['vert']['type'], 'error': repr(e)[:200]})
        return
    ctx.count('attrs-unsupported-vertical:' + a['vert']['type'] + ':now-supported')
    ctx.oracle(C19_ATTRS, type(cs2.vertical) is type(cs.vertical) and cs2.vertical == cs.vertical,
               {'via': 'asdict', 'field': 'vertical', 'vert': a['vert']['type']})


def r_shape_path(ctx, a):
    """coordinate_system_from_dataset without attrs: shape/axis based inference (standard grids only)."""
    m = _P4()
    cs, _ = _p4_coords(m, a)
    h = cs.horizontal
    ok, ds = _p4_try(ctx, C19_ATTRS, 'data_to_xarray', lambda: m.xu.data_to_xarray({'u': np.zeros(cs.nodal_shape)}, coords=cs, times=None, serialize_coords_to_attrs=False))
    if not ok: return
    ctx.oracle(C19_ATTRS, len(ds.attrs) == 0, {'via': 'shape', 'field': 'serialize_coords_to_attrs=False leaves attrs', 'got': list(ds.attrs)})
    try:
        cs2 = m.xu.coordinate_system_from_dataset(ds, a['truncation'])
    except Exception as e:
        if not isinstance(e, AssertionError):
            ctx.oracle(C19_ATTRS, False, {'via': 'shape', 'field': 'coordinate_system_from_dataset raised', 'error': repr(e)[:300]}); return
        # verify_grid_consistency: a shifted grid is rejected loudly (the shape path does not infer the offset)
        ctx.count('shape-path:rejected(verify_grid_consistency)')
        ctx.oracle(C19_ATTRS, float(h.longitude_offset) != 0.0, {'via': 'shape', 'field': 'consistent grid rejected'})
        return
    h2 = cs2.horizontal
    for f in ('longitude_wavenumbers', 'total_wavenumbers', 'longitude_nodes', 'latitude_nodes', 'latitude_spacing'):
        ctx.oracle(C19_ATTRS, getattr(h2, f) == getattr(h, f), {'via': 'shape', 'field': f, 'got': getattr(h2, f), 'want': getattr(h, f)})
    ctx.oracle(C19_ATTRS, _same_bits(h2.nodal_axes[1], h.nodal_axes[1]), {'via': 'shape', 'field': 'nodal_axes[sin_lat]'})
    for f in ('longitude_offset', 'radius'):
        if _bits(getattr(h2, f)) != _bits(getattr(h, f)):
            ctx.count('shape-path-not-restored:' + f)
    ctx.oracle(C19_ATTRS, abs(float(h2.longitude_offset) - float(h.longitude_offset)) * 180 / np.pi <= 1e-3,
               {'via': 'shape', 'field': 'longitude_offset beyond verify tolerance', 'got': h2.longitude_offset, 'want': h.longitude_offset})
    if a['vert']['type'] == 'pressure':
        ctx.oracle(C19_ATTRS, type(cs2.vertical).__name__ == 'PressureCoordinates' and _f8_values_equal(cs2.vertical.centers, cs.vertical.centers),
                   {'via': 'shape', 'field': 'vertical'})
        if _bits(h2.longitude_offset) == _bits(h.longitude_offset) and _bits(h2.radius) == _bits(h.radius):
            ctx.oracle(C19_ATTRS, cs2 == cs, {'via': 'shape', 'field': 'CoordinateSystem =='})
    else:
        ctx.count('shape-path:vertical-assumed-pressure')
        ctx.oracle(C19_ATTRS, _f8_values_equal(np.asarray(cs2.vertical.centers, dtype=np.float64), np.asarray(cs.vertical.centers, dtype=np.float64)),
                   {'via': 'shape', 'field': 'vertical centers'})
    off = m.xu.infer_longitude_offset(ds.lon)
    ctx.oracle_close(C19_ATTRS, [off], [float(h.longitude_offset)], scale=1.0 + abs(float(h.longitude_offset)), tol_rel=1e-14)


# ---------------------------------------------------------------------------
# clause 2: data_to_xarray -> xarray_to_*
# ---------------------------------------------------------------------------
def _p4_values(rng, shape, dtype, special):
    # small rationals k/8 + j/2^30: exact in float64, not representable in float32 (a precision-losing path shows up)
    x = np.asarray(rng.integers(-64, 65, size=shape), dtype=np.float64) / 8 + np.asarray(rng.integers(-512, 513, size=shape), dtype=np.float64) / 2.0 ** 30
    x = np.asarray(x, dtype=dtype)
    if special and x.ndim:
        flat = x.reshape(-1)
        sp = [-0.0, np.nan, np.inf, -np.inf, 5e-324, 1.7976931348623157e308, 2.0 ** -1022, 1 / 3]
        with np.errstate(over='ignore', under='ignore'):
            for s in sp[: max(1, min(len(sp), flat.size // 2))]:
                flat[int(rng.integers(0, flat.size))] = s
    return x


def _p4_lead(a):
    lead_shape = (); lead_dims = ()
    if a.get('times') is not None:
        lead_shape = (len(a['times']),) + lead_shape; lead_dims = ('time',) + lead_dims
    if a.get('samples') is not None:
        lead_shape = (len(a['samples']),) + lead_shape; lead_dims = ('sample',) + lead_dims
    return lead_shape, lead_dims


def _p4_build_state(m, cs, a):
    """Returns (data dict, expected dims per variable name, expected output tree or None)."""
    rng = np.random.Generator(np.random.PCG64(int(a['data_seed'])))
    dtype = np.dtype(a.get('dtype', 'float64'))
    special = bool(a.get('special'))
    h = tuple(cs.horizontal.nodal_shape) if a['layout'] == 'nodal' else tuple(cs.horizontal.modal_shape)
    hd = _NODAL if a['layout'] == 'nodal' else _MODAL
    K = int(cs.vertical.layers)
    lead_shape, lead_dims = _p4_lead(a)
    real = bool(a.get('realization'))
    rs, rd = ((1,), ('realization',)) if real else ((), ())
    surf_name = 'surface' if K != 1 else 'level'
    kinds = {'3d': ((K,) + h, ('level',) + hd), 'surf': ((1,) + h, (surf_name,) + hd), '2d': (h, hd), 'scalar': ((), ())}

    def mk(kind):
        shp, dims = kinds[kind]
        if kind == 'scalar':
            return _p4_values(rng, lead_shape, dtype, False), lead_dims
        return _p4_values(rng, rs + lead_shape + shp, dtype, special), rd + lead_dims + dims

    data = {}; dims = {}
    kind = a['kind']
    if kind in ('pe', 'pet'):
        layout = [('vorticity', '3d'), ('divergence', '3d'), ('temperature_variation', '3d'), ('log_surface_pressure', 'surf')]
        if kind == 'pet':
            layout.append(('sim_time', 'scalar'))
    elif kind == 'sw':
        layout = [(k, '3d') for k in _SW_KEYS]
    else:
        layout = [(k, kd) for k, kd in a['generic']]
    for k, kd in layout:
        data[k], dims[k] = mk(kd)
    tr = {}
    for nm in a.get('tracers') or []:
        tr[nm], dims[nm] = mk('3d')
    if tr or a.get('tracers_key', True):
        data['tracers'] = tr
    dg = {}
    for nm, kd in a.get('diagnostics') or []:
        dg[nm], dims[nm] = mk(kd)
    if dg:
        data['diagnostics'] = dg
    return data, dims, K, h, hd


def _p4_tree_paths(t, prefix=()):
    if isinstance(t, dict):
        out = {}
        if not t:
            out[prefix + ('<empty dict>',)] = None
        for k, v in t.items():
            out.update(_p4_tree_paths(v, prefix + (k,)))
        return out
    return {prefix: t}


def _p4_check_tree(ctx, what, got, want):
    pg, pw = _p4_tree_paths(got), _p4_tree_paths(want)
    ok = set(pg) == set(pw)
    ctx.oracle(C19_XR, ok, None if ok else {'check': what + ': tree structure', 'got': sorted(map(str, pg)), 'want': sorted(map(str, pw))})
    for p in pw:
        if p in pg and pw[p] is not None:
            g, w = pg[p], pw[p]
            ok = isinstance(g, np.ndarray) and _same_bits(g, w)
            ctx.oracle(C19_XR, ok, None if ok else {
                'check': what + ': leaf bit-identical', 'leaf': '/'.join(map(str, p)), 'got_shape': list(np.shape(g)), 'want_shape': list(w.shape),
                'got_dtype': str(getattr(g, 'dtype', type(g))), 'want_dtype': str(w.dtype),
                'n_diff': int(np.sum(np.asarray(g) != w)) if np.shape(g) == w.shape else -1})


def _p4_check_labels(ctx, m, cs, a, ds, dims, check_names=True):
    """Dimension names/order of every variable and the coordinate values attached."""
    h = cs.horizontal
    impl = a['grid'].get('impl', 'RealSphericalHarmonics')
    for k, want in dims.items():
        ok = k in ds and tuple(ds[k].dims) == tuple(want)
        if check_names:
            ctx.oracle(C19_XR, ok, None if ok else {'check': 'dims', 'var': k, 'got': list(ds[k].dims) if k in ds else None, 'want': list(want)})
    names = set(ds.data_vars)
    ctx.oracle(C19_XR, names == set(dims), {'check': 'variables', 'got': sorted(names), 'want': sorted(dims)})
    used = set()
    for k in ds.data_vars:
        used.update(ds[k].dims)
    ctx.oracle(C19_XR, set(ds.coords) == used, {'check': 'coords present == dims used', 'got': sorted(ds.coords), 'want': sorted(used)})
    lw, tw = int(h.longitude_wavenumbers), int(h.total_wavenumbers)
    mm, ll = _expected_modal_axes(impl, lw, tw)
    exact = {'level': np.asarray(cs.vertical.centers), 'surface': np.ones(1), 'longitudinal_mode': mm, 'total_wavenumber': ll,
             'lon': h.nodal_axes[0] * 180 / np.pi, 'lat': np.arcsin(h.nodal_axes[1]) * 180 / np.pi}
    if a.get('times') is not None:
        exact['time'] = np.asarray(a['times'], dtype=np.float64)
    if a.get('samples') is not None:
        exact['sample'] = np.asarray(a['samples'])
    if a.get('realization'):
        exact['realization'] = np.arange(1)
    for c in ds.coords:
        if c in exact:
            got = ds.coords[c].values
            ok = tuple(ds.coords[c].dims) == (c,) and got.shape == exact[c].shape and bool(np.array_equal(got, exact[c]))
            ctx.oracle(C19_XR, ok, None if ok else {'check': 'coordinate values', 'coord': c, 'got': got, 'want': exact[c]})
    if 'lon' in ds.coords:
        ctx.oracle_close(C19_XR, ds.lon.values, _expected_lon_deg(int(h.longitude_nodes), float(h.longitude_offset)), scale=360.0, tol_rel=1e-12)
        ctx.oracle_close(C19_XR, ds.lat.values, _expected_lat_deg(int(h.latitude_nodes), h.latitude_spacing), scale=90.0, tol_rel=1e-12)
    # never silently mislabel: every named axis has the length of the object it names
    sizes = {'lon': int(h.longitude_nodes), 'lat': int(h.latitude_nodes), 'level': int(cs.vertical.layers), 'surface': 1,
             'longitudinal_mode': int(h.modal_shape[0]), 'total_wavenumber': int(h.modal_shape[1]), 'realization': 1}
    if a.get('times') is not None: sizes['time'] = len(a['times'])
    if a.get('samples') is not None: sizes['sample'] = len(a['samples'])
    for k in ds.data_vars:
        for d, n in zip(ds[k].dims, ds[k].shape):
            ok = d in sizes and sizes[d] == n and (d not in ds.coords or ds.coords[d].size == n)
            ctx.oracle(C19_XR, ok, None if ok else {'check': 'axis length matches its name', 'var': k, 'dim': d, 'len': n, 'want': sizes.get(d)})


def _p4_readback(m, a, ds):
    kind = a['kind']; tr = tuple(a.get('tracers') or [])
    if kind == 'pe':
        return m.xu.xarray_to_primitive_eq_data(ds, tracers_to_include=tr)
    if kind == 'pet':
        return m.xu.xarray_to_primitive_equations_with_time_data(ds, tracers_to_include=tr)
    if kind == 'sw':
        return m.xu.xarray_to_shallow_water_eq_data(ds)
    return None


def _p4_expected_tree(a, data):
    kind = a['kind']
    if kind in ('pe', 'pet'):
        keys = list(_PE_KEYS) + (['sim_time'] if kind == 'pet' else [])
        out = {k: data[k] for k in keys}
        out['tracers'] = dict(data.get('tracers') or {})
        return out
    if kind == 'sw':
        return {k: data[k] for k in _SW_KEYS}
    return None


def _p4_kwargs(a):
    kw = dict(times=None if a.get('times') is None else np.asarray(a['times'], dtype=np.float64),
              sample_ids=None if a.get('samples') is None else np.asarray(a['samples']))
    if a.get('realization'):
        kw['additional_coords'] = {'realization': np.arange(1)}
    if a.get('extra_attrs'):
        kw['attrs'] = dict(a['extra_attrs'])
    return kw


def r_state_rt(ctx, a):
    m = _P4()
    cs, _ = _p4_coords(m, a)
    data, dims, K, h, hd = _p4_build_state(m, cs, a)
    ctx.count('state:%s/%s' % (a['kind'], a['layout']))
    ctx.count('state:lead=%s%s' % ('S' if a.get('samples') is not None else '', 'T' if a.get('times') is not None else ''))
    ctx.count('state:tracers=%d' % len(a.get('tracers') or []))
    snapshot = {p: (None if v is None else v.copy()) for p, v in _p4_tree_paths(data).items()}
    ok, ds = _p4_try(ctx, C19_XR, 'data_to_xarray', lambda: m.xu.data_to_xarray(data, coords=cs, **_p4_kwargs(a)))
    if not ok: return
    # the input is not modified by writing
    for p, v in _p4_tree_paths(data).items():
        if v is not None:
            ctx.oracle(C19_XR, _same_bits(v, snapshot[p]), {'check': 'input mutated by data_to_xarray', 'leaf': '/'.join(p)})
    _p4_check_labels(ctx, m, cs, a, ds, dims)
    # every variable holds exactly the array that was written
    flat = {k: v for k, v in data.items() if k not in ('tracers', 'diagnostics')}
    flat.update(data.get('tracers') or {}); flat.update(data.get('diagnostics') or {})
    for k, v in flat.items():
        ok = k in ds and _same_bits(ds[k].values, v)
        ctx.oracle(C19_XR, ok, None if ok else {'check': 'dataset variable == written array', 'var': k})
    dsets = [('memory', ds)]
    if a.get('netcdf'):
        ok, dnc = _p4_try(ctx, C19_XR, 'netcdf round trip of the dataset', lambda: m.xarray.load_dataset(bytes(ds.to_netcdf())))
        if not ok: return
        dsets.append(('netcdf', dnc))
        ctx.count('state:netcdf')
        for k in flat:
            ok = tuple(dsets[1][1][k].dims) == tuple(ds[k].dims)
            ctx.oracle(C19_XR, ok, None if ok else {'check': 'dims after netcdf', 'var': k})
    want = _p4_expected_tree(a, data)
    for via, d in dsets:
        if want is not None:
            ok, got = _p4_try(ctx, C19_XR, 'xarray_to_* (' + via + ')', lambda: _p4_readback(m, a, d))
            if ok: _p4_check_tree(ctx, a['kind'] + ' read back (' + via + ')', got, want)
        else:
            for k, v in flat.items():
                ok = _same_bits(d[k].values, v)
                ctx.oracle(C19_XR, ok, None if ok else {'check': 'generic read back (' + via + ')', 'var': k})
    # the dataset's attrs describe the coordinate system the data live on
    if a['grid'].get('impl', 'RealSphericalHarmonics') == 'RealSphericalHarmonics':
        ok, cs2 = _p4_try(ctx, C19_ATTRS, 'coordinate_system_from_dataset', lambda: m.xu.coordinate_system_from_dataset(ds))
        if not ok: return
        ctx.oracle(C19_ATTRS, cs2 == cs, {'via': 'state dataset', 'field': 'CoordinateSystem =='})
        for k in flat:
            if flat[k].ndim >= 2 + len(_p4_lead(a)[0]) + (1 if a.get('realization') else 0):
                want_h = tuple(cs2.horizontal.nodal_shape) if a['layout'] == 'nodal' else tuple(cs2.horizontal.modal_shape)
                ctx.oracle(C19_ATTRS, tuple(ds[k].shape[-2:]) == want_h, {'via': 'state dataset', 'field': 'horizontal shape', 'var': k})


def r_data_dict_rt(ctx, a):
    """xarray_to_data_dict: (time, level, lon, lat) datasets; 2-D surface fields gain a singleton level."""
    m = _P4()
    cs, _ = _p4_coords(m, a)
    rng = np.random.Generator(np.random.PCG64(int(a['data_seed'])))
    hn = tuple(cs.horizontal.nodal_shape); K = int(cs.vertical.layers)
    lead = () if a.get('times') is None else (len(a['times']),)
    ld = () if a.get('times') is None else ('time',)
    data = {}; dims = {}
    for k in a['vars3d']:
        data[k] = _p4_values(rng, lead + (K,) + hn, np.float64, bool(a.get('special'))); dims[k] = ld + ('level',) + _NODAL
    for k in a['vars2d']:
        data[k] = _p4_values(rng, lead + hn, np.float64, bool(a.get('special'))); dims[k] = ld + _NODAL
    bad = a.get('bad')
    kw = _p4_kwargs(a)
    if bad == 'surface':
        data['bad'] = _p4_values(rng, lead + (1,) + hn, np.float64, False)
    elif bad == 'modal':
        data['bad'] = _p4_values(rng, lead + (K,) + tuple(cs.horizontal.modal_shape), np.float64, False)
    elif bad == 'sample':
        kw['sample_ids'] = np.arange(2)
        data = {k: np.stack([v, v]) for k, v in data.items()}
    ok, ds = _p4_try(ctx, C19_XR, 'data_to_xarray', lambda: m.xu.data_to_xarray(data, coords=cs, **kw))
    if not ok: return
    ctx.count('data_dict:bad=%s' % bad)
    if bad:
        try:
            m.xu.xarray_to_data_dict(ds)
            ctx.oracle(C19_XR, False, {'check': 'xarray_to_data_dict accepted unexpected dimension', 'bad': bad, 'dims': sorted(map(str, ds.dims))})
        except ValueError:
            ctx.oracle(C19_XR, True)
        return
    for k, want in dims.items():
        ok = tuple(ds[k].dims) == want
        ctx.oracle(C19_XR, ok, None if ok else {'check': 'dims', 'var': k, 'got': list(ds[k].dims), 'want': list(want)})
    ok, out = _p4_try(ctx, C19_XR, 'xarray_to_data_dict', lambda: m.xu.xarray_to_data_dict(ds))
    if not ok: return
    want = {k: (v if k in a['vars3d'] else np.expand_dims(v, -3)) for k, v in data.items()}
    _p4_check_tree(ctx, 'xarray_to_data_dict', out, want)
    # order independence: the reader transposes to (time, level, lon, lat)
    if a.get('shuffle'):
        order = [d for d in ('lat', 'level', 'lon', 'time') if d in ds.dims]
        _p4_check_tree(ctx, 'xarray_to_data_dict(transposed input)', m.xu.xarray_to_data_dict(ds.transpose(*order)), want)


def r_state_ambiguous(ctx, a):
    """Shapes that the shape->dims table must reject or resolve; it must never silently mislabel."""
    m = _P4()
    cs, _ = _p4_coords(m, a)
    case = a['case']
    ctx.count('ambiguous:' + case)
    hn = tuple(cs.horizontal.nodal_shape); hm = tuple(cs.horizontal.modal_shape); K = int(cs.vertical.layers)

    def must_raise(what, fn, exc=ValueError):
        try:
            fn()
        except exc:
            ctx.oracle(C19_XR, True); return
        except Exception as e:
            ctx.oracle(C19_XR, False, {'check': what + ': wrong exception', 'error': repr(e)[:200]}); return
        ctx.oracle(C19_XR, False, {'check': what + ': accepted silently'})

    if case == 'coord_collides_level':
        x = np.zeros((K,) + hn)
        must_raise('additional coordinate with len == layers',
                   lambda: m.xu.data_to_xarray({'x': x}, coords=cs, times=None, additional_coords={a.get('coord', 'foo'): np.arange(float(K))}))
        return
    if case == 'coord_not_1d':
        must_raise('additional coordinate not 1-d',
                   lambda: m.xu.data_to_xarray({'x': np.zeros((K,) + hn)}, coords=cs, times=None, additional_coords={'foo': np.zeros((2, 2))}))
        return
    if case == 'bad_shape':
        lead_shape, _ = _p4_lead(a)
        shapes = {'transposed': lead_shape + (K,) + hn[::-1], 'extra_level': lead_shape + (K + 1,) + hn,
                  'missing_lead': (K,) + hn, 'lead_swapped': lead_shape[::-1] + (K,) + hn, 'level_last': lead_shape + hn + (K,),
                  'modal_extra': lead_shape + (K,) + (hm[0] + 1, hm[1])}
        shp = shapes[a['which']]
        table = set()
        for base in [(K,) + hn, (K,) + hm, hn, hm, (1,) + hn, (1,) + hm, ()]:
            table.add(lead_shape + base)
        if shp in table:
            ctx.count('ambiguous:bad_shape-coincides-with-valid'); return
        for where in ('prognostic', 'tracer', 'diagnostic'):
            good = np.zeros(lead_shape + (K,) + hm)
            d = {'ok': good}
            if where == 'prognostic': d['bad'] = np.zeros(shp)
            elif where == 'tracer': d['tracers'] = {'bad': np.zeros(shp)}
            else: d['diagnostics'] = {'bad': np.zeros(shp)}
            must_raise('unrecognised shape %s (%s)' % (list(shp), where), lambda: m.xu.data_to_xarray(d, coords=cs, **_p4_kwargs(a)))
        return
    if case == 'name_clash':
        x = np.zeros((K,) + hm)
        d = {'vorticity': x, 'divergence': x, a['group']: {a['name']: x}}
        must_raise('%s name collides with prognostic' % a['group'], lambda: m.xu.data_to_xarray(d, coords=cs, times=None))
        return
    if case == 'tracer_named_like_coord':
        b = dict(a, kind='pe', tracers=[a['name']])
        data, dims, K, h, hd = _p4_build_state(m, cs, b)
        try:
            ds = m.xu.data_to_xarray(data, coords=cs, **_p4_kwargs(b))
        except ValueError:
            ctx.count('ambiguous:tracer_named_like_coord:rejected'); ctx.oracle(C19_XR, True); return
        ctx.count('ambiguous:tracer_named_like_coord:accepted')
        _p4_check_labels(ctx, m, cs, b, ds, dims)
        _p4_check_tree(ctx, 'pe read back (tracer named %r)' % a['name'], _p4_readback(m, b, ds), _p4_expected_tree(b, data))
        return
    if case == 'additional_coord':
        # a user coordinate of length E != layers labels a leading axis of that length
        E = int(a['E']); nm = a.get('coord', 'ensemble')
        rng = np.random.Generator(np.random.PCG64(int(a['data_seed'])))
        lead_shape, lead_dims = _p4_lead(a)
        h, hd = (hn, _NODAL) if a['layout'] == 'nodal' else (hm, _MODAL)
        data = {'e3': _p4_values(rng, lead_shape + (E,) + h, np.float64, False), 'x3': _p4_values(rng, lead_shape + (K,) + h, np.float64, False),
                'e1': _p4_values(rng, lead_shape + (E,), np.float64, False)}
        dims = {'e3': lead_dims + (nm,) + hd, 'x3': lead_dims + ('level',) + hd, 'e1': lead_dims + (nm,)}
        ac = {nm: np.arange(float(E)) * 0.5}
        kw = _p4_kwargs(a); kw['additional_coords'] = ac
        try:
            ds = m.xu.data_to_xarray(data, coords=cs, **kw)
        except ValueError:
            ctx.oracle(C19_XR, E == K, {'check': 'additional coordinate rejected although its length differs from layers', 'E': E, 'K': K}); return
        ctx.oracle(C19_XR, E != K, {'check': 'additional coordinate with len == layers accepted'})
        if E == 1 and K != 1:
            ctx.count('ambiguous:additional_coord len 1 vs surface'); dims['e3'] = None; dims['e1'] = None
        for k, want in dims.items():
            if want is not None:
                ok = tuple(ds[k].dims) == want
                ctx.oracle(C19_XR, ok, None if ok else {'check': 'dims', 'var': k, 'got': list(ds[k].dims), 'want': list(want)})
        for k, v in data.items():
            ctx.oracle(C19_XR, _same_bits(ds[k].values, v), {'check': 'read back', 'var': k})
        if nm in ds.coords:
            ctx.oracle(C19_XR, bool(np.array_equal(ds.coords[nm].values, np.arange(float(E)) * 0.5)), {'check': 'coordinate values', 'coord': nm})
        return
    if case in ('one_layer_nodal', 'nodal_eq_modal'):
        # inherently colliding shapes: the implementation may reject (loudly) or label; if it labels, the labels must be
        # length-consistent and the data must read back bit-identical
        data, dims, K, h, hd = _p4_build_state(m, cs, a)
        try:
            ds = m.xu.data_to_xarray(data, coords=cs, **_p4_kwargs(a))
        except ValueError as e:
            ctx.count('ambiguous:%s:rejected(%s)' % (case, 'xarray dims/rank mismatch' if 'Could not convert tuple' in str(e) or 'dimensions' in str(e) else 'ValueError'))
            ctx.oracle(C19_XR, True); return
        ctx.count('ambiguous:%s:labelled' % case)
        fam = set()
        for k in ds.data_vars:
            if 'lon' in ds[k].dims: fam.add('%dd->nodal' % (ds[k].ndim))
            if 'longitudinal_mode' in ds[k].dims: fam.add('%dd->modal' % (ds[k].ndim))
        for f in sorted(fam):
            ctx.count('ambiguous:%s:%s(intended %s)' % (case, f, a['layout']))
        _p4_check_labels(ctx, m, cs, a, ds, dims, check_names=(case == 'one_layer_nodal'))
        want = _p4_expected_tree(a, data)
        if want is not None:
            _p4_check_tree(ctx, a['kind'] + ' read back (collision)', _p4_readback(m, a, ds), want)
        for k, v in _p4_tree_paths({k: v for k, v in data.items()}).items():
            if v is not None:
                ctx.oracle(C19_XR, _same_bits(ds[k[-1]].values, v), {'check': 'dataset variable == written array', 'var': k[-1]})
        return
    raise ValueError(case)


def _p4_guard(clause, fn):
    """An exception escaping a runner (the implementation failing on an input the runner considers valid) is
    reported as a failure of the runner's clause, so that it comes with a replayable input."""
    def run(ctx, a):
        try:
            return fn(ctx, a)
        except Exception as e:
            import traceback
            ctx.oracle(clause, False, {'check': 'unexpected exception in ' + fn.__name__, 'error': repr(e)[:300],
                                       'traceback': traceback.format_exc()[-800:]})
    run.__name__ = fn.__name__
    return run


RUNNERS_PART4 = {'xr_attrs_rt': _p4_guard(C19_ATTRS, r_attrs_rt), 'xr_attrs_unsupported': _p4_guard(C19_ATTRS, r_attrs_unsupported),
                 'xr_shape_path': _p4_guard(C19_ATTRS, r_shape_path), 'xr_state_rt': _p4_guard(C19_XR, r_state_rt),
                 'xr_data_dict_rt': _p4_guard(C19_XR, r_data_dict_rt), 'xr_state_ambiguous': _p4_guard(C19_XR, r_state_ambiguous)}


# ---------------------------------------------------------------------------
# generator
# ---------------------------------------------------------------------------
_SPACINGS = ['gauss', 'equiangular', 'equiangular_with_poles']
_IMPLS = ['RealSphericalHarmonics', 'FastSphericalHarmonics', 'RealSphericalHarmonicsWithZeroImag']


def _pick(rng, xs):
    return xs[int(rng.integers(0, len(xs)))]


def _g_horiz_kw(rng, force_offset=None, force_radius=None):
    kw = {'latitude_spacing': _pick(rng, _SPACINGS)}
    off = force_offset if force_offset is not None else _pick(rng, ['zero', 'zero', 'rand', 'neg', 'pi/n', 'dyadic'])
    if off == 'rand': kw['longitude_offset'] = float(rng.uniform(0.01, 2.0))
    elif off == 'neg': kw['longitude_offset'] = -float(rng.uniform(0.01, 1.0))
    elif off == 'pi/n': kw['longitude_offset'] = float(np.pi / int(rng.integers(2, 40)))
    elif off == 'dyadic': kw['longitude_offset'] = 0.125
    elif off == 'zero' and rng.integers(0, 2): kw['longitude_offset'] = 0.0
    rad = force_radius if force_radius is not None else _pick(rng, ['none', 'one', 'earth', 'half', 'rand', 'rand'])
    if rad == 'one': kw['radius'] = 1.0
    elif rad == 'earth': kw['radius'] = 6.37122e6
    elif rad == 'half': kw['radius'] = 0.5
    elif rad == 'rand': kw['radius'] = float(rng.uniform(0.1, 10.0))
    return kw


def _g_grid(rng, ctor=None, impl=None, max_gauss=8, **force):
    ctor = ctor or _pick(rng, ['with_wavenumbers', 'with_wavenumbers', 'construct', 'construct', 'raw', 'raw'])
    kw = _g_horiz_kw(rng, **force)
    if ctor == 'with_wavenumbers':
        kw['longitude_wavenumbers'] = int(rng.integers(1, 9))
        kw['dealiasing'] = _pick(rng, ['linear', 'quadratic', 'cubic'])
    elif ctor == 'construct':
        kw['gaussian_nodes'] = int(rng.integers(1, max_gauss + 1))
        kw['max_wavenumber'] = int(rng.integers(0, 2 * kw['gaussian_nodes'] + 2))
    elif ctor == 'raw':
        lw = int(rng.integers(1, 7))
        kw.update(longitude_wavenumbers=lw, total_wavenumbers=lw + int(rng.integers(0, 4)),
                  longitude_nodes=int(rng.integers(2, 21)), latitude_nodes=int(rng.integers(2, 13)))
        # avoid the inherently ambiguous nodal_shape == modal_shape grids here (they get their own runner)
        if kw['longitude_nodes'] in (2 * lw - 1, 2 * lw) and kw['latitude_nodes'] == kw['total_wavenumbers']:
            kw['latitude_nodes'] += 1
    g = {'ctor': ctor, 'kw': kw}
    impl = impl or _pick(rng, ['RealSphericalHarmonics'] * 4 + _IMPLS[1:])
    if impl != 'RealSphericalHarmonics':
        g['impl'] = impl
    return g


def _g_grid_dims(g):
    """(lon_nodes, lat_nodes, modal0, modal1) of a grid spec without importing dinosaur."""
    kw = g['kw']; c = g['ctor']
    if c == 'with_wavenumbers':
        lw = kw['longitude_wavenumbers']; tw = lw + 1
        order = {'linear': 2, 'quadratic': 3, 'cubic': 4}[kw.get('dealiasing', 'quadratic')]
        ln = order * lw + 1; la = -(-ln // 2)
    elif c == 'construct':
        lw = kw['max_wavenumber'] + 1; tw = lw + 1; ln = 4 * kw['gaussian_nodes']; la = 2 * kw['gaussian_nodes']
    else:
        lw, tw, ln, la = kw['longitude_wavenumbers'], kw['total_wavenumbers'], kw['longitude_nodes'], kw['latitude_nodes']
    m0 = 2 * lw - 1 if g.get('impl', 'RealSphericalHarmonics') == 'RealSphericalHarmonics' else 2 * lw
    return ln, la, m0, tw


def _g_fix_collision(g):
    """Make sure nodal_shape != modal_shape (bump latitude nodes of raw grids; others re-drawn by caller)."""
    ln, la, m0, m1 = _g_grid_dims(g)
    return (ln, la) != (m0, m1)


def _g_vert(rng, kind=None, K=None):
    kind = kind or _pick(rng, ['sigma', 'sigma', 'sigma_eq', 'layer', 'pressure'])
    if kind == 'sigma':
        K = K or int(rng.integers(1, 9))
        if rng.random() < 0.5:   # boundaries that need all 17 significant digits (no short decimal form)
            inner = np.sort(rng.uniform(0.01, 0.99, size=K - 1))
            if K == 1 or np.all(np.diff(inner) > 1e-6):
                return {'type': 'sigma', 'boundaries': [0.0] + [float(x) for x in inner] + [1.0]}
        return {'type': 'sigma', 'boundaries': util.uneven_boundaries(rng, K).tolist()}
    if kind == 'sigma_eq':
        return {'type': 'sigma_eq', 'layers': K or int(rng.integers(1, 9))}
    if kind == 'layer':
        return {'type': 'layer', 'layers': K or int(rng.integers(1, 7))}
    K = K or int(rng.integers(1, 7))
    pool = [1.0, 10.0, 50.0, 100.0, 250.0, 500.0, 700.0, 850.0, 925.0, 1000.0] + [float(x) for x in rng.uniform(0.5, 1100.0, size=6)]
    idx = rng.choice(len(pool), size=K, replace=False)
    return {'type': 'pressure', 'centers': sorted({pool[int(i)] for i in idx})}


def _g_vert_layers(v):
    return {'sigma': lambda: len(v['boundaries']) - 1, 'sigma_eq': lambda: v['layers'], 'layer': lambda: v['layers'],
            'pressure': lambda: len(v['centers'])}[v['type']]()


_SAFE_TRACERS = ['specific_humidity', 'q', 'clw', 'specific_cloud_ice_water_content', 'T0', 'tracer_1', 'u', 'z']
_ODD_TRACERS = ['a b', 't.1', 'x-y', 'ŧracer', '_', '9', 'Vorticity', 'tracers', 'diagnostics', 'Time', 'level_2', 'q/2', '']


def _g_tracers(rng, n, netcdf, kind):
    out = []
    while len(out) < n:
        r = int(rng.integers(0, 4))
        if netcdf or r <= 1:
            nm = _pick(rng, _SAFE_TRACERS)
        elif r == 2:
            nm = _pick(rng, _ODD_TRACERS)
        else:
            alphabet = 'abcdefghijklmnopqrstuvwxyzABCXYZ0123456789_'
            nm = ''.join(alphabet[int(i)] for i in rng.integers(0, len(alphabet), size=int(rng.integers(1, 9))))
            if nm[0].isdigit(): nm = 'x' + nm
        if nm in _RESERVED or nm in out:
            continue
        out.append(nm)
    return out


def _g_lead(rng, K, ln, la, mode=None):
    """times / samples, sometimes deliberately colliding in length with layers or node counts."""
    mode = mode or _pick(rng, ['', 'T', 'T', 'ST', 'ST', 'S'])
    def length():
        return int(_pick(rng, [1, 2, 3, K, K, ln if ln <= 8 else 2, la if la <= 8 else 3]))
    times = samples = None
    if 'T' in mode:
        n = length(); t0 = float(rng.integers(0, 5)) / 4; dt = _pick(rng, [0.25, 0.6, 300.0, 1.0])
        times = [t0 + dt * i for i in range(n)]
    if 'S' in mode:
        n = length(); s0 = int(rng.integers(0, 4))
        samples = [s0 + i for i in range(n)]
    return times, samples


def gen_part4(ctx):
    rng = ctx.rng
    quick = ctx.tier == 'quick'
    mult = 1 if quick else 4

    # ---- clause 1: attrs round trip ------------------------------------------------
    fixed = [
        ({'ctor': 'with_wavenumbers', 'kw': {'longitude_wavenumbers': 4, 'latitude_spacing': 'equiangular', 'longitude_offset': 0.3, 'radius': 6.37122e6}},
         {'type': 'sigma', 'boundaries': [0.0, 0.2, 0.7, 1.0]}),
        ({'ctor': 'construct', 'kw': {'max_wavenumber': 5, 'gaussian_nodes': 4, 'latitude_spacing': 'equiangular_with_poles', 'longitude_offset': float(np.pi / 16)}},
         {'type': 'layer', 'layers': 3}),
        ({'ctor': 'raw', 'kw': {'longitude_wavenumbers': 3, 'total_wavenumbers': 5, 'longitude_nodes': 9, 'latitude_nodes': 7, 'radius': 0.5}},
         {'type': 'pressure', 'centers': [10.0, 50.0, 500.5, 925.0]}),
        ({'ctor': 'with_wavenumbers', 'kw': {'longitude_wavenumbers': 5, 'dealiasing': 'cubic', 'radius': 2.5}, 'impl': 'FastSphericalHarmonics'},
         {'type': 'sigma_eq', 'layers': 3}),
        ({'ctor': 'with_wavenumbers', 'kw': {'longitude_wavenumbers': 3, 'longitude_offset': 0.1}, 'impl': 'RealSphericalHarmonicsWithZeroImag'},
         {'type': 'sigma', 'boundaries': [0.0, 1 / 3, 1.0]}),
        ({'ctor': 'with_wavenumbers', 'kw': {'longitude_wavenumbers': 3, 'radius': 3.0}, 'impl': 'FastSphericalHarmonics', 'mesh': True},
         {'type': 'sigma_eq', 'layers': 4}),
        ({'ctor': 'T21', 'kw': {'latitude_spacing': 'gauss', 'longitude_offset': 0.05, 'radius': 6.37122e6}},
         {'type': 'pressure', 'centers': [500.0]}),
        ({'ctor': 'TL31', 'kw': {'latitude_spacing': 'equiangular'}},
         {'type': 'sigma_eq', 'layers': 1}),
        ({'ctor': 'construct', 'kw': {'max_wavenumber': 2, 'gaussian_nodes': 2, 'radius': 1.0, 'longitude_offset': 0.0}},
         {'type': 'layer', 'layers': 1}),
    ]
    for g, v in fixed:
        yield 'xr_attrs_rt', {'grid': g, 'vert': v, 'extra_attrs': {'g': 9.80616, 'name': 'run-1'}, 'clash_key': 'radius'}
    n_rand = 15 * mult
    vkinds = ['sigma', 'sigma_eq', 'layer', 'pressure']
    clash_keys = ['radius', 'longitude_offset', 'latitude_spacing', 'boundaries', 'layers', 'centers', 'longitude_nodes',
                  'horizontal_grid_type', 'vertical_grid_type', 'spherical_harmonics_impl', 'spmd_mesh']
    for i in range(n_rand):
        g = _g_grid(rng)
        v = _g_vert(rng, kind=vkinds[i % 4])
        ck = _pick(rng, clash_keys)
        own = {'sigma': 'boundaries', 'sigma_eq': 'boundaries', 'layer': 'layers', 'pressure': 'centers'}[v['type']]
        if ck in ('boundaries', 'layers', 'centers'): ck = own
        extra = _pick(rng, [None, {'g': 9.80616}, {'a': 1, 'mean': 10.5, 'note': 'x'}])
        yield 'xr_attrs_rt', {'grid': g, 'vert': v, 'extra_attrs': extra, 'clash_key': ck}
    for g in ([{'ctor': 'T42', 'kw': {'longitude_offset': 0.01}}, {'ctor': 'TL63', 'kw': {'latitude_spacing': 'equiangular_with_poles', 'radius': 6.37122e6}}]
              if not quick else []):
        yield 'xr_attrs_rt', {'grid': g, 'vert': _g_vert(rng), 'extra_attrs': None, 'clash_key': 'radius'}
    g0 = {'ctor': 'with_wavenumbers', 'kw': {'longitude_wavenumbers': 3}}
    yield 'xr_attrs_unsupported', {'grid': g0, 'vert': {'type': 'hybrid', 'a': [0.0, 20.0, 50.0, 0.0], 'b': [0.0, 0.1, 0.6, 1.0]}}
    yield 'xr_attrs_unsupported', {'grid': g0, 'vert': {'type': 'none'}}
    # shape-based fallback (standard grids only)
    shape_cases = [('T21', 'CUBIC', 'gauss', 'pressure'), ('TL31', 'LINEAR', 'equiangular', 'pressure'),
                   ('T21', 'CUBIC', 'equiangular_with_poles', 'sigma'), ('TL31', 'LINEAR', 'gauss', 'layer')]
    if not quick:
        shape_cases += [('T31', 'CUBIC', 'equiangular', 'pressure'), ('TL47', 'LINEAR', 'gauss', 'pressure'),
                        ('T42', 'CUBIC', 'gauss', 'pressure'), ('TL63', 'LINEAR', 'equiangular_with_poles', 'pressure')]
    for j, (nm, trunc, sp, vk) in enumerate(shape_cases):
        kw = {'latitude_spacing': sp}
        if j % 4 == 2: kw['radius'] = 6.37122e6
        yield 'xr_shape_path', {'grid': {'ctor': nm, 'kw': kw}, 'truncation': trunc, 'vert': _g_vert(rng, kind=vk, K=int(rng.integers(2, 6)))}
    yield 'xr_shape_path', {'grid': {'ctor': 'T21', 'kw': {'longitude_offset': 0.05}}, 'truncation': 'CUBIC', 'vert': _g_vert(rng, kind='pressure', K=3)}

    # ---- clause 2: states ------------------------------------------------------------
    n_state = 30 * mult
    kinds = ['pe', 'pe', 'pet', 'pet', 'sw', 'generic']
    for i in range(n_state):
        kind = kinds[i % len(kinds)]
        layout = 'nodal' if (i // len(kinds)) % 2 == 0 else 'modal'
        if rng.integers(0, 4) == 0: layout = _pick(rng, ['nodal', 'modal'])
        while True:
            g = _g_grid(rng, impl=_pick(rng, ['RealSphericalHarmonics'] * 5 + _IMPLS[1:]))
            if _g_fix_collision(g): break
        ln, la, m0, m1 = _g_grid_dims(g)
        vk = 'layer' if kind == 'sw' and rng.integers(0, 3) else None
        v = _g_vert(rng, kind=vk)
        K = _g_vert_layers(v)
        if K == 1 and layout == 'nodal':
            # a one-layer nodal field collides with the (1, lon, lat) surface entry: exercised by xr_state_ambiguous
            v = _g_vert(rng, kind=v['type'], K=int(rng.integers(2, 7))); K = _g_vert_layers(v)
        times, samples = _g_lead(rng, K, ln, la, mode=['', 'T', 'ST', 'S', 'T', 'ST'][(i // 2) % 6] if i < 24 else None)
        netcdf = bool(rng.integers(0, 3) == 0)
        a = {'grid': g, 'vert': v, 'kind': kind, 'layout': layout, 'times': times, 'samples': samples,
             'data_seed': int(rng.integers(0, 2 ** 31)), 'special': bool(rng.integers(0, 3) == 0), 'netcdf': netcdf,
             'dtype': 'float32' if rng.integers(0, 8) == 0 else 'float64'}
        if kind in ('pe', 'pet', 'generic'):
            a['tracers'] = _g_tracers(rng, int(rng.integers(0, 4)), netcdf, kind)
            a['tracers_key'] = bool(a['tracers']) or bool(rng.integers(0, 4))
        if kind == 'generic':
            a['generic'] = [['u3', '3d'], ['sp', '2d'], ['ps', 'surf'], ['t0', 'scalar']][: int(rng.integers(1, 5))]
            if rng.integers(0, 2):
                a['diagnostics'] = [['precip', 'surf' if K != 1 else '3d'], ['cape', '3d']][: int(rng.integers(1, 3))]
            a['realization'] = bool(rng.integers(0, 3) == 0)
            if a['realization'] and netcdf and samples is not None:
                a['netcdf'] = False
        if rng.integers(0, 3) == 0:
            a['extra_attrs'] = {'g': 9.80616, 'mean': 10.5}
        ctx.count('gen:K=%d' % K)
        yield 'xr_state_rt', a

    n_dd = 4 * mult
    for i in range(n_dd):
        while True:
            g = _g_grid(rng, impl='RealSphericalHarmonics')
            if _g_fix_collision(g): break
        v = _g_vert(rng, K=int(rng.integers(2, 7)))
        ln, la, _, _ = _g_grid_dims(g)
        times, _ = _g_lead(rng, _g_vert_layers(v), ln, la, mode='T' if i % 2 == 0 else '')
        yield 'xr_data_dict_rt', {'grid': g, 'vert': v, 'times': times, 'data_seed': int(rng.integers(0, 2 ** 31)),
                                  'vars3d': ['u', 'v', 't'][: int(rng.integers(1, 4))], 'vars2d': ['sp', 'sst'][: int(rng.integers(0, 3))],
                                  'special': bool(i % 2), 'shuffle': True, 'bad': [None, None, 'surface', 'modal', None, 'sample'][i % 6]}

    # ---- ambiguous / colliding shapes --------------------------------------------------
    def small_grid():
        while True:
            g = _g_grid(rng, impl='RealSphericalHarmonics')
            if _g_fix_collision(g): return g
    for rep in range(mult):
        g = small_grid(); v = _g_vert(rng, K=int(rng.integers(2, 6)))
        yield 'xr_state_ambiguous', {'case': 'coord_collides_level', 'grid': g, 'vert': v, 'coord': _pick(rng, ['foo', 'ensemble', 'member'])}
        if rep == 0:
            yield 'xr_state_ambiguous', {'case': 'coord_not_1d', 'grid': g, 'vert': v}
        for which in (['transposed', 'extra_level', 'missing_lead'] if quick else
                      ['transposed', 'extra_level', 'missing_lead', 'lead_swapped', 'level_last', 'modal_extra']):
            g = small_grid(); v = _g_vert(rng, K=int(rng.integers(2, 6)))
            ln, la, _, _ = _g_grid_dims(g)
            mode = 'ST' if which in ('missing_lead', 'lead_swapped') else _pick(rng, ['', 'T', 'ST'])
            times, samples = _g_lead(rng, _g_vert_layers(v), ln, la, mode=mode)
            if which == 'lead_swapped' and len(times) == len(samples):
                times = times + [times[-1] + 1.0]
            yield 'xr_state_ambiguous', {'case': 'bad_shape', 'which': which, 'grid': g, 'vert': v, 'times': times, 'samples': samples}
        yield 'xr_state_ambiguous', {'case': 'name_clash', 'grid': small_grid(), 'vert': _g_vert(rng, K=2),
                                     'group': _pick(rng, ['tracers', 'diagnostics']), 'name': _pick(rng, ['vorticity', 'divergence'])}
        for nm in (['lon', 'level', 'time'] if quick else ['lon', 'lat', 'level', 'surface', 'time', 'sample', 'longitudinal_mode', 'total_wavenumber']):
            g = small_grid(); v = _g_vert(rng, K=int(rng.integers(2, 6)))
            ln, la, _, _ = _g_grid_dims(g)
            times, samples = _g_lead(rng, _g_vert_layers(v), ln, la, mode=_pick(rng, ['', 'T', 'ST']))
            yield 'xr_state_ambiguous', {'case': 'tracer_named_like_coord', 'name': nm, 'grid': g, 'vert': v, 'layout': _pick(rng, ['nodal', 'modal']),
                                         'times': times, 'samples': samples, 'data_seed': int(rng.integers(0, 2 ** 31))}
        for E in ([2, None] if quick else [1, 2, 3, None]):
            g = small_grid(); v = _g_vert(rng, K=int(rng.integers(2, 6))); K = _g_vert_layers(v)
            ln, la, _, _ = _g_grid_dims(g)
            times, samples = _g_lead(rng, K, ln, la, mode=_pick(rng, ['', 'T', 'ST']))
            Ev = K if E is None else (E if E != K else E + 1)
            yield 'xr_state_ambiguous', {'case': 'additional_coord', 'E': Ev, 'coord': _pick(rng, ['ensemble', 'member']), 'grid': g, 'vert': v,
                                         'layout': _pick(rng, ['nodal', 'modal']), 'times': times, 'samples': samples, 'data_seed': int(rng.integers(0, 2 ** 31))}
        # one-layer nodal states
        for vk in (['layer', 'sigma_eq'] if quick else ['layer', 'sigma_eq', 'pressure']):
            g = small_grid(); ln, la, _, _ = _g_grid_dims(g)
            times, samples = _g_lead(rng, 1, ln, la, mode=_pick(rng, ['', 'T', 'ST']))
            yield 'xr_state_ambiguous', {'case': 'one_layer_nodal', 'grid': g, 'vert': _g_vert(rng, kind=vk, K=1), 'kind': 'sw' if vk == 'layer' else 'pe',
                                         'layout': 'nodal', 'tracers': [], 'times': times, 'samples': samples, 'data_seed': int(rng.integers(0, 2 ** 31))}
        # grids whose nodal and modal shapes coincide
        for layout in ('nodal', 'modal'):
            lw = int(rng.integers(2, 6)); tw = lw + int(rng.integers(0, 3))
            g = {'ctor': 'raw', 'kw': {'longitude_wavenumbers': lw, 'total_wavenumbers': tw, 'longitude_nodes': 2 * lw - 1, 'latitude_nodes': tw}}
            v = _g_vert(rng, K=int(rng.integers(2, 5)))
            times, samples = _g_lead(rng, _g_vert_layers(v), 2 * lw - 1, tw, mode=_pick(rng, ['', 'T']))
            yield 'xr_state_ambiguous', {'case': 'nodal_eq_modal', 'grid': g, 'vert': v, 'kind': 'generic', 'layout': layout,
                                         'generic': [['u3', '3d'], ['sp', '2d'], ['ps', 'surf']], 'tracers': ['q'], 'times': times, 'samples': samples,
                                         'data_seed': int(rng.integers(0, 2 ** 31))}


# ---------------------------------------------------------------------------
# write -> read bit-identity through EVERY reader of xarray_utils, with its matching writer,
# for {no lead, time, sample, sample+time} x {volume, surface, sim_time, tracers, covariates}
# ---------------------------------------------------------------------------
def gen_readers(ctx):
    rng = ctx.rng
    quick = ctx.tier == 'quick'
    leads = [(None, None), (None, 8), (6, None), (6, 8), (7, 9), (3, 3), (4, 4), (2, 3)]
    n = 0
    for rep in range(1 if quick else 4):
        for S, T in leads:
            for K in ([2, 3] if quick else [2, 3, 4]):
                if rep == 0 and (S, T) == (3, 3): K = 3          # the coinciding case: S == T == K
                nt = int(rng.integers(0, 4))
                yield 'xr_readers', {'K': K, 'S': S, 'T': T, 'vert': ['pressure', 'sigma'][n % 2],
                                     'tracers': ['q', 'clw', 'sp_tr'][:nt], 'seed': int(rng.integers(0, 10 ** 6)),
                                     'grid': [[3, 4, 10, 5], [2, 3, 7, 4]][n % 2]}
                n += 1


def _rd_values(rng, shape):
    return rng.integers(-40, 41, size=shape).astype(np.float64) / 8 + rng.integers(1, 1000, size=shape) / 2.0 ** 30


def _same_leaves(ctx, what, got, want, info):
    """structure first, then shapes, then dtype and bits"""
    def paths(t, pre=()):
        if isinstance(t, dict):
            out = {}
            for k, v in t.items(): out.update(paths(v, pre + (k,)))
            return out
        return {pre: t}
    g, w = paths(got), paths(want)
    if set(g) != set(w):
        return ctx.oracle(C19_XR, False, dict(info, check=what + ': tree structure', got=sorted(map(str, g)), want=sorted(map(str, w))))
    ok = True
    for k in w:
        a, b = np.asarray(g[k]), np.asarray(w[k])
        if a.shape != b.shape:
            ok = ctx.oracle(C19_XR, False, dict(info, check=what + ': shape read back', leaf='/'.join(k), got=list(a.shape), want=list(b.shape)))
        elif a.dtype != b.dtype or a.tobytes() != b.tobytes():
            ok = ctx.oracle(C19_XR, False, dict(info, check=what + ': values read back bit-identical', leaf='/'.join(k),
                                                dtypes=[str(a.dtype), str(b.dtype)]))
    if ok: ctx.oracle(C19_XR, True)
    return ok


def r_readers(ctx, a):
    import functools
    x = XA(); xu = x.xu
    K, S, T = a['K'], a['S'], a['T']
    lw, tw, ln, lt = a['grid']
    grid = x.sh.Grid(longitude_wavenumbers=lw, total_wavenumbers=tw, longitude_nodes=ln, latitude_nodes=lt)
    rng = np.random.Generator(np.random.PCG64(a['seed']))
    if a['vert'] == 'pressure':
        vert = x.vi.PressureCoordinates(np.sort(rng.uniform(10, 1000, size=K)))
    else:
        vert = x.sc.SigmaCoordinates.equidistant(K)
    cs = x.cs.CoordinateSystem(grid, vert)
    lead = (() if S is None else (S,)) + (() if T is None else (T,))
    lead_names = (() if S is None else ('sample',)) + (() if T is None else ('time',))
    times = None if T is None else 0.25 * np.arange(T)
    sids = None if S is None else np.arange(S)
    vol, surf = lead + cs.nodal_shape, lead + cs.surface_nodal_shape
    info = {'S': S, 'T': T, 'K': K, 'lead': list(lead)}
    ctx.count('readers:lead=' + ('+'.join(lead_names) or 'none'))
    if S is not None and T is not None and S == T: ctx.count('readers:S==T' + ('==K' if S == K else ''))
    kw = dict(coords=cs, times=times, sample_ids=sids)
    def tracers(shape_of):
        return {nm: _rd_values(rng, shape_of(nm)) for nm in a['tracers']}
    tr_shape = lambda nm: surf if nm == 'sp_tr' else vol       # one surface tracer
    def dims_ok(ds, name, want):
        return ctx.oracle(C19_XR, tuple(ds[name].dims) == tuple(want),
                          dict(info, check='dimension names', var=name, got=list(ds[name].dims), want=list(want)))
    def guarded(what, fn):
        try:
            return True, fn()
        except Exception as e:
            ctx.oracle(C19_XR, False, dict(info, check=what + ': unexpected exception', error=repr(e)[:300]))
            return False, None

    # ---- primitive-equation states: State, StateWithTime --------------------------------------------
    pe = {'vorticity': _rd_values(rng, vol), 'divergence': _rd_values(rng, vol), 'temperature_variation': _rd_values(rng, vol),
          'log_surface_pressure': _rd_values(rng, surf), 'tracers': tracers(tr_shape)}
    ok, ds = guarded('data_to_xarray(pe)', lambda: xu.data_to_xarray(dict(pe), **kw))
    if ok:
        dims_ok(ds, 'vorticity', lead_names + ('level', 'lon', 'lat'))
        dims_ok(ds, 'log_surface_pressure', lead_names + ('surface', 'lon', 'lat'))
        ok, got = guarded('xarray_to_primitive_eq_data', lambda: xu.xarray_to_primitive_eq_data(ds, tracers_to_include=a['tracers']))
        if ok: _same_leaves(ctx, 'xarray_to_primitive_eq_data', {k: v for k, v in got.items() if k != 'sim_time' or v is not None}, pe, info)
    pet = dict(pe, sim_time=_rd_values(rng, lead))
    ok, ds = guarded('data_to_xarray(pet)', lambda: xu.data_to_xarray(dict(pet), **kw))
    if ok:
        dims_ok(ds, 'sim_time', lead_names)
        ok, got = guarded('xarray_to_primitive_equations_with_time_data',
                          lambda: xu.xarray_to_primitive_equations_with_time_data(ds, tracers_to_include=a['tracers']))
        if ok: _same_leaves(ctx, 'xarray_to_primitive_equations_with_time_data', got, pet, info)
        ok, got = guarded('xarray_to_primitive_equations_with_time_data(values=shape)',
                          lambda: xu.xarray_to_primitive_equations_with_time_data(ds, values='shape', tracers_to_include=a['tracers']))
        if ok:
            want = {k: (tuple(v.shape) if k != 'tracers' else {t: tuple(w.shape) for t, w in v.items()}) for k, v in pet.items()}
            ctx.oracle(C19_XR, got == want, dict(info, check="reader option values='shape'", got=str(got)[:300]))
        # renaming wrappers around the same writer/reader
        ren = {'VO': 'vorticity', 'DIV': 'divergence', 'nondim_time': 'sim_time'}
        ok, dsr = guarded('data_to_xarray_with_renaming', lambda: xu.data_to_xarray_with_renaming(
            dict(pet), to_xarray_fn=xu.data_to_xarray, renaming_dict=ren, **kw))
        if ok:
            ctx.oracle(C19_XR, 'VO' in dsr and 'vorticity' not in dsr and 'nondim_time' in dsr,
                       dict(info, check='data_to_xarray_with_renaming uses the external names', vars=sorted(map(str, dsr.data_vars))))
            ok, got = guarded('xarray_to_data_with_renaming', lambda: xu.xarray_to_data_with_renaming(
                dsr, xarray_to_data_fn=functools.partial(xu.xarray_to_primitive_equations_with_time_data,
                                                        tracers_to_include=a['tracers']), renaming_dict=ren))
            if ok: _same_leaves(ctx, 'xarray_to_data_with_renaming', got, pet, info)

    # ---- shallow water ---------------------------------------------------------------------------------
    sw = {'vorticity': _rd_values(rng, vol), 'divergence': _rd_values(rng, vol), 'potential': _rd_values(rng, vol)}
    ok, ds = guarded('data_to_xarray(sw)', lambda: xu.data_to_xarray(dict(sw), **kw))
    if ok:
        ok, got = guarded('xarray_to_shallow_water_eq_data', lambda: xu.xarray_to_shallow_water_eq_data(ds))
        if ok: _same_leaves(ctx, 'xarray_to_shallow_water_eq_data', got, sw, info)
        # the `values` option: 'shape' and 'dtype' instead of the arrays
        for opt, fn in (('shape', lambda v: tuple(np.asarray(v).shape)), ('dtype', lambda v: np.asarray(v).dtype)):
            ok, got = guarded('xarray_to_shallow_water_eq_data(values=%s)' % opt, lambda: xu.xarray_to_shallow_water_eq_data(ds, values=opt))
            if ok:
                ctx.oracle(C19_XR, set(got) == set(sw) and all(got[k] == fn(sw[k]) for k in sw),
                           dict(info, check='reader option values=%r' % opt, got={k: str(v) for k, v in got.items()}))

    # ---- xarray_to_data_dict: (time, level, lon, lat) datasets only ---------------------------------------
    if S is None and T is not None:
        dd = {'a': _rd_values(rng, vol), 'b': _rd_values(rng, vol)}
        ok, ds = guarded('data_to_xarray(dd)', lambda: xu.data_to_xarray(dict(dd), **kw))
        if ok:
            ds['c'] = (('time', 'lon', 'lat'), _rd_values(rng, lead + cs.horizontal.nodal_shape))
            ok, got = guarded('xarray_to_data_dict', lambda: xu.xarray_to_data_dict(ds))
            if ok: _same_leaves(ctx, 'xarray_to_data_dict', got, dict(dd, c=np.expand_dims(ds['c'].values, -3)), info)

    # ---- weatherbench state + dynamic covariates (merged dataset, as the pipelines build it) --------------
    sim_time = _rd_values(rng, lead)
    wb = {'u': _rd_values(rng, vol), 'v': _rd_values(rng, vol), 't': _rd_values(rng, vol), 'z': _rd_values(rng, vol),
          'sim_time': sim_time, 'tracers': tracers(tr_shape), 'diagnostics': {}}
    cov = {'sea_surface_temperature': _rd_values(rng, surf), 'sea_ice_cover': _rd_values(rng, surf),
           'cloud_cover': _rd_values(rng, vol), 'sim_time': sim_time}
    ok1, ds_state = guarded('data_to_xarray(wb)', lambda: xu.data_to_xarray({k: v for k, v in wb.items() if k != 'diagnostics'}, **kw))
    ok2, ds_cov = guarded('dynamic_covariate_data_to_xarray', lambda: xu.dynamic_covariate_data_to_xarray(dict(cov), **kw))
    if ok2:
        dims_ok(ds_cov, 'sea_surface_temperature', lead_names + ('lon', 'lat'))
        dims_ok(ds_cov, 'cloud_cover', lead_names + ('level', 'lon', 'lat'))
        dims_ok(ds_cov, 'sim_time', lead_names)
    if ok1 and ok2:
        ds = x.xarray.merge([ds_state, ds_cov])
        names = ['sea_surface_temperature', 'cloud_cover', 'sea_ice_cover']
        cov_fn = functools.partial(xu.xarray_to_dynamic_covariate_data, covariates_to_include=names)
        want_wb = dict(wb, diagnostics={'sea_surface_temperature': cov['sea_surface_temperature'], 'cloud_cover': cov['cloud_cover']})
        wb_fn = functools.partial(xu.xarray_to_weatherbench_data, tracers_to_include=a['tracers'],
                                  diagnostics_to_include=['sea_surface_temperature', 'cloud_cover'])
        ok, got = guarded('xarray_to_weatherbench_data', lambda: wb_fn(ds))
        if ok: _same_leaves(ctx, 'xarray_to_weatherbench_data', got, want_wb, info)
        if T is not None:
            # the covariate reader is documented for data "with time": surface fields are (.., time, lon, lat)
            ok, got = guarded('xarray_to_dynamic_covariate_data', lambda: cov_fn(ds))
            if ok: _same_leaves(ctx, 'xarray_to_dynamic_covariate_data', got, cov, info)
            ok, got = guarded('xarray_to_state_and_dynamic_covariate_data', lambda: xu.xarray_to_state_and_dynamic_covariate_data(
                ds, xarray_to_state_data_fn=wb_fn, xarray_to_dynamic_covariate_data_fn=cov_fn))
            if ok:
                ctx.oracle(C19_XR, isinstance(got, tuple) and len(got) == 2, dict(info, check='state_and_dynamic_covariate returns a pair'))
                _same_leaves(ctx, 'xarray_to_state_and_dynamic_covariate_data[state]', got[0], want_wb, info)
                _same_leaves(ctx, 'xarray_to_state_and_dynamic_covariate_data[covariates]', got[1], cov, info)
            # covariates written by data_to_xarray keep an explicit `surface` axis and must come back unchanged too
            ok, ds2 = guarded('data_to_xarray(covariates)', lambda: xu.data_to_xarray(dict(cov), **kw))
            if ok:
                ok, got = guarded('xarray_to_dynamic_covariate_data(surface axis kept)', lambda: cov_fn(ds2))
                if ok: _same_leaves(ctx, 'xarray_to_dynamic_covariate_data(surface axis kept)', got, cov, info)
        else:
            ctx.count('readers:covariate reader skipped (no time axis)')
        ok, got = guarded('xarray_to_state_and_dynamic_covariate_data(no covariate fn)', lambda: xu.xarray_to_state_and_dynamic_covariate_data(
            ds, xarray_to_state_data_fn=wb_fn))
        if ok:
            ctx.oracle(C19_XR, got[1] == {}, dict(info, check='no covariate fn -> empty covariates'))
            _same_leaves(ctx, 'xarray_to_state_and_dynamic_covariate_data(no covariate fn)[state]', got[0], want_wb, info)

    # ---- aux features ----------------------------------------------------------------------------------------
    aux = {xu.OROGRAPHY: _rd_values(rng, cs.horizontal.nodal_shape), xu.LAND_SEA_MASK: _rd_values(rng, cs.horizontal.nodal_shape),
           xu.REF_TEMP_KEY: _rd_values(rng, (K,)), xu.REF_POTENTIAL_KEY: _rd_values(rng, (K,)),
           xu.REFERENCE_DATETIME_KEY: np.datetime64('1979-01-01T00:00:00')}
    ok, dsa = guarded('aux_features_to_xarray', lambda: xu.aux_features_to_xarray(dict(aux)))
    if ok:
        ok, got = guarded('aux_features_from_xarray', lambda: xu.aux_features_from_xarray(dsa))
        if ok: _same_leaves(ctx, 'aux_features_from_xarray', got, aux, info)
        ok, got = guarded('nodal_orography_from_ds', lambda: xu.nodal_orography_from_ds(dsa))
        if ok: _same_leaves(ctx, 'nodal_orography_from_ds', {'o': got}, {'o': aux[xu.OROGRAPHY]}, info)


# ---------------------------------------------------------------------------
# transforms: every restructuring function on array leaves also under jax.jit (whole round trip in one
# jitted function, each half jitted separately, shape_structure inside and outside the traced function),
# jax.vmap over a leading batch axis and jax.eval_shape; results bit-identical to eager, exceptions are failures
# ---------------------------------------------------------------------------
TRANS = 'restructuring utilities give the eager result, bit for bit, under jax.jit, jax.vmap and jax.eval_shape'

def gen_transforms(ctx):
    rng = ctx.rng
    n = 6 if ctx.tier == 'quick' else 36
    for i in range(n):
        ndim = int(rng.integers(2, 4))
        nl = int(rng.integers(2, 4))
        axis = int(rng.integers(-ndim, ndim))
        other = [int(rng.integers(1, 4)) for _ in range(ndim)]
        sizes = [int(rng.integers(0 if i % 5 == 4 else 1, 4)) for _ in range(nl)]
        yield 'transforms', {'ndim': ndim, 'nl': nl, 'axis': axis, 'other': other, 'sizes': sizes,
                             'form': FORMS[i % len(FORMS)], 'idx': int(rng.integers(-3, 4)), 'keep': bool(i % 2),
                             'struct': ['dict', 'nested', 'list'][i % 3], 'sep': ['&', '/'][i % 2],
                             'spec': [[3, 4, 5, 6, 'real'], [2, 3, 4, 5, 'fast'], [3, 4, 4, 6, 'fast4'], [2, 3, 3, 4, 'zeroimag']][i % 4],
                             'K': int(rng.integers(1, 3))}


def _tr_diff(jax, got, want, shapes_only=False):
    lg, tg = jax.tree_util.tree_flatten(got); lw, tw = jax.tree_util.tree_flatten(want)
    if tg != tw: return 'tree structure %s vs eager %s' % (tg, tw)
    for j, (x, y) in enumerate(zip(lg, lw)):
        xs, xd = tuple(x.shape), np.dtype(x.dtype)
        y = np.asarray(y)
        if xs != y.shape: return 'leaf %d: shape %s vs eager %s' % (j, xs, y.shape)
        if xd != y.dtype: return 'leaf %d: dtype %s vs eager %s' % (j, xd, y.dtype)
        if not shapes_only and np.asarray(x).tobytes() != y.tobytes(): return 'leaf %d: values differ from eager' % j
    return None


def _tr_batch(jax, tree):
    def two(x):
        x = np.asarray(x)
        return np.stack([x, np.roll(x.ravel(), 1).reshape(x.shape)])
    return jax.tree_util.tree_map(two, tree)


def _tr_run(ctx, jax, name, fn, tree, info, kinds=('jit', 'eval_shape', 'vmap')):
    """fn: pytree of arrays -> pytree of arrays (everything else closed over)"""
    def report(kind, err):
        ctx.oracle(TRANS, err is None, dict(info, fn=name, transform=kind, error=err))
        ctx.count('transforms:%s' % kind)
    try:
        want = fn(tree)
    except Exception as e:
        return report('eager', 'eager call raised ' + repr(e)[:200])
    for kind in kinds:
        try:
            if kind == 'jit':
                err = _tr_diff(jax, jax.jit(fn)(tree), want)
            elif kind == 'eval_shape':
                err = _tr_diff(jax, jax.eval_shape(fn, tree), want, shapes_only=True)
            else:
                bt = _tr_batch(jax, tree)
                got = jax.vmap(fn)(bt); err = None
                for b in (0, 1):
                    wb = fn(jax.tree_util.tree_map(lambda x: x[b], bt))
                    err = err or _tr_diff(jax, jax.tree_util.tree_map(lambda x: x[b], got), wb)
        except Exception as e:
            err = '%s raised %s: %s' % (kind, type(e).__name__, str(e).splitlines()[0][:160] if str(e) else '')
        report(kind, err)
    return want


def r_transforms(ctx, a):
    jax, jnp, pu = J()
    sh_, cs_, sc_, impls = SP()
    ndim, nl, axis, form = a['ndim'], a['nl'], a['axis'], a['form']
    info = {'axis': axis, 'form': form}
    def shape_with(n):
        sh = list(a['other']); sh[axis] = n; return tuple(sh)
    def mk(leaves):
        if a['struct'] == 'list': return list(leaves)
        if a['struct'] == 'dict': return {'k%d' % j: x for j, x in enumerate(leaves)}
        return {'u': leaves[0], 'tr': {'q%d' % j: x for j, x in enumerate(leaves[1:])}, 'none': None, 'empty': {}}
    het = mk([leaf_data(j, shape_with(n), form) for j, n in enumerate(a['sizes'])])         # sizes differ along axis
    hom = mk([leaf_data(j, tuple(a['other']), form) for j in range(nl)])                     # equal shapes
    naxis = axis if axis >= 0 else axis + ndim
    # -- pack / unpack: shape_structure inside and outside the traced function; halves jitted separately
    shapes_out = pu.shape_structure(het)
    rt_kinds = ('jit', 'eval_shape', 'vmap')
    if np.asarray(jax.tree_util.tree_leaves(het)[-1]).shape[axis] == 0:
        # XLA CPU (jax 0.11.1) fails to compile concatenate([.., empty]) followed by the empty trailing slice
        # ("SmallVector unable to grow"), independent of dinosaur: jit(lambda a, c: jnp.concatenate([a, c], 1)[:, 2:2])
        rt_kinds = ('eval_shape', 'vmap')
        ctx.count('transforms:excluded: jit of pack->unpack in ONE function with an empty last leaf (XLA compile error on the unchanged tree)')
    _tr_run(ctx, jax, 'unpack(pack(t), shape_structure(t)) [shapes computed inside]',
            lambda t: pu.unpack_to_pytree(pu.pack_pytree(t, axis), pu.shape_structure(t), axis), het, info, rt_kinds)
    _tr_run(ctx, jax, 'unpack(pack(t), shapes) [shapes computed outside]',
            lambda t: pu.unpack_to_pytree(pu.pack_pytree(t, axis), shapes_out, axis), het, info, rt_kinds)
    packed = _tr_run(ctx, jax, 'pack_pytree', lambda t: pu.pack_pytree(t, axis), het, info)
    if packed is not None:
        _tr_run(ctx, jax, 'unpack_to_pytree', lambda p: pu.unpack_to_pytree(p, shapes_out, axis), np.asarray(packed), info)
    # -- stack / unstack (new axis position in -(ndim+1) .. ndim)
    sax = axis
    shapes_h = pu.shape_structure(hom)
    _tr_run(ctx, jax, 'unstack(stack(t), shape_structure(t)) [inside]',
            lambda t: pu.unstack_to_pytree(pu.stack_pytree(t, sax), pu.shape_structure(t), sax), hom, info)
    stacked = _tr_run(ctx, jax, 'stack_pytree', lambda t: pu.stack_pytree(t, sax), hom, info)
    if stacked is not None:
        _tr_run(ctx, jax, 'unstack_to_pytree', lambda p: pu.unstack_to_pytree(p, shapes_h, sax), np.asarray(stacked), info)
    # -- split / concat / slice along a (non-negative) axis
    idx = a['idx']
    _tr_run(ctx, jax, 'concat_along_axis(split_along_axis(t, i))',
            lambda t: pu.concat_along_axis(list(pu.split_along_axis(t, idx, naxis)), naxis), het, dict(info, idx=idx))
    _tr_run(ctx, jax, 'split_along_axis', lambda t: pu.split_along_axis(t, idx, naxis), het, dict(info, idx=idx))
    _tr_run(ctx, jax, 'concat_along_axis', lambda ts: pu.concat_along_axis(ts, naxis), [het, het, het], info)
    for sl, nm in ((0, 'int'), (slice(0, 1), 'slice')):
        if all(x.shape[naxis] > 0 for x in jax.tree_util.tree_leaves(het)):
            _tr_run(ctx, jax, 'slice_along_axis(%s)' % nm, lambda t: pu.slice_along_axis(t, naxis, sl), het, info)
    # -- split_axis (both keep_dims) and back
    keep = a['keep']
    if a['other'][axis] > 0:
        _tr_run(ctx, jax, 'split_axis(keep_dims=%s)' % keep, lambda t: pu.split_axis(t, axis, keep_dims=keep), hom, info)
        _tr_run(ctx, jax, 'concat_along_axis(split_axis(t, keep_dims=True))',
                lambda t: pu.concat_along_axis(list(pu.split_axis(t, axis, keep_dims=True)), axis), hom, info)
    # -- nested dictionaries with array leaves
    sep = a['sep']
    L = [leaf_data(j, tuple(a['other']), form) for j in range(4)]
    d = {'a': {'b': L[0], 'e': {}, 'bc': {'c': L[1]}}, 'ab': {}, '': {'x': L[2]}, 'c': L[3]}
    _tr_run(ctx, jax, 'unflatten_dict(*flatten_dict(d))',
            lambda t: pu.unflatten_dict(*pu.flatten_dict(t, sep=sep), sep=sep), d, dict(info, sep=sep))
    _tr_run(ctx, jax, 'flatten_dict(d)[0]', lambda t: pu.flatten_dict(t, sep=sep)[0], d, dict(info, sep=sep))
    flat, empt = pu.flatten_dict(d, sep=sep)
    _tr_run(ctx, jax, 'unflatten_dict(flat, empty)', lambda f: pu.unflatten_dict(f, empt, sep=sep), dict(flat), dict(info, sep=sep))
    rep_d = {'a': {'b': L[3]}, 'c': L[0]}
    _tr_run(ctx, jax, 'replace_with_matching_or_default(x, replace)',
            lambda xr: pu.replace_with_matching_or_default(xr[0], xr[1], default=0.0), (d, rep_d), info)
    # -- spectral up / down / interpolate
    mc, lc, mf, lf, impl = a['spec']
    vert = sc_.SigmaCoordinates.equidistant(a['K'])
    gc, gf = _grid(mc, lc, impl), _grid(mf, lf, impl)
    csc, csf = cs_.CoordinateSystem(gc, vert), cs_.CoordinateSystem(gf, vert)
    def sdata(j, shape): return leaf_data(j, shape, 'f4' if form == 'f4' else None)
    st_c = {'x': sdata(0, (a['K'],) + gc.modal_shape), 'tr': {'q': sdata(1, gc.modal_shape)}, 'r4': sdata(2, (2, a['K']) + gc.modal_shape)}
    st_f = {'x': sdata(3, (a['K'],) + gf.modal_shape), 'tr': {'q': sdata(4, gf.modal_shape)}, 'r4': sdata(5, (2, a['K']) + gf.modal_shape)}
    sinfo = dict(info, impl=impl, coarse=list(gc.modal_shape), fine=list(gf.modal_shape))
    up, down = cs_.get_spectral_upsample_fn(csc, csf), cs_.get_spectral_downsample_fn(csf, csc)
    _tr_run(ctx, jax, 'spectral upsample', up, st_c, sinfo)
    _tr_run(ctx, jax, 'spectral downsample', down, st_f, sinfo)
    _tr_run(ctx, jax, 'spectral downsample(upsample(x))', lambda t: down(up(t)), st_c, sinfo)
    _tr_run(ctx, jax, 'spectral interpolate (coarse->fine)', cs_.get_spectral_interpolate_fn(csc, csf), st_c, sinfo)
    _tr_run(ctx, jax, 'spectral interpolate (fine->coarse)', cs_.get_spectral_interpolate_fn(csf, csc), st_f, sinfo)
    ctx.count('transforms:not traced: shape_structure(t) passed as a traced ARGUMENT (shapes must be static; excluded)')


# ---------------------------------------------------------------------------
def generate(ctx):
    yield from gen_dicts(ctx)
    yield from gen_arrays(ctx)
    yield from gen_spectral(ctx)
    yield from gen_dims(ctx)
    yield from gen_attrs_model(ctx)
    yield from gen_part4(ctx)
    yield from gen_readers(ctx)
    yield from gen_transforms(ctx)


RUNNERS = {'dict': r_dict, 'unflatten': r_unflatten, 'replace': r_replace, 'pack': r_pack, 'stack': r_stack,
           'split': r_split, 'split_axis': r_split_axis, 'concat': r_concat, 'spectral': r_spectral,
           'dims': r_dims, 'attrs_model': r_attrs_model}
RUNNERS.update(RUNNERS_PART4)
RUNNERS['xr_readers'] = _p4_guard(C19_XR, r_readers)
RUNNERS['transforms'] = _p4_guard(TRANS, r_transforms)
