"""C19 - persistence and restructuring round trips: correspondence of
Model/Trees.v with dinosaur.pytree_utils / coordinate_systems (spectral
down/up-sampling) and the property's clauses evaluated on the implementation
(nested dictionaries, pytree packing, spectral resampling, attrs/xarray)."""
import json
import numpy as np
from fractions import Fraction
from harness import util

THEOREMS = ['C19_unflatten_flatten', 'C19_unflatten_flatten_paths', 'C19_dict_eq_is_pathwise',
            'C19_unpack_pack', 'C19_unstack_stack', 'C19_concat_split', 'C19_empty_pytree',
            'C19_down_up_identity', 'C19_upsample_coef', 'C19_hyps_satisfiable']
LEVEL = 'proof'
LEVEL_TEXT = ('machine-checked theorems (Coq) for every nested dictionary (any depth/width, any key names without the '
              'separator incl. the empty string, any number of empty sub-dictionaries): flatten_dict accepts and '
              'unflatten_dict returns a dictionary == to the input; unpack/pack, unstack/stack, concat/split identities '
              'for all leaf sizes; spectral down(up(x)) = x and coefficient placement for all shapes; the Gallina model '
              'is executed (extraction) against the implementation on generated dictionaries / pytrees / grids; '
              'attrs and xarray round trips are checked on the implementation only (oracles)')
LEVEL_NOTE = ('theorems are about the Gallina model Model/Trees.v; the separator is a single character (multi-character '
              'separators are outside the property and not modelled); leaves of dictionaries are integers; arrays are '
              'lists of slabs along the packing axis; attrs/xarray clauses are implementation-vs-implementation oracles, '
              'not proved; "same function on the finer grid" is covered by exact coefficient placement + table '
              'obligations on the basis tables at shared nodes')

_jax = None
def J():
    global _jax
    if _jax is None:
        util.setup_jax()
        import jax, jax.numpy as jnp
        from dinosaur import pytree_utils as pu
        _jax = (jax, jnp, pu)
    return _jax


# ---------------------------------------------------------------------------
# encoding of strings / nested dictionaries as integer streams (decoded in Extract/ExC19.v)
# ---------------------------------------------------------------------------
def enc_key(k):
    return [len(k)] + [ord(c) for c in k]

def enc_tree(t):
    if isinstance(t, dict):
        out = [1, len(t)]
        for k, v in t.items():
            out += enc_key(k) + enc_tree(v)
        return out
    return [0, int(t)]

def enc_flat(flat):
    out = [len(flat)]
    for k, v in flat.items():
        out += enc_key(k) + [int(v)]
    return out

def enc_keys(keys):
    out = [len(keys)]
    for k in keys:
        out += enc_key(k)
    return out

def ints_of(m):
    return None if m is None else [int(v) for v in m]


# ---------------------------------------------------------------------------
# generators
# ---------------------------------------------------------------------------
ALPH = ['a', 'b', 'ab', 'ba', 'abc', 'c', '', 'aa', 'b c', 'A']

def rand_key(rng, sep, allow_sep=False):
    r = rng.random()
    if allow_sep and r < 0.5:
        k = ALPH[int(rng.integers(0, len(ALPH)))]
        pos = int(rng.integers(0, len(k) + 1))
        return k[:pos] + sep + k[pos:]
    if r < 0.8:
        return ALPH[int(rng.integers(0, len(ALPH)))]
    n = int(rng.integers(1, 4))
    return ''.join('abc'[int(rng.integers(0, 3))] for _ in range(n))

def rand_dict(rng, depth, sep, bad=0.0, width=4):
    """nested dict: small key alphabet (shared prefixes), 0-3 empty branches per level"""
    d = {}
    n = int(rng.integers(0 if depth < 4 else 1, width + 1))
    for _ in range(n):
        k = rand_key(rng, sep, allow_sep=(rng.random() < bad))
        r = rng.random()
        if depth > 1 and r < 0.45:
            d[k] = rand_dict(rng, depth - 1, sep, bad, width)
        else:
            d[k] = int(rng.integers(-9, 100))
    for _ in range(int(rng.integers(0, 4))):
        d[rand_key(rng, sep, allow_sep=(rng.random() < bad))] = {}
    return d

def gen_dicts(ctx):
    rng = ctx.rng
    quick = ctx.tier == 'quick'
    # corpus: historical defects and edge cases
    corpus = [
        {'ab': {}, 'ac': {}}, {'': {'a': 1}}, {'': {'a': 1}, 'a': 2}, {'': {}}, {'': 1}, {},
        {'a': {'': {'b': 1}}}, {'': {'': {'': {}}}}, {'': {'': {'': 5}}, '&': 1} , {'a': {'b': {}}, 'a b': {}},
        {'ab': {}, 'ac': {}, '': {'a': 1, '': {}}, 'a': {'b': {'c': 2, 'd': {}}, 'bc': 3}, 'b': 4},
        {'x': {'y': {'z': {'w': 1}}}, 'x y': 2}, {'a': {'a': {'a': {}}}, 'aa': {'a': {}}, 'aaa': {}},
        {'a': 1, 'b': {'a': 1}, 'c': {'b': {'a': 1}}},
    ]
    for d in corpus:
        for sep in ['&', '/']:
            yield 'dict', {'d': d, 'sep': sep, 'prefix': ''}
    yield 'dict', {'d': {'a': {'b': 1}, 'c': {}}, 'sep': '&', 'prefix': 'p'}
    yield 'dict', {'d': {'': {'b': 1}, 'c': {}}, 'sep': '&', 'prefix': 'p&q'}
    n = 60 if quick else 600
    for i in range(n):
        sep = ['&', '/', '.', ' '][int(rng.integers(0, 4))] if i % 3 == 0 else '&'
        depth = int(rng.integers(1, 5))
        d = rand_dict(rng, depth, sep)
        prefix = '' if i % 7 else ['p', '', 'p' + sep + 'q'][int(rng.integers(0, 3))]
        yield 'dict', {'d': d, 'sep': sep, 'prefix': prefix}
    # malformed stream: keys containing the separator at random depths
    for i in range(15 if quick else 120):
        sep = '&' if i % 2 else '.'
        yield 'dict', {'d': rand_dict(rng, int(rng.integers(1, 4)), sep, bad=0.25), 'sep': sep, 'prefix': ''}
    # unflatten on arbitrary (not necessarily prefix-consistent) flat dictionaries
    for i in range(40 if quick else 400):
        sep = '&' if i % 4 else '/'
        parts = ['a', 'b', '', 'ab']
        def rk():
            return sep.join(parts[int(rng.integers(0, len(parts)))] for _ in range(int(rng.integers(1, 4))))
        flat = {rk(): int(rng.integers(0, 50)) for _ in range(int(rng.integers(0, 5)))}
        empt = [rk() for _ in range(int(rng.integers(0, 4)))]
        yield 'unflatten', {'flat': flat, 'empty': empt, 'sep': sep}
    # replace_with_matching_or_default
    for i in range(30 if quick else 300):
        x = rand_dict(rng, int(rng.integers(1, 4)), '&')
        # replace: a sub-selection of x's structure with new values, sometimes an extra key
        def sub(t):
            out = {}
            for k, v in t.items():
                if rng.random() < 0.6:
                    if isinstance(v, dict) and v:
                        s = sub(v)
                        out[k] = s
                    elif isinstance(v, dict):
                        if rng.random() < 0.5: out[k] = {}
                    else:
                        out[k] = int(rng.integers(100, 200))
            return out
        rep = sub(x)
        if i % 5 == 0:
            rep['zz'] = 7
        if i % 11 == 0:
            rep['a&b'] = 7
        yield 'replace', {'x': x, 'rep': rep, 'default': -1000 if i % 2 else 0, 'check': bool(i % 3)}


# ---------------------------------------------------------------------------
# runners: nested dictionaries
# ---------------------------------------------------------------------------
def keys_have_sep(d, sep):
    return any(sep in k or (isinstance(v, dict) and keys_have_sep(v, sep)) for k, v in d.items())

def same_structure(a, b):
    """same nested key sets, dict-ness; leaves unconstrained"""
    if isinstance(a, dict) != isinstance(b, dict): return False
    if not isinstance(a, dict): return True
    return set(a) == set(b) and all(same_structure(a[k], b[k]) for k in a)

def r_dict(ctx, a):
    jax, jnp, pu = J()
    d, sep, prefix = a['d'], a['sep'], a['prefix']
    bad = keys_have_sep(d, sep)
    ctx.count('dict:' + ('malformed' if bad else 'wellformed'))
    ctx.count('dict:depth=%d' % _depth(d))
    try:
        flat, empt = pu.flatten_dict(d, prefix=prefix, sep=sep)
        impl = [1] + enc_flat(flat) + enc_keys(empt)
    except ValueError:
        flat = None; impl = [0]
    m = ctx.model.call(0, [ord(sep)] + enc_key(prefix) + enc_tree(d))
    ctx.exact('flatten_dict', impl, ints_of(m))
    if not prefix:
        wf = ctx.model.call(2, [ord(sep)] + enc_tree(d))
        ctx.exact('wf_dict = no separator in keys', [int(not bad)], [int(wf[0])] if wf else None)
        if wf and wf[0] == 1:
            ctx.exact('model round trip', [1, 1, 1, 1], ints_of(wf[1:]))
    # the property's clause on the implementation
    if not bad:
        ctx.oracle('flatten_dict accepts every nested dictionary whose keys do not contain sep', flat is not None,
                   {'d': d})
    else:
        ctx.oracle('keys containing sep are rejected', flat is None, {'d': d})
    if flat is not None:
        try:
            r = pu.unflatten_dict(flat, empt, sep=sep)
            impl_r = [1] + enc_tree(r)
        except TypeError:
            r = None; impl_r = [0]
        m = ctx.model.call(1, [ord(sep)] + enc_flat(flat) + enc_keys(empt))
        ctx.exact('unflatten_dict (incl. insertion order)', impl_r, ints_of(m))
        want = d
        if prefix:
            want = {}
            cur = want
            ps = prefix.split(sep)
            for p in ps[:-1]:
                cur[p] = {}; cur = cur[p]
            cur[ps[-1]] = d
            if not d: want = None   # empty dict under a prefix flattens to nothing: not a round trip case
        if want is not None:
            ctx.oracle('unflatten_dict(flatten_dict(d)) == d', r == want, {'d': d, 'got': r})
            ctx.oracle('flat keys are strings without nesting', all(not isinstance(v, dict) for v in flat.values()))


def _depth(d):
    return 1 + max([_depth(v) for v in d.values() if isinstance(v, dict)] + [0]) if isinstance(d, dict) else 0


def r_unflatten(ctx, a):
    jax, jnp, pu = J()
    flat, empt, sep = a['flat'], tuple(a['empty']), a['sep']
    try:
        r = pu.unflatten_dict(flat, empt, sep=sep); impl = [1] + enc_tree(r)
    except TypeError:
        r = None; impl = [0]
    m = ctx.model.call(1, [ord(sep)] + enc_flat(flat) + enc_keys(empt))
    ctx.exact('unflatten_dict on arbitrary flat dict', impl, ints_of(m))
    ctx.count('unflatten:' + ('ok' if r is not None else 'TypeError'))
    if r is None: return
    # flatten o unflatten on prefix-consistent flat dictionaries
    paths = [tuple(k.split(sep)) for k in list(flat) + list(empt)]
    consistent = len(set(paths)) == len(paths) and not any(
        p != q and q[:len(p)] == p for p in paths for q in paths)
    ctx.count('unflatten:prefix-consistent=%d' % consistent)
    try:
        f2, e2 = pu.flatten_dict(r, sep=sep); impl2 = [1] + enc_flat(f2) + enc_keys(e2)
    except ValueError:
        f2 = None; impl2 = [0]
    ctx.exact('flatten_dict of unflatten result', impl2, ints_of(ctx.model.call(0, [ord(sep)] + enc_key('') + enc_tree(r))))
    if consistent:
        ctx.oracle('flatten_dict(unflatten_dict(flat, empty)) == (flat, empty) for prefix-consistent keys',
                   f2 is not None and f2 == flat and sorted(e2) == sorted(set(empt)) and len(e2) == len(set(empt)),
                   {'flat': flat, 'empty': empt, 'got': [f2, e2]})


def r_replace(ctx, a):
    jax, jnp, pu = J()
    x, rep, default, check = a['x'], a['rep'], a['default'], a['check']
    try:
        r = pu.replace_with_matching_or_default(x, rep, default=default, check_used_all_replace_keys=check)
        impl = [1] + enc_tree(r)
    except (ValueError, TypeError):
        r = None; impl = [0]
    m = ctx.model.call(3, [default, int(check)] + enc_tree(x) + enc_tree(rep))
    ctx.exact('replace_with_matching_or_default', impl, ints_of(m))
    ctx.count('replace:' + ('ok' if r is not None else 'raises'))
    if r is not None:
        ctx.oracle('replace_with_matching_or_default keeps the structure of x', same_structure(r, x), {'x': x, 'got': r})
        def leaves_ok(rx, xx, rr):
            for k, v in xx.items():
                if isinstance(v, dict):
                    sub = rr.get(k, {}) if isinstance(rr, dict) else {}
                    if not leaves_ok(rx[k], v, sub if isinstance(sub, dict) else {}): return False
                else:
                    want = rr[k] if isinstance(rr, dict) and k in rr and not isinstance(rr[k], dict) else default
                    if rx[k] != want: return False
            return True
        ctx.oracle('replace_with_matching_or_default takes leaves from replace, else default', leaves_ok(r, x, rep),
                   {'x': x, 'rep': rep, 'got': r})


def generate(ctx):
    yield from gen_dicts(ctx)


RUNNERS = {'dict': r_dict, 'unflatten': r_unflatten, 'replace': r_replace}
