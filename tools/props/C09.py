"""C09 - the two spherical-harmonic implementations are observationally equivalent.

* table obligation `tables_related` (EXACT, bitwise): the fast f, p, w dumped from
  FastSphericalHarmonics.basis are the reference ones re-indexed by phi, with the zero
  m=-0 column and zero padding; the stacked f is the Fortran-order reshape;
* correspondence of Model/SHTFast.v (padding, _unstack_m, per-sign Legendre step,
  stacked / unstacked Fourier step, _stack_m, einsum argument order, mask, shapes,
  modal axes, default stacking rule) with the implementation under all option
  combinations (base_shape_multiple 1/4, stacked_fourier_transforms on/off,
  reverse_einsum_arg_order on/off - the latter through the sharded-einsum path on a
  trivial 1x1x1 mesh, the only path that honours it);
* oracles, implementation vs implementation through the re-indexing E / Pi / pad / crop:
  every public Grid method with spherical_harmonics_impl switched, and option independence."""
import functools, itertools, math
import numpy as np
from harness import util
from props import C01 as base

THEOREMS = ['C09_synth_equiv', 'C09_analysis_equiv', 'C09_fast_padding_inert', 'C09_reindex',
            'C09_options_irrelevant', 'C09_base_multiple_irrelevant', 'C09_mask_equiv', 'C09_axes_equiv',
            'C09_eigenvalues_equiv', 'C09_shapes', 'C09_hyps_satisfiable',
            'C09_explicit_terms_equiv', 'C09_explicit_terms_padding_inert', 'C09_implicit_terms_equiv',
            'C09_implicit_inverse_equiv', 'C09_whole_state_satisfiable',
            'C09_step_equiv', 'C09_filter_equiv', 'C09_trajectory_equiv', 'C09_trajectory_cn_rk2_filtered', 'C09_step_satisfiable']
LEVEL = 'proof'
LEVEL_TEXT = ('machine-checked theorems (Coq) for every field, all sizes, all paddings, all tables related by the fixed '
              're-indexing and ALL inputs: synth_fast.E = pad.synth_real, analysis_fast.pad = E.analysis_real, inertness of '
              'the extra row and of every padding, stacked = unstacked, einsum argument order and base multiple irrelevant, '
              'mask / modal axes / eigenvalue table re-indexed; the table relation is an exact obligation on the dumped arrays; '
              'the remaining Grid methods (derivatives, clipping, Laplacians, integrals) are compared implementation vs '
              'implementation through the re-indexing on generated inputs (explored, not proved here)')
LEVEL_NOTE = ('theorems are about the Gallina models Model/SHT.v, Model/SHTFast.v; tables_related is checked bitwise per '
              'explored configuration; transform_precision is a hint with no model content (CPU ignores it); differential '
              'operators are modelled by C02 and sharded execution by C07, here they are only compared between the two '
              'implementations; no trajectory comparison of the equation classes')
TECHNIQUE = 'Coq proof (translation validation of the two transform pipelines) + exact table obligations + differential oracles'

VARIANTS = [dict(base=b, stacked=s, rev=r) for b in (1, 4) for s in (0, 1) for r in (0, 1)]
# further constructor options: larger padding multiple, the precision hint (must be inert), the deprecated alias class
EXTRA_VARIANTS = [dict(base=8, stacked=1, rev=0), dict(base=1, stacked=0, rev=0, prec='float32'),
                  dict(base=4, stacked=1, rev=1, prec='highest'), dict(base=1, stacked=0, rev=0, alias=1),
                  dict(base=8, stacked=0, rev=1, prec='bfloat16')]


def vtag(v):
    return 'base=%d,stacked=%d,rev=%d' % (v['base'], v['stacked'], v['rev']) + (',prec=' + v['prec'] if v.get('prec') else '') + (
        ',alias' if v.get('alias') else '')


def E(x, M, L, fshape):
    y = np.zeros(x.shape[:-2] + tuple(fshape), dtype=x.dtype)
    y[..., 0, :L] = x[..., 0, :]
    y[..., 2:2 * M, :L] = x[..., 1:, :]
    return y


def Pi(y, M, L):
    return np.concatenate([y[..., 0:1, :L], y[..., 2:2 * M, :L]], axis=-2)


def pad(z, nshape):
    out = np.zeros(z.shape[:-2] + tuple(nshape), dtype=z.dtype)
    out[..., :z.shape[-2], :z.shape[-1]] = z
    return out


def crop(z, I, Jn): return z[..., :I, :Jn]


def base_configs(tier):
    cs = [dict(M=1, L=1, I=1, J=1, spacing='gauss', offset=0.0, radius=1.0),
          dict(M=2, L=3, I=5, J=3, spacing='gauss', offset=0.1, radius=7.0 / 3.0),
          dict(M=3, L=4, I=8, J=7, spacing='equiangular', offset=0.0, radius=1.0),
          dict(M=5, L=6, I=16, J=8, spacing='gauss', offset=0.0, radius=7.0 / 3.0),
          dict(M=3, L=3, I=7, J=5, spacing='equiangular_with_poles', offset=0.1, radius=1.0),
          dict(M=4, L=5, I=13, J=7, spacing='gauss', offset=0.0, radius=1.0),
          # longitude_nodes = 2 * (longitude_wavenumbers - 1): the highest zonal wavenumber sits at the Nyquist frequency
          dict(M=5, L=6, I=8, J=6, spacing='gauss', offset=0.0, radius=1.0),
          dict(M=3, L=4, I=4, J=4, spacing='gauss', offset=0.1, radius=7.0 / 3.0),
          # wide grid, total_wavenumbers > longitude_wavenumbers + 1, large radius, offset outside [0, 2 pi)
          dict(M=2, L=5, I=48, J=5, spacing='gauss', offset=7.0, radius=6.37122e6)]
    if tier == 'thorough':
        cs += [dict(M=3, L=4, I=7, J=100, spacing='gauss', offset=-0.3, radius=1e-3),   # tall grid
               dict(M=2, L=7, I=4, J=13, spacing='equiangular', offset=0.0, radius=1.0),dict(M=2, L=2, I=3, J=2, spacing='gauss', offset=0.0, radius=1.0),
               dict(M=6, L=7, I=12, J=9, spacing='gauss', offset=0.1, radius=1.0),
               dict(M=8, L=9, I=25, J=13, spacing='gauss', offset=0.0, radius=7.0 / 3.0),
               dict(M=5, L=9, I=9, J=9, spacing='equiangular', offset=0.0, radius=1.0),
               dict(M=3, L=4, I=3, J=4, spacing='gauss', offset=0.0, radius=1.0),           # aliasing grid
               dict(M=12, L=13, I=37, J=19, spacing='gauss', offset=0.0, radius=1.0),
               dict(M=22, L=23, I=64, J=32, spacing='gauss', offset=0.0, radius=1.0)]       # T21
    return cs


def r_mesh(ctx, a):
    """The fast implementation on a device mesh (its production configuration) against the single-device
    layout: to_nodal / to_modal / d_dlon / latitude derivative / laplacian for 3-D, surface and 2-D fields,
    level counts not divisible by the z mesh, x meshes of size 4 (oracle shared with the C07 plugin)."""
    from props import C07
    return C07.r_grid(ctx, dict(a, no_model=True))


def generate(ctx):
    rng = ctx.rng
    for mesh, K in ([([2, 1, 1], 3), ([1, 4, 2], 2), ([4, 2, 1], 5)] if ctx.tier == 'quick' else
                    [([2, 1, 1], 3), ([1, 4, 2], 2), ([4, 2, 1], 5), ([2, 2, 2], 7), ([1, 4, 1], 1), ([8, 1, 1], 3), ([1, 2, 4], 4)]):
        yield 'mesh', {'mesh': mesh, 'L': 7, 'K': K, 'base': 1, 'seed': int(rng.integers(0, 2 ** 31))}
    yield 'default_stacked', {'Ms': [1, 2, 64, 127, 128, 129, 255, 256, 257, 384, 385, 512, 513, 640, 1280]}
    for n, c in enumerate(base_configs(ctx.tier)):
        ctx.count(f"M={c['M']}"); ctx.count('spacing:' + c['spacing'])
        big = c['M'] >= 12
        yield 'related', {'cfg': c, 'variants': VARIANTS + EXTRA_VARIANTS}
        vs = VARIANTS if (ctx.tier == 'thorough' and not big) else [VARIANTS[(3 * n + k * 3) % 8] for k in range(2)]
        if big: vs = [VARIANTS[(n + 2) % 8], VARIANTS[(n + 5) % 8]]
        elif n % 4 == 1 or ctx.tier == 'thorough': vs = vs + [EXTRA_VARIANTS[(n // 4) % len(EXTRA_VARIANTS)]]
        for v in vs:
            fc = dict(c, impl='fast', **v)
            seed = int(rng.integers(0, 2 ** 31))
            yield 'layout', {'cfg': fc}
            yield 'transforms', {'cfg': fc, 'seed': seed, 'max_onehot': 0 if not big else 4,
                                 'max_model_analysis': 6 if not big else 1, 'lead': [[], [2], [3]][n % 3] if not big else [],
                                 'dense_analysis_model': not (c['M'] >= 20)}
            ctx.count('variant:' + vtag(v))
        if c['spacing'] != 'equiangular_with_poles' and c['M'] >= 2:
            yield 'jit_static', {'cfg': c, 'seed': int(rng.integers(0, 2 ** 31)),
                                 'radius_seq': bool(ctx.tier == 'thorough' or n % 4 == 1)}
        yield 'equiv', {'cfg': c, 'seed': int(rng.integers(0, 2 ** 31)), 'lead': [[], [2]][n % 2],
                        'variants': ([VARIANTS[0], VARIANTS[7], VARIANTS[4]] if big else VARIANTS if ctx.tier == 'thorough'
                                     else [VARIANTS[(n + k) % 8] for k in (0, 3, 6)] + ([EXTRA_VARIANTS[(n // 2) % len(EXTRA_VARIANTS)]] if n % 2 == 0 else []))
                                    + (EXTRA_VARIANTS if (ctx.tier == 'thorough' and not big) else []),
                        'full_methods_variants': [0] if (big or ctx.tier == 'quick') else [n % 8, (n + 5) % 8]}

    # ---- "hence the same model tendencies and trajectories": whole-state primitive equations, reference vs fast, and the fast model ----
    thorough_ = 1 if ctx.tier == 'thorough' else 0
    wv = [dict(base=1, stacked=0, rev=0, traj=thorough_), dict(base=4, stacked=1, rev=0, model=1, traj=1), dict(base=4, stacked=0, rev=0, traj=thorough_),
          dict(base=1, stacked=1, rev=0, traj=thorough_)]
    integ = ['imex_rk_sil3', 'crank_nicolson_rk2'] + (['backward_forward_euler', 'crank_nicolson_rk3', 'crank_nicolson_rk4', 'semi_implicit_leapfrog']
                                                       if ctx.tier == 'thorough' else [])
    wplan = [(dict(M=2, L=3, I=6, J=3), 2, 1, 1)] if ctx.tier == 'quick' else \
            [(dict(M=2, L=3, I=6, J=3), 2, 1, 1), (dict(M=3, L=4, I=8, J=4), 2, 0, 1), (dict(M=4, L=5, I=12, J=6), 3, 1, 0)]
    for n, (wc, K, oro, ntr) in enumerate(wplan):
        inner = sorted(set(int(t) for t in rng.choice(np.arange(1, 32), size=K - 1, replace=False)))
        yield 'whole_state_equiv', {'cfg': dict(wc, spacing='gauss', offset=0.0, radius=1.0), 'b': [0.0] + [t / 32.0 for t in inner] + [1.0],
                                    'T': (250.0 + rng.integers(-160, 161, size=K) / 4.0).tolist(), 'eta': [0.5, 0.125, 2.0][n % 3],
                                    'oro': oro, 'ntr': ntr, 'seed': int(rng.integers(1 << 30)),
                                    'integrators': integ, 'dt': 0.01, 'tau': 0.05, 'nsteps': 3,
                                    'variants': [dict(v, model=(1 if (v.get('model') and n == 0) else 0)) for v in wv]}

    yield 'cache_integrity', {}


# ---------------------------------------------------------------------------
def r_jit_static(ctx, a):
    """A sequence of calls in ONE process: the library's own jitted functions take `grid` as a static
    argument, so two grids that differ only in the implementation / its options must not be confused by
    the jit cache (they must compare and hash as different grids).  Same nodal input, reference then
    fast then reference again; every result must have that grid's own layout and agree through E."""
    import functools
    from harness import util
    util.setup_jax()
    import jax, jax.numpy as jnp
    from dinosaur import spherical_harmonic as sh
    c = a['cfg']; rng = np.random.Generator(np.random.PCG64(a['seed']))
    kw = dict(longitude_wavenumbers=c['M'], total_wavenumbers=c['L'], longitude_nodes=c['I'], latitude_nodes=c['J'],
              latitude_spacing=c['spacing'], longitude_offset=c['offset'], radius=c['radius'])
    gr = sh.Grid(spherical_harmonics_impl=sh.RealSphericalHarmonics, **kw)
    gf = sh.Grid(spherical_harmonics_impl=sh.FastSphericalHarmonics, **kw)
    gf2 = sh.Grid(spherical_harmonics_impl=functools.partial(sh.FastSphericalHarmonics, base_shape_multiple=4), **kw)
    grids = [('real', gr), ('fast', gf), ('fast(base=4)', gf2), ('real', gr)]
    ctx.oracle('grids with different transform implementations / options are different jit-static arguments',
               bool(gr != gf and gf != gf2 and gr != gf2), None)
    if tuple(gr.nodal_shape) != tuple(gf.nodal_shape):
        ctx.count('jit_static:nodal shapes differ (no cache clash possible)'); return
    u = rng.integers(-8, 9, size=(2,) + tuple(gr.nodal_shape)).astype(np.float64) / 8
    v = rng.integers(-8, 9, size=(2,) + tuple(gr.nodal_shape)).astype(np.float64) / 8
    ref = None
    for name, g in grids:
        if tuple(g.nodal_shape) != tuple(gr.nodal_shape):
            uu, vv = pad(u, g.nodal_shape), pad(v, g.nodal_shape)
        else:
            uu, vv = u, v
        vor, div = sh.uv_nodal_to_vor_div_modal(g, jnp.asarray(uu), jnp.asarray(vv))
        vor = np.asarray(vor); div = np.asarray(div)
        ok_shape = tuple(vor.shape[-2:]) == tuple(g.modal_shape)
        ctx.oracle(f'uv_nodal_to_vor_div_modal returns the layout of ITS grid ({name}) in a call sequence', ok_shape,
                   {'got': list(vor.shape), 'want': list(g.modal_shape)})
        if not ok_shape: continue
        if name == 'real':
            if ref is None: ref = (vor, div)
            else: ctx.oracle_close('reference result unchanged after fast calls', vor, ref[0], tol_rel=1e-12)
        else:
            sc = max(float(np.abs(ref[0]).max()), 1e-300)
            ctx.oracle_close(f'{name} = E(reference) for uv_nodal_to_vor_div_modal in a call sequence',
                             Pi(vor, c['M'], c['L']), ref[0], scale=sc, tol_rel=1e-10)

    # two grids differing in ONE non-layout field (radius; longitude offset), used in both orders in this process
    if not a.get('radius_seq'): return
    kw2 = dict(kw, radius=2.0 * c['radius']); kw3 = dict(kw, longitude_offset=c['offset'] + 0.5)
    for impl, nm in ((sh.RealSphericalHarmonics, 'real'), (sh.FastSphericalHarmonics, 'fast')):
        g1 = sh.Grid(spherical_harmonics_impl=impl, **kw); g2 = sh.Grid(spherical_harmonics_impl=impl, **kw2)
        g3 = sh.Grid(spherical_harmonics_impl=impl, **kw3)
        uu, vv = pad(u, g1.nodal_shape), pad(v, g1.nodal_shape)
        outs = []
        for g in (g2, g1, g2, g3, g1):
            vor, div = sh.uv_nodal_to_vor_div_modal(g, jnp.asarray(uu), jnp.asarray(vv))
            outs.append((np.asarray(vor), np.asarray(div)))
        sc = max(float(np.abs(outs[1][0]).max()), 1e-300)
        ctx.oracle_close(f'doubling the radius halves vorticity / divergence, whatever the call order [{nm}]',
                         2 * outs[0][0], outs[1][0], scale=sc, tol_rel=2.0 ** -44)
        ctx.oracle(f'results do not depend on what was called before (radius r, 2r, offset) [{nm}]',
                   bool(np.array_equal(outs[0][0], outs[2][0]) and np.array_equal(outs[1][1], outs[4][1])), None)
        ctx.oracle_close(f'the longitude offset only relabels the nodes: same vorticity [{nm}]', outs[3][0], outs[1][0], scale=sc, tol_rel=2.0 ** -44)


def r_default_stacked(ctx, a):
    jax, jnp, sh, fourier, al = base.J_()
    for M in a['Ms']:
        s = sh.FastSphericalHarmonics(longitude_wavenumbers=M, total_wavenumbers=M + 1, longitude_nodes=3 * M + 1,
                                      latitude_nodes=(3 * M + 1) // 2)
        r = ctx.model.call(10, [1, 1, 1, M, 1, 1, 1], [])
        ctx.exact(f'default stacked_fourier_transforms M={M}', int(bool(s.stacked_fourier_transforms)), int(r[4]))
        ctx.exact('default base_shape_multiple / reverse_einsum_arg_order (no mesh)',
                  [s.base_shape_multiple, bool(s.reverse_einsum_arg_order)], [1, False])


def r_related(ctx, a):
    """tables_related as EXACT equality of the dumped arrays, column by column."""
    c = a['cfg']; M, L, I, Jn = c['M'], c['L'], c['I'], c['J']
    gr = base.make_grid(dict(c, impl='real'))
    fr, pr, wr = base.tables(gr)
    K = 2 * M - 1
    f_unstacked = {}
    for v in a['variants']:
        gf = base.make_grid(dict(c, impl='fast', **v))
        ff, pf, wf = base.tables(gf)
        rows, cols = gf.modal_shape; If, Jf = gf.nodal_shape
        Mh = rows // 2
        name = 'tables_related[' + vtag(v) + ']: '
        if v['stacked']:
            ok_shape = ff.shape == (If, 2, Mh)
            # basis: f = np.reshape(f, (-1, 2, n/2), order='F'); model: stack_f
            f2 = np.transpose(ff, (0, 2, 1)).reshape(If, rows) if ok_shape else np.zeros((If, rows))
            if ok_shape:
                m = ctx.model.call(16, [If, Mh], [f2.ravel()])
                ctx.exact('stacked f is the Fortran-order reshape of the unstacked f (model stack_f)',
                          ff.ravel().tolist(), [float(x) for x in m])
        else:
            ok_shape = ff.shape == (If, rows); f2 = ff if ok_shape else np.zeros((If, rows))
        ctx.table_obligation(name + 'shapes', bool(ok_shape and pf.shape == (Mh, Jf, cols) and wf.shape == (Jf,)
                                                   and rows % 2 == 0 and Mh >= M and cols >= L and If >= I and Jf >= Jn),
                             [ff.shape, pf.shape, wf.shape])
        if not ok_shape: continue
        phi = [0] + list(range(2, 2 * M))
        ctx.table_obligation(name + 'tr_f_in  (f_fast[i,phi a] == f_real[i,a], bitwise)', bool(np.array_equal(f2[:I][:, phi], fr)), None)
        ctx.table_obligation(name + 'tr_f_row1 (column of m=-0 exactly zero)', bool((f2[:, 1] == 0).all()), None)
        ctx.table_obligation(name + 'tr_f_out (padding exactly zero)', bool((f2[I:, :] == 0).all() and (f2[:, 2 * M:] == 0).all()), None)
        mabs = (np.arange(K) + 1) // 2
        ctx.table_obligation(name + 'tr_p_in  (p_fast[|m(a)|] == p_real[a], bitwise)', bool(np.array_equal(pf[mabs][:, :Jn, :L], pr)), None)
        ctx.table_obligation(name + 'tr_p_out (padding exactly zero)',
                             bool((pf[M:] == 0).all() and (pf[:, Jn:] == 0).all() and (pf[:, :, L:] == 0).all()), None)
        ctx.table_obligation(name + 'tr_w_in  (bitwise)', bool(np.array_equal(wf[:Jn], wr)), None)
        ctx.table_obligation(name + 'tr_w_out (padding exactly zero)', bool((wf[Jn:] == 0).all()), None)
        if not (v.get('prec') or v.get('alias')): f_unstacked[(v['base'], v['rev'], v['stacked'])] = f2
    # option independence of the tables themselves
    for (b, r, s), f2 in f_unstacked.items():
        o = f_unstacked.get((b, r, 1 - s))
        if o is not None:
            ctx.table_obligation('f identical for stacked / unstacked after un-reshaping (bitwise)', bool(np.array_equal(o, f2)), None)
    # the model's E / Pi / pad against the plugin's
    rng = np.random.Generator(np.random.PCG64(7))
    gf = base.make_grid(dict(c, impl='fast', **a['variants'][-1]))
    rows, cols = gf.modal_shape; If, Jf = gf.nodal_shape
    x = rng.integers(-9, 10, size=(K, L)).astype(float); y = rng.integers(-9, 10, size=(rows, cols)).astype(float)
    z = rng.integers(-9, 10, size=(I, Jn)).astype(float)
    ctx.exact('E (model embed) = plugin E', E(x, M, L, (rows, cols)).ravel().tolist(),
              [float(v) for v in ctx.model.call(13, [M, L, rows, cols], [x.ravel()])])
    ctx.exact('Pi (model proj) = plugin Pi', Pi(y, M, L).ravel().tolist(),
              [float(v) for v in ctx.model.call(14, [M, L, rows, cols], [y.ravel()])])
    ctx.exact('pad (model pad2) = plugin pad', pad(z, (If, Jf)).ravel().tolist(),
              [float(v) for v in ctx.model.call(15, [I, Jn, If, Jf], [z.ravel()])])


def _call(g, name, *args, **kw):
    jax, jnp, sh, fourier, al = base.J_()
    args = [jnp.asarray(v) if isinstance(v, np.ndarray) else (tuple(jnp.asarray(t) for t in v) if isinstance(v, tuple) else v) for v in args]
    out = getattr(g, name)(*args, **kw)
    if isinstance(out, (tuple, list)): return tuple(np.asarray(o) for o in out)
    return np.asarray(out)


def r_equiv(ctx, a):
    """Implementation vs implementation through the re-indexing, every public Grid method; option independence."""
    jax, jnp, sh, fourier, al = base.J_()
    c = a['cfg']; M, L, I, Jn = c['M'], c['L'], c['I'], c['J']
    rng = np.random.Generator(np.random.PCG64(a['seed']))
    gr = base.make_grid(dict(c, impl='real'))
    lead = tuple(a.get('lead', []))
    K = 2 * M - 1
    x = rng.integers(-8, 9, size=lead + (K, L)).astype(np.float64)
    x2 = rng.integers(-8, 9, size=lead + (K, L)).astype(np.float64)
    z = rng.integers(-8, 9, size=lead + (I, Jn)).astype(np.float64) / 4
    if lead:
        # structured data in the last slice: only the highest retained wavenumbers (zonal and sectoral ends), a constant field
        x[-1] = 0; x[-1, K - 1, L - 1] = 3; x[-1, 0, L - 1] = -2; x[-1, K - 1, M - 1] = 1
        x2[-1] = 0; x2[-1, max(K - 2, 0), L - 1] = 1
        z[-1] = 1.0
    cr = dict(c, impl='real')
    B = int(np.prod(lead)) if lead else 1
    s_syn = base.synth_scale(cr, gr, x.reshape((B, K, L)))
    s_ana = base.analysis_scale(cr, gr, z.reshape((B, I, Jn)))
    zr = base.to_nodal(gr, x); yr = base.to_modal(gr, z)
    ir = _call(gr, 'integrate', z)
    r2 = float(gr.radius) ** 2
    s_int = float(np.einsum('j,bij->b', np.abs(base.tables(gr)[2]), np.abs(z.reshape((B, I, Jn)))).max() * r2) + 1e-300
    l_ax = np.arange(L); lam = float((L * (L + 1)) / r2) + 1.0
    xmax = float(np.abs(x).max()) + 1.0
    first = None
    for vi, v in enumerate(a['variants']):
        fc = dict(c, impl='fast', **v)
        gf = base.make_grid(fc)
        fs = gf.modal_shape; ns = gf.nodal_shape
        tagv = vtag(v)
        Ex = E(x, M, L, fs); pz = pad(z, ns)
        zf = base.to_nodal(gf, Ex); yf = base.to_modal(gf, pz)
        ctx.oracle_close('to_nodal: fast(E x) = pad(real(x))', zf, pad(zr, ns), scale=s_syn)
        if vi == 0:
            ctx.oracle('fast to_nodal / to_modal repeated after other calls are bit-identical',
                       bool(np.array_equal(base.to_nodal(gf, Ex), zf) and np.array_equal(base.to_modal(gf, pz), yf)), None)
        ctx.oracle_close('to_modal: fast(pad z) = E(real(z))', yf, E(yr, M, L, fs), scale=s_ana)
        ctx.oracle('to_nodal(fast): padded nodal entries exactly zero',
                   bool((zf[..., I:, :] == 0).all() and (zf[..., :, Jn:] == 0).all()), None)
        ctx.oracle('to_modal(fast): extra row and padded modal entries exactly zero',
                   bool((yf[..., 1, :] == 0).all() and (yf[..., 2 * M:, :] == 0).all() and (yf[..., :, L:] == 0).all()), None)
        # option independence (against the first variant, on the resolved entries)
        if first is None:
            first = (crop(zf, I, Jn), Pi(yf, M, L), tagv)
        else:
            ctx.oracle_close('options never change results: to_nodal', crop(zf, I, Jn), first[0], scale=s_syn)
            ctx.oracle_close('options never change results: to_modal', Pi(yf, M, L), first[1], scale=s_ana)
        ctx.count('equiv-variant:' + tagv)
        # structural attributes (cheap, every variant)
        ctx.oracle('mask: fast = E(real mask)', bool(np.array_equal(np.asarray(gf.mask), E(np.asarray(gr.mask).astype(float), M, L, fs) > 0)), None)
        mf, lf = gf.modal_axes; mr, lr = gr.modal_axes
        phi = [0] + list(range(2, 2 * M))
        ctx.oracle('modal_axes: re-indexed, zero on extra row / padding',
                   bool(np.array_equal(mf[phi], mr) and np.array_equal(lf[:L], lr) and mf[1] == 0 and (mf[2 * M:] == 0).all()
                        and (lf[L:] == 0).all()), None)
        ctx.oracle('laplacian_eigenvalues: equal on l < L, zero on padding',
                   bool(np.array_equal(gf.laplacian_eigenvalues[:L], gr.laplacian_eigenvalues) and (gf.laplacian_eigenvalues[L:] == 0).all()), None)
        lonf, slf = gf.nodal_axes; lonr, slr = gr.nodal_axes
        ctx.oracle('nodal_axes / cos_lat / sec2_lat / quadrature_weights: equal on the resolved part',
                   bool(np.array_equal(lonf[:I], lonr) and np.array_equal(slf[:Jn], slr)
                        and np.array_equal(np.asarray(gf.cos_lat)[:Jn], np.asarray(gr.cos_lat))
                        and np.array_equal(np.asarray(gf.sec2_lat)[:Jn], np.asarray(gr.sec2_lat))
                        and np.array_equal(crop(np.asarray(gf.quadrature_weights), I, Jn), np.asarray(gr.quadrature_weights))
                        and (np.asarray(gf.quadrature_weights)[:, Jn:] == 0).all()), None)
        ctx.oracle_close('integrate: fast(pad z) = real(z)', _call(gf, 'integrate', pz), ir, scale=s_int)
        if vi not in a.get('full_methods_variants', [0]):
            continue
        # ---- every remaining public Grid method
        Ex2 = E(x2, M, L, fs)
        for n in (1, 2):
            if n >= L: continue
            ctx.oracle(f'clip_wavenumbers(n={n}): fast(E x) = E(real(x)) exactly',
                       bool(np.array_equal(_call(gf, 'clip_wavenumbers', Ex, n=n), E(_call(gr, 'clip_wavenumbers', x, n=n), M, L, fs))), None)
        ctx.oracle_close('laplacian: fast(E x) = E(real(x))', _call(gf, 'laplacian', Ex), E(_call(gr, 'laplacian', x), M, L, fs), scale=lam * xmax)
        ctx.oracle_close('inverse_laplacian: fast(E x) = E(real(x))', _call(gf, 'inverse_laplacian', Ex),
                         E(_call(gr, 'inverse_laplacian', x), M, L, fs), scale=r2 * xmax)
        ctx.oracle_close('d_dlon: fast(E x) = E(real(x))', _call(gf, 'd_dlon', Ex), E(_call(gr, 'd_dlon', x), M, L, fs), scale=M * xmax)
        for name in ('cos_lat_d_dlat', 'sec_lat_d_dlat_cos2'):
            of = _call(gf, name, Ex); orr = _call(gr, name, x)
            ctx.oracle_close(f'{name}: Pi(fast(E x)) = real(x)', Pi(of, M, L), orr, scale=(L + 2) * xmax * 2)
            # entries outside the re-indexed image: the first padded column may carry the (inert) recurrence spill
            rest = of - E(Pi(of, M, L), M, L, fs)
            ctx.count(f'{name}: nonzero entries outside the image of E', int((rest != 0).sum()))
            ctx.oracle(f'{name}: extra row stays zero', bool((of[..., 1, :] == 0).all()), None)
        for clip in (True, False):
            gfo = _call(gf, 'cos_lat_grad', Ex, clip=clip); gro = _call(gr, 'cos_lat_grad', x, clip=clip)
            dfo = _call(gf, 'div_cos_lat', (Ex, Ex2), clip=clip); dro = _call(gr, 'div_cos_lat', (x, x2), clip=clip)
            cfo = _call(gf, 'curl_cos_lat', (Ex, Ex2), clip=clip); cro = _call(gr, 'curl_cos_lat', (x, x2), clip=clip)
            sc = (L + M + 2) * xmax * 4 / float(gr.radius)
            for nm, of, orr in [('cos_lat_grad[0]', gfo[0], gro[0]), ('cos_lat_grad[1]', gfo[1], gro[1]),
                                ('div_cos_lat', dfo, dro), ('curl_cos_lat', cfo, cro)]:
                if clip:
                    ctx.oracle_close(f'{nm} (clip): fast(E v) = E(real(v))', of, E(orr, M, L, fs), scale=sc)
                else:
                    ctx.oracle_close(f'{nm} (no clip): Pi(fast(E v)) = real(v)', Pi(of, M, L), orr, scale=sc)
        if c['spacing'] == 'equiangular_with_poles':
            ctx.count('composite u,v functions skipped (cos_lat = 0 at the poles: u/cos_lat is infinite in both implementations)')
        elif L >= 3 and ctx.tier == 'thorough' and not lead:
            # composite functions built on the grid (jitted per grid: thorough only)
            vor = x * np.asarray(gr.mask); div = x2 * np.asarray(gr.mask)
            vor[..., 0, 0] = 0; div[..., 0, 0] = 0
            ufn = sh.vor_div_to_uv_nodal(gf, jnp.asarray(E(vor, M, L, fs)), jnp.asarray(E(div, M, L, fs)), clip=False)
            urn = sh.vor_div_to_uv_nodal(gr, jnp.asarray(vor), jnp.asarray(div), clip=False)
            sun = float(np.abs(np.asarray(urn[0])).max() + np.abs(np.asarray(urn[1])).max()) * 64 + 1.0
            ctx.oracle_close('vor_div_to_uv_nodal(clip=False): crop(fast) = real (u)', crop(np.asarray(ufn[0]), I, Jn), np.asarray(urn[0]), scale=sun)
            ctx.oracle_close('vor_div_to_uv_nodal(clip=False): crop(fast) = real (v)', crop(np.asarray(ufn[1]), I, Jn), np.asarray(urn[1]), scale=sun)
            uf = sh.vor_div_to_uv_nodal(gf, jnp.asarray(E(vor, M, L, fs)), jnp.asarray(E(div, M, L, fs)))
            ur = sh.vor_div_to_uv_nodal(gr, jnp.asarray(vor), jnp.asarray(div))
            su = float(np.abs(np.asarray(ur[0])).max() + np.abs(np.asarray(ur[1])).max()) * 64 + 1.0
            ctx.oracle_close('vor_div_to_uv_nodal: crop(fast) = real (u)', crop(np.asarray(uf[0]), I, Jn), np.asarray(ur[0]), scale=su)
            ctx.oracle_close('vor_div_to_uv_nodal: crop(fast) = real (v)', crop(np.asarray(uf[1]), I, Jn), np.asarray(ur[1]), scale=su)
            vf = sh.uv_nodal_to_vor_div_modal(gf, jnp.asarray(pad(np.asarray(ur[0]), ns)), jnp.asarray(pad(np.asarray(ur[1]), ns)))
            vr = sh.uv_nodal_to_vor_div_modal(gr, ur[0], ur[1])
            sv = float(np.abs(np.asarray(vr[0])).max() + np.abs(np.asarray(vr[1])).max()) * 64 * L + 1.0
            ctx.oracle_close('uv_nodal_to_vor_div_modal: fast = E(real) (vorticity)', np.asarray(vf[0]), E(np.asarray(vr[0]), M, L, fs), scale=sv)
            ctx.oracle_close('uv_nodal_to_vor_div_modal: fast = E(real) (divergence)', np.asarray(vf[1]), E(np.asarray(vr[1]), M, L, fs), scale=sv)


def r_whole_state_equiv(ctx, a):
    """'Hence the same model tendencies': PrimitiveEquations.explicit_terms / implicit_terms / implicit_inverse on the
    same physical state with the reference and the fast implementation (every option variant), compared through the
    re-indexing (oracle = the property); table obligation dtables_related (derivative recurrence weights, sec2_lat,
    sin_lat re-indexed, EXACT); the fast whole-state extracted model (Model/PrimEqFullFast.v, commands 40-42) against
    the fast implementation on its own dumped tables."""
    from props import C04
    j = C04.J(); pe = j['pe']; specs = C04.specs_of('default')
    c = a['cfg']; M, L, I, Jn = c['M'], c['L'], c['I'], c['J']
    gr = base.make_grid(dict(c, impl='real'))
    vert = j['sc'].SigmaCoordinates(np.asarray(a['b'], dtype=np.float64)); K = vert.layers
    ntr = int(a.get('ntr', 0)); eta = float(a['eta'])
    f = C04.ws_state(a, gr, K); names = sorted(f['tracers'])
    Tref = np.asarray(a['T'], dtype=np.float64)
    A = C04.A
    fields = ['vorticity', 'divergence', 'temperature_variation', 'log_surface_pressure'] + ['tracer'] * ntr

    def run(grid, emb):
        coords = j['cs'].CoordinateSystem(grid, vert)
        eq = pe.PrimitiveEquations(Tref, emb(f['oro']), coords, specs)
        st = pe.State(emb(f['vort']), emb(f['div']), emb(f['Tdev']), emb(f['lnps']), {n: emb(f['tracers'][n]) for n in names})
        return (coords, st, C04.flat_state(eq.explicit_terms(st), names), C04.flat_state(eq.implicit_terms(st), names),
                C04.flat_state(eq.implicit_inverse(st, eta), names), eq)

    def trajectories(grid, eq, st):
        """3 filtered steps of every requested integrator (time_integration.step_with_filters, exponential filter)"""
        from dinosaur import time_integration as ti
        dt = float(a.get('dt', 0.01)); out = {}
        for nm in a.get('integrators', []):
            if nm == 'semi_implicit_leapfrog':
                step = ti.semi_implicit_leapfrog(eq, dt, alpha=0.5)
                flt = ti.exponential_leapfrog_step_filter(grid, dt, tau=float(a.get('tau', 0.05)), order=2, cutoff=0.2)
                u = (st, st)
            else:
                step = getattr(ti, nm)(eq, dt)
                flt = ti.exponential_step_filter(grid, dt, tau=float(a.get('tau', 0.05)), order=2, cutoff=0.2)
                u = st
            f = ti.step_with_filters(step, [flt])
            for _ in range(int(a.get('nsteps', 3))): u = f(u)
            out[nm] = C04.flat_state(u[1] if isinstance(u, tuple) else u, names)
        return out
    _, st_r, er, ir, vr, eq_r = run(gr, lambda x: x)
    tr_r = trajectories(gr, eq_r, st_r)
    smag = 1.0 + max(A(f['vort']), A(f['div']), A(f['Tdev']), A(f['lnps']), A(Tref))
    sce = [1e3 * (1.0 + A(x)) * smag for x in er]; sci = [1e3 * (1.0 + A(x)) * smag for x in ir]; scv = [1e3 * (1.0 + A(x)) * smag for x in vr]
    ar_, br_ = (np.asarray(t) for t in gr._derivative_recurrence_weights)
    phi = [0] + list(range(2, 2 * M))
    for v in a['variants']:
        tagv = vtag(v); ctx.count('whole-state-variant:' + tagv)
        gf = base.make_grid(dict(c, impl='fast', **v))
        fs = tuple(gf.modal_shape); rows, cols = fs; If, Jf = gf.nodal_shape; Mh = rows // 2
        af_, bf_ = (np.asarray(t) for t in gf._derivative_recurrence_weights)
        ok = af_.shape == fs and bf_.shape == fs
        ctx.table_obligation('dtables_related[' + tagv + ']: shapes', bool(ok), [af_.shape, bf_.shape])
        if not ok: continue
        ctx.table_obligation('dtables_related[' + tagv + ']: dt_a_in (a_fast[phi a, l] == a_real[a, l], bitwise)',
                             bool(np.array_equal(af_[phi][:, :L], ar_)), None)
        ctx.table_obligation('dtables_related[' + tagv + ']: dt_a_out (a_fast zero in the padded columns)',
                             bool((af_[phi][:, L:] == 0).all()), None)
        ctx.table_obligation('dtables_related[' + tagv + ']: dt_b_in (b_fast[phi a, l] == b_real[a, l] for l + 1 < L, bitwise)',
                             bool(np.array_equal(bf_[phi][:, :L - 1], br_[:, :L - 1])), None)
        ctx.table_obligation('dtables_related[' + tagv + ']: sec2_lat / sin_lat equal on the resolved latitudes (bitwise)',
                             bool(np.array_equal(np.asarray(gf.sec2_lat)[:Jn], np.asarray(gr.sec2_lat))
                                  and np.array_equal(np.asarray(gf.nodal_axes[1])[:Jn], np.asarray(gr.nodal_axes[1]))), None)
        emb = lambda x, fs=fs: E(np.asarray(x, dtype=np.float64), M, L, fs)
        coords_f, st_f, ef, imf, vf, eq_f = run(gf, emb)
        if v.get('traj'):
            tr_f = trajectories(gf, eq_f, st_f)
            for inm in tr_r:
                for nm, x_, y_ in zip(fields, tr_f[inm], tr_r[inm]):
                    ctx.oracle_close('trajectory (%d filtered steps of %s): Pi(fast(E s)) = real(s) [%s]' % (int(a.get('nsteps', 3)), inm, nm),
                                     Pi(x_, M, L), y_, scale=1e3 * (1.0 + A(y_)) * smag)
                    ctx.oracle('trajectory (%s): fast state stays zero on the extra row and on all padding [%s]' % (inm, nm),
                               bool(np.all(x_ == E(Pi(x_, M, L), M, L, fs))), None)
                ctx.count('trajectory:' + inm)
        for nm, x_, y_, s_ in zip(fields, ef, er, sce):
            ctx.oracle_close('explicit_terms: Pi(fast(E s)) = real(s) [%s]' % nm, Pi(x_, M, L), y_, scale=s_)
            ctx.oracle('explicit_terms: fast result is zero on the extra row and on all padding [%s]' % nm,
                       bool(np.all(x_ == E(Pi(x_, M, L), M, L, fs))), None)
        for nm, x_, y_, s_ in zip(fields, imf, ir, sci):
            ctx.oracle_close('implicit_terms: Pi(fast(E s)) = real(s) [%s]' % nm, Pi(x_, M, L), y_, scale=s_)
        for nm, x_, y_, s_ in zip(fields, vf, vr, scv):
            ctx.oracle_close('implicit_inverse: Pi(fast(E s)) = real(s) [%s]' % nm, Pi(x_, M, L), y_, scale=s_)
        if not v.get('model'): continue
        # ---- the fast whole-state extracted model against the fast implementation ----
        ff, pf, wf = base.tables(gf)
        f2 = np.transpose(ff, (0, 2, 1)).reshape(If, rows) if v['stacked'] else ff
        ok = f2.shape == (If, rows) and pf.shape == (Mh, Jf, cols) and wf.shape == (Jf,)
        ctx.exact('whole state (fast): table shapes', bool(ok), True)
        if not ok: continue
        ints = [M, L, I, Jn, K, ntr, Mh, cols, If, Jf, int(v['stacked']), int(v['rev'])]
        tr_flat = np.concatenate([emb(f['tracers'][n]).ravel() for n in names]) if names else []
        arrs = [f2.ravel(), pf.ravel(), wf, af_.ravel(), bf_.ravel(), np.asarray(gf.sec2_lat), np.asarray(gf.nodal_axes[1]),
                [gf.radius, specs.angular_velocity, specs.g, specs.R, specs.kappa, eta], np.log(vert.centers), a['b'], Tref,
                emb(f['oro']).ravel(), emb(f['vort']).ravel(), emb(f['div']).ravel(), emb(f['Tdev']).ravel(), emb(f['lnps']).ravel(), tr_flat]
        me = C04.split_state(ctx.model.call(40, ints, arrs), K, rows, cols, ntr)
        for nm, x_, y_, s_ in zip(fields, ef, me, sce):
            ctx.corr('whole state (fast, composed): explicit_terms ' + nm, x_, y_, scale=s_)
        mi = C04.split_state(ctx.model.call(41, ints, arrs), K, rows, cols, ntr)
        for nm, x_, y_, s_ in zip(fields, imf, mi, sci):
            ctx.corr('whole state (fast): implicit_terms ' + nm, x_, y_, scale=s_)
        mat = pe._get_implicit_term_matrix(eta, coords_f, Tref, specs.kappa, specs.R)
        inv = np.linalg.inv(mat)
        res = A(np.einsum('lij,ljk->lik', inv, mat) - np.eye(2 * K + 1))
        ctx.table_obligation('np.linalg.inv(implicit_matrix) is an inverse on the padded l axis', res <= 2.0 ** -36 * max(1.0, A(inv) * A(mat)),
                             {'residual': res})
        mo = C04.split_state(ctx.model.call(42, ints, arrs + [np.asarray(inv).ravel()]), K, rows, cols, ntr)
        for nm, x_, y_, s_ in zip(fields, vf, mo, scv):
            ctx.corr('whole state (fast): implicit_inverse ' + nm, x_, y_, scale=s_ * (1.0 + A(inv)))


RUNNERS = {'whole_state_equiv': r_whole_state_equiv, 'cache_integrity': base.r_cache_integrity, 'mesh': r_mesh, 'jit_static': r_jit_static, 'default_stacked': r_default_stacked, 'related': r_related, 'layout': base.r_layout,
           'transforms': base.r_transforms, 'equiv': r_equiv}
