"""C04 - the full tendency does not depend on the reference-temperature split.

Correspondence: Model/PrimEq.v (nodal column algebra of compute_diagnostic_state
and of every nodal array that explicit_terms hands to to_modal, for the dry,
with-time, moist and cloud-moist classes; implicit column operators) against
dinosaur.primitive_equations on small grids, column by column.
Oracles: explicit_terms + implicit_terms for two reference profiles and the same
absolute temperature, all classes, with/without orography and tracers.
Table obligations: the exactness hypotheses of the divergence/vorticity part of
the theorem on the explored grids."""
import numpy as np
from unittest import mock
from harness import util

THEOREMS = ['C04_tref_split_invariance', 'C04_tref_split_invariance_moist', 'C04_tref_split_closed_form',
            'C04_H_is_explicit_counterpart', 'C04_lnps_invariance', 'C04_effective_pgf_invariant',
            'C04_effective_pgf_invariant_dry', 'C04_effective_pgf_cloud_defect', 'C04_column_commutes',
            'C04_temperature_modal_invariance', 'C04_divergence_invariance', 'C04_vorticity_invariance',
            'C04_temperature_modal_invariance_moist', 'C04_divergence_invariance_moist',
            'C04_vorticity_invariance_moist', 'C04_unique_branch_zero', 'C04_unique_branch_free',
            'C04_unique_test_iff', 'C04_no_vertical_advection_closed_form',
            'C04_no_vertical_advection_uniform_invariance', 'C04_hyps_satisfiable', 'C04_modal_hyps_satisfiable',
            'C04_modal_moist_hyps_satisfiable', 'C04_no_vertical_advection_refuted', 'C04_tref_split_cloud_refuted',
            'C04_tref_split_invariance_R', 'C04_whole_state_is_assembly', 'C04_concrete_operators_linear',
            'C04_whole_state_temperature_invariance', 'C04_whole_state_divergence_invariance',
            'C04_whole_state_vorticity_invariance', 'C04_whole_state_implicit_linear', 'C04_whole_state_resolvent',
            'C04_whole_state_hyps_satisfiable', 'C04_whole_state_resolvent_hyps_satisfiable', 'C04_whole_state_is_assembly_replay',
            'C04_whole_state_split_invariance', 'C04_whole_state_split_hyps_satisfiable', 'C04_whole_state_moist_is_assembly',
            'C04_model_is_source']
LEVEL = 'proof'
LEVEL_TEXT = ('machine-checked theorems (Coq) for every field, every layer count K>=1, all level sets, all column data and '
              'any two reference profiles with the same absolute temperature: the nodal temperature tendency '
              '(vertical advection + adiabatic term, dry and moist) plus the implicit H.divergence term, and the '
              'log-surface-pressure tendency, do not depend on the profile (pure algebra: H is pinned entry by entry '
              'against sigma_dot, alpha and the centred advection; the np.unique branch is proved to skip an exactly-zero '
              'term and to test "some entry differs"); the modal temperature, divergence and vorticity tendencies '
              '(clipped explicit + implicit) of the dry, with-time and moist classes are invariant under named exactness '
              'hypotheses on abstract linear horizontal operators (round trip, div/curl of the velocity, div/curl of '
              'sec2.grad, laplacian of a constant, Leibniz rule for q.grad lnps; re-checked numerically on every explored '
              'grid); the cloud-moist class with condensate and include_vertical_advection=False with non-uniform profiles '
              'are refuted with concrete witnesses and their exact defect / closed form is proved; '
              'END-TO-END: the executable whole-state model (compute_diagnostic_state, explicit_terms, implicit_terms, implicit_inverse of the dry '
              'class composed from the concrete transforms and spectral operators) is proved to be, coefficient by coefficient, the assembled '
              'operator the modal theorems are about; the concrete operators are proved linear and lap(const)=0, so the modal invariance holds for '
              'the executable composition under the four grid-exactness hypotheses only; implicit_inverse_full inverts 1 - eta*implicit_terms_full '
              'given left-inverse tables')
LEVEL_NOTE = ('theorems are about the Gallina model Model/PrimEq.v (+ Model/Implicit.v, Model/Sigma.v); horizontal '
              'transforms are abstract linear operators in the column theorems; the whole-state model Model/PrimEqFull.v executes the '
              'complete composition (dry class, reference layout, include_vertical_advection=True, dense, method split) in exact rationals on '
              'the implementation\'s own tables against the real explicit_terms / implicit_terms / implicit_inverse on tiny grids; '
              'C04_whole_state_split_invariance lifts the invariance to two executed states (every in-range coefficient of vorticity, divergence, '
              'temperature, lnps; premises: four grid-exactness facts, to_nodal(one)=1, profiles agreeing beyond K; uses stdlib '
              'functional_extensionality for nodal-column records; tracers not in the conclusion); the premises are shown satisfiable on a toy '
              'zonal grid over Qc; the moist classes are not in the whole-state model; the model is also '
              'tied to the code by differential correspondence on nodal columns of recorded to_modal arguments; '
              'log(centers) enters as a table; scope: include_vertical_advection=True (the default) - with the option off '
              'the code drops the vertical advection of T\' but keeps that of T_ref (explicitly and inside H), so totals '
              'differ for non-uniform profiles (correspondence still covers the option); the cloud-moist class with '
              'non-zero condensate is a registered known finding (fixed runner cloud_nonzero); oracles also hand the profile '
              'over as int64/int32/strided/read-only arrays and re-use one equation object across profile changes '
              '(re-bound field, in-place overwrite, dataclasses.replace); a float32 profile in x64 mode is NOT covered: '
              'on the pinned tree it already differs from the float64 profile by ~4e-8 relative; '
              'vertical_advection=upwind_vertical_advection is outside the claim for non-uniform profiles (the implicit H always '
              'advects T_ref with the centred scheme; measured 0.3 relative on the pinned tree), oracles use it with '
              'level-uniform profiles only; grids on which the exactness obligations fail (equiangular latitudes, '
              'longitude_nodes = 2(M-1)) are outside the claim (measured split dependence 4e-3 / 9e-2); on the 8-longitude grid '
              'the moist classes are claimed for humidity/lnps of degree <= 1 only (Leibniz obligation fails beyond); '
              'device meshes are not exercised')
TECHNIQUE = 'proof+differential-correspondence+metamorphic-oracle'

CLOUD_CLAUSE = 'cloud-moist class: total tendency independent of T_ref with non-zero cloud condensate'
CLOUD_ARGS = {'K': 2, 'b': [0.0, 0.25, 1.0], 'T1': [250.0, 260.0], 'T2': [240.0, 275.0], 'seed': 7, 'cloud': 0.01}
QN, QC, QI = 'specific_humidity', 'specific_cloud_liquid_water_content', 'specific_cloud_ice_water_content'

_J = None
def J():
    global _J
    if _J is None:
        util.setup_jax()
        import jax.numpy as jnp
        from dinosaur import (spherical_harmonic as sh, sigma_coordinates as sc, coordinate_systems as cs,
                              primitive_equations as pe)
        _J = dict(jnp=jnp, sh=sh, sc=sc, cs=cs, pe=pe, specs=pe.PrimitiveEquationsSpecs.from_si(), grids={}, ones={})
    return _J


PHYS = ('default', 'kappa025', 'small_planet', 'moist_alt')


def specs_of(name='default'):
    """PrimitiveEquationsSpecs built from SI constants; `name` is the JSON-able `phys` key of a case"""
    j = J()
    if 'specs_' + name not in j:
        pe = j['pe']
        from dinosaur import scales
        u = scales.units
        jk = u.J / u.kilogram / u.degK
        kw = {'default': {},
              'kappa025': dict(kappa_si=0.25 * u.dimensionless, ideal_gas_constant_si=260.0 * jk),
              'small_planet': dict(angular_velocity_si=2.5e-4 / u.s, gravity_acceleration_si=24.8 * u.m / u.s ** 2,
                                   kappa_si=0.3 * u.dimensionless),
              'moist_alt': dict(kappa_si=0.27 * u.dimensionless, ideal_gas_constant_si=300.0 * jk,
                                water_vapor_gas_constant_si=520.0 * jk, water_vapor_isobaric_heat_capacity_si=1500.0 * jk)}[name]
        j['specs_' + name] = pe.PrimitiveEquationsSpecs.from_si(**kw)
    return j['specs_' + name]


GRIDS = {'g5': dict(longitude_wavenumbers=4, total_wavenumbers=5, longitude_nodes=12, latitude_nodes=6),
         'g7': dict(longitude_wavenumbers=6, total_wavenumbers=7, longitude_nodes=18, latitude_nodes=9),
         # non-default grid options: Fast implementations (padded modal layout), radius / longitude offset,
         # wide and tall grids, total_wavenumbers > longitude_wavenumbers + 1, the smallest alias-free longitude count
         'g5fast': dict(longitude_wavenumbers=4, total_wavenumbers=5, longitude_nodes=12, latitude_nodes=6, impl='fast'),
         'g5zi': dict(longitude_wavenumbers=4, total_wavenumbers=5, longitude_nodes=12, latitude_nodes=6, impl='zeroimag'),
         'g5r': dict(longitude_wavenumbers=4, total_wavenumbers=5, longitude_nodes=12, latitude_nodes=6, radius=2.5,
                     longitude_offset=0.3),
         'wide': dict(longitude_wavenumbers=3, total_wavenumbers=4, longitude_nodes=64, latitude_nodes=5),
         'tall': dict(longitude_wavenumbers=3, total_wavenumbers=4, longitude_nodes=10, latitude_nodes=48),
         'g47': dict(longitude_wavenumbers=4, total_wavenumbers=7, longitude_nodes=12, latitude_nodes=9),
         'g5l8': dict(longitude_wavenumbers=4, total_wavenumbers=5, longitude_nodes=8, latitude_nodes=6),
         # the tiny grid of the whole-state END-TO-END model (exactness obligations are checked on it as well)
         't4': dict(longitude_wavenumbers=3, total_wavenumbers=4, longitude_nodes=8, latitude_nodes=4),
         't3': dict(longitude_wavenumbers=2, total_wavenumbers=3, longitude_nodes=4, latitude_nodes=3)}


def grid_of(name):
    j = J()
    if name not in j['grids']:
        kw = dict(GRIDS[name]); impl = kw.pop('impl', None)
        if impl:
            kw['spherical_harmonics_impl'] = {'fast': j['sh'].FastSphericalHarmonics,
                                              'zeroimag': j['sh'].RealSphericalHarmonicsWithZeroImag}[impl]
        g = j['sh'].Grid(**kw)
        j['grids'][name] = g
        # modal coefficients of the constant field one, independent of the implementation: 2 sqrt(pi) at (m,l)=(0,0)
        # (checked against grid.to_modal(ones) as a table obligation)
        one = np.zeros(g.modal_shape); one[0, 0] = 2.0 * np.sqrt(np.pi)
        j['ones'][name] = one
    return j['grids'][name]


def rand_modal(rng, grid, lead, lmax, zero_mean=False, amp=1.0):
    """random real modal coefficients, total wavenumber <= lmax, optionally without the (0,0) mean"""
    l = np.arange(grid.modal_shape[1])[None, :]
    x = rng.standard_normal(tuple(lead) + grid.modal_shape) * grid.mask * (l <= lmax) * amp
    if zero_mean: x[..., 0, 0] = 0.0
    return x


def tracer_names(cls, ntr):
    names = []
    if cls in ('moist', 'cloud'): names.append(QN)
    if cls == 'cloud': names += [QC, QI]
    return names + ['tracer_%d' % i for i in range(ntr)]


def present_profile(T, how='float64'):
    """the reference profile as the caller hands it to the equation class: same values, different
    numpy presentation (integer dtypes need integral values)"""
    t = np.array(T, dtype=np.float64)      # always a private copy
    if how in ('int64', 'int32'):
        assert np.all(t == np.round(t))
        return t.astype(how)
    if how == 'strided': return np.repeat(t, 2)[::2]
    if how == 'readonly':
        t = t.copy(); t.setflags(write=False); return t
    return t


def make_eq(cls, Tref, oro, coords, va=True, method=None, how='float64', phys='default', vadv='centered'):
    j = J(); pe = j['pe']
    C = {'dry': pe.PrimitiveEquations, 'time': pe.PrimitiveEquationsWithTime, 'moist': pe.MoistPrimitiveEquations,
         'cloud': pe.MoistPrimitiveEquationsWithCloudMoisture}[cls]
    kw = {}
    if vadv == 'upwind': kw['vertical_advection'] = j['sc'].upwind_vertical_advection
    return C(present_profile(Tref, how), oro, coords, specs_of(phys), vertical_matmul_method=method,
             include_vertical_advection=bool(va), **kw)


def make_state(cls, vort, div, Tp, lnps, tracers):
    pe = J()['pe']
    if cls == 'dry': return pe.State(vort, div, Tp, lnps, tracers)
    return pe.StateWithTime(vort, div, Tp, lnps, 0.25, tracers)


def base_fields(a, grid, K):
    """deterministic admissible state data from the args (top wavenumber clipped, zero-mean vorticity/divergence)"""
    rng = np.random.default_rng([int(a['seed']), 4])
    L = grid.total_wavenumbers
    lmax = min(int(a.get('lmax', L - 2)), L - 2)
    amp = float(a.get('amp', 1.0))
    kind = a.get('state', 'random')
    def fld(lead, zero_mean, scale):
        x = rand_modal(rng, grid, lead, lmax, zero_mean, scale)
        if kind == 'top_mode':      # one non-zero coefficient, at the highest retained total wavenumber
            m_idx = np.nonzero(grid.mask[:, lmax])[0]
            y = np.zeros_like(x); mi = int(m_idx[int(rng.integers(len(m_idx)))])
            y[..., mi, lmax] = scale * (1.0 + np.arange(int(np.prod(lead)) if lead else 1).reshape(lead))
            return y
        if kind == 'int': return np.round(4 * x / max(scale, 1e-300)) * scale / 4
        return x
    f = dict(vort=fld((K,), True, amp), div=fld((K,), True, amp), Tdev=fld((K,), False, 30.0 * amp),
             lnps=fld((1,), False, 0.1 * amp),
             oro=rand_modal(rng, grid, (), lmax, False, 0.01) if a.get('oro') else np.zeros(grid.modal_shape))
    if kind == 'rest':              # atmosphere at rest, horizontally uniform temperature and surface pressure
        for n in ('vort', 'div', 'Tdev'): f[n] = np.zeros_like(f[n])
        c0 = np.zeros_like(f['lnps']); c0[..., 0, 0] = f['lnps'][..., 0, 0]; f['lnps'] = c0
    tr = {}
    for n in tracer_names(a['cls'], int(a.get('ntr', 0))):
        s = 0.01 if n in (QN, QC, QI) else 1.0
        if n in (QC, QI) and not a.get('cloud', 0.0): s = 0.0
        elif n in (QC, QI): s = float(a['cloud'])
        tr[n] = fld((K,), False, s)
        if n == QN and kind == 'zero_q': tr[n] = np.zeros_like(tr[n])
        if n.startswith('tracer_') and a.get('batch'):      # leading batch axis, different content per slice
            tr[n] = np.stack([tr[n], 2.0 * tr[n][::-1] + 0.25 * rand_modal(rng, grid, (K,), lmax, False, 1.0)])
    f['tracers'] = tr
    return f


# ---------------------------------------------------------------------------
# case generation
# ---------------------------------------------------------------------------
def generate(ctx):
    # two independently drawn profiles can coincide (K = 1): nudge the second so that every case is non-vacuous
    for runner, args in _generate(ctx):
        if 'T1' in args and args['T1'] == args.get('T2'): args['T2'] = [t + 0.25 for t in args['T2']]
        if 'TA' in args and args['TA'] == args.get('TB'): args['TB'] = [t + 0.25 for t in args['TB']]
        yield runner, args


def _generate(ctx):
    rng = ctx.rng
    quick = ctx.tier == 'quick'
    def levels(K, r):
        if r % 3 == 2: return np.linspace(0, 1, K + 1).tolist()
        return util.uneven_boundaries(rng, K, 4).tolist()
    def profile(K, uniform=False):
        if uniform: return [float(rng.integers(200, 300))] * K
        return (250.0 + rng.integers(-160, 161, size=K) / 4.0).tolist()
    yield 'obligations', {'grid': 'g5', 'seed': int(rng.integers(1 << 30))}
    if not quick: yield 'obligations', {'grid': 'g7', 'seed': int(rng.integers(1 << 30))}
    # correspondence
    plan = [('dry', 3, 1, 0, 1, 0), ('dry', 1, 0, 1, 1, 0), ('dry', 2, 0, 2, 0, 1), ('time', 4, 1, 1, 1, 0),
            ('moist', 3, 1, 0, 1, 0), ('cloud', 2, 0, 1, 1, 0), ('moist', 1, 0, 0, 1, 1), ('moist', 4, 1, 1, 0, 0)]
    if not quick:
        plan = plan + [(c, K, o, n, v, u) for c in ('dry', 'time', 'moist', 'cloud') for K in (1, 2, 3, 4, 5)
                       for (o, n, v, u) in ((0, 0, 1, 0), (1, 2, 1, 0), (1, 1, 0, 1))]
    for r, (cls, K, oro, ntr, va, uni) in enumerate(plan):
        ctx.count('corr:%s K=%d' % (cls, K))
        yield 'corr', {'cls': cls, 'grid': 'g5' if (quick or r % 4) else 'g7', 'K': K, 'b': levels(K, r), 'Tref': profile(K, bool(uni)),
                       'phys': PHYS[1 + r % 3] if r < 12 else PHYS[r % 4],
                       'oro': oro, 'ntr': ntr, 'va': va, 'seed': int(rng.integers(1 << 30)),
                       'nodes': 4 if quick else (-1 if r in (2, 5) else 10), 'sparse': r % 2}
    # direct calls of _t_omega_over_sigma_sp on arbitrary small-rational arrays
    for K in ([1, 3] if quick else [1, 2, 3, 4, 6]):
        yield 't_omega', {'K': K, 'b': levels(K, K), 'seed': int(rng.integers(1 << 30)), 'phys': PHYS[K % 4]}
    # the property itself
    oplan = [('dry', 3, 0, 0), ('dry', 2, 1, 1), ('time', 4, 1, 0), ('moist', 3, 1, 0), ('moist', 2, 0, 1), ('cloud', 3, 1, 0),
             ('dry', 1, 1, 0), ('moist', 1, 0, 0)]
    if not quick:
        oplan = [(c, K, o, n) for c in ('dry', 'time', 'moist', 'cloud') for K in (1, 2, 3, 4, 5) for (o, n) in ((0, 0), (1, 1), (1, 2))]
    reps = 2 if quick else 3
    for r, (cls, K, oro, ntr) in enumerate(oplan):
        bb = levels(K, r)
        for s in range(reps):
            ctx.count('oracle:%s K=%d' % (cls, K))
            yield 'oracle', {'cls': cls, 'grid': 'g5' if (quick or (r + s) % 3) else 'g7', 'K': K, 'b': bb,
                             'T1': profile(K, s == 1 and r % 2 == 0), 'T2': profile(K), 'phys': PHYS[1 + (r + s) % 3] if s else 'default',
                             'oro': oro, 'ntr': ntr, 'va': 1, 'seed': int(rng.integers(1 << 30)),
                             'lmax': [9, 1, 2][s % 3], 'amp': [1.0, 8.0, 0.125][(r + s) % 3]}
    # structured reference profiles a random draw never produces: equal end values, plateaus at the
    # top / bottom, a single step (each against a random profile, same absolute temperature)
    def structured(K, kind):
        t = 250.0 + rng.integers(-160, 161, size=K) / 4.0
        if kind == 'ends': t[-1] = t[0]
        elif kind == 'top': t[:max(2, K // 2)] = t[0]
        elif kind == 'bottom': t[-max(2, K // 2):] = t[-1]
        elif kind == 'step': t[:K // 2] = 230.0; t[K // 2:] = 270.0
        return t.tolist()
    for r, (cls, K, kind) in enumerate([('dry', 5, 'ends'), ('moist', 4, 'ends'), ('dry', 4, 'top'), ('time', 4, 'bottom'), ('moist', 4, 'step')]
                                       if quick else [(c, K, k) for c in ('dry', 'time', 'moist') for K in (3, 5, 7) for k in ('ends', 'top', 'bottom', 'step')]):
        ctx.count('oracle:structured-profile-' + kind)
        bb = levels(K, r)
        yield 'oracle', {'cls': cls, 'grid': 'g5', 'K': K, 'b': bb, 'T1': structured(K, kind), 'T2': profile(K),
                         'oro': r % 2, 'ntr': 0, 'va': 1, 'seed': int(rng.integers(1 << 30)), 'lmax': 2, 'amp': 1.0}
        if r < 2 or not quick:
            yield 'corr', {'cls': cls, 'grid': 'g5', 'K': K, 'b': bb, 'Tref': structured(K, kind), 'oro': 0, 'ntr': 0, 'va': 1,
                           'seed': int(rng.integers(1 << 30)), 'nodes': 4, 'sparse': r % 2}
    # include_vertical_advection=False is invariant only between level-uniform profiles (C04_no_vertical_advection_*)
    for r, (cls, K) in enumerate([('dry', 3), ('moist', 2)] if quick else [(c, K) for c in ('dry', 'time', 'moist') for K in (1, 3, 5)]):
        ctx.count('oracle:no-vertical-advection-uniform')
        t1 = profile(K, True)
        yield 'oracle', {'cls': cls, 'grid': 'g5', 'K': K, 'b': levels(K, r), 'T1': t1, 'T2': [t1[0] + 7.5 + r] * K,
                         'oro': r % 2, 'ntr': r % 2, 'va': 0, 'seed': int(rng.integers(1 << 30)), 'lmax': 9, 'amp': 1.0}
    # the profile handed over in other numpy presentations (integer dtypes, strided view, read-only): same values
    def int_profile(K):
        return [float(v) for v in (250 + rng.integers(-45, 46, size=K))]
    hplan = [('dry', 5, 'int64', 2), ('moist', 3, 'int64', 0), ('time', 4, 'int32', 1), ('dry', 3, 'strided', 0), ('moist', 2, 'readonly', 0)]
    if not quick:
        hplan = [(c, K, h, e) for c in ('dry', 'time', 'moist', 'cloud') for (K, e) in ((2, 0), (5, 2), (6, 2), (4, 0))
                 for h in ('int64', 'int32', 'strided', 'readonly')]
    for r, (cls, K, how, even) in enumerate(hplan):
        ctx.count('oracle:profile-presentation-' + how)
        bb = levels(K, even)
        yield 'oracle', {'cls': cls, 'grid': 'g5', 'K': K, 'b': bb, 'T1': int_profile(K), 'T2': profile(K), 'how1': how,
                         'oro': r % 2, 'ntr': 0, 'va': 1, 'seed': int(rng.integers(1 << 30)), 'lmax': 9, 'amp': 1.0}
        if r < 3 or not quick:
            yield 'oracle', {'cls': cls, 'grid': 'g5', 'K': K, 'b': bb, 'T1': int_profile(K), 'T2': int_profile(K), 'how1': how, 'how2': how,
                             'oro': 1, 'ntr': 0, 'va': 1, 'seed': int(rng.integers(1 << 30)), 'lmax': 2, 'amp': 1.0}
            yield 'corr', {'cls': cls, 'grid': 'g5', 'K': K, 'b': bb, 'Tref': int_profile(K), 'how': how, 'oro': 0, 'ntr': 0, 'va': 1,
                           'seed': int(rng.integers(1 << 30)), 'nodes': 4, 'sparse': r % 2}
    # state carried across calls on one equation object
    for r, (cls, K) in enumerate([('dry', 3), ('time', 2), ('moist', 3), ('cloud', 2)] if quick else
                                 [(c, K) for c in ('dry', 'time', 'moist', 'cloud') for K in (1, 3, 5)]):
        ctx.count('object_reuse:' + cls)
        yield 'object_reuse', {'cls': cls, 'grid': 'g5', 'K': K, 'b': levels(K, r), 'TA': profile(K, r % 2 == 1), 'TB': profile(K),
                               'phys': PHYS[(r + 2) % 4],
                               'oro': r % 2, 'ntr': r % 2, 'seed': int(rng.integers(1 << 30)), 'lmax': 9, 'amp': 1.0}
    # ---- self-review additions: options, grids, structured states, extremes, batch axes, jit ----
    def ocase(cls, K, **kw):
        d = {'cls': cls, 'grid': 'g5', 'K': K, 'b': levels(K, K), 'T1': profile(K), 'T2': profile(K), 'oro': 1, 'ntr': 0, 'va': 1,
             'seed': int(rng.integers(1 << 30)), 'lmax': 9, 'amp': 1.0}
        d.update(kw); return d
    extra = [ocase('dry', 3, method='sparse'), ocase('moist', 4, method='sparse', phys='moist_alt'), ocase('cloud', 2, method='dense'),
             ocase('moist', 3, grid='g5fast'), ocase('dry', 3, grid='g5r', phys='small_planet'), ocase('dry', 2, grid='wide'),
             ocase('dry', 3, state='rest'), ocase('moist', 3, state='top_mode'), ocase('moist', 2, state='zero_q'),
             ocase('time', 3, state='int'), ocase('dry', 3, amp=1e3), ocase('moist', 2, amp=1e-3),
             ocase('dry', 3, ntr=1, batch=1), ocase('moist', 2, ntr=2, batch=1, grid='g5fast')]
    if not quick:
        extra += [ocase(c, K, grid=g, method=m) for c in ('dry', 'time', 'moist', 'cloud') for (K, g, m) in
                  ((3, 'g5zi', None), (4, 'tall', 'sparse'), (2, 'g47', None), (5, 'g5l8', 'sparse'), (3, 'g5fast', 'sparse'), (1, 'g5r', None))]
        extra += [ocase(c, K, state=st, amp=am) for c in ('dry', 'moist', 'cloud') for K in (1, 4)
                  for (st, am) in (('rest', 1.0), ('top_mode', 1e3), ('zero_q', 1.0), ('int', 1e-3))]
        extra += [ocase(c, 3, ntr=2, batch=1) for c in ('time', 'cloud')]
    for d in extra:
        # 8 longitude nodes resolve the linear terms of M=4 exactly but not the product q*grad(lnps) of the moist
        # corrections at full degree: the moist classes are claimed there for humidity/lnps of degree <= 1 only
        if d['grid'] == 'g5l8' and d['cls'] in ('moist', 'cloud'): d['lmax'] = 1
        ctx.count('oracle:extra ' + ' '.join('%s=%s' % (k, d[k]) for k in ('grid', 'method', 'state', 'batch') if k in d and d[k] not in (None, 'g5')))
        yield 'oracle', d
    # non-default vertical advection scheme: the implicit half always uses the centred scheme, so invariance is claimed
    # (and holds) only between level-uniform profiles
    for cls, K in ([('dry', 3)] if quick else [('dry', 3), ('moist', 4), ('time', 2)]):
        t1 = profile(K, True)
        yield 'oracle', ocase(cls, K, vadv='upwind', T1=t1, T2=[t1[0] - 11.25] * K)
    # correspondence on the non-default grids (nodal columns and implicit (m,l) columns)
    for r, (cls, K, g) in enumerate([('moist', 3, 'g5fast'), ('dry', 2, 'g5r')] if quick else
                                    [(c, K, g) for c in ('dry', 'moist', 'cloud') for (K, g) in ((3, 'g5fast'), (2, 'g5r'), (2, 'wide'), (3, 'g47'), (2, 'g5zi'))]):
        yield 'corr', {'cls': cls, 'grid': g, 'K': K, 'b': levels(K, r), 'Tref': profile(K), 'phys': PHYS[r % 4], 'oro': 1, 'ntr': 1,
                       'va': 1, 'seed': int(rng.integers(1 << 30)), 'nodes': 4, 'sparse': r % 2}
    for g in (['g5fast'] if quick else ['g5fast', 'g5zi', 'g5r', 'wide', 'tall', 'g47', 'g5l8']):
        yield 'obligations', dict({'grid': g, 'seed': int(rng.integers(1 << 30))}, **({'lq': 1} if g == 'g5l8' else {}))
    for cls, K in ([('dry', 2)] if quick else [('dry', 2), ('moist', 3), ('cloud', 2)]):
        yield 'jit_order', {'cls': cls, 'grid': 'g5', 'K': K, 'b': levels(K, 0), 'T1': profile(K), 'T2': profile(K), 'oro': 1,
                            'ntr': 1 if cls == 'dry' else 0, 'seed': int(rng.integers(1 << 30)), 'lmax': 9, 'amp': 1.0}
    yield 'cloud_nonzero', dict(CLOUD_ARGS)
    # ---- whole-state END-TO-END model (Model/PrimEqFull.v) on tiny real grids ----
    def plateau(K):
        t = 250.0 + rng.integers(-160, 161, size=K) / 4.0
        if K > 1: t[1] = t[0]
        return t.tolist()
    # model cost (exact rationals): composed t4 K=2 ~13 s, K=3 + tracer ~35 s; staged ~7 s
    wplan = [('t4', 2, 1, 0, 'full'), ('t4', 3, 0, 1, 'staged'), ('t4', 2, 1, 1, 'staged')] if quick else \
            [('t4', 2, 1, 0, 'full'), ('t4', 3, 0, 1, 'both'), ('t4', 1, 1, 1, 'full'), ('t5', 2, 1, 0, 'full'), ('t5', 3, 0, 1, 'staged'),
             ('t4', 3, 1, 2, 'both'), ('t5', 2, 0, 1, 'staged')]
    for r, (tg, K, oro, ntr, mode) in enumerate(wplan):
        yield 'whole_state', {'tgrid': tg, 'K': K, 'b': levels(K, r), 'T1': plateau(K) if r % 2 else profile(K), 'T2': profile(K),
                              'oro': oro, 'ntr': ntr, 'mode': mode, 'eta': [0.5, 0.125, 2.0][r % 3], 'seed': int(rng.integers(1 << 30)),
                              'phys': PHYS[r % 4]}
    # moist / cloud-moist classes through the whole-state model (exact cost grows fast: the moist adiabatic term divides by nodal
    # values; t3 K=2 ~15 s, t4 K=2 ~4 min)
    mplan = [('moist', 't3', 2, 1, 0, 0.0)] if quick else \
            [('moist', 't3', 2, 1, 0, 0.0), ('moist', 't3', 3, 0, 1, 0.0), ('cloud', 't3', 2, 1, 0, 0.0), ('cloud', 't3', 2, 0, 1, 1.0),
             ('moist', 't4', 2, 1, 0, 0.0)]
    for r, (cls, tg, K, oro, ntr, cl) in enumerate(mplan):
        yield 'whole_state', {'cls': cls, 'tgrid': tg, 'K': K, 'b': levels(K, r), 'T1': plateau(K) if r % 2 else profile(K), 'T2': profile(K),
                              'oro': oro, 'ntr': ntr, 'mode': 'full', 'cloud': cl, 'seed': int(rng.integers(1 << 30)), 'phys': PHYS[(r + 3) % 4]}
    yield 'obligations', {'grid': 't3', 'seed': int(rng.integers(1 << 30))}
    # the exactness hypotheses of the concrete-operator theorems on the tiny grid (Leibniz: moist only, degree <= 1)
    yield 'obligations', {'grid': 't4', 'seed': int(rng.integers(1 << 30)), 'lq': 1}


# ---------------------------------------------------------------------------
def coords_of(a):
    j = J()
    grid = grid_of(a.get('grid', 'g5'))
    vert = j['sc'].SigmaCoordinates(np.asarray(a['b'], dtype=np.float64))
    return grid, j['cs'].CoordinateSystem(grid, vert)


def A(z):
    z = np.asarray(z)
    return float(np.max(np.abs(z))) if z.size else 0.0


def pick_nodes(a, grid):
    nlon, nlat = grid.nodal_shape
    if int(a.get('nodes', -1)) < 0:
        return [(i, j) for i in range(nlon) for j in range(nlat)]
    rng = np.random.default_rng([int(a['seed']), 9])
    return [(int(rng.integers(nlon)), int(rng.integers(nlat))) for _ in range(int(a['nodes']))]


def r_corr(ctx, a):
    j = J(); pe = j['pe']; sh = j['sh']; specs = specs_of(a.get('phys', 'default'))
    grid, coords = coords_of(a)
    K = coords.vertical.layers; cls = a['cls']; va = int(a['va'])
    Tref = np.asarray(a['Tref'], dtype=np.float64)
    f = base_fields(a, grid, K)
    eq = make_eq(cls, Tref, f['oro'], coords, va, 'sparse' if a.get('sparse') else 'dense', a.get('how', 'float64'), a.get('phys', 'default'))
    Tp = f['Tdev'] + (250.0 - Tref)[:, None, None] * j['ones'][a.get('grid', 'g5')]
    state = make_state(cls, f['vort'], f['div'], Tp, f['lnps'], f['tracers'])
    st0 = pe.State(f['vort'], f['div'], Tp, f['lnps'], f['tracers'])
    aux = pe.compute_diagnostic_state(st0, coords)
    rec = []
    orig = sh.Grid.to_modal
    def rec_to_modal(self, z):
        rec.append(z)
        return orig(self, z)
    with mock.patch.object(sh.Grid, 'to_modal', rec_to_modal):
        eq.explicit_terms(state)
    names = sorted(f['tracers'])
    moist = cls in ('moist', 'cloud')
    order = ['combined_u', 'combined_v'] + (['hum_curl'] if moist else []) + ['kinetic'] \
        + (['hum_geo', 'hum_div'] if moist else []) + ['hsa_mu:T', 'hsa_mv:T']
    for n in names: order += ['hsa_mu:' + n, 'hsa_mv:' + n]
    order += ['temp_total', 'lnps'] + ['tracer_total:' + n for n in names]
    ctx.exact('number and order of to_modal calls in explicit_terms', len(rec), len(order))
    if len(rec) != len(order): return
    impl = {n: np.asarray(z) for n, z in zip(order, rec)}
    # pieces observed through the individual methods
    impl['udg'] = np.asarray(aux.u_dot_grad_log_sp)
    impl['sde'] = np.asarray(aux.sigma_dot_explicit); impl['sdf'] = np.asarray(aux.sigma_dot_full)
    tv = eq.nodal_temperature_vertical_tendency(aux)
    impl['temp_vertical'] = np.broadcast_to(np.asarray(tv, dtype=np.float64), (K,) + grid.nodal_shape)
    impl['temp_adiabatic'] = np.asarray(eq.nodal_temperature_adiabatic_tendency(aux))
    impl['lnps_m'] = np.asarray(eq.nodal_log_pressure_tendency(aux))
    # model inputs
    u, v = (np.asarray(t) for t in aux.cos_lat_u)
    gx, gy = (np.asarray(t) for t in aux.cos_lat_grad_log_sp)
    vort = np.asarray(aux.vorticity); dv = np.asarray(aux.divergence); tp = np.asarray(aux.temperature_variation)
    trn = {n: np.asarray(aux.tracers[n]) for n in names}
    sec2 = np.broadcast_to(np.asarray(grid.sec2_lat), grid.nodal_shape)
    fcor = np.broadcast_to(np.asarray(eq.coriolis_parameter), grid.nodal_shape)
    ls = np.log(coords.vertical.centers)
    th = coords.vertical.layer_thickness
    consts = [specs.R, specs.kappa, specs.R_vapor, specs.Cp_vapor]
    zeros = np.zeros((K,) + grid.nodal_shape)
    if moist:
        lap = np.asarray(grid.to_nodal(grid.laplacian(f['lnps'])))
        gq = [np.asarray(t) for t in grid.to_nodal(grid.cos_lat_grad(f['tracers'][QN], clip=False))]
        q = trn[QN]
    else:
        lap = np.zeros((1,) + grid.nodal_shape); gq = [zeros, zeros]; q = zeros
    qc = trn.get(QC, zeros); qi = trn.get(QI, zeros)
    # scales (bounds on the magnitude of the terms)
    cmin = float(np.min(coords.vertical.center_to_center)) if K > 1 else 1.0
    alpha = pe.get_sigma_ratios(coords.vertical)
    S2 = A(sec2); U = (A(u) * A(gx) + A(v) * A(gy)) * S2; G = A(dv) + U; SD = 2 * G
    VT = lambda w, x: w * 2 * x / cmin
    GP = 2 * A(alpha) * G / float(np.min(th))
    MF = 4.0 if moist else 1.0
    TT = A(Tref) + A(tp)
    S_ad = specs.kappa * TT * MF * (U + GP) + 1e-300
    S_vert = VT(SD, A(tp)) + VT(SD, A(Tref)) + 1e-300
    S_tot = A(tp) * A(dv) + S_vert + S_ad
    S_c = (A(u) + A(v)) * (A(vort) + A(fcor)) * S2 + (VT(SD, max(A(u), A(v))) + specs.R * A(tp) * MF * max(A(gx), A(gy))) * S2 + 1e-300
    scale = {'udg': U + 1e-300, 'sde': SD + 1e-300, 'sdf': SD + 1e-300, 'temp_vertical': S_vert, 'temp_adiabatic': S_ad,
             'lnps_m': U + 1e-300, 'lnps': U + 1e-300, 'temp_total': S_tot, 'combined_u': S_c, 'combined_v': S_c,
             'kinetic': (A(u) ** 2 + A(v) ** 2) * S2 + 1e-300, 'hsa_mu:T': A(u) * A(tp) * S2 + 1e-300, 'hsa_mv:T': A(v) * A(tp) * S2 + 1e-300}
    for n in names:
        scale['hsa_mu:' + n] = A(u) * A(trn[n]) * S2 + 1e-300; scale['hsa_mv:' + n] = A(v) * A(trn[n]) * S2 + 1e-300
        scale['tracer_total:' + n] = VT(SD, A(trn[n])) + A(trn[n]) * A(dv) + 1e-300
    dR = abs(specs.R_vapor - specs.R)
    scale['hum_curl'] = A(Tref) * dR * S2 * 2 * max(A(gx), A(gy)) * max(A(gq[0]), A(gq[1])) + 1e-300
    scale['hum_div'] = scale['hum_curl'] + A(q) * A(lap) * A(Tref) * dR + 1e-300
    scale['hum_geo'] = specs.R * A(alpha) * 2 * K * A(q) * TT * abs(specs.R_vapor / specs.R - 1) + 1e-300
    nodes = pick_nodes(a, grid)
    got = {n: [] for n in impl}; want = {n: [] for n in impl}
    ints = [K, va, int(bool(a.get('sparse')))]
    for (i, jn) in nodes:
        base = [ls, a['b'], Tref, consts, u[:, i, jn], v[:, i, jn], vort[:, i, jn], dv[:, i, jn], tp[:, i, jn],
                [gx[0, i, jn], gy[0, i, jn], sec2[i, jn], fcor[i, jn], lap[0, i, jn]], q[:, i, jn], qc[:, i, jn], qi[:, i, jn],
                gq[0][:, i, jn], gq[1][:, i, jn]]
        out = {}
        m0 = ctx.model.call(0, ints, base)
        out['udg'], out['sde'], out['sdf'] = m0[:K], m0[K:2 * K - 1] if K > 1 else [], m0[2 * K - 1:] if K > 1 else []
        m1 = ctx.model.call(1, ints, base)
        out['temp_vertical'], out['temp_adiabatic'], out['lnps_m'], tot_dry = m1[:K], m1[K:2 * K], m1[2 * K:2 * K + 1], m1[2 * K + 1:]
        out['lnps'] = out['lnps_m']
        m2 = ctx.model.call(2, ints, base)
        cu_dry, cv_dry, out['kinetic'] = m2[:K], m2[K:2 * K], m2[2 * K:]
        for n, arr_n in [('T', tp)] + [(n, trn[n]) for n in names]:
            bb = list(base); bb[10] = arr_n[:, i, jn]
            m3 = ctx.model.call(3, ints, bb)
            if n != 'T': out['tracer_total:' + n] = m3[:K]
            out['hsa_mu:' + n], out['hsa_mv:' + n] = m3[K:2 * K], m3[2 * K:]
        if moist:
            m4 = ctx.model.call(4, ints, base)
            out['temp_adiabatic'], out['temp_total'] = m4[:K], m4[K:2 * K]
            out['combined_u'], out['combined_v'] = m4[2 * K:3 * K], m4[3 * K:]
            if cls == 'cloud':
                m5 = ctx.model.call(5, ints, base)
                out['combined_u'], out['combined_v'] = m5[:K], m5[K:]
            m6 = ctx.model.call(6, ints, base)
            out['hum_div'], out['hum_geo'], out['hum_curl'] = m6[:K], m6[K:2 * K], m6[2 * K:]
        else:
            out['temp_total'] = tot_dry; out['combined_u'], out['combined_v'] = cu_dry, cv_dry
        for n in impl:
            col = impl[n][:, i, jn]
            got[n] += col.tolist(); want[n] += list(out[n])
    for n in impl:
        ctx.corr('nodal column: ' + n.split(':')[0], got[n], want[n], scale=scale[n if n in scale else n.split(':')[0]])
    # np.unique branch
    mu = ctx.model.call(9, ints, [ls, a['b'], Tref, consts])
    ctx.exact('np.unique(T_ref).size > 1', int(np.unique(eq.T_ref.ravel()).size > 1), int(mu[0]))
    ctx.count('tref_nonuniform:%d' % int(mu[0]))
    # implicit column operators on modal columns
    imp = eq.implicit_terms(state)
    lam = grid.laplacian_eigenvalues
    Hw = pe.get_temperature_implicit_weights(coords.vertical, Tref, specs.kappa)
    mw = ctx.model.call(10, ints, [ls, a['b'], Tref, consts])
    hs = specs.kappa * A(Tref) * 2 * A(alpha) / float(np.min(th)) + 2 * A(np.diff(Tref)) / (2 * float(np.min(th))) + 1e-300
    ctx.corr('get_temperature_implicit_weights', Hw, mw, scale=hs)
    rngc = np.random.default_rng([int(a['seed']), 11])
    mm, ll = np.nonzero(grid.mask)
    sel = range(len(mm)) if int(a.get('nodes', -1)) < 0 else rngc.choice(len(mm), size=min(4, len(mm)), replace=False)
    gi = []; wi = []; gl = []; wl = []; gd = []; wd = []
    for s in sel:
        m_, l_ = int(mm[s]), int(ll[s])
        base = [ls, a['b'], Tref, consts, [], [], [], f['div'][:, m_, l_], Tp[:, m_, l_], [f['lnps'][0, m_, l_]]]
        m8 = ctx.model.call(8, ints, base)
        gi += np.asarray(imp.temperature_variation)[:, m_, l_].tolist(); wi += m8[:K]
        gl += [float(np.asarray(imp.log_surface_pressure)[0, m_, l_])]; wl += m8[K:K + 1]
        gd += np.asarray(imp.divergence)[:, m_, l_].tolist(); wd += [-(p * util_fr(lam[l_])) for p in m8[K + 1:]]
    ctx.corr('implicit temperature column (-H.div)', gi, wi, scale=hs * K * A(f['div']) * 8 + 1e-300)
    ctx.corr('implicit lnps column', gl, wl, scale=A(f['div']) + 1e-300)
    ctx.corr('implicit divergence column', gd, wd,
             scale=A(lam) * (specs.R * A(alpha) * 2 * K * A(Tp) * 8 + specs.R * A(Tref) * A(f['lnps'])) + 1e-300)


def util_fr(x):
    from fractions import Fraction
    return Fraction(float(x))


def r_t_omega(ctx, a):
    j = J(); pe = j['pe']; specs = specs_of(a.get('phys', 'default'))
    K = int(a['K'])
    grid, coords = coords_of(a)
    rng = np.random.default_rng([int(a['seed']), 5])
    shape = (K,) + grid.nodal_shape
    Tf = util.small_rationals(rng, shape, 200 * 8, 300 * 8, 8)
    g = util.small_rationals(rng, shape); vg = util.small_rationals(rng, shape)
    eq = make_eq('dry', np.full(K, 250.0), np.zeros(grid.modal_shape), coords, phys=a.get('phys', 'default'))
    out = np.asarray(eq._t_omega_over_sigma_sp(Tf, g, vg))
    ls = np.log(coords.vertical.centers)
    al = pe.get_sigma_ratios(coords.vertical)
    sc_ = 300.0 * (2 + 2 * A(al) * 2 / float(np.min(coords.vertical.layer_thickness)))
    got = []; want = []
    for (i, jn) in [(0, 0), (3, 2), (11, 5)]:
        m = ctx.model.call(7, [K, 1, 0], [ls, a['b'], [0] * K, [specs.R, specs.kappa, 0, 0], Tf[:, i, jn], g[:, i, jn], vg[:, i, jn]])
        got += out[:, i, jn].tolist(); want += m
    ctx.corr('_t_omega_over_sigma_sp', got, want, scale=sc_)


# ---------------------------------------------------------------------------
# oracles: the property on the implementation
# ---------------------------------------------------------------------------
def totals(a, cloud=None):
    j = J(); pe = j['pe']
    grid, coords = coords_of(a)
    K = coords.vertical.layers; cls = a['cls']
    f = base_fields(a, grid, K)
    res = []
    for T, how in ((a['T1'], a.get('how1', 'float64')), (a['T2'], a.get('how2', 'float64'))):
        Tref = np.asarray(T, dtype=np.float64)
        eq = make_eq(cls, Tref, f['oro'], coords, a.get('va', 1), a.get('method'), how, a.get('phys', 'default'), a.get('vadv', 'centered'))
        Tp = f['Tdev'] + (250.0 - Tref)[:, None, None] * j['ones'][a.get('grid', 'g5')]
        st = make_state(cls, f['vort'], f['div'], Tp, f['lnps'], f['tracers'])
        e = eq.explicit_terms(st).asdict(); i = eq.implicit_terms(st).asdict()
        res.append((e, i))
    return grid, coords, f, res


def flat(d):
    out = {}
    for k, v in d.items():
        if isinstance(v, dict):
            for kk, vv in v.items(): out['tracers/' + kk] = np.asarray(vv, dtype=np.float64)
        else: out[k] = np.asarray(v, dtype=np.float64)
    return out


def r_oracle(ctx, a):
    grid, coords, f, res = totals(a)
    (e1, i1), (e2, i2) = [(flat(e), flat(i)) for e, i in res]
    for k in e1:
        sc_ = max(A(e1[k]), A(i1[k]), A(e2[k]), A(i2[k]), 1e-30)
        name = 'tracers' if k.startswith('tracers/') else k
        ctx.oracle_close('%s: explicit+implicit %s tendency is the same for two reference profiles' % (a['cls'], name),
                         e1[k] + i1[k], e2[k] + i2[k], scale=sc_)
    if a.get('batch'):
        # a tracer with a leading batch axis evolves slice by slice like the same tracer given alone
        grid0, coords0 = coords_of(a); K = coords0.vertical.layers
        for k in [k for k in e1 if k.startswith('tracers/tracer_')]:
            n = k.split('/')[1]
            for sl in range(f['tracers'][n].shape[0]):
                tr = dict(f['tracers']); tr[n] = f['tracers'][n][sl]
                Tref = np.asarray(a['T1'], dtype=np.float64)
                eq = make_eq(a['cls'], Tref, f['oro'], coords0, a.get('va', 1), a.get('method'), 'float64', a.get('phys', 'default'))
                Tp = f['Tdev'] + (250.0 - Tref)[:, None, None] * J()['ones'][a.get('grid', 'g5')]
                st = make_state(a['cls'], f['vort'], f['div'], Tp, f['lnps'], tr)
                es = flat(eq.explicit_terms(st).asdict())[k]
                ctx.oracle_close('tracer with a leading batch axis: each slice has the tendency of that tracer alone',
                                 e1[k][sl], es, scale=max(A(e1[k]), 1e-30))
    # the state is admissible and the test is not vacuous
    ctx.oracle('reference profiles differ (test not vacuous)', a['T1'] != a['T2'], None)


def r_cloud_nonzero(ctx, a):
    """Fixed case: the cloud class with non-zero condensate (known deviation on the pinned tree), and the sharper
    statement that the deviation is exactly the missing T_ref*(qc+qi) pressure-gradient term."""
    j = J(); specs = specs_of('default')
    aa = dict(a, cls='cloud', grid='g5', oro=1, ntr=0, va=1, lmax=2, amp=1.0)
    grid, coords, f, res = totals(aa)
    (e1, i1), (e2, i2) = [(flat(e), flat(i)) for e, i in res]
    ok = True; worst = {}
    for k in e1:
        sc_ = max(A(e1[k]), A(i1[k]), A(e2[k]), A(i2[k]), 1e-30)
        d = A((e1[k] + i1[k]) - (e2[k] + i2[k]))
        worst[k] = d / sc_
        if k not in ('vorticity', 'divergence'):
            ctx.oracle_close('cloud: explicit+implicit %s tendency is the same for two reference profiles'
                             % ('tracers' if k.startswith('tracers/') else k), e1[k] + i1[k], e2[k] + i2[k], scale=sc_)
        elif not d <= ctx.tol_rel * sc_:
            ok = False
    ctx.oracle(CLOUD_CLAUSE, ok, {'relative_deviation': worst})
    # predicted deviation: total(T1) - total(T2) = clip(-(curl, div)(to_modal(sec2 * R*(T1-T2)*(qc+qi) * cos_lat_grad lnps)))
    d = (np.asarray(a['T1']) - np.asarray(a['T2']))[:, None, None]
    qcn = np.asarray(grid.to_nodal(f['tracers'][QC])) + np.asarray(grid.to_nodal(f['tracers'][QI]))
    g = [np.asarray(t) for t in grid.to_nodal(grid.cos_lat_grad(f['lnps'], clip=False))]
    # rt(T_i) = R*(T - T_i)*(1 + mc - qc - qi); the moist corrections restore T_i*mc only
    mu = grid.to_modal(specs.R * d * qcn * g[0] * np.asarray(grid.sec2_lat))
    mv = grid.to_modal(specs.R * d * qcn * g[1] * np.asarray(grid.sec2_lat))
    pv = np.asarray(grid.clip_wavenumbers(-grid.curl_cos_lat((mu, mv), clip=False)))
    pd = np.asarray(grid.clip_wavenumbers(-grid.div_cos_lat((mu, mv), clip=False)))
    for k, p in (('vorticity', pv), ('divergence', pd)):
        sc_ = max(A(e1[k]), A(i1[k]), 1e-30)
        ctx.oracle_close('cloud: deviation of the %s tendency equals the missing T_ref*(qc+qi) pressure-gradient term' % k,
                         (e1[k] + i1[k]) - (e2[k] + i2[k]), p, scale=sc_)


# ---------------------------------------------------------------------------
# table obligations: hypotheses of the modal part of the theorem, on this grid
# ---------------------------------------------------------------------------
def r_obligations(ctx, a):
    j = J(); sh = j['sh']
    grid = grid_of(a['grid'])
    rng = np.random.default_rng([int(a['seed']), 6])
    L = grid.total_wavenumbers
    sec2 = np.asarray(grid.sec2_lat)
    tol = 2.0 ** -36
    clip = lambda x: np.asarray(grid.clip_wavenumbers(x))
    worst = {k: 0.0 for k in ('H_div_grad', 'H_curl_grad', 'lap_const', 'H_roundtrip', 'H_div_vel', 'H_curl_vel', 'H_leibniz', 'H_leibniz_curl')}
    for rep in range(6):
        phi = rand_modal(rng, grid, (2,), L - 2)
        gr = grid.cos_lat_grad(phi, clip=False)
        gn = [np.asarray(t) for t in grid.to_nodal(gr)]
        mu = grid.to_modal(gn[0] * sec2); mv = grid.to_modal(gn[1] * sec2)
        lap = np.asarray(grid.laplacian(phi)); s = A(lap) + 1e-300
        worst['H_div_grad'] = max(worst['H_div_grad'], A(clip(grid.div_cos_lat((mu, mv), clip=False)) - lap) / s)
        worst['H_curl_grad'] = max(worst['H_curl_grad'], A(clip(grid.curl_cos_lat((mu, mv), clip=False))) / s)
        one = np.asarray(grid.to_modal(np.ones(grid.nodal_shape) * float(rng.integers(1, 400))))
        worst['lap_const'] = max(worst['lap_const'], A(grid.laplacian(one)) / A(one))
        worst['H_roundtrip'] = max(worst['H_roundtrip'], A(clip(grid.to_modal(grid.to_nodal(phi))) - phi) / A(phi))
        vort = rand_modal(rng, grid, (2,), L - 2, True); dv = rand_modal(rng, grid, (2,), L - 2, True)
        uv = [np.asarray(grid.to_nodal(t)) for t in sh.get_cos_lat_vector(vort, dv, grid, clip=False)]
        mu = grid.to_modal(uv[0] * sec2); mv = grid.to_modal(uv[1] * sec2)
        worst['H_div_vel'] = max(worst['H_div_vel'], A(clip(grid.div_cos_lat((mu, mv), clip=False)) - dv) / A(dv))
        worst['H_curl_vel'] = max(worst['H_curl_vel'], A(clip(grid.curl_cos_lat((mu, mv), clip=False)) - vort) / A(vort))
        # Leibniz on the nodal side: div(sec2 * q * grad phi) = q lap phi + sec2 * grad q . grad phi
        lq = int(a.get('lq', L - 2))       # degree of q and lnps in the Leibniz check (products must be alias-free on the grid)
        q = rand_modal(rng, grid, (2,), lq)
        if lq < L - 2:
            phi = rand_modal(rng, grid, (2,), lq); gn = [np.asarray(t) for t in grid.to_nodal(grid.cos_lat_grad(phi, clip=False))]
            lap = np.asarray(grid.laplacian(phi))
        qn = np.asarray(grid.to_nodal(q)); gq = [np.asarray(t) for t in grid.to_nodal(grid.cos_lat_grad(q, clip=False))]
        mu = grid.to_modal(qn * gn[0] * sec2); mv = grid.to_modal(qn * gn[1] * sec2)
        rhs = grid.to_modal(qn * np.asarray(grid.to_nodal(lap)) + sec2 * (gq[0] * gn[0] + gq[1] * gn[1]))
        s2 = A(rhs) + 1e-300
        worst['H_leibniz'] = max(worst['H_leibniz'], A(clip(grid.div_cos_lat((mu, mv), clip=False)) - clip(rhs)) / s2)
        rhsc = grid.to_modal(sec2 * (gq[0] * gn[1] - gq[1] * gn[0]))
        worst['H_leibniz_curl'] = max(worst['H_leibniz_curl'], A(clip(grid.curl_cos_lat((mu, mv), clip=False)) - clip(rhsc)) / s2)
    # tables recomputed independently of the implementation
    one = np.asarray(grid.to_modal(np.ones(grid.nodal_shape)))
    ctx.table_obligation('to_modal(1) = 2 sqrt(pi) at (0,0), zero elsewhere, on grid %s' % a['grid'],
                         A(one - j['ones'][a['grid']]) <= tol * 64 * 4, {'error': A(one - j['ones'][a['grid']])})
    mu, _w = np.polynomial.legendre.leggauss(grid.latitude_nodes)
    s2 = 1.0 / (1.0 - np.sort(mu) ** 2)
    ctx.table_obligation('sec2_lat = 1/(1-mu^2) at the Gauss nodes, on grid %s' % a['grid'],
                         A(np.sort(sec2.ravel()) - np.sort(s2)) <= tol * A(s2), {'error': A(np.sort(sec2.ravel()) - np.sort(s2))})
    for k, w in worst.items():
        ctx.table_obligation('%s on grid %s (clipped fields, l <= L-2)' % (k, a['grid']), w <= tol * 64, {'relative_error': w})


def r_object_reuse(ctx, a):
    """State carried across calls: one equation object is evaluated with profile A, then its public field
    `reference_temperature` is re-bound (and, separately, overwritten in place / dataclasses.replace'd) to B;
    every tendency must equal that of a freshly constructed object with B, and explicit+implicit must still
    be the one of the same atmosphere."""
    import dataclasses
    j = J()
    grid, coords = coords_of(a)
    K = coords.vertical.layers; cls = a['cls']
    f = base_fields(a, grid, K)
    TA = np.asarray(a['TA'], dtype=np.float64); TB = np.asarray(a['TB'], dtype=np.float64)
    def ev(eq, Tref):
        Tp = f['Tdev'] + (250.0 - Tref)[:, None, None] * j['ones'][a.get('grid', 'g5')]
        st = make_state(cls, f['vort'], f['div'], Tp, f['lnps'], f['tracers'])
        return flat(eq.explicit_terms(st).asdict()), flat(eq.implicit_terms(st).asdict())
    fresh = ev(make_eq(cls, TB, f['oro'], coords, phys=a.get('phys', 'default')), TB)
    variants = {}
    eq = make_eq(cls, TA, f['oro'], coords, phys=a.get('phys', 'default')); first = ev(eq, TA)
    eq.reference_temperature = present_profile(TB); variants['re-assigned field'] = ev(eq, TB)
    eq = make_eq(cls, TA, f['oro'], coords, phys=a.get('phys', 'default')); ev(eq, TA)
    eq.reference_temperature[:] = TB; variants['in-place overwritten field'] = ev(eq, TB)
    eq = make_eq(cls, TA, f['oro'], coords, phys=a.get('phys', 'default')); ev(eq, TA)
    variants['dataclasses.replace'] = ev(dataclasses.replace(eq, reference_temperature=present_profile(TB)), TB)
    eq = make_eq(cls, TA, f['oro'], coords, phys=a.get('phys', 'default')); ev(eq, TA)
    eq.reference_temperature = present_profile(TB); ev(eq, TB)
    eq.reference_temperature = present_profile(TA); variants_back = ev(eq, TA)
    # purity: the same object evaluated again after other objects were used gives bit-identical results
    eqp = make_eq(cls, TA, f['oro'], coords, phys=a.get('phys', 'default')); p1 = ev(eqp, TA)
    ev(make_eq(cls, TB, f['oro'], coords, phys=a.get('phys', 'default')), TB); p2 = ev(eqp, TA)
    same = all(np.array_equal(p1[h][k], p2[h][k]) for h in (0, 1) for k in p1[h])
    ctx.oracle('object reuse: repeated evaluation interleaved with another object is bit-identical', same, None)
    for name, (e, i) in variants.items():
        for k in e:
            sc_ = max(A(fresh[0][k]), A(fresh[1][k]), 1e-30)
            fld = 'tracers' if k.startswith('tracers/') else k
            ctx.oracle_close('object reuse (%s): explicit %s tendency equals a freshly constructed object' % (name, fld), e[k], fresh[0][k], scale=sc_)
            ctx.oracle_close('object reuse (%s): implicit %s tendency equals a freshly constructed object' % (name, fld), i[k], fresh[1][k], scale=sc_)
            ctx.oracle_close('object reuse (%s): explicit+implicit %s tendency is the same as with the first profile' % (name, fld),
                             e[k] + i[k], first[0][k] + first[1][k], scale=max(sc_, A(first[0][k]), A(first[1][k])))
    for k in first[0]:
        sc_ = max(A(first[0][k]), A(first[1][k]), 1e-30)
        fld = 'tracers' if k.startswith('tracers/') else k
        ctx.oracle_close('object reuse (re-assigned back): explicit %s tendency equals the first evaluation' % fld, variants_back[0][k], first[0][k], scale=sc_)
        ctx.oracle_close('object reuse (re-assigned back): implicit %s tendency equals the first evaluation' % fld, variants_back[1][k], first[1][k], scale=sc_)
    ctx.oracle('reference profiles differ (test not vacuous)', a['TA'] != a['TB'], None)


def r_jit_order(ctx, a):
    """Two equation objects differing only in the reference profile, traced with jax.jit in the same process in the
    order 1, 2, 1: jitted explicit+implicit equals the eager evaluation, the third call is bit-identical to the
    first, and the split invariance holds between the jitted totals."""
    jax = util.setup_jax()
    j = J()
    grid, coords = coords_of(a)
    K = coords.vertical.layers; cls = a['cls']
    f = base_fields(a, grid, K)
    outs = []; eager = []
    for T in (a['T1'], a['T2'], a['T1']):
        Tref = np.asarray(T, dtype=np.float64)
        eq = make_eq(cls, Tref, f['oro'], coords, phys=a.get('phys', 'default'))
        Tp = f['Tdev'] + (250.0 - Tref)[:, None, None] * j['ones'][a.get('grid', 'g5')]
        st = make_state(cls, f['vort'], f['div'], Tp, f['lnps'], f['tracers'])
        fn = jax.jit(lambda s_, eq=eq: eq.explicit_terms(s_) + eq.implicit_terms(s_))
        outs.append(flat(fn(st).asdict()))
        e = flat(eq.explicit_terms(st).asdict()); i = flat(eq.implicit_terms(st).asdict())
        eager.append(({k: e[k] + i[k] for k in e}, {k: max(A(e[k]), A(i[k]), 1e-30) for k in e}))
    for k in outs[0]:
        fld = 'tracers' if k.startswith('tracers/') else k
        sc_ = max(eager[0][1][k], eager[1][1][k])
        for n in range(3):
            ctx.oracle_close('jit: jitted explicit+implicit %s tendency equals the eager evaluation' % fld, outs[n][k], eager[n][0][k], scale=sc_)
        ctx.oracle('jit: evaluation order 1,2,1 - third call bit-identical to the first (%s)' % fld, np.array_equal(outs[0][k], outs[2][k]), None)
        ctx.oracle_close('jit: explicit+implicit %s tendency is the same for two reference profiles' % fld, outs[0][k], outs[1][k], scale=sc_)



# ---------------------------------------------------------------------------
# whole-state correspondence: the END-TO-END executable model (Model/PrimEqFull.v) against
# compute_diagnostic_state / explicit_terms / implicit_terms / implicit_inverse on a tiny real grid
# ---------------------------------------------------------------------------
TINY = {'t3': dict(longitude_wavenumbers=2, total_wavenumbers=3, longitude_nodes=4, latitude_nodes=3),
        't4': dict(longitude_wavenumbers=3, total_wavenumbers=4, longitude_nodes=8, latitude_nodes=4),
        't5': dict(longitude_wavenumbers=4, total_wavenumbers=5, longitude_nodes=12, latitude_nodes=6)}


def tiny_grid(name):
    j = J()
    key = 'tiny_' + name
    if key not in j['grids']:
        j['grids'][key] = j['sh'].Grid(spherical_harmonics_impl=j['sh'].RealSphericalHarmonics, **TINY[name])
    return j['grids'][key]


def ws_state(a, grid, K):
    """deterministic whole state: coefficients are small dyadic rationals (keeps the exact model affordable)"""
    rng = np.random.default_rng([int(a['seed']), 21])
    L = grid.total_wavenumbers
    lmax = int(a.get('lmax', L - 2))
    q = float(a.get('quant', 64))
    def fld(lead, zero_mean, scale):
        x = np.round(rand_modal(rng, grid, lead, lmax, zero_mean, 1.0) * q) / q * scale
        return x
    f = dict(vort=fld((K,), True, 1.0), div=fld((K,), True, 1.0), Tdev=fld((K,), False, 16.0), lnps=fld((1,), False, 0.125),
             oro=fld((), False, 1.0 / 64) if a.get('oro') else np.zeros(grid.modal_shape))
    f['tracers'] = {'tracer_%d' % n: fld((K,), False, 1.0) for n in range(int(a.get('ntr', 0)))}
    cls = a.get('cls', 'dry')
    if cls in ('moist', 'cloud'):
        # humidity (and lnps where requested) restricted to degree <= qlmax: the moist classes are claimed where the
        # Leibniz obligation holds on the grid
        ql = int(a.get('qlmax', lmax)); lcut = (np.arange(grid.modal_shape[1]) <= ql)[None, :]
        f['tracers'][QN] = fld((K,), False, 1.0 / 64) * lcut
        if 'qlmax' in a: f['lnps'] = f['lnps'] * lcut
        if cls == 'cloud':
            cl = float(a.get('cloud', 0.0))
            f['tracers'][QC] = fld((K,), False, 1.0 / 64) * lcut * (1.0 if cl else 0.0)
            f['tracers'][QI] = fld((K,), False, 1.0 / 64) * lcut * (1.0 if cl else 0.0)
    return f


def ws_names(a, f):
    """tracer order of the model: specific_humidity, cloud liquid, cloud ice, then the passive tracers"""
    cls = a.get('cls', 'dry')
    lead = [QN] if cls == 'moist' else [QN, QC, QI] if cls == 'cloud' else []
    return lead + sorted(n for n in f['tracers'] if n not in lead)


def flat_state(st, names):
    d = st.asdict()
    out = [np.asarray(d['vorticity'], dtype=np.float64), np.asarray(d['divergence'], dtype=np.float64),
           np.asarray(d['temperature_variation'], dtype=np.float64), np.asarray(d['log_surface_pressure'], dtype=np.float64)]
    return out + [np.asarray(d['tracers'][n], dtype=np.float64) for n in names]


def split_state(m, K, R, L, ntr):
    """model output list -> [vort, div, temp, lnps, tracers...] as flat lists"""
    n3 = K * R * L
    cuts = [n3, n3, n3, R * L] + [n3] * ntr
    out = []; pos = 0
    for c in cuts:
        out.append(m[pos:pos + c]); pos += c
    assert pos == len(m)
    return out


def r_whole_state(ctx, a):
    j = J(); pe = j['pe']; sh = j['sh']; specs = specs_of(a.get('phys', 'default'))
    grid = tiny_grid(a['tgrid'])
    vert = j['sc'].SigmaCoordinates(np.asarray(a['b'], dtype=np.float64))
    coords = j['cs'].CoordinateSystem(grid, vert)
    K = vert.layers; cls = a.get('cls', 'dry'); moist = cls in ('moist', 'cloud')
    M, L = grid.longitude_wavenumbers, grid.total_wavenumbers
    I, Jn = grid.nodal_shape; R = grid.modal_shape[0]
    basis = grid.spherical_harmonics.basis
    tf, tp, tw = np.asarray(basis.f), np.asarray(basis.p), np.asarray(basis.w)
    ta, tb = (np.asarray(t) for t in grid._derivative_recurrence_weights)
    sec2 = np.asarray(grid.sec2_lat); sin_lat = np.asarray(grid.nodal_axes[1])
    ok_shapes = (grid.modal_shape == (2 * M - 1, L) and tf.shape == (I, R) and tp.shape == (R, Jn, L) and tw.shape == (Jn,)
                 and ta.shape == (R, L) and tb.shape == (R, L) and sec2.shape == (Jn,) and sin_lat.shape == (Jn,))
    ctx.exact('whole state: table shapes of the reference layout', bool(ok_shapes), True)
    if not ok_shapes: return
    f = ws_state(a, grid, K)
    names = ws_names(a, f); ntr = len(names)
    one = np.zeros(grid.modal_shape); one[0, 0] = 2.0 * np.sqrt(np.pi)
    # named table hypothesis H_one of C04_whole_state_split_invariance: to_nodal(onem00 v00) = 1 on the node range
    err1 = A(np.asarray(grid.to_nodal(one)) - 1.0)
    ctx.table_obligation('H_one: to_nodal of the (0,0)-only spectrum 2 sqrt(pi) is the constant one, on grid %s' % a['tgrid'],
                         err1 <= 2.0 ** -36, {'error': err1})
    ls = np.log(vert.centers)
    eta = float(a.get('eta', 0.5))
    ints = [M, L, I, Jn, K, ntr, int(cls == 'cloud')]
    Tbase = float(a.get('Tbase', 250.0))
    # gains of the linear operators (rigorous bounds for the comparison scales)
    GM = float(np.max(np.einsum('j,ia,ajl->al', np.abs(tw), np.abs(tf), np.abs(tp))))       # |to_modal z| <= GM max|z|
    GN = float(np.max(np.einsum('ia,ajl->ij', np.abs(tf), np.abs(tp))))                     # |to_nodal x| <= GN max|x|
    GD = ((L + 2) * (A(ta) + A(tb)) + M) / grid.radius                                      # derivative operators
    lam = np.asarray(grid.laplacian_eigenvalues)
    th = vert.layer_thickness
    alpha = pe.get_sigma_ratios(vert)
    cmin = float(np.min(vert.center_to_center)) if K > 1 else 1.0
    profiles = [a['T1'], a['T2']]
    totals_ = []
    for pi, T in enumerate(profiles):
        Tref = np.asarray(T, dtype=np.float64)
        eq = {'dry': pe.PrimitiveEquations, 'moist': pe.MoistPrimitiveEquations,
              'cloud': pe.MoistPrimitiveEquationsWithCloudMoisture}[cls](Tref, f['oro'], coords, specs)
        Tp = f['Tdev'] + (Tbase - Tref)[:, None, None] * one
        st = pe.State(f['vort'], f['div'], Tp, f['lnps'], dict(f['tracers'])) if cls == 'dry' else \
            pe.StateWithTime(f['vort'], f['div'], Tp, f['lnps'], 0.25, dict(f['tracers']))
        e = eq.explicit_terms(st); im = eq.implicit_terms(st)
        fe = flat_state(e, names); fi = flat_state(im, names)
        totals_.append((fe, fi))
        if pi >= int(a.get('model_profiles', 1)): continue
        tr_flat = np.concatenate([f['tracers'][n].ravel() for n in names]) if names else []
        base = [tf.ravel(), tp.ravel(), tw, ta.ravel(), tb.ravel(), sec2, sin_lat,
                [grid.radius, specs.angular_velocity, specs.g, specs.R, specs.kappa, eta, specs.R_vapor, specs.Cp_vapor], ls, a['b'], Tref, f['oro'].ravel(),
                f['vort'].ravel(), f['div'].ravel(), Tp.ravel(), f['lnps'].ravel(), tr_flat]
        aux = pe.compute_diagnostic_state(pe.State(f['vort'], f['div'], Tp, f['lnps'], dict(f['tracers'])), coords)
        u, v = (np.asarray(t) for t in aux.cos_lat_u)
        gx, gy = (np.asarray(t)[0] for t in aux.cos_lat_grad_log_sp)
        nod = [np.asarray(aux.vorticity), np.asarray(aux.divergence), np.asarray(aux.temperature_variation), u, v, gx, gy] \
            + [np.asarray(aux.tracers[n]) for n in names]
        # ---- scales: bounds on the magnitude of the terms of each output ----
        S2 = A(sec2); fc = 2 * abs(specs.angular_velocity)
        U = (A(u) * A(gx) + A(v) * A(gy)) * S2; G = A(nod[1]) + U; SD = 2 * G
        VT = lambda w_, x_: w_ * 2 * x_ / cmin
        GP = 2 * A(alpha) * G / float(np.min(th))
        TT = A(Tref) + A(nod[2])
        S_ad = specs.kappa * TT * (U + GP)
        S_tot = A(nod[2]) * A(nod[1]) + VT(SD, A(nod[2])) + VT(SD, A(Tref)) + S_ad
        S_c = (A(u) + A(v)) * (A(nod[0]) + fc) * S2 + (VT(SD, max(A(u), A(v))) + specs.R * A(nod[2]) * max(A(gx), A(gy))) * S2
        S_ke = (A(u) ** 2 + A(v) ** 2) * S2
        S_hs = lambda x_: max(A(u), A(v)) * x_ * S2
        sc_e = [GM * S_c * GD, GM * S_c * GD + GM * S_ke * A(lam) + specs.g * A(f['oro']) * A(lam),
                GM * (S_tot + S_hs(A(nod[2])) * GD), GM * U] \
            + [GM * (VT(SD, A(nod[7 + n])) + A(nod[7 + n]) * A(nod[1]) + S_hs(A(nod[7 + n])) * GD) for n in range(ntr)]
        if moist:
            # virtual-temperature factors and the humidity corrections
            qa = A(nod[7]); dR = abs(specs.R_vapor - specs.R); gq = GN * GD * A(f['tracers'][QN])
            lapn = GN * A(lam) * A(f['lnps'])
            h_curl = A(Tref) * dR * S2 * 2 * max(A(gx), A(gy)) * gq
            h_div = h_curl + qa * lapn * A(Tref) * dR
            h_geo = specs.R * A(alpha) * 2 * K * qa * TT * abs(specs.R_vapor / specs.R - 1)
            sc_e[0] = 4 * sc_e[0] + GM * h_curl
            sc_e[1] = 4 * sc_e[1] + GM * (h_div + h_geo * A(lam))
            sc_e[2] = 4 * sc_e[2]
        sc_e = [s_ + 1e-300 for s_ in sc_e]
        hs = specs.kappa * A(Tref) * 2 * A(alpha) / float(np.min(th)) + 2 * A(np.diff(Tref)) / (2 * float(np.min(th))) + 1e-300
        sc_i = [1.0, A(lam) * (specs.R * A(alpha) * 2 * K * A(Tp) * 8 + specs.R * A(Tref) * A(f['lnps'])) + 1e-300,
                hs * K * A(f['div']) * 8 + 1e-300, A(f['div']) + 1e-300] + [1.0] * ntr
        fields = ['vorticity', 'divergence', 'temperature_variation', 'log_surface_pressure'] + ['tracer'] * ntr
        mode = a.get('mode', 'full')
        # ---- stage A: compute_diagnostic_state ----
        if mode in ('staged', 'both') and not moist:
            md = ctx.model.call(23, ints, base)
            n3 = K * I * Jn
            cuts = [n3] * 5 + [I * Jn] * 2 + [n3] * ntr
            nsc = [GN * A(f['vort']), GN * A(f['div']), GN * A(Tp), GN * GD * (A(f['vort']) + A(f['div'])),
                   GN * GD * (A(f['vort']) + A(f['div'])), GN * GD * A(f['lnps']), GN * GD * A(f['lnps'])] + [GN * A(f['tracers'][n]) for n in names]
            nn = ['vorticity', 'divergence', 'temperature_variation', 'cos_lat_u[0]', 'cos_lat_u[1]', 'cos_lat_grad_log_sp[0]',
                  'cos_lat_grad_log_sp[1]'] + ['tracer'] * ntr
            pos = 0
            for arr_, c_, s_, n_ in zip(nod, cuts, nsc, nn):
                ctx.corr('whole state: compute_diagnostic_state ' + n_, arr_, md[pos:pos + c_], scale=s_ + 1e-300); pos += c_
            # ---- stage B: explicit_terms from the implementation's own diagnostic state ----
            bb = base[:12] + [x_.ravel() for x_ in nod[:7]] + [np.concatenate([x_.ravel() for x_ in nod[7:]]) if ntr else []]
            mb = split_state(ctx.model.call(24, ints, bb), K, R, L, ntr)
            for x_, y_, s_, n_ in zip(fe, mb, sc_e, fields):
                ctx.corr('whole state (from the diagnostic state): explicit_terms ' + n_, x_, y_, scale=s_)
        # ---- fully composed: state -> explicit_terms ----
        if mode in ('full', 'both') or moist:
            me = split_state(ctx.model.call(26 if moist else 20, ints, base), K, R, L, ntr)
            for x_, y_, s_, n_ in zip(fe, me, sc_e, fields):
                ctx.corr('whole state (composed): explicit_terms ' + n_, x_, y_, scale=s_)
                ctx.exact('whole state: explicit_terms %s exactly zero at the clipped total wavenumber' % n_,
                          bool(np.all(x_[..., -1] == 0)), all(v_ == 0 for v_ in np.asarray(y_, dtype=object).reshape(x_.shape)[..., -1].ravel()))
        mi = split_state(ctx.model.call(21, ints, base), K, R, L, ntr)
        for x_, y_, s_, n_ in zip(fi, mi, sc_i, fields):
            ctx.corr('whole state: implicit_terms ' + n_, x_, y_, scale=s_)
        # ---- implicit_inverse, both signs of the step; np.linalg.inv is an input table of the model ----
        for sgn in ((1.0, -1.0) if cls == 'dry' else ()):
            step = sgn * eta
            mat = pe._get_implicit_term_matrix(step, coords, Tref, specs.kappa, specs.R)
            inv = np.linalg.inv(mat)
            bi = list(base); bi[7] = base[7][:5] + [step]
            mm = ctx.model.call(25, ints, bi)
            ctx.corr('whole state: _get_implicit_term_matrix (step %+g)' % step, mat, mm, scale=A(mat))
            res = max(A(np.einsum('lij,ljk->lik', inv, mat) - np.eye(2 * K + 1)), A(np.einsum('lij,ljk->lik', mat, inv) - np.eye(2 * K + 1)))
            ctx.table_obligation('np.linalg.inv(implicit_matrix) is a two-sided inverse on grid %s, K=%d' % (a['tgrid'], K),
                                 res <= 2.0 ** -36 * max(1.0, A(inv) * A(mat)), {'residual': res})
            out = flat_state(eq.implicit_inverse(st, step), names)
            mo = split_state(ctx.model.call(22, ints, bi + [inv.ravel()]), K, R, L, ntr)
            sv = A(inv) * (2 * K + 1) * max(A(f['div']), A(Tp), A(f['lnps']))
            sc_v = [A(f['vort']) + 1e-300, sv, sv, sv] + [A(f['tracers'][n]) + 1e-300 for n in names]
            for x_, y_, s_, n_ in zip(out, mo, sc_v, fields):
                ctx.corr('whole state: implicit_inverse %s (step %+g)' % (n_, step), x_, y_, scale=s_)
            # the resolvent identity on the implementation: inverse(x - step * implicit_terms(x)) = x
            back = flat_state(eq.implicit_inverse(st - step * im, step), names)
            for x_, y_, s_, n_ in zip(back, flat_state(st, names), sc_v, fields):
                ctx.oracle_close('whole state: implicit_inverse(x - eta*implicit_terms(x), eta) = x (%s)' % n_, x_, y_, scale=s_)
    # ---- the property on the whole-state outputs ----
    (e1, i1), (e2, i2) = totals_
    fields = ['vorticity', 'divergence', 'temperature_variation', 'log_surface_pressure'] + ['tracers'] * ntr
    for k, n_ in enumerate(fields):
        sc_ = max(A(e1[k]), A(i1[k]), A(e2[k]), A(i2[k]), 1e-30)
        if cls == 'cloud' and a.get('cloud') and n_ in ('vorticity', 'divergence'): continue      # known finding (runner cloud_nonzero)
        ctx.oracle_close('%s: explicit+implicit %s tendency is the same for two reference profiles' % (cls, n_), e1[k] + i1[k], e2[k] + i2[k], scale=sc_)
    ctx.oracle('reference profiles differ (test not vacuous)', a['T1'] != a['T2'], None)
    ctx.count('whole_state:%s %s K=%d ntr=%d oro=%d %s' % (cls, a['tgrid'], K, ntr, int(bool(a.get('oro'))), a.get('mode', 'full')))


RUNNERS = {'whole_state': r_whole_state, 'jit_order': r_jit_order, 'object_reuse': r_object_reuse, 'corr': r_corr, 't_omega': r_t_omega, 'oracle': r_oracle, 'cloud_nonzero': r_cloud_nonzero,
           'obligations': r_obligations}
