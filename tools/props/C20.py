"""C20 - physical forcings: correspondence of Model/Forcings.v with
dinosaur.radiation / dinosaur.held_suarez, and the property's own clauses
evaluated on the implementation.

Transcendentals: cos/sin are passed to the extracted model as finite tables
(exact rational argument -> numpy value); the arguments are obtained from the
model itself (staged calls), so the model decides *where* cos/sin are taken.
exp / log / p**kappa of the Held-Suarez part are handled the same way."""
import datetime, math
import numpy as np
from fractions import Fraction
from harness import util

THEOREMS = ['C20_gen_constants_complete', 'C20_source_formulas_match_model', 'C20_flux_zero_at_night_any_field',
            'C20_source_constants_ordered', 'C20_sin_altitude_le_1', 'C20_flux_nonneg', 'C20_flux_le_perihelion',
            'C20_flux_bounds_source_constants', 'C20_flux_zero_at_night', 'C20_flux_pos_by_day', 'C20_flux_periodic',
            'C20_flux_wrap_invariant', 'C20_flux_time_periodic', 'C20_normalized_in_unit_interval',
            'C20_normalized_is_scaled', 'C20_hs_kv_nonneg', 'C20_hs_kv_zero_above_boundary_layer', 'C20_hs_kt_ge_ka',
            'C20_hs_kt_le_ks', 'C20_hs_teq_ge_minT', 'C20_hs_drag_through_wind', 'C20_hs_drag_linear',
            'C20_hs_drag_zero_above_boundary_layer', 'C20_hs_temperature_tendency_is_relaxation',
            'C20_hs_nodal_dissipative', 'C20_hs_lnps_tendency_zero', 'C20_hs_rates_R', 'C20_night_and_day_exist',
            'C20_hs_hyps_satisfiable']
LEVEL = 'proof'
LEVEL_TEXT = ('machine-checked theorems (Coq): over the reals with cos/sin/PI, for all phases, longitudes, latitudes and '
              'all 0<=V<=S (shown for the constants regenerated from the source): |sin altitude|<=1, 0<=flux<=S+V, flux '
              'exactly 0 at night and >0 by day, invariance under whole turns of either phase, under the phase wrap and '
              'under time shifts by common periods, normalised flux in [0,1]; for every ordered field, grid, state and '
              'parameter set: kv>=0, kv=0 above the boundary layer, ka<=kt<=ks, Teq>=minT, vorticity/divergence tendencies '
              '= -kv times the wind round trip (= -kv*(vor,div) under H_uv_roundtrip), zero drag above the boundary '
              'layer, temperature tendency = to_modal(-kt (T-Teq)), lnps tendency 0; the source formulas are '
              're-transcribed on every run and proved equal to the model; the model is executed (extraction) against '
              'the implementation. NOT proved: global mean = S/4 up to quadrature error (explored numerically)')
LEVEL_NOTE = ('theorems are about the Gallina model Model/Forcings.v; cos/sin/exp/log/pow enter the executable model as '
              'tables evaluated by numpy at the model\'s exact arguments; horizontal operators enter as matrices '
              'obtained from the implementation (C02/C04 are responsible for them); H_uv_roundtrip is a table obligation')

PI = Fraction(math.pi)
TWO_PI = 2 * PI
GRIDS = {'g8x4': dict(longitude_wavenumbers=3, total_wavenumbers=4, longitude_nodes=8, latitude_nodes=4),
         'g12x6': dict(longitude_wavenumbers=4, total_wavenumbers=5, longitude_nodes=12, latitude_nodes=6),
         'g16x8': dict(longitude_wavenumbers=6, total_wavenumbers=7, longitude_nodes=16, latitude_nodes=8),
         # grids whose first longitude is not 0: the flux must be evaluated at the grid's ACTUAL nodes
         'g12x6o': dict(longitude_wavenumbers=4, total_wavenumbers=5, longitude_nodes=12, latitude_nodes=6, longitude_offset=0.7),
         'g8x4w': dict(longitude_wavenumbers=3, total_wavenumbers=4, longitude_nodes=8, latitude_nodes=4, longitude_offset=-3.0)}
REFS = {'wb': (1979, 1, 1, 0, 0), 'leap_end': (2000, 12, 31, 23, 59), 'feb29': (1980, 2, 29, 12, 30), 'mid': (2015, 7, 4, 6, 7)}

_jax = None
def J():
    global _jax
    if _jax is None:
        util.setup_jax()
        import jax.numpy as jnp
        from dinosaur import (radiation, held_suarez, spherical_harmonic, coordinate_systems, sigma_coordinates,
                              primitive_equations, scales)
        _jax = dict(jnp=jnp, rad=radiation, hs=held_suarez, sh=spherical_harmonic, cs=coordinate_systems,
                    sc=sigma_coordinates, pe=primitive_equations, units=scales.units,
                    specs=primitive_equations.PrimitiveEquationsSpecs.from_si())
    return _jax


_cache = {}
def grid_of(name):
    if ('grid', name) not in _cache:
        j = J()
        _cache['grid', name] = getattr(j['sh'].Grid, name)() if name.startswith('T') else j['sh'].Grid(**GRIDS[name])
    return _cache['grid', name]


def solar_of(gname, ref, normalized=False):
    k = ('solar', gname, ref, normalized)
    if k not in _cache:
        j = J()
        coords = j['cs'].CoordinateSystem(grid_of(gname), j['sc'].SigmaCoordinates.equidistant(2))
        cls = j['rad'].SolarRadiation
        dt = datetime.datetime(*REFS[ref])
        _cache[k] = (cls.normalized if normalized else cls)(coords, j['specs'], dt)
    return _cache[k]


class Trig:
    """cos/sin tables keyed by exact argument."""
    def __init__(self): self.c = {}; self.s = {}
    def cos(self, *qs):
        for q in qs: self.c.setdefault(Fraction(q), float(np.cos(float(q))))
    def sin(self, *qs):
        for q in qs: self.s.setdefault(Fraction(q), float(np.sin(float(q))))
    def arrs(self, *rest):
        return [list(self.c.keys()), list(self.c.values()), list(self.s.keys()), list(self.s.values())] + [list(r) for r in rest]


def model_flux_tables(ctx, T, op, syn, lons, lats, S, V, check=None):
    """Stages 1-2: fill the tables for (op, syn, lons, lats); returns (dec, eot, hour angles) of the model."""
    sc = [PI, S, V, op, syn]
    a0, b, b2 = ctx.model.call(1, [], T.arrs(sc))
    T.cos(a0, b); T.sin(b, b2)
    m2 = ctx.model.call(2, [], T.arrs(sc, lons))
    dec, eot, hs = m2[0], m2[1], m2[2:]
    T.cos(dec, *hs, *lats); T.sin(dec, *lats)
    return dec, eot, hs


# ---------------------------------------------------------------------------
def generate(ctx):
    rng = ctx.rng
    quick = ctx.tier == 'quick'
    yield 'constants', {}
    # function level: arbitrary phases (incl. negative, large, exact multiples), points incl. poles
    n = 10 if quick else 60
    for i in range(n):
        kind = i % 5
        if kind == 0: op, syn = float(rng.uniform(0, 2 * np.pi)), float(rng.uniform(0, 2 * np.pi))
        elif kind == 1: op, syn = float(rng.uniform(-40, 40)), float(rng.uniform(-400, 400))
        elif kind == 2: op, syn = float(2 * np.pi * rng.integers(-3, 4)), float(np.pi * rng.integers(-4, 5))
        elif kind == 3: op, syn = float(rng.uniform(0, 7)), 0.0
        else: op, syn = float(rng.uniform(-7, 0)), float(rng.uniform(0, 7))
        nl = 5 if quick else 8
        lons = rng.uniform(-np.pi, 3 * np.pi, nl).tolist() + [0.0]
        lats = np.concatenate([rng.uniform(-np.pi / 2, np.pi / 2, nl - 2), [-np.pi / 2, np.pi / 2, 0.0]]).tolist()
        if i % 3 == 0: S, V = 1361.0, 47.0
        elif i % 3 == 1: S, V = float(rng.integers(1, 2000)), float(rng.integers(0, 100)) / 4
        else: S = float(rng.uniform(0.5, 3)); V = float(rng.uniform(0, S))
        ctx.count(f'flux:phase-kind={kind}')
        yield 'flux', {'op': op, 'syn': syn, 'lons': lons, 'lats': lats, 'S': S, 'V': V,
                       'n': int(rng.integers(-5, 6)), 'm': int(rng.integers(-400, 401))}
    # class level
    gl = ['g8x4', 'g12x6', 'g12x6o', 'g8x4w'] if quick else ['g8x4', 'g12x6', 'g16x8', 'T21', 'g12x6o', 'g8x4w']
    refs = list(REFS)
    for gi, g in enumerate(gl):
        for r in range(2 if quick else 4):
            ref = refs[(gi + r) % len(refs)]
            yield 'reftime', {'ref': ref}
            days = [0.0, float(rng.uniform(-3, 3)), float(365.25 * rng.integers(-3, 4)), float(rng.uniform(-20000, 20000)),
                    float(rng.integers(-3000, 3000)), -float(rng.uniform(0, 1)) / 1440]
            for d in (days[:4] if quick else days):
                if g == 'T21' and d != days[1]: continue
                ctx.count('solar:grid=' + g)
                yield 'solar', {'grid': g, 'ref': ref, 'days': d, 'normalized': bool(rng.integers(0, 2))}
    # global mean (not proved): quadrature grids
    for g in (['g12x6', 'T21'] if quick else ['g8x4', 'g12x6', 'g16x8', 'T21', 'T42', 'T85']):
        for _ in range(3 if quick else 12):
            yield 'globalmean', {'grid': g, 'ref': refs[int(rng.integers(0, len(refs)))], 'days': float(rng.uniform(-20000, 20000))}
    # Held-Suarez
    yield 'hs_defaults', {}
    # coefficients and equilibrium temperature: cheap, many level sets / parameter variants
    for i in range(4 if quick else 16):
        g = ['g8x4', 'g12x6', 'g16x8'][i % (2 if quick else 3)]
        K = int(rng.integers(2, 9))
        b = util.uneven_boundaries(rng, K).tolist() if i % 2 else np.linspace(0, 1, K + 1).tolist()
        pv = i % 4
        base = {'grid': g, 'b': b, 'tref': rng.integers(200, 300, K).astype(float).tolist(), 'pv': pv}
        ctx.count('hs:grid=' + g); ctx.count(f'hs:K={K}'); ctx.count(f'hs:params={pv}')
        yield 'hs_coeffs', base
        nx, ny = GRIDS[g]['longitude_nodes'], GRIDS[g]['latitude_nodes']
        yield 'hs_teq', dict(base, ps_rel=(rng.integers(40, 120, (nx, ny)) / 100.0).tolist())
    # explicit_terms: exact rational evaluation of the operator chain is expensive (division by
    # cos^2 gives large denominators), so tiny grids and few levels
    if quick:
        plan = [('g8x4', 2, 0, True), ('g8x4', 2, 1, False)]
    else:
        plan = [('g8x4', 3, pv, low) for pv in range(4) for low in (True, False)] + [('g12x6', 2, 0, True), ('g12x6', 2, 1, False)]
    for g, K, pv, low in plan:
        sb = HS_VARIANTS[pv].get('sigma_b', 0.7)
        # levels on both sides of the boundary layer top
        inner = np.sort(rng.choice(np.arange(1, 20), size=K - 1, replace=False)) / 20.0
        b = np.concatenate([[0.0], inner, [1.0]])
        if not ((b[:-1] + b[1:]) / 2 <= sb).any() or not ((b[:-1] + b[1:]) / 2 > sb).any():
            b = np.concatenate([[0.0], np.linspace(sb - 0.1, 0.95, K - 1), [1.0]])
        base = {'grid': g, 'b': b.tolist(), 'tref': rng.integers(200, 300, K).astype(float).tolist(), 'pv': pv}
        grid = GRIDS[g]; nx, ny = grid['longitude_nodes'], grid['latitude_nodes']
        M, L = 2 * grid['longitude_wavenumbers'] - 1, grid['total_wavenumbers']
        st = {f: rng.integers(-16, 17, (K, M, L)).tolist() for f in ('vor', 'div', 'tv')}
        ctx.count('hs_terms:grid=' + g); ctx.count(f'hs_terms:low={low}')
        yield 'hs_terms', dict(base, low=low, state=st, lnps_nodal=(rng.integers(-20, 11, (nx, ny)) / 100.0).tolist())


# ---------------------------------------------------------------------------
def r_constants(ctx, a):
    j = J(); rad = j['rad']
    m = ctx.model.call(0, [], [[], [], [], [], [PI]])
    impl = [float(rad.PERIHELION), float(rad.SPRING_EQUINOX), float(rad.EARTH_AXIS_INCLINATION),
            float(rad.TOTAL_SOLAR_IRRADIANCE.magnitude), float(rad.SOLAR_IRRADIANCE_VARIATION.magnitude),
            float(rad.DAYS_PER_YEAR), float(rad.MINUTES_PER_DAY), float(rad.SECONDS_PER_DAY)]
    ctx.corr('radiation constants', impl, m, scale=1.0)
    S, V = impl[3], impl[4]
    ctx.oracle('source constants satisfy 0 <= variation <= mean irradiance', 0 <= V <= S, {'S': S, 'V': V})
    ctx.oracle('obliquity below 90 degrees', 0 <= impl[2] < np.pi / 2, impl[2])


def _indep_sin_altitude(op, syn, lon, lat):
    """Independent float64 transcription of the documented astronomy (not via dinosaur)."""
    b = op - 79 * 2 * np.pi / 365.25
    dec = np.deg2rad(23.45) * np.sin(b)
    eot = 2 * np.pi * (9.87 * np.sin(2 * b) - 7.53 * np.cos(b) - 1.5 * np.sin(b)) / 1440
    h = syn + eot + lon - np.pi
    return np.cos(lat) * np.cos(dec) * np.cos(h) + np.sin(lat) * np.sin(dec)


def r_flux(ctx, a):
    j = J(); rad = j['rad']; jnp = j['jnp']
    op, syn, S, V = a['op'], a['syn'], a['S'], a['V']
    lons, lats = np.asarray(a['lons']), np.asarray(a['lats'])
    lon2, lat2 = lons[:, None], lats[None, :]
    T = Trig()
    dec, eot, hs = model_flux_tables(ctx, T, op, syn, lons.tolist(), lats.tolist(), S, V)
    sc = [PI, S, V, op, syn]
    big = max(1.0, abs(op), abs(syn))
    ctx.corr('get_declination', [float(rad.get_declination(op))], [dec], scale=1.0)
    ctx.corr('equation_of_time', [float(rad.equation_of_time(op))], [eot], scale=1.0)
    ctx.corr('get_hour_angle', np.asarray(rad.get_hour_angle(op, syn, jnp.asarray(lons))), hs, scale=big + 10)
    ctx.corr('get_direct_solar_irradiance', [float(rad.get_direct_solar_irradiance(op, S, V))],
             ctx.model.call(3, [], T.arrs(sc)), scale=(S + V) * big)
    s_impl = np.asarray(rad.get_solar_sin_altitude(op, syn, jnp.asarray(lon2), jnp.asarray(lat2)))
    ctx.corr('get_solar_sin_altitude', s_impl, ctx.model.call(4, [], T.arrs(sc, lons, lats)), scale=big)
    ot = rad.OrbitalTime(orbital_phase=op, synodic_phase=syn)
    f = np.asarray(rad.get_radiation_flux(ot, jnp.asarray(lon2), jnp.asarray(lat2), S, V))
    ctx.corr('get_radiation_flux', f, ctx.model.call(5, [], T.arrs(sc, lons, lats)), scale=(S + V) * big)
    fn = np.asarray(rad.get_normalized_radiation_flux(ot, jnp.asarray(lon2), jnp.asarray(lat2), S, V))
    ctx.corr('get_normalized_radiation_flux', fn, ctx.model.call(6, [], T.arrs(sc, lons, lats)), scale=big)
    # ---- the property's clauses on the implementation
    eps = 2.0 ** -40
    ctx.oracle('flux never negative', bool(np.all(f >= 0)), {'min': float(f.min())})
    ctx.oracle('flux never exceeds perihelion constant S+V', bool(np.all(f <= (S + V) * (1 + eps))), {'max': float(f.max()), 'S+V': S + V})
    ctx.oracle('flux exactly zero where the sun is below the horizon (own sin altitude)',
               bool(np.all(f[s_impl <= 0] == 0)), {'n_night': int((s_impl <= 0).sum())})
    s_ref = _indep_sin_altitude(op, syn, lon2, lat2)
    tol = 1e-9 * big
    ctx.oracle('flux exactly zero where the sun is below the horizon (independent solar position)',
               bool(np.all(f[s_ref < -tol] == 0)), {'n_night': int((s_ref < -tol).sum()), 'max': float(np.max(f[s_ref < -tol], initial=0.0))})
    if S > V:
        ctx.oracle('flux positive where the sun is above the horizon (independent solar position)',
                   bool(np.all(f[s_ref > tol] > 0)), {'n_day': int((s_ref > tol).sum())})
    ctx.count('flux:night-points', int((s_ref < -tol).sum())); ctx.count('flux:day-points', int((s_ref > tol).sum()))
    ot2 = rad.OrbitalTime(orbital_phase=op + 2 * np.pi * a['n'], synodic_phase=syn)
    ot3 = rad.OrbitalTime(orbital_phase=op, synodic_phase=syn + 2 * np.pi * a['m'])
    big2 = max(big, abs(ot2.orbital_phase), abs(ot3.synodic_phase))
    ctx.oracle_close('flux periodic in orbital phase', np.asarray(rad.get_radiation_flux(ot2, jnp.asarray(lon2), jnp.asarray(lat2), S, V)), f, scale=(S + V) * big2)
    ctx.oracle_close('flux periodic in daily phase', np.asarray(rad.get_radiation_flux(ot3, jnp.asarray(lon2), jnp.asarray(lat2), S, V)), f, scale=(S + V) * big2)
    ctx.oracle('normalised flux within [0, 1]', bool(np.all((fn >= 0) & (fn <= 1 + eps))), {'min': float(fn.min()), 'max': float(fn.max())})


def _cal(ref):
    dt = datetime.datetime(*REFS[ref])
    diy = datetime.datetime(dt.year, 12, 31).timetuple().tm_yday
    return dt, [diy, dt.timetuple().tm_yday - 1, dt.hour, dt.minute]


def r_reftime(ctx, a):
    j = J(); rad = j['rad']
    dt, ints = _cal(a['ref'])
    ot = rad.datetime_to_orbital_time(dt)
    m = ctx.model.call(7, ints, [[], [], [], [], [PI]])
    ctx.corr('datetime_to_orbital_time', [float(ot.orbital_phase), float(ot.synodic_phase)], m, scale=2 * np.pi)
    ot64 = rad.datetime_to_orbital_time(rad.datetime64_to_datetime(np.datetime64(dt)))
    ctx.exact('datetime64 path gives the same orbital time', [float(ot64.orbital_phase), float(ot64.synodic_phase)],
              [float(ot.orbital_phase), float(ot.synodic_phase)])


def _circ(x, ref):
    """x shifted by the multiple of 2 pi that brings it closest to ref."""
    x = np.asarray(x, dtype=np.float64); ref = np.asarray(ref, dtype=np.float64)
    return x - np.round((x - ref) / (2 * np.pi)) * 2 * np.pi


def _solar_case(ctx, sr, t):
    """Model values for SolarRadiation at nondimensional time t; returns (wrapped phases, flux list, scale)."""
    ro, rs = float(sr.reference_orbital_time.orbital_phase), float(sr.reference_orbital_time.synodic_phase)
    ao, as_ = float(sr.orbital_rate.orbital_phase), float(sr.orbital_rate.synodic_phase)
    xo = Fraction(ro) + Fraction(ao) * Fraction(t); xs = Fraction(rs) + Fraction(as_) * Fraction(t)
    no, ns = math.floor(xo / TWO_PI), math.floor(xs / TWO_PI)
    m8 = ctx.model.call(8, [no, ns], [[], [], [], [], [PI, ro, rs, ao, as_, t]])
    return (ro, rs, ao, as_), (no, ns), m8


def r_solar(ctx, a):
    j = J(); rad = j['rad']; jnp = j['jnp']; specs = j['specs']; units = j['units']
    sr = solar_of(a['grid'], a['ref'], a['normalized'])
    t = float(specs.nondimensionalize(a['days'] * units.day))
    (ro, rs, ao, as_), (no, ns), m8 = _solar_case(ctx, sr, t)
    now = sr.time_to_orbital_time(t)
    io, is_ = float(now.orbital_phase), float(now.synodic_phase)
    raw_scale = max(1.0, abs(float(m8[0])), abs(float(m8[1])))
    ctx.exact('floor accepted by the model', [1, 1], [int(m8[4]), int(m8[5])])
    ctx.corr('time_to_orbital_time (mod 2 pi)', _circ([io, is_], [float(m8[2]), float(m8[3])]), m8[2:4], scale=raw_scale)
    ctx.oracle('reduced phases lie in [0, 2 pi]', bool(-1e-9 <= io <= 2 * np.pi + 1e-9 and -1e-9 <= is_ <= 2 * np.pi + 1e-9), [io, is_])
    S, V = float(sr.total_solar_irradiance), float(sr.solar_irradiance_variation)
    # node coordinates are taken from the GRID (not from the SolarRadiation object under test)
    g_ = grid_of(a['grid'])
    lons = np.asarray(g_.longitudes, dtype=np.float64); lats = np.asarray(g_.latitudes, dtype=np.float64)
    ctx.oracle('SolarRadiation evaluates the flux at the grid nodes (longitude offset included)',
               bool(np.allclose(np.asarray(sr.lon)[:, 0], lons, rtol=0, atol=1e-12) and np.allclose(np.asarray(sr.lat)[0, :], lats, rtol=0, atol=1e-12)),
               {'sr_lon0': float(np.asarray(sr.lon)[0, 0]), 'grid_lon0': float(lons[0])})
    if a['grid'].startswith('T'):      # large grid: subsample the model comparison
        li = np.arange(0, lons.size, 7); lj = np.arange(0, lats.size, 5)
    else:
        li = np.arange(lons.size); lj = np.arange(lats.size)
    T = Trig()
    _, _, mh = model_flux_tables(ctx, T, m8[2], m8[3], lons[li].tolist(), lats[lj].tolist(), S, V)
    ha = np.asarray(sr.solar_hour_angle(t))[li, 0]
    ctx.corr('SolarRadiation.solar_hour_angle (mod 2 pi)', _circ(ha, [float(v) for v in mh]), mh, scale=raw_scale + 10)
    mf = ctx.model.call(9, [no, ns], T.arrs([PI, S, V, ro, rs, ao, as_, t], lons[li], lats[lj]))
    f = np.asarray(sr.radiation_flux(t))
    ctx.corr('SolarRadiation.radiation_flux', f[np.ix_(li, lj)], mf, scale=(S + V) * raw_scale)
    # ---- clauses
    eps = 2.0 ** -40
    ctx.oracle('flux never negative', bool(np.all(f >= 0)), {'min': float(f.min())})
    ctx.oracle('flux never exceeds perihelion constant S+V', bool(np.all(f <= (S + V) * (1 + eps))), {'max': float(f.max()), 'S+V': S + V})
    if a['normalized']:
        ctx.oracle('normalised flux within [0, 1]', bool(np.all((f >= 0) & (f <= 1 + eps))), {'max': float(f.max())})
        ctx.oracle_close('normalised constants sum to one', [S + V], [1.0], scale=1.0)
    s_ref = _indep_sin_altitude(io, is_, np.asarray(sr.lon), np.asarray(sr.lat))
    ctx.oracle('flux exactly zero where the sun is below the horizon (independent solar position)',
               bool(np.all(f[s_ref < -1e-6] == 0)), {'n_night': int((s_ref < -1e-6).sum())})
    ctx.oracle('flux positive where the sun is above the horizon (independent solar position)',
               bool(np.all(f[s_ref > 1e-6] > 0)), {'n_day': int((s_ref > 1e-6).sum())})
    # periodic in model time: 4 Julian years = 1461 days advance both phases by whole turns
    P = float(specs.nondimensionalize(1461 * units.day))
    turns = [ao * P / (2 * np.pi), as_ * P / (2 * np.pi)]
    ctx.oracle_close('1461 days are whole turns of both phases', turns, [4.0, 1461.0], scale=1461.0)
    f2 = np.asarray(sr.radiation_flux(t + P))
    ctx.oracle_close('flux periodic in model time (1461 days)', f2, f, scale=(S + V) * (raw_scale + 1461 * 2 * np.pi))
    # one day later: same daily phase, orbital phase advanced; flux changes only slowly (sanity of the daily period)
    D = float(specs.nondimensionalize(1 * units.day))
    ctx.oracle_close('one day is one whole turn of the daily phase', [as_ * D / (2 * np.pi)], [1.0], scale=1.0)


def r_globalmean(ctx, a):
    j = J(); rad = j['rad']; specs = j['specs']; units = j['units']
    sr = solar_of(a['grid'], a['ref'])
    g = grid_of(a['grid'])
    t = float(specs.nondimensionalize(a['days'] * units.day))
    f = sr.radiation_flux(t)
    now = sr.time_to_orbital_time(t)
    irr = float(rad.get_direct_solar_irradiance(now.orbital_phase, sr.total_solar_irradiance, sr.solar_irradiance_variation))
    mean = float(g.integrate(f)) / (4 * np.pi * g.radius ** 2)
    ny = g.nodal_shape[1]
    tol = 3.0 / ny ** 2
    ctx.count('globalmean:grid=' + a['grid'])
    ctx.oracle('global mean equals a quarter of the instantaneous solar constant up to quadrature error',
               abs(mean / (irr / 4) - 1) <= tol, {'mean': mean, 'S/4': irr / 4, 'rel_err': mean / (irr / 4) - 1, 'tol': tol})


# ---------------------------------------------------------------------------
# Held-Suarez
HS_VARIANTS = {
    0: {},
    1: dict(sigma_b=0.5, kf=('1/day', 2.0), ka=('1/day', 1 / 30), ks=('1/day', 0.5), minT=('degK', 210), maxT=('degK', 300), dTy=('degK', 50), dThz=('degK', 12)),
    2: dict(sigma_b=0.8, ka=('1/day', 0.1), ks=('1/day', 0.1), p0=('pascal', 0.9e5)),
    3: dict(sigma_b=0.65, kf=('1/day', 0.0), ka=('1/day', 0.02), ks=('1/day', 0.3), minT=('degK', 150)),
}


def hs_of(gname, b, tref, pv):
    k = ('hs', gname, tuple(b), tuple(tref), pv)
    if k not in _cache:
        j = J(); u = j['units']
        coords = j['cs'].CoordinateSystem(grid_of(gname), j['sc'].SigmaCoordinates(np.asarray(b, dtype=np.float64)))
        kw = {}
        for name, v in HS_VARIANTS[pv].items():
            if isinstance(v, tuple):
                unit, mag = v
                kw[name] = {'1/day': mag / u.day, 'degK': mag * u.degK, 'pascal': mag * u.pascal}[unit]
            else:
                kw[name] = v
        _cache[k] = (j['hs'].HeldSuarezForcing(coords, j['specs'], np.asarray(tref, dtype=np.float64), **kw), coords)
    return _cache[k]


def hs_params(F):
    return [float(F.p0), float(F.sigma_b), float(F.kf), float(F.ka), float(F.ks), float(F.minT), float(F.maxT), float(F.dTy), float(F.dThz)]


def grid_mats(gname):
    """The horizontal operators as matrices (rows: output index), from the implementation."""
    k = ('mats', gname)
    if k not in _cache:
        j = J(); sh = j['sh']; jnp = j['jnp']
        g = grid_of(gname)
        M, L = g.modal_shape; X, Y = g.nodal_shape; nm, nn = M * L, X * Y
        eM = jnp.asarray(np.eye(nm).reshape(nm, M, L)); zM = jnp.zeros((nm, M, L))
        eN = jnp.asarray(np.eye(nn).reshape(nn, X, Y))
        T = lambda x, n: np.asarray(x).reshape(x.shape[0], n).T.copy()
        d = {'nm': nm, 'nn': nn, 'toN': T(g.to_nodal(eM), nn), 'toM': T(g.to_modal(eN), nm)}
        cu, cv = sh.get_cos_lat_vector(eM, zM, g, clip=False); d['CUv'], d['CVv'] = T(cu, nm), T(cv, nm)
        cu, cv = sh.get_cos_lat_vector(zM, eM, g, clip=False); d['CUd'], d['CVd'] = T(cu, nm), T(cv, nm)
        d['CRu'] = T(g.curl_cos_lat((eM, zM)), nm); d['CRv'] = T(g.curl_cos_lat((zM, eM)), nm)
        d['DVu'] = T(g.div_cos_lat((eM, zM)), nm); d['DVv'] = T(g.div_cos_lat((zM, eM)), nm)
        lon, sinlat = g.nodal_mesh
        lat = np.arcsin(sinlat)
        d['cosl'] = np.broadcast_to(np.cos(lat), (X, Y)).ravel().copy()     # what kt / Teq use
        d['sinl'] = np.broadcast_to(np.sin(lat), (X, Y)).ravel().copy()
        d['cosl_grid'] = np.broadcast_to(np.asarray(g.cos_lat), (X, Y)).ravel().copy()   # what the drag divides by
        l = np.broadcast_to(np.arange(L)[None, :], (M, L)); mm = np.broadcast_to(np.arange(M)[:, None], (M, L))
        d['low'] = ((l <= L - 2) & np.asarray(g.mask, dtype=bool) & ~((l == 0))).ravel()
        d['mask'] = np.asarray(g.mask, dtype=bool)
        _cache[k] = d
    return _cache[k]


def r_hs_defaults(ctx, a):
    j = J()
    d = j['hs'].HeldSuarezForcing.__init__.__defaults__
    impl = [float(getattr(x, 'magnitude', x)) for x in d]
    ctx.corr('HeldSuarezForcing default parameters', impl, ctx.model.call(26, [], [[]]), scale=1.0)
    p0, sb, kf, ka, ks, minT, maxT = impl[:7]
    ctx.oracle('default rates non-negative and ordered, boundary layer below the surface',
               kf >= 0 and 0 < ka <= ks and 0 < sb < 1 and 0 < minT <= maxT, impl)


def r_hs_coeffs(ctx, a):
    F, coords = hs_of(a['grid'], a['b'], a['tref'], a['pv'])
    P = hs_params(F); sig = np.asarray(F.sigma)
    kv = np.asarray(F.kv()); kt = np.asarray(F.kt())
    K = sig.size
    ctx.exact('kv shape', list(kv.shape), [K, 1, 1]); ctx.exact('kt shape', list(kt.shape), list(coords.nodal_shape))
    ctx.corr('HeldSuarezForcing.kv', kv.ravel(), ctx.model.call(20, [], [P, sig]), scale=abs(P[2]) + 1e-300)
    lat = np.asarray(F.lat)
    cl = np.cos(lat[0, :])
    ctx.corr('HeldSuarezForcing.kt', kt[:, 0, :], ctx.model.call(21, [], [P, sig, cl]), scale=max(abs(P[3]), abs(P[4])))
    ctx.oracle_close('kt independent of longitude', kt, np.broadcast_to(kt[:, :1, :], kt.shape), scale=abs(P[4]) + abs(P[3]))
    # ---- clauses
    sb, kf, ka, ks = P[1], P[2], P[3], P[4]
    ctx.oracle('friction rate non-negative', bool(np.all(kv >= 0)), kv.ravel())
    ctx.oracle('friction rate exactly zero above the boundary layer', bool(np.all(kv.ravel()[sig <= sb] == 0)), {'kv': kv.ravel(), 'sigma': sig, 'sigma_b': sb})
    if kf > 0:
        ctx.oracle('friction rate positive inside the boundary layer', bool(np.all(kv.ravel()[sig > sb + 1e-12] > 0)), kv.ravel())
        ctx.oracle_close('friction rate linear in sigma inside the boundary layer',
                         kv.ravel()[sig > sb], kf * (sig[sig > sb] - sb) / (1 - sb), scale=kf)
    ctx.count('hs:levels-above-bl', int((sig <= sb).sum())); ctx.count('hs:levels-in-bl', int((sig > sb).sum()))
    if ks >= ka:
        eps = 2.0 ** -40
        ctx.oracle('relaxation rate at least ka (positive)', bool(np.all(kt >= ka * (1 - eps))) and ka > 0, {'min': float(kt.min()), 'ka': ka})
        ctx.oracle('relaxation rate at most ks', bool(np.all(kt <= ks * (1 + eps))), {'max': float(kt.max()), 'ks': ks})


def _teq_model(ctx, F, P, sig_list, ps_flat, cosl, sinl, kappa):
    """Model equilibrium temperature for the given levels; ps_flat per nodal point. Returns (K, n) array of Fractions, and p."""
    p = ctx.model.call(22, [], [P, sig_list, ps_flat])
    n = len(ps_flat)
    out = []
    pf = np.array([float(v) for v in p])
    pk = pf ** kappa; lg = np.log(pf)
    for k in range(len(sig_list)):
        sl = slice(k * n, (k + 1) * n)
        out.append(ctx.model.call(23, [], [P, pk[sl], lg[sl], cosl, sinl]))
    return out, p, pk, lg


def r_hs_teq(ctx, a):
    j = J(); jnp = j['jnp']
    F, coords = hs_of(a['grid'], a['b'], a['tref'], a['pv'])
    G = grid_mats(a['grid'])
    P = hs_params(F); sig = np.asarray(F.sigma); K = sig.size
    ps = np.asarray(a['ps_rel'], dtype=np.float64) * P[0]
    teq = np.asarray(F.equilibrium_temperature(jnp.asarray(ps)))
    kappa = float(j['specs'].kappa)
    m, p, pk, lg = _teq_model(ctx, F, P, sig, ps.ravel(), G['cosl'], G['sinl'], kappa)
    p_impl = (sig[:, None, None] * ps / P[0]).reshape(-1)
    ctx.corr('p_over_p0', p_impl, p, scale=1.0)
    scale = abs(P[6]) + abs(P[7]) + abs(P[8]) * max(1.0, float(np.abs(lg).max()))
    for k in range(K):
        ctx.corr('equilibrium_temperature', teq[k].ravel(), m[k], scale=scale)
    ctx.oracle('equilibrium temperature bounded below by its floor', bool(np.all(teq >= P[5])), {'min': float(teq.min()), 'minT': P[5]})
    ctx.count('hs:teq-at-floor', int((teq == P[5]).sum())); ctx.count('hs:teq-above-floor', int((teq > P[5]).sum()))


def r_hs_terms(ctx, a):
    j = J(); jnp = j['jnp']; pe = j['pe']
    F, coords = hs_of(a['grid'], a['b'], a['tref'], a['pv'])
    G = grid_mats(a['grid']); g = grid_of(a['grid'])
    nm, nn = G['nm'], G['nn']
    P = hs_params(F); sig = np.asarray(F.sigma); K = sig.size
    kappa = float(j['specs'].kappa)
    mask = G['mask']
    M, L = mask.shape
    lowmask = G['low'].reshape(M, L)
    sel = lowmask if a['low'] else mask
    st = {f: np.asarray(a['state'][f], dtype=np.float64) / 8 * sel for f in ('vor', 'div', 'tv')}
    # table obligation: uv round trip is the identity on low-degree modes
    sec2 = 1.0 / G['cosl_grid'] ** 2
    chain = G['toM'] @ (sec2[:, None] * G['toN'])
    Rvv = G['CRu'] @ chain @ G['CUv'] + G['CRv'] @ chain @ G['CVv']
    Rvd = G['CRu'] @ chain @ G['CUd'] + G['CRv'] @ chain @ G['CVd']
    Rdv = G['DVu'] @ chain @ G['CUv'] + G['DVv'] @ chain @ G['CVv']
    Rdd = G['DVu'] @ chain @ G['CUd'] + G['DVv'] @ chain @ G['CVd']
    low = G['low']; I = np.eye(nm)
    err = max(np.abs((Rvv - I)[:, low]).max(), np.abs(Rvd[:, low]).max(), np.abs(Rdv[:, low]).max(), np.abs((Rdd - I)[:, low]).max())
    ctx.table_obligation('H_uv_roundtrip', err <= 1e-10, {'grid': a['grid'], 'max_err': float(err), 'modes': int(low.sum())})
    ctx.table_obligation('cos_lat table of the grid is cos(arcsin(sin_lat)) > 0',
                         bool(np.all(G['cosl_grid'] > 0)) and float(np.abs(G['cosl_grid'] - G['cosl']).max()) <= 1e-14,
                         {'max_diff': float(np.abs(G['cosl_grid'] - G['cosl']).max())})
    # nodal log surface pressure -> modal
    lnps_nodal = math.log(P[0]) + np.asarray(a['lnps_nodal'], dtype=np.float64)
    lnps = np.asarray(g.to_modal(jnp.asarray(lnps_nodal)))[None]
    state = pe.State(vorticity=jnp.asarray(st['vor']), divergence=jnp.asarray(st['div']),
                     temperature_variation=jnp.asarray(st['tv']), log_surface_pressure=jnp.asarray(lnps))
    out = F.explicit_terms(state)
    o = {f: np.asarray(getattr(out, n)) for f, n in (('vor', 'vorticity'), ('div', 'divergence'), ('tv', 'temperature_variation'), ('lnps', 'log_surface_pressure'))}
    # model: exp of the model's nodal lnps
    ln_m = ctx.model.call(24, [nm, nn], [[], G['toN'].ravel(), lnps.ravel()])
    ps = np.exp(np.array([float(v) for v in ln_m]))
    teq_m, p, pk, lg = _teq_model(ctx, F, P, sig, ps, G['cosl'], G['sinl'], kappa)
    kv = np.asarray(F.kv()).ravel()
    kt_max = max(abs(P[3]), abs(P[4]))
    mats = [G[n].ravel() for n in ('toN', 'toM', 'CUv', 'CUd', 'CVv', 'CVd', 'CRu', 'CRv', 'DVu', 'DVv')]
    wind_scale = float(np.abs(G['CRu']).sum(axis=1).max() + np.abs(G['CRv']).sum(axis=1).max()) * \
        float(np.abs(chain).sum(axis=1).max()) * float(max(np.abs(G['CUv']).sum(axis=1).max(), np.abs(G['CVd']).sum(axis=1).max()))
    for k in range(K):
        sl = slice(k * nn, (k + 1) * nn)
        m = ctx.model.call(25, [nm, nn], [P, [sig[k], a['tref'][k]], st['vor'][k].ravel(), st['div'][k].ravel(), st['tv'][k].ravel(),
                                          pk[sl], lg[sl], G['cosl_grid'], G['sinl']] + mats)
        vs = max(abs(P[2]), 1e-300) * wind_scale * max(1.0, float(np.abs(st['vor'][k]).max()), float(np.abs(st['div'][k]).max()))
        ctx.corr('explicit_terms.vorticity', o['vor'][k].ravel(), m[:nm], scale=vs)
        ctx.corr('explicit_terms.divergence', o['div'][k].ravel(), m[nm:2 * nm], scale=vs)
        ts = kt_max * (abs(a['tref'][k]) + abs(P[6]) + abs(P[7])) * float(np.abs(G['toM']).sum(axis=1).max())
        ctx.corr('explicit_terms.temperature_variation', o['tv'][k].ravel(), m[2 * nm:3 * nm], scale=ts)
    ctx.exact('explicit_terms.log_surface_pressure identically zero', o['lnps'].ravel().tolist(), [0.0] * o['lnps'].size)
    # ---- clauses on the implementation
    ctx.exact('log surface pressure tendency has the state shape', list(o['lnps'].shape), list(lnps.shape))
    ctx.oracle('no surface-pressure tendency', bool(np.all(o['lnps'] == 0)), {'max': float(np.abs(o['lnps']).max())})
    sb = P[1]
    above = sig <= sb
    ctx.oracle('no drag above the boundary layer', bool(np.all(o['vor'][above] == 0) and np.all(o['div'][above] == 0)),
               {'max': float(max(np.abs(o['vor'][above]).max(initial=0), np.abs(o['div'][above]).max(initial=0)))})
    if a['low']:
        s = max(abs(P[2]), 1e-300) * max(1.0, float(np.abs(st['vor']).max()), float(np.abs(st['div']).max())) * wind_scale
        ctx.oracle_close('vorticity tendency = -kv(sigma) * vorticity', o['vor'], -kv[:, None, None] * st['vor'], scale=s, tol_abs=1e-12 * s)
        ctx.oracle_close('divergence tendency = -kv(sigma) * divergence', o['div'], -kv[:, None, None] * st['div'], scale=s, tol_abs=1e-12 * s)
    else:
        # linearity of the drag for arbitrary states
        st2 = pe.State(vorticity=jnp.asarray(2 * st['vor']), divergence=jnp.asarray(-3 * st['div']),
                       temperature_variation=state.temperature_variation, log_surface_pressure=state.log_surface_pressure)
        st3 = pe.State(vorticity=jnp.asarray(0 * st['vor']), divergence=jnp.asarray(st['div']),
                       temperature_variation=state.temperature_variation, log_surface_pressure=state.log_surface_pressure)
        o2 = F.explicit_terms(st2); o3 = F.explicit_terms(st3)
        s = max(abs(P[2]), 1e-300) * max(1.0, float(np.abs(st['vor']).max()), float(np.abs(st['div']).max())) * wind_scale
        ctx.oracle_close('drag is linear in the wind', np.asarray(o2.vorticity), 2 * o['vor'] - 5 * np.asarray(o3.vorticity), scale=5 * s)
    # temperature: to_modal(-kt (T - Teq)) with independent numpy kt / Teq
    lat = np.asarray(F.lat)
    cut = np.maximum(0, (sig - sb) / (1 - sb))[:, None, None]
    kt = P[3] + (P[4] - P[3]) * cut * np.cos(lat) ** 4
    X, Y = g.nodal_shape
    psn = ps.reshape(X, Y)
    pp = sig[:, None, None] * psn / P[0]
    teq = np.maximum(P[5], pp ** kappa * (P[6] - P[7] * np.sin(lat) ** 2 - P[8] * np.log(pp) * np.cos(lat) ** 2))
    Tn = np.asarray(a['tref'])[:, None, None] + np.asarray(g.to_nodal(jnp.asarray(st['tv'])))
    want = np.asarray(g.to_modal(jnp.asarray(-kt * (Tn - teq))))
    ts = kt_max * (float(np.abs(Tn).max()) + abs(P[6]) + abs(P[7])) * float(np.abs(G['toM']).sum(axis=1).max())
    ctx.oracle_close('temperature tendency = relaxation toward the equilibrium temperature', o['tv'], want, scale=ts)
    ctx.oracle('relaxation opposes the departure from equilibrium (rates non-negative)', bool(np.all(kt >= 0)) if P[4] >= P[3] >= 0 else True, float(kt.min()))


RUNNERS = {'constants': r_constants, 'flux': r_flux, 'reftime': r_reftime, 'solar': r_solar, 'globalmean': r_globalmean,
           'hs_defaults': r_hs_defaults, 'hs_coeffs': r_hs_coeffs, 'hs_teq': r_hs_teq, 'hs_terms': r_hs_terms}
